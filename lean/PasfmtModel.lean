import PasfmtModel.Model.Bytes
import PasfmtModel.Model.Lexer
