/-
  Exact model of cursor tracking in defaults/reconstructor.rs:
  `process_cursors`, `relocate_cursors`, `offset_for_token`, `ws_len`, `nonbreaking_ws_len`,
  `col_for_token_end_pre_fmt`, `col_for_token_end_post_fmt`.
  Every `usize` subtraction is checked (`none` = the debug build panics, the release build wraps);
  `as u16` casts truncate.
-/
import PasfmtModel.Model.Recon

namespace Pasfmt

inductive TokPos where
  | content (offset : Nat)
  | multiline (reverseCol : Nat) (newlinesAfter : Nat)
  | whitespace (col : Nat) (newlinesAfter : Nat)
  deriving Repr, DecidableEq

structure ICursor where
  tokIdx : Nat
  pos : TokPos
  deriving Repr, DecidableEq

@[inline] def asU16 (n : Nat) : Nat := n % 65536
@[inline] def asU32 (n : Nat) : Nat := n % 4294967296

def checkedSub (a b : Nat) : Option Nat := if b ≤ a then some (a - b) else none

def RawTok.strLen (t : RawTok) : Nat := t.ws.length + t.content.length

/-- `col_for_token_end_pre_fmt(tokens, idx)` walking backwards from `idx`; `revToks` = tokens
    `idx, idx-1, …, 0` -/
def colEndPre : List RawTok → Nat
  | [] => 0
  | t :: r =>
    let s := t.ws ++ t.content
    match rfindByte 0x0A s with
    | some pos => s.length - (pos + 1)
    | none => s.length + colEndPre r

def isMultilineRawKind : RawKind → Bool
  | .rTextLiteral .tMultiLine => true
  | .rComment .cMultilineBlock => true
  | _ => false

/-- position of one cursor: walk the tokens until the remaining offset fits; `seen` = tokens before
    the current one, most recent first -/
def processCursorGo (idx : Nat) (rem : Nat) (seen : List RawTok) : List RawTok → Option ICursor
  | [] => none
  | t :: rest =>
    if rem ≤ t.strLen then
      if t.ws.length ≤ rem then
        let tokPos := rem - t.ws.length
        if isMultilineRawKind t.kind then
          let after := t.content.drop tokPos
          let reverseCol := match findByte 0x0A after with | some p => p | none => after.length
          some { tokIdx := idx, pos := .multiline (asU16 reverseCol) (asU16 (countByte 0x0A after)) }
        else some { tokIdx := idx, pos := .content (asU32 tokPos) }
      else
        let before := t.ws.take rem
        let after := t.ws.drop rem
        let col := match rfindByte 0x0A before with
          | some p => before.length - 1 - p
          | none => before.length + colEndPre seen
        some { tokIdx := idx, pos := .whitespace (asU16 col) (asU16 (countByte 0x0A after)) }
    else processCursorGo (idx + 1) (rem - t.strLen) (t :: seen) rest

/-- `process_cursors` for one cursor -/
def processCursor (raw : List RawTok) (c : Nat) : ICursor :=
  match processCursorGo 0 c [] raw with
  | some ic => ic
  | none => { tokIdx := raw.length, pos := .content 0 }

structure NonBreakingWs where
  len : Nat
  breakFound : Bool

def nonbreakingWsLen (S : Settings) (t : FTok) : NonBreakingWs :=
  if t.fmt.ignored then
    match rfindByte 0x0A t.tok.ws with
    | some p => { len := t.tok.ws.length - (p + 1), breakFound := true }
    | none => { len := t.tok.ws.length, breakFound := false }
  else
    { len := t.fmt.sp + t.fmt.cont * S.contStr.length + t.fmt.ind * S.indStr.length,
      breakFound := t.fmt.nl > 0 }

def wsLen (S : Settings) (t : FTok) : Nat :=
  if t.fmt.ignored then t.tok.ws.length
  else (nonbreakingWsLen S t).len + t.fmt.nl * S.nlStr.length

/-- `offset_for_token` -/
def offsetForToken (S : Settings) : FT → Nat → Nat
  | [], _ => 0
  | t :: r, idx =>
    match idx with
    | 0 => wsLen S t
    | k + 1 => wsLen S t + t.tok.content.length + offsetForToken S r k

/-- `col_for_token_end_post_fmt`; `revToks` = tokens `idx, idx-1, …, 0`.  `none` = `col -= pos + 1`
    underflows (cannot happen: `pos < content.len()`) -/
def colEndPost (S : Settings) : List FTok → Nat
  | [] => 0
  | t :: r =>
    let c := t.tok.content
    match rfindByte 0x0A c with
    | some pos => c.length - (pos + 1)
    | none =>
      let ws := nonbreakingWsLen S t
      if ws.breakFound then c.length + ws.len else c.length + ws.len + colEndPost S r

/-- length of the last `k` `\n`-separated pieces of `s`, each plus one (`rsplit('\n').take(k)`) -/
def lastPiecesLen (s : Bytes) (k : Nat) : Nat :=
  let pieces := (s.splitOn 0x0A).reverse
  ((pieces.take k).map (fun p => p.length + 1)).sum

/-- `relocate_cursors` for one cursor.  `none` = an unsigned subtraction underflows. -/
def relocate (S : Settings) (ft : FT) (ic : ICursor) : Option Nat :=
  let (t?, pos) : Option FTok × TokPos :=
    match ft[ic.tokIdx]? with
    | some t => (some t, ic.pos)
    | none =>
      match ft.getLast? with
      | some t => (some t, .content (asU32 t.tok.content.length))
      | none => (none, ic.pos)
  match t? with
  | none => some 0
  | some t =>
    let newOff := offsetForToken S ft ic.tokIdx
    match pos with
    | .content offset => some (asU32 (asU32 newOff + min offset (asU32 t.tok.content.length)))
    | .multiline reverseCol nlAfter =>
      let fromEnd := lastPiecesLen t.tok.content nlAfter + reverseCol
      (checkedSub (newOff + t.tok.content.length) fromEnd).map asU32
    | .whitespace col nlAfter =>
      let linesBack := min nlAfter t.fmt.nl
      if linesBack > 0 then
        let linesBack := if t.fmt.nl ≤ nlAfter && t.fmt.nl > 1 then linesBack - 1 else linesBack
        (checkedSub (newOff + S.nlStr.length * (t.fmt.nl - linesBack)) (wsLen S t)).map asU32
      else
        let colEnd := colEndPost S ((ft.take (ic.tokIdx + 1)).reverse)
        match checkedSub colEnd t.tok.content.length with
        | none => none
        | some colStart =>
          match checkedSub colStart (nonbreakingWsLen S t).len with
          | none => none
          | some colWsStart =>
            let clamped := max colWsStart (min col colStart)
            (checkedSub newOff (colStart - clamped)).map asU32

/-- `Formatter::format` with cursors: the reported offsets -/
def trackCursors (S : Settings) (raw : List RawTok) (ft : FT) (cursors : List Nat) : List (Option Nat) :=
  cursors.map fun c => relocate S ft (processCursor raw c)

end Pasfmt
