/-
  Exact model of core/src/defaults/lexer.rs.

  Every sub-lexer receives the bytes starting at the token's first byte (`tok`, never empty)
  and returns the token's total length in bytes and its kind.  The dispatch tables, the
  keyword table and the perfect-hash constants come from the translator (`Generated/`).
  Rust's `input.len()`-relative results (`consume_to_eof`, unterminated literals) are
  expressed relative to `tok` with `trim` = `count_unicode_whitespace(input.chars().rev())`
  computed once on the whole remaining input, exactly as the code does.
-/
import PasfmtModel.Model.Bytes
import PasfmtModel.Generated.Lang
import PasfmtModel.Generated.Keywords
import PasfmtModel.Generated.LexTables

namespace Pasfmt


abbrev RawKind := RawTokenType
abbrev Kind := TokenType

structure LexState where
  isFirst : Bool
  inAsm : Bool
  prevReal : Option RawKind
  deriving Repr, DecidableEq

def LexState.init : LexState := { isFirst := true, inAsm := false, prevReal := none }

def RawTokenType.isCommentOrDirective : RawKind → Bool
  | .rComment _ => true
  | .rCompilerDirective => true
  | .rConditionalDirective _ => true
  | _ => false

def TokenType.isCommentOrDirective : Kind → Bool
  | .tComment _ => true
  | .tCompilerDirective => true
  | .tConditionalDirective _ => true
  | _ => false

/-! ### keywords -/

def assoValue (b : UInt8) : Nat := keywordAssoValues.getD b.toNat 0

/-- `hash_keyword` -/
def hashKeyword (w : Bytes) : Nat :=
  let n := w.length
  n + (if n ≥ 3 then assoValue (w.getD 2 0) else 0)
    + (if n ≥ 2 then assoValue (w.getD 1 0) else 0)
    + (if n ≥ 1 then assoValue (w.getD 0 0) + assoValue (w.getD (n - 1) 0) else 0)

def maxWordLength : Nat := keywords.foldl (fun m e => max m e.1.length) 0

def lookupTableSize : Nat := keywordAssoValues.getD 0 0

/-- `make_keyword_lookup_table`; `none` = the Rust const evaluation would panic (collision / out of range) -/
def mkLookupTable : List (Bytes × RawKind) → Option (List (Option (Bytes × RawKind)))
  | [] => some (List.replicate lookupTableSize none)
  | e :: rest =>
    match mkLookupTable rest with
    | none => none
    | some t =>
      let h := hashKeyword e.1
      if h < t.length then
        match t.getD h none with
        | none => some (t.set h (some e))
        | some _ => none
      else none

def lookupTable : List (Option (Bytes × RawKind)) := (mkLookupTable keywords).getD []

/-- `get_word_token_type` -/
def wordKind (w : Bytes) : RawKind :=
  if w.length ≤ maxWordLength then
    match lookupTable.getD (hashKeyword w) none with
    | some (cand, k) => if eqIgnoreCase w cand then k else .rIdentifier
    | none => .rIdentifier
  else .rIdentifier

/-! ### identifiers -/

@[inline] def isIdentAscii (b : UInt8) : Bool := isAlnum b || b == 0x5F

/-- `find_identifier_end_generic` relative to a char boundary: ASCII identifier bytes and every
    non-ASCII character except U+3000 (E3 80 80). -/
def identLen : Bytes → Nat
  | [] => 0
  | 0xE3 :: 0x80 :: 0x80 :: _ => 0
  | b :: r => if isIdentAscii b || b ≥ 0x80 then identLen r + 1 else 0

/-- signed 8-bit value of a lane (`epi8`) -/
def laneSigned (b : UInt8) : Int := if b < 0x80 then (b.toNat : Int) else (b.toNat : Int) - 256

/-- `range_mask(x, lo..=hi)`: `cmpgt(hi+1, x) & cmpgt(x, lo-1)` on signed lanes -/
def laneRange (lo hi : UInt8) (x : UInt8) : Bool :=
  decide ((hi.toNat : Int) + 1 > laneSigned x) && decide (laneSigned x > (lo.toNat : Int) - 1)

/-- the `ident_mask` lane of `find_identifier_end_avx2` -/
def laneIdent (x : UInt8) : Bool :=
  x == 0x5F || (laneRange 0x41 0x5A x || (laneRange 0x61 0x7A x || laneRange 0x30 0x39 x))

/-- `find_identifier_end_avx2` relative to the current offset; `fuel` bounds the number of chunks -/
def identLenSimd : Nat → Bytes → Nat
  | 0, l => identLen l
  | fuel + 1, l =>
    if simdChunkBytes ≤ l.length ∧ 0 < simdChunkBytes then
      let chunk := l.take simdChunkBytes
      if chunk.any (fun b => b ≥ 0x80) then identLen l
      else
        let ones := countWhile laneIdent chunk   -- trailing_ones of the movemask
        if ones < simdChunkBytes then ones
        else simdChunkBytes + identLenSimd fuel (l.drop simdChunkBytes)
    else identLen l

/-! ### numbers -/

@[inline] def isDecimalByte (b : UInt8) : Bool := b == 0x5F || isDigit b
@[inline] def isHexByte (b : UInt8) : Bool :=
  b == 0x5F || isDigit b || (0x61 ≤ b && b ≤ 0x66) || (0x41 ≤ b && b ≤ 0x46)
@[inline] def isBinaryByte (b : UInt8) : Bool := b == 0x5F || b == 0x30 || b == 0x31

def countDecimal (l : Bytes) : Nat := countWhile isDecimalByte l
def countHex (l : Bytes) : Nat := countWhile isHexByte l
def countBinary (l : Bytes) : Nat := countWhile isBinaryByte l
def countFullDecimal (l : Bytes) : Nat :=
  match l with
  | 0x5F :: _ => 0
  | _ => countDecimal l

/-- `dec_number_literal`; `r` = bytes after the first digit; returns bytes consumed from `r` -/
def decNumberRest (r : Bytes) : Nat :=
  let n1 := countDecimal r
  let r1 := r.drop n1
  let n2 :=
    match r1 with
    | 0x2E :: r2 =>
      let f := countFullDecimal r2
      if f > 0 then 1 + f else 0
    | _ => 0
  let r3 := r1.drop n2
  let n3 :=
    match r3 with
    | b :: r4 =>
      if b == 0x65 || b == 0x45 then
        match r4 with
        | s :: r5 =>
          if s == 0x2B || s == 0x2D then 2 + countFullDecimal r5 else 1 + countFullDecimal r4
        | [] => 1
      else 0
    | [] => 0
  n1 + n2 + n3

/-- `asm_number_literal`; `first` = the first digit, `r` the rest -/
def asmNumberRest (first : UInt8) (r : Bytes) : Nat × NumberLiteralKind :=
  let n := countHex r
  match r.drop n with
  | b :: _ =>
    if b == 0x4F || b == 0x6F then (n + 1, .nOctal)
    else if b == 0x48 || b == 0x68 then (n + 1, .nHex)
    else
      let prev := if n == 0 then first else r.getD (n - 1) 0
      if prev == 0x42 || prev == 0x62 then (n, .nBinary) else (n, .nDecimal)
  | [] =>
    let prev := if n == 0 then first else r.getD (n - 1) 0
    if prev == 0x42 || prev == 0x62 then (n, .nBinary) else (n, .nDecimal)

/-! ### text literals -/

inductive ParseState where
  | cont (n : Nat)
  | stop (n : Nat)
  | unterminated (n : Nat)
  deriving Repr, DecidableEq

/-- `consume_pascal_str`: `n` = how far the offset moved -/
def consumePascalStr (l : Bytes) : ParseState :=
  match l with
  | 0x27 :: r =>
    if r.isEmpty then .unterminated 1
    else
      match findIdx (fun b => b == 0x27 || b == 0x0A || b == 0x0D) r with
      | some pos =>
        if r.getD pos 0 == 0x27 then .cont (1 + pos + 1) else .unterminated (1 + pos)
      | none => .unterminated (1 + r.length)
  | _ => .stop 0

/-- one `#…` escape starting at `#`; `some n` consumed, or `none n` = Unterminated after moving `n` -/
def consumeOneEscape (afterHash : Bytes) : Sum Nat Nat :=
  match afterHash with
  | b :: r =>
    if isDigit b || b == 0x5F then .inl (2 + countDecimal r)
    else if b == 0x24 then
      (match countHex r with
       | 0 => .inr 2
       | c => .inl (2 + c))
    else if b == 0x25 then
      (match countBinary r with
       | 0 => .inr 2
       | c => .inl (2 + c))
    else .inr 1
  | [] => .inr 1

/-- `consume_escaped_chars` (never returns Stop) -/
def consumeEscapedChars : Nat → Bytes → ParseState
  | 0, _ => .cont 0
  | fuel + 1, l =>
    match l with
    | 0x23 :: r =>
      match consumeOneEscape r with
      | .inl n =>
        (match consumeEscapedChars fuel (l.drop n) with
         | .cont m => .cont (n + m)
         | .stop m => .stop (n + m)
         | .unterminated m => .unterminated (n + m))
      | .inr n => .unterminated n
    | _ => .cont 0

/-- the alternating loop of `text_literal` -/
def textLiteralLoop : Nat → Bytes → Nat × TextLiteralKind
  | 0, _ => (0, .tSingleLine)
  | fuel + 1, l =>
    match consumeEscapedChars (l.length + 1) l with
    | .unterminated n => (n, .tUnterminated)
    | .stop n => (n, .tSingleLine)
    | .cont n =>
      let l' := l.drop n
      match consumePascalStr l' with
      | .unterminated m => (n + m, .tUnterminated)
      | .stop m => (n + m, .tSingleLine)
      | .cont m =>
        let (k, kind) := textLiteralLoop fuel (l'.drop m)
        (n + m + k, kind)

/-- `text_literal`; `l` starts at the first byte of the literal (`'` or `#`) -/
def textLiteral (l : Bytes) : Nat × TextLiteralKind :=
  let qc := countWhile (· == 0x27) l
  let afterQ := l.drop qc
  if qc ≥ 3 && qc % 2 == 1 && (match afterQ with | b :: _ => b == 0x0D || b == 0x0A | [] => false) then
    match findSub (l.take qc) afterQ with
    | some pos => (qc + pos + qc, .tMultiLine)
    | none => (l.length, .tUnterminated)
  else textLiteralLoop (l.length + 1) l

/-- `asm_text_literal`; `r` = bytes after the opening `"`; returns bytes consumed from `r` -/
def asmTextLiteralRest : Bytes → Nat × TextLiteralKind
  | [] => (0, .tUnterminated)
  | 0x5C :: [] => (1, .tUnterminated)
  | 0x5C :: _ :: r => let (n, k) := asmTextLiteralRest r; (n + 2, k)
  | 0x22 :: _ => (1, .tAsm)
  | b :: r =>
    if b == 0x0A || b == 0x0D then (0, .tUnterminated)
    else let (n, k) := asmTextLiteralRest r; (n + 1, k)

/-! ### comments and directives -/

inductive BlockCommentKind where
  | parenStar
  | brace
  deriving DecidableEq, Repr

/-- `find_block_comment_end` relative to `l` -/
def findBlockCommentEnd (k : BlockCommentKind) (l : Bytes) : Option Nat :=
  match k with
  | .parenStar => (findSub [0x2A, 0x29] l).map (· + 2)
  | .brace => (findByte 0x7D l).map (· + 1)

@[inline] def isDirectiveNameByte (b : UInt8) : Bool := isAlnum b || b == 0x5F

/-- `conditional_directive_type` -/
def conditionalDirectiveType (l : Bytes) : Nat × Option ConditionalDirectiveKind :=
  let n := countWhile isDirectiveNameByte l
  let w := asciiLower (l.take n)
  let kind :=
    if w == "if".toUTF8.toList then some .dIf
    else if w == "ifdef".toUTF8.toList then some .dIfdef
    else if w == "ifndef".toUTF8.toList then some .dIfndef
    else if w == "ifopt".toUTF8.toList then some .dIfopt
    else if w == "elseif".toUTF8.toList then some .dElseif
    else if w == "else".toUTF8.toList then some .dElse
    else if w == "ifend".toUTF8.toList then some .dIfend
    else if w == "endif".toUTF8.toList then some .dEndif
    else none
  (n, kind)

/-- end of a line comment relative to `l` (the bytes after `//`) -/
def lineCommentEnd (l : Bytes) : Nat :=
  match findIdx (fun b => b == 0x0A || b == 0x0D) l with
  | some o => o
  | none => l.length

/-- end offset returned by `block_comment`/`block_comment_alt` relative to `l` (after the opener) -/
def blockCommentEndOrEof (k : BlockCommentKind) (trim : Nat) (l : Bytes) : Nat :=
  match findBlockCommentEnd k l with
  | some e => e
  | none => l.length - trim

/-- shift a scan result by the `n` bytes consumed before it -/
def shiftEnd (n : Nat) : Option (Option Nat) → Option (Option Nat)
  | none => none
  | some none => some none
  | some (some e) => some (some (n + e))

/-- `{$if …}` / `{$elseif …}`: the directives whose body is an expression that may nest comments -/
def isExprDirective : Option ConditionalDirectiveKind → Bool
  | some .dIf => true
  | some .dElseif => true
  | _ => false

/-- Result of the directive-expression scan: `none` = out of fuel (never happens with the fuel
    supplied by `compilerDirective`, see `Proofs/LexBounds`), `some none` = Rust's `None`,
    `some (some n)` = end offset relative to `l`. -/
def findDirectiveExprEnd (trim : Nat) : Nat → BlockCommentKind → Bytes → Option (Option Nat)
  | 0, _, _ => none
  | fuel + 1, kind, l =>
    -- continue the loop after consuming `n` bytes
    let continueAt (n : Nat) : Option (Option Nat) :=
      shiftEnd n (findDirectiveExprEnd trim fuel kind (l.drop n))
    -- a nested `{$…}` / `(*$…*)` directive whose name starts at `r`, `skip` bytes into `l`
    let nested (skip : Nat) (k2 : BlockCommentKind) (r : Bytes) : Option (Option Nat) :=
      let nameLen := (conditionalDirectiveType r).1
      let r' := r.drop nameLen
      let inner : Option (Option Nat) :=
        if isExprDirective (conditionalDirectiveType r).2 then findDirectiveExprEnd trim fuel k2 r'
        else some (findBlockCommentEnd k2 r')
      match inner with
      | none => none
      | some none => some none
      | some (some e) => continueAt (skip + nameLen + e)
    match l with
    | [] => some none
    | b0 :: r0 =>
      if kind == .parenStar && b0 == 0x2A && r0.head? == some 0x29 then some (some 2)
      else if kind == .brace && b0 == 0x7D then some (some 1)
      else if b0 == 0x28 && r0.head? == some 0x2A && r0.tail.head? == some 0x24 then
        nested 3 .parenStar (r0.drop 2)
      else if b0 == 0x7B && r0.head? == some 0x24 then
        nested 2 .brace (r0.drop 1)
      else if b0 == 0x28 && r0.head? == some 0x2A then
        continueAt (2 + blockCommentEndOrEof .parenStar trim (r0.drop 1))
      else if b0 == 0x7B then
        continueAt (1 + blockCommentEndOrEof .brace trim r0)
      else if b0 == 0x27 then
        continueAt (textLiteral l).1
      else if b0 == 0x2F && r0.head? == some 0x2F then
        continueAt (2 + lineCommentEnd (r0.drop 1))
      else continueAt 1

/-- `parse_directive_expr`; `l` starts at the directive name (after `{$` / `(*$`). -/
def parseDirectiveExpr (trim : Nat) (fuel : Nat) (kind : BlockCommentKind) (l : Bytes) :
    Option ConditionalDirectiveKind × Option (Option Nat) :=
  let nameLen := (conditionalDirectiveType l).1
  let cdk := (conditionalDirectiveType l).2
  let r := l.drop nameLen
  if isExprDirective cdk then (cdk, shiftEnd nameLen (findDirectiveExprEnd trim fuel kind r))
  else (cdk, shiftEnd nameLen (some (findBlockCommentEnd kind r)))

/-- enough fuel for every call tree of `findDirectiveExprEnd` on `l` -/
def directiveFuel (l : Bytes) : Nat := 2 * l.length + 2

/-- `compiler_directive`; `l` = bytes after `{$`/`(*$`, `openLen` = 2 or 3, `tokLen` = length of
    the bytes from the token start to the end of input.  `none` = out of fuel. -/
def compilerDirective (trim : Nat) (kind : BlockCommentKind) (openLen tokLen : Nat) (l : Bytes) :
    Option (Nat × Option ConditionalDirectiveKind) :=
  match parseDirectiveExpr trim (directiveFuel l) kind l with
  | (_, none) => none
  | (tt, some (some e)) => some (openLen + e, tt)
  | (tt, some none) => some (tokLen - trim, tt)

def blockCommentKind (nlBefore nlInside : Bool) : CommentKind :=
  if nlInside then .cMultilineBlock else if nlBefore then .cIndividualBlock else .cInlineBlock

/-- `_block_comment`; `l` = bytes after the opener -/
def blockComment (trim : Nat) (kind : BlockCommentKind) (openLen tokLen : Nat) (nlBefore : Bool)
    (l : Bytes) : Nat × CommentKind :=
  match findBlockCommentEnd kind l with
  | some e => (openLen + e, blockCommentKind nlBefore (containsByte 0x0A (l.take e)))
  | none => (tokLen - trim, .cMultilineBlock)

/-- kind of a `{$…}` token: conditional directive or plain compiler directive -/
def dirKind : Option ConditionalDirectiveKind → RawKind
  | some c => .rConditionalDirective c
  | none => .rCompilerDirective

/-! ### dispatch -/

structure LexOut where
  len : Nat
  kind : RawKind
  inAsm : Bool

/-- run one sub-lexer. `b` = first byte, `r` = bytes after it, `nlBefore` = leading whitespace
    contains `\n` or this is the first token, `trim` as above.  `none` = out of fuel. -/
def runSub (st : LexState) (sub : SubLexer) (b : UInt8) (r : Bytes) (nlBefore : Bool)
    (trimF : Unit → Nat) (simd : Bool) : Option LexOut :=
  let keep (n : Nat) (k : RawKind) : Option LexOut := some { len := n, kind := k, inAsm := st.inAsm }
  let op (n : Nat) (o : OperatorKind) : Option LexOut := keep n (.rOp o)
  let idLen (l : Bytes) : Nat := if simd then identLenSimd (l.length + 1) l else identLen l
  -- `ampersand` and the number/identifier sub-lexers it forwards to
  let unicodeIdent (r : Bytes) : Nat :=
    let k := countWhile isCont r
    k + idLen (r.drop k)
  match sub with
  | .plus => op 1 .oPlus
  | .minus => op 1 .oMinus
  | .star => op 1 .oStar
  | .comma => op 1 .oComma
  | .semicolon => op 1 .oSemicolon
  | .equal => op 1 (.oEqual .eComp)
  | .caret => op 1 (.oCaret .caDeref)
  | .address_of => op 1 .oAddressOf
  | .l_brack => op 1 .oLBrack
  | .r_brack => op 1 .oRBrack
  | .r_paren => op 1 .oRParen
  | .colon => (match r with | 0x3D :: _ => op 2 .oAssign | _ => op 1 .oColon)
  | .l_angle =>
    (match r with
     | 0x3D :: _ => op 2 .oLessEqual
     | 0x3E :: _ => op 2 .oNotEqual
     | _ => op 1 (.oLessThan .chComp))
  | .r_angle => (match r with | 0x3D :: _ => op 2 .oGreaterEqual | _ => op 1 (.oGreaterThan .chComp))
  | .dot =>
    (match r with
     | 0x2E :: _ => op 2 .oDotDot
     | 0x29 :: _ => op 2 .oRBrack
     | _ => op 1 .oDot)
  | .slash =>
    (match r with
     | 0x2F :: r' =>
       keep (2 + lineCommentEnd r') (.rComment (if nlBefore then .cIndividualLine else .cInlineLine))
     | _ => op 1 .oSlash)
  | .l_paren =>
    (match r with
     | 0x2A :: 0x24 :: r' =>
       (compilerDirective (trimF ()) .parenStar 3 (r.length + 1) r').map fun (n, k) => { len := n, kind := dirKind k, inAsm := st.inAsm }
     | 0x2A :: r' =>
       let (n, k) := blockComment (trimF ()) .parenStar 2 (r.length + 1) nlBefore r'
       keep n (.rComment k)
     | 0x2E :: _ => op 2 .oLBrack
     | _ => op 1 .oLParen)
  | .l_brace =>
    (match r with
     | 0x24 :: r' =>
       (compilerDirective (trimF ()) .brace 2 (r.length + 1) r').map fun (n, k) => { len := n, kind := dirKind k, inAsm := st.inAsm }
     | _ =>
       let (n, k) := blockComment (trimF ()) .brace 1 (r.length + 1) nlBefore r
       keep n (.rComment k))
  | .text_literal => let (n, k) := textLiteral (b :: r); keep n (.rTextLiteral k)
  | .ampersand =>
    let a := countWhile (· == 0x26) r
    (match r.drop a with
     | c :: r' =>
       if c == 0x24 then keep (1 + a + 1 + countHex r') (.rNumberLiteral .nHex)
       else if c == 0x25 then keep (1 + a + 1 + countBinary r') (.rNumberLiteral .nBinary)
       else if isDigit c then keep (1 + a + 1 + decNumberRest r') (.rNumberLiteral .nDecimal)
       else if isAlpha c || c == 0x5F then keep (1 + a + 1 + idLen r') .rIdentifier
       else if c ≥ 0x80 && !(List.isPrefixOf [0xE3, 0x80, 0x80] (c :: r')) then keep (1 + a + 1 + unicodeIdent r') .rIdentifier
       else keep (1 + a) .rUnknown
     | [] => keep (1 + a) .rUnknown)
  | .binary_number_literal => keep (1 + countBinary r) (.rNumberLiteral .nBinary)
  | .hex_number_literal => keep (1 + countHex r) (.rNumberLiteral .nHex)
  | .dec_number_literal => keep (1 + decNumberRest r) (.rNumberLiteral .nDecimal)
  | .identifier => keep (1 + idLen r) .rIdentifier
  | .unicode_identifier => keep (1 + unicodeIdent r) .rIdentifier
  | .identifier_or_keyword =>
    let n := 1 + idLen r
    let k : RawKind :=
      if st.prevReal == some (.rOp .oDot) then .rIdentifier else wordKind ((b :: r).take n)
    some { len := n, kind := k, inAsm := k == .rKeyword .kAsm }
  | .asm_label => keep (1 + countWhile (fun x => asmIdentCharSet.getD x.toNat false) r) .rIdentifier
  | .asm_identifier =>
    let n := 1 + idLen r
    let w := (b :: r).take n
    if eqIgnoreCase w "end".toUTF8.toList then some { len := n, kind := .rKeyword .kEnd, inAsm := false }
    else if eqIgnoreCase w "asm".toUTF8.toList then keep n (.rKeyword .kAsm)
    else keep n .rIdentifier
  | .asm_text_literal => let (n, k) := asmTextLiteralRest r; keep (1 + n) (.rTextLiteral k)
  | .asm_number_literal => let (n, k) := asmNumberRest b r; keep (1 + n) (.rNumberLiteral k)
  | .unknown => keep 1 .rUnknown

structure RawTok where
  ws : Bytes
  content : Bytes
  kind : RawKind
  deriving Repr, DecidableEq

/-- `whitespace_and_token`: `(wsLen, endExclusive, kind, st')`, `none` at end of input
    (outer option: `none` = out of fuel in the directive scanner). -/
def lexOne (simd : Bool) (st : LexState) (inp : Bytes) : Option (Option (Nat × Nat × RawKind × LexState)) :=
  let ws := countLeadingWs inp
  match inp.drop ws with
  | [] => some none
  | b :: r =>
    let map := if st.inAsm then asmLexerMap else lexerMap
    let sub := map.getD b.toNat .unknown
    let nlBefore := containsByte 0x0A (inp.take ws) || st.isFirst
    match runSub st sub b r nlBefore (fun _ => countTrailingWs inp) simd with
    | none => none
    | some o =>
      let st' : LexState :=
        { isFirst := false, inAsm := o.inAsm,
          prevReal := if o.kind.isCommentOrDirective then st.prevReal else some o.kind }
      some (some (ws, ws + o.len, o.kind, st'))

/-- `e ≤ l.length`, in `O(e)` -/
def leLength : Nat → Bytes → Bool
  | 0, _ => true
  | _ + 1, [] => false
  | n + 1, _ :: r => leLength n r

/-- `lex` + `lex_complete`.  `none` = the real lexer would panic or fail to make progress
    (slice out of range, `assert!(remaining.is_empty())`), or the model ran out of fuel.
    `Proofs/LexerTotal.lean` proves this never happens. -/
def lexFuel (simd : Bool) : Nat → LexState → Bytes → Option (List RawTok)
  | 0, _, _ => none
  | fuel + 1, st, inp =>
    match lexOne simd st inp with
    | none => none
    | some none =>
      -- `eof`: the rest is whitespace only
      some [{ ws := inp, content := [], kind := .rEof }]
    | some (some (ws, e, kind, st')) =>
      if ws < e ∧ leLength e inp then
        match lexFuel simd fuel st' (inp.drop e) with
        | none => none
        | some toks => some ({ ws := inp.take ws, content := (inp.take e).drop ws, kind := kind } :: toks)
      else none

def lexWith (simd : Bool) (inp : Bytes) : Option (List RawTok) := lexFuel simd (inp.length + 1) LexState.init inp

/-- the lexer with the scalar identifier routine (defines the semantics) -/
def lex (inp : Bytes) : Option (List RawTok) := lexWith false inp

end Pasfmt
