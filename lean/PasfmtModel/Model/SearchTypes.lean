/-
  Types of the search of the optimising line formatter: exact models of
  rules/optimising_line_formatter/types.rs and parent_pointer_tree.rs, and of the parts of
  `std::collections::BinaryHeap` (Rust 1.95) the search uses (`push`, `pop`, `extend`).

  Numbers are `Nat`; the Rust widths are noted where they matter (`as u16` truncation of the continuation count).
  The sums of lengths (`u32`), of penalties (`u64`) and of whitespace counts (`u16`) cannot overflow for inputs that fit
  in memory (lengths are bounded by the size of the text, penalties by `tokens * (2^20 + 3 * 2^32)`).
-/
import PasfmtModel.Model.WrapStage

namespace Pasfmt

/-- `DecisionRequirement` -/
inductive DecisionRequirement where
  | indifferent
  | invalid
  | mustBreak
  | mustNotBreak
  deriving DecidableEq, Repr, Inhabited

abbrev DR := DecisionRequirement

/-- `DecisionRequirement::map_can_break` -/
def DecisionRequirement.mapCanBreak (self : DR) (canBreak : Bool) : DR :=
  match self, canBreak with
  | .mustBreak, false => .invalid
  | .indifferent, false => .mustNotBreak
  | s, _ => s

/-- `RawDecision` -/
inductive RawDecision where
  | brk
  | cont
  deriving DecidableEq, Repr, Inhabited

/-- `RawDecision::with_continuation`; `Decision` is `Dec` of Model/WrapStage -/
def RawDecision.withContinuation (self : RawDecision) (continuations : Nat) : Dec :=
  match self with
  | .brk => .brk continuations
  | .cont => .cont

/-- `Decision::to_raw` -/
def Dec.toRaw : Dec → RawDecision
  | .brk _ => .brk
  | .cont => .cont

/-- `FirstDecision` -/
inductive FirstDecision where
  | brk
  | cont (lineLength : Nat) (canBreak : Bool)
  deriving Repr, Inhabited

/-- `LineWhitespace` (both fields `u16`) -/
structure LineWhitespace where
  indentations : Nat
  continuations : Nat
  deriving DecidableEq, Repr, Inhabited, Hashable

/-- `impl Add for LineWhitespace` -/
def LineWhitespace.add (a b : LineWhitespace) : LineWhitespace :=
  { indentations := a.indentations + b.indentations, continuations := a.continuations + b.continuations }

/-- what the search reads of the configuration: the width limit, the `begin` style and the widths of the two
    indentation strings (never the line ending, never which characters the indentation is made of) -/
structure SearchCfg where
  wrapColumn : Nat
  beginAlwaysWrap : Bool
  indLen : Nat
  contLen : Nat
  deriving Repr, DecidableEq

def Config.searchCfg (c : Config) : SearchCfg :=
  { wrapColumn := c.wrapColumn, beginAlwaysWrap := c.beginAlwaysWrap,
    indLen := c.settings.indStr.length, contLen := c.settings.contStr.length }

/-- `LineWhitespace::len` -/
def LineWhitespace.len (self : LineWhitespace) (S : SearchCfg) : Nat :=
  self.indentations * S.indLen + self.continuations * S.contLen

/-- `LineWhitespace::zero` -/
def LineWhitespace.zero : LineWhitespace := { indentations := 0, continuations := 0 }

/-- `TokenDecision`, with the type of the child solutions as a parameter (a structure cannot be mutual) -/
structure TokenDecisionOf (S : Type) where
  decision : Dec
  requirement : DR
  childSolutions : List (Nat × S)
  lastLineLength : Nat

/-- `FormattingSolution` -/
inductive FormattingSolution where
  | mk (startingWs : LineWhitespace) (decisions : List (TokenDecisionOf FormattingSolution)) (penalty : Nat)
      (solutionLength : Nat)

abbrev TokenDecision := TokenDecisionOf FormattingSolution

instance : Inhabited FormattingSolution := ⟨.mk LineWhitespace.zero [] 0 0⟩
instance : Inhabited TokenDecision := ⟨{ decision := .cont, requirement := .indifferent, childSolutions := [], lastLineLength := 0 }⟩

def FormattingSolution.startingWs : FormattingSolution → LineWhitespace
  | .mk ws _ _ _ => ws
def FormattingSolution.decisions : FormattingSolution → List TokenDecision
  | .mk _ d _ _ => d
def FormattingSolution.penalty : FormattingSolution → Nat
  | .mk _ _ p _ => p
def FormattingSolution.solutionLength : FormattingSolution → Nat
  | .mk _ _ _ l => l

/-- the solution in the form the wrapper stage applies (`reconstruct_solution` reads the starting whitespace, the decisions
    and the child solutions only); the fuel is the nesting depth of child lines -/
def FormattingSolution.toSol : Nat → FormattingSolution → Sol
  | 0, .mk ws _ _ _ => .mk ws.indentations ws.continuations []
  | fuel + 1, .mk ws decs _ _ =>
    .mk ws.indentations ws.continuations
      (decs.map fun d => (d.decision, d.childSolutions.map fun (i, s) => (i, s.toSol fuel)))

/-- a `NodeRef` into the `ParentPointerTree<TokenDecision>` of one search: the node's value and the values of its
    ancestors, nearest first (`walk_parents_data` = `value :: parents`).  The tree is only ever extended
    (`add_successor`), and the single mutation (`get_mut` on the root in `find_optimal_solution`) happens before
    any successor exists, so a persistent list is an exact representation. -/
structure DecisionRef where
  value : TokenDecision
  parents : List TokenDecision
  deriving Inhabited

/-- `NodeRef::add_successor` -/
def DecisionRef.addSuccessor (self : DecisionRef) (d : TokenDecision) : DecisionRef :=
  { value := d, parents := self.value :: self.parents }

/-- `NodeRef::walk_parents_data` -/
def DecisionRef.walkParentsData (self : DecisionRef) : List TokenDecision := self.value :: self.parents

/-- `FormattingContextState` (contexts.rs) -/
structure FormattingContextState where
  isBroken : Bool := false
  canBreak : Bool := true
  isChildBroken : Bool := false
  oneElementPerLine : Option Bool := none
  breakAnonymousRoutine : Option Bool := none
  deriving Repr, Inhabited, DecidableEq

/-- `FormattingNode` -/
structure FormattingNode where
  startingWs : LineWhitespace
  decision : DecisionRef
  nextLineIndex : Nat
  contextData : Array FormattingContextState
  penalty : Nat
  deriving Inhabited

/-- `impl Ord for FormattingNode` -/
def FormattingNode.cmp (self other : FormattingNode) : Ordering :=
  (compare other.penalty self.penalty).then (compare self.nextLineIndex other.nextLineIndex)

/-- `a <= b` through `PartialOrd` -/
@[inline] def FormattingNode.le (a b : FormattingNode) : Bool := a.cmp b != .gt
/-- `a < b` -/
@[inline] def FormattingNode.lt (a b : FormattingNode) : Bool := a.cmp b == .lt
/-- `a >= b` -/
@[inline] def FormattingNode.ge (a b : FormattingNode) : Bool := a.cmp b != .lt

/-- `impl From<FormattingNode> for FormattingSolution` -/
def FormattingNode.intoSolution (value : FormattingNode) : FormattingSolution :=
  .mk value.startingWs value.decision.walkParentsData.reverse value.penalty value.decision.value.lastLineLength

/-- `Potentials<T>` -/
inductive Potentials (α : Type) where
  | none
  | one (a : α)
  | two (a b : α)
  deriving Inhabited

/-- `Potentials::into_iter` -/
def Potentials.toList {α : Type} : Potentials α → List α
  | .none => []
  | .one a => [a]
  | .two a b => [a, b]

/-! ### `std::collections::BinaryHeap<FormattingNode>` (max-heap on `Ord`) -/

abbrev NodeHeap := Array FormattingNode

/-- the loop of `sift_up(start, pos)` with the hole's element held aside -/
def heapSiftUpGo (start : Nat) (elem : FormattingNode) : Nat → NodeHeap → Nat → NodeHeap
  | 0, data, pos => data.set! pos elem
  | fuel + 1, data, pos =>
    if pos > start then
      let parent := (pos - 1) / 2
      if elem.le data[parent]! then data.set! pos elem
      else heapSiftUpGo start elem fuel (data.set! pos data[parent]!) parent
    else data.set! pos elem

/-- `BinaryHeap::sift_up` -/
def heapSiftUp (data : NodeHeap) (start pos : Nat) : NodeHeap :=
  heapSiftUpGo start data[pos]! (data.size + 1) data pos

/-- `BinaryHeap::push` -/
def heapPush (data : NodeHeap) (item : FormattingNode) : NodeHeap :=
  let oldLen := data.size
  heapSiftUp (data.push item) 0 oldLen

/-- the loop of `sift_down_to_bottom`: the position of the hole at the end (the moved children are written) -/
def heapSiftDownToBottomGo (endIdx : Nat) : Nat → NodeHeap → Nat → NodeHeap × Nat
  | 0, data, pos => (data, pos)
  | fuel + 1, data, pos =>
    let child := 2 * pos + 1
    if child ≤ endIdx - 2 ∧ endIdx ≥ 2 then
      let child := if data[child]!.le data[child + 1]! then child + 1 else child
      heapSiftDownToBottomGo endIdx fuel (data.set! pos data[child]!) child
    else if child == endIdx - 1 then (data.set! pos data[child]!, child)
    else (data, pos)

/-- `BinaryHeap::sift_down_to_bottom(0)` -/
def heapSiftDownToBottom (data : NodeHeap) (pos : Nat) : NodeHeap :=
  let endIdx := data.size
  let elem := data[pos]!
  let (data1, p) := heapSiftDownToBottomGo endIdx (data.size + 1) data pos
  heapSiftUpGo pos elem (data.size + 1) data1 p

/-- `BinaryHeap::pop` -/
def heapPop (data : NodeHeap) : Option (FormattingNode × NodeHeap) :=
  match data.back? with
  | none => none
  | some item =>
    let data := data.pop
    if data.isEmpty then some (item, data)
    else
      let top := data[0]!
      some (top, heapSiftDownToBottom (data.set! 0 item) 0)

/-- the loop of `sift_down_range(pos, end)` -/
def heapSiftDownRangeGo (endIdx : Nat) (elem : FormattingNode) : Nat → NodeHeap → Nat → NodeHeap
  | 0, data, pos => data.set! pos elem
  | fuel + 1, data, pos =>
    let child := 2 * pos + 1
    if child ≤ endIdx - 2 ∧ endIdx ≥ 2 then
      let child := if data[child]!.le data[child + 1]! then child + 1 else child
      if elem.ge data[child]! then data.set! pos elem
      else heapSiftDownRangeGo endIdx elem fuel (data.set! pos data[child]!) child
    else if child == endIdx - 1 && elem.lt data[child]! then (data.set! pos data[child]!).set! child elem
    else data.set! pos elem

/-- `BinaryHeap::sift_down` -/
def heapSiftDown (data : NodeHeap) (pos : Nat) : NodeHeap :=
  heapSiftDownRangeGo data.size data[pos]! (data.size + 1) data pos

/-- `BinaryHeap::rebuild` -/
def heapRebuild (data : NodeHeap) : NodeHeap :=
  (List.range (data.size / 2)).reverse.foldl (fun d n => heapSiftDown d n) data

/-- `log2_fast` (`x > 0`) -/
def log2Fast (x : Nat) : Nat := Nat.log2 x

/-- `BinaryHeap::rebuild_tail` -/
def heapRebuildTail (data : NodeHeap) (start : Nat) : NodeHeap :=
  if start == data.size then data
  else
    let tailLen := data.size - start
    let betterToRebuild :=
      if start < tailLen then true
      else if data.size ≤ 2048 then 2 * data.size < tailLen * log2Fast start
      else 2 * data.size < tailLen * 11
    if betterToRebuild then heapRebuild data
    else (List.range' start (data.size - start)).foldl (fun d i => heapSiftUp d 0 i) data

/-- `BinaryHeap::extend` (append, then `rebuild_tail` from the old length when the guard is dropped) -/
def heapExtend (data : NodeHeap) (items : List FormattingNode) : NodeHeap :=
  let rebuildFrom := data.size
  heapRebuildTail (items.foldl (fun d x => d.push x) data) rebuildFrom

end Pasfmt
