/-
  Executable side of the layout-independence theorem for the closed model (C06): the decidable premises of
  `C06.C06_format_full_checked`, evaluated by the driver on every pair of the relayout stream (`full2`).
  Definitions only; the theorems are in Proofs/LayoutStage.lean and Proofs/LayoutFull.lean.
-/
import PasfmtModel.Model.PipelineFull
import PasfmtModel.Model.Contracts

namespace Pasfmt

/-- the blank-line class of a line-break counter: what `reconstruct_solution` keeps at the first token of a line -/
def nlc (n : Nat) : Nat := min (max n 1) 2

mutual
/-- the tokens whose counters `applySol` overwrites -/
def solTokens (lines : List Line) : Sol → Nat → List Nat
  | .mk _ _ decs, lineIdx =>
    match lines[lineIdx]? with
    | none => []
    | some l => decsTokens lines l.tokens 0 decs

def decsTokens (lines : List Line) (toks : List Nat) (i : Nat) : List (Dec × List (Nat × Sol)) → List Nat
  | [] => []
  | (_, children) :: rest =>
    (match toks[i]? with | some t => [t] | none => []) ++ childrenTokens lines children ++ decsTokens lines toks (i + 1) rest

def childrenTokens (lines : List Line) : List (Nat × Sol) → List Nat
  | [] => []
  | (li, s) :: rest => solTokens lines s li ++ childrenTokens lines rest
end

/-- every token index below `n` is written by the eof rule / ignored (`W0`) or by a first-phase solution -/
def allWritten (lines : List Line) (W0 : Nat → Bool) (n : Nat) (sols : List (Nat × Nat × Sol)) : Bool :=
  (List.range n).all fun j => W0 j || sols.any fun x => x.1 == 0 && (solTokens lines x.2.2 x.2.1).contains j

/-- token `j` as `FormattedTokens::new_from_tokens` sees it -/
def preTok (kinds : List Kind) (marks : List Bool) (j : Nat) (t : RawTok) : FTok :=
  { tok := { ws := t.ws, content := t.content, kind := (kinds[j]?).getD t.kind.toTokenType },
    fmt := FmtData.ofWs t.ws (marks.getD j false) }

/-- the oracles `formatTokensFull` builds around a parse -/
def preO (alnum : Bytes → Bool) (po : ParserOut) : Oracles :=
  { parser := fun _ => po, wrap := fun _ _ ft => ft, alnum := alnum }

/-- the positions whose counters are final before the wrapper stage: verbatim tokens and the end-of-file token
    written by the end-of-file rule -/
def writtenBefore (lines : List Line) (ft : FT) (j : Nat) : Bool :=
  match ft[j]? with
  | some t => t.fmt.ignored ||
      (lines.any (fun l => l.ltype == .lEof) && (j + 1 == ft.length && t.tok.kind == .tEof))
  | none => false

/-- decidable form of `GapEqW` (Proofs/SpacingLayoutW2.lean): what `TokenSpacing` can tell apart of two layouts:
    whether a gap is empty matters only between a literal or unknown token and a token that can keep its spacing
    (`keepsCur`), and in front of the end-of-file token -/
def gapEqWB : Bool → FT → FT → Bool
  | _, [], [] => true
  | po, t1 :: r1, t2 :: r2 =>
    (t1.tok.kind == t2.tok.kind) && (!po || !keepsCur t1.tok.kind || gapEmpty t1 == gapEmpty t2) &&
    (!(t1.tok.kind == .tEof) || min t1.fmt.sp 1 == min t2.fmt.sp 1) && gapEqWB (isOtherKind t1.tok.kind) r1 r2
  | _, _, _ => false


/-- `gapEqWB` without the clause for the end-of-file token (used by the status report only) -/
def gapEqWB0 : Bool → FT → FT → Bool
  | _, [], [] => true
  | po, t1 :: r1, t2 :: r2 =>
    (t1.tok.kind == t2.tok.kind) && (!po || !keepsCur t1.tok.kind || gapEmpty t1 == gapEmpty t2) && gapEqWB0 (isOtherKind t1.tok.kind) r1 r2
  | _, _, _ => false

/-- position `j` is "free": the token follows a line comment that shares its line with code and its own spacing rule
    can keep the input's spaces (`TokenSpacing` gives it none; the wrapper must break before it and never reads them) -/
def freeAtB (ft : FT) (j : Nat) : Bool :=
  decide (j ≥ 1) && ((ft[j - 1]?).map (·.tok.kind) == some (.tComment .cInlineLine)) &&
    (match ft[j]? with | some t => keepsCur t.tok.kind | none => false)

/-- every free token of `ft1` (the state before the wrapper stage) starts a line in `ftz` (the state after it) -/
def freeBrokenB (ft1 ftz : FT) : Bool :=
  ftz.zipIdx.all fun p => !freeAtB ft1 p.2 || decide (p.1.fmt.nl > 0)

/-- the decidable form of `SameLayout` (Proofs/LayoutFull.lean): same scanned types and texts; identical bytes in front
    of a verbatim token; a blank line in front of a token in both layouts or in neither; and `gapEqWB` on the two
    token states -/
def sameGapB (marks : List Bool) (j : Nat) (a b : RawTok) : Bool :=
  (!(marks.getD j false) || a.ws == b.ws) &&
  (nlc (FmtData.ofWs a.ws false).nl == nlc (FmtData.ofWs b.ws false).nl)

def sameGapsGo (marks : List Bool) : Nat → List RawTok → List RawTok → Bool
  | _, [], _ => true
  | _, _, [] => true
  | j, a :: r, b :: r' => sameGapB marks j a b && sameGapsGo marks (j + 1) r r'

def sameLayoutB (kinds : List Kind) (marks : List Bool) (raw1 raw2 : List RawTok) : Bool :=
  (raw1.map (fun t => (t.kind, t.content)) == raw2.map (fun t => (t.kind, t.content))) &&
  sameGapsGo marks 0 raw1 raw2 &&
  gapEqWB false (raw1.zipIdx.map (fun p => preTok kinds marks p.2 p.1)) (raw2.zipIdx.map (fun p => preTok kinds marks p.2 p.1))

/-- which premise of the layout theorem fails first for the pair (`hold` = all hold) -/
def layoutStatus (cfg : Config) (alnum : Bytes → Bool) (s1 s2 : Bytes) : String :=
  match lex s1, lex s2 with
  | some raw1, some raw2 =>
    match parseAndConsolidate raw1 with
    | none => "noparse"
    | some po =>
      let pw := preWrap (preO alnum po) raw1
      if !(raw1.map (fun t => (t.kind, t.content)) == raw2.map (fun t => (t.kind, t.content))) then "tokens"
      else if !(maskFlags false (raw1.map fun t => (t.kind, wsHasBreak t.ws)) ==
          maskFlags false (raw2.map fun t => (t.kind, wsHasBreak t.ws))) then "asmflags"
      else if !sameGapsGo pw.1 0 raw1 raw2 then "blanklines-or-verbatim"
      else if !gapEqWB0 false (raw1.zipIdx.map (fun p => preTok po.kinds pw.1 p.2 p.1))
          (raw2.zipIdx.map (fun p => preTok po.kinds pw.1 p.2 p.1)) then "gap-after-literal"
      else if !sameLayoutB po.kinds pw.1 raw1 raw2 then "gap-before-eof"
      else
        match wrapStageFull cfg pw.2.1 pw.2.2 with
        | none => "nostage"
        | some (ftz, sols) =>
          if !allWritten pw.2.1 (writtenBefore pw.2.1 pw.2.2) pw.2.2.length sols then "unwritten"
          else if !freeBrokenB pw.2.2 ftz then "continued-after-line-comment"
          else "hold"
  | _, _ => "nolex"

/-- all premises of the layout theorem hold for the pair -/
def layoutPremisesB (cfg : Config) (alnum : Bytes → Bool) (s1 s2 : Bytes) : Bool :=
  match lex s1, lex s2 with
  | some raw1, some raw2 =>
    match parseAndConsolidate raw1 with
    | none => false
    | some po =>
      let pw := preWrap (preO alnum po) raw1
      (maskFlags false (raw1.map fun t => (t.kind, wsHasBreak t.ws)) ==
          maskFlags false (raw2.map fun t => (t.kind, wsHasBreak t.ws))) &&
      sameLayoutB po.kinds pw.1 raw1 raw2 &&
      (match wrapStageFull cfg pw.2.1 pw.2.2 with
        | none => false
        | some (ftz, sols) =>
          allWritten pw.2.1 (writtenBefore pw.2.1 pw.2.2) pw.2.2.length sols && freeBrokenB pw.2.2 ftz)
  | _, _ => false

/-! ### canonical counters after the wrapper stage (C08) -/

/-- what applying a solution establishes: at most two line breaks, and no indentation without a line break -/
def canonWB (f : FmtData) : Bool := decide (f.nl ≤ 2) && (f.nl != 0 || (f.ind == 0 && f.cont == 0))

/-- the state before the wrapper stage is fit for the canonical-counters theorem: every token that is not kept
    verbatim has at most one space before it, and the tokens whose counters are final already (the end-of-file token
    written by the end-of-file rule) have canonical ones -/
def preStageOkB (lines : List Line) (ft : FT) : Bool :=
  ft.zipIdx.all fun p => p.1.fmt.ignored || (decide (p.1.fmt.sp ≤ 1) && (!(writtenBefore lines ft p.2) || canonWB p.1.fmt))

/-- all premises of the canonical-counters theorem for the closed model hold on input `s` -/
def canonPremisesB (cfg : Config) (alnum : Bytes → Bool) (s : Bytes) : Bool :=
  match lex s with
  | none => false
  | some raw =>
    match parseAndConsolidate raw with
    | none => false
    | some po =>
      let pw := preWrap (preO alnum po) raw
      preStageOkB pw.2.1 pw.2.2 &&
      (match wrapStageFull cfg pw.2.1 pw.2.2 with
        | none => false
        | some (_, sols) => allWritten pw.2.1 (writtenBefore pw.2.1 pw.2.2) pw.2.2.length sols)

/-! ### the layout premises without the checked "free tokens are broken" (proved: Proofs/SearchMustBreak.lean) -/

/-- no free token (`freeAtB`) is among the tokens whose counters are final before the wrapper stage (`writtenBefore`:
    verbatim tokens and the end-of-file token written by the end-of-file rule) -/
def freeNotBeforeB (lines : List Line) (ft : FT) : Bool :=
  (List.range ft.length).all fun j => !(freeAtB ft j && writtenBefore lines ft j)

/-- `freeBrokenB` restricted to the tokens the search never writes (`writtenBefore`: verbatim tokens and the end-of-file
    token written by the end-of-file rule): each of them that is free starts a line in `ftz`.  Implied by
    `freeNotBeforeB` (there are none) and by `freeBrokenB` -/
def freeBeforeBrokenB (lines : List Line) (ft ftz : FT) : Bool :=
  ftz.zipIdx.all fun p => !(freeAtB ft p.2 && writtenBefore lines ft p.2) || decide (p.1.fmt.nl > 0)

/-- `layoutPremisesB` with the premise `freeBrokenB` (a statement about what the search decided) replaced by
    `freeBeforeBrokenB` (which only looks at tokens no solution of the search writes) -/
def layoutPremisesB' (cfg : Config) (alnum : Bytes → Bool) (s1 s2 : Bytes) : Bool :=
  match lex s1, lex s2 with
  | some raw1, some raw2 =>
    match parseAndConsolidate raw1 with
    | none => false
    | some po =>
      let pw := preWrap (preO alnum po) raw1
      (maskFlags false (raw1.map fun t => (t.kind, wsHasBreak t.ws)) ==
          maskFlags false (raw2.map fun t => (t.kind, wsHasBreak t.ws))) &&
      sameLayoutB po.kinds pw.1 raw1 raw2 &&
      (match wrapStageFull cfg pw.2.1 pw.2.2 with
        | none => false
        | some (ftz, sols) =>
          allWritten pw.2.1 (writtenBefore pw.2.1 pw.2.2) pw.2.2.length sols && freeBeforeBrokenB pw.2.1 pw.2.2 ftz)
  | _, _ => false

/-! ### the C08 premises without the checked "at most one space" at non-free positions (proved: Proofs/CanonPremise.lean) -/

/-- `preStageOkB` asking for "at most one space before" only at the free positions (`freeAtB`); at every other
    position it is a theorem about `TokenSpacing` (Proofs/CanonPremise.lean) -/
def preStageOkB' (lines : List Line) (ft : FT) : Bool :=
  ft.zipIdx.all fun p => p.1.fmt.ignored ||
    ((!(freeAtB ft p.2) || decide (p.1.fmt.sp ≤ 1)) && (!(writtenBefore lines ft p.2) || canonWB p.1.fmt))

/-- `canonPremisesB` with `preStageOkB'` in place of `preStageOkB` -/
def canonPremisesB' (cfg : Config) (alnum : Bytes → Bool) (s : Bytes) : Bool :=
  match lex s with
  | none => false
  | some raw =>
    match parseAndConsolidate raw with
    | none => false
    | some po =>
      let pw := preWrap (preO alnum po) raw
      preStageOkB' pw.2.1 pw.2.2 &&
      (match wrapStageFull cfg pw.2.1 pw.2.2 with
        | none => false
        | some (_, sols) => allWritten pw.2.1 (writtenBefore pw.2.1 pw.2.2) pw.2.2.length sols)

end Pasfmt
