/-
  Exact model of `OptimisingLineFormatter::format` (rules/optimising_line_formatter/mod.rs) around the search:
  applying the chosen solutions (`reconstruct_solution`), the multi-line string pass, which lines are re-wrapped,
  the second string pass and the removal of spaces at line starts.  The search itself (`find_optimal_solution`,
  through `format_line`) is the parameter `solve phase lineIndex` (phase 0 = first wrapping, 1 = re-wrapping).
-/
import PasfmtModel.Model.Pipeline
import PasfmtModel.Model.Mls

namespace Pasfmt

/-- `Decision` -/
inductive Dec where
  | brk (continuations : Nat)
  | cont
  deriving Repr, DecidableEq

/-- `FormattingSolution`: starting whitespace and, per token of the line, the decision and the solutions of
    the child lines hanging off that token -/
inductive Sol where
  | mk (ind cont : Nat) (decs : List (Dec × List (Nat × Sol)))
  deriving Repr

/-- the assignment in `reconstruct_solution` for one token -/
def applyDec (f : FmtData) (first : Bool) (ind cont : Nat) : Dec → FmtData
  | .brk c => { f with nl := if first then min (max f.nl 1) 2 else 1, ind := ind, cont := cont + c }
  | .cont => { f with nl := 0, ind := 0, cont := 0 }

def setFmt (ft : FT) (i : Nat) (g : FmtData → FmtData) : Option FT :=
  match ft[i]? with
  | some t => some (ft.set i { t with fmt := g t.fmt })
  | none => none

mutual
/-- `reconstruct_solution`; `none` = the real code panics (a decision without a token, a child line that
    does not exist, a token without formatting data) -/
def applySol (lines : List Line) (ft : FT) : Sol → Nat → Option FT
  | .mk ind cont decs, lineIdx =>
    match lines[lineIdx]? with
    | none => none
    | some l => applyDecs lines ind cont l.tokens 0 ft decs

def applyDecs (lines : List Line) (ind cont : Nat) (toks : List Nat) (i : Nat) (ft : FT) :
    List (Dec × List (Nat × Sol)) → Option FT
  | [] => some ft
  | (d, children) :: rest =>
    match toks[i]? with
    | none => none
    | some tok =>
      match setFmt ft tok (fun f => applyDec f (i == 0) ind cont d) with
      | none => none
      | some ft1 =>
        match applyChildren lines ft1 children with
        | none => none
        | some ft2 => applyDecs lines ind cont toks (i + 1) ft2 rest

def applyChildren (lines : List Line) (ft : FT) : List (Nat × Sol) → Option FT
  | [] => some ft
  | (li, s) :: rest =>
    match applySol lines ft s li with
    | none => none
    | some ft1 => applyChildren lines ft1 rest
end

/-- the loop "spaces := 0 at the start of lines" -/
def zeroLineStartSpaces (ft : FT) : FT :=
  ft.map fun t => if t.fmt.nl > 0 then { t with fmt := { t.fmt with sp := 0 } } else t

/-- `format_multiline_strings` on the tokens of one line: new state and "a token was mutated" -/
def mlsLine (S : Settings) : List Nat → FT → Option (FT × Bool)
  | [], ft => some (ft, false)
  | idx :: rest, ft =>
    match ft[idx]? with
    | none => none            -- `tokens.get_token_mut(idx).unwrap()`
    | some t =>
      let r : Option Bytes :=
        if !t.fmt.ignored && isMlsKind t.tok.kind then mlsRewrite S t.tok.content t.fmt.ind t.fmt.cont else none
      let ft1 := match r with
        | some c => ft.set idx (t.setContent c)
        | none => ft
      match mlsLine S rest ft1 with
      | none => none
      | some (ft2, ch) => some (ft2, ch || r.isSome)

/-- `while let Some(parent) = line.get_parent() { line = input[parent.line_index] }`; `none` = out of
    bounds (panic) or a parent cycle (the real loop would not end) -/
def topParent (lines : List Line) : Nat → Nat → Option Nat
  | 0, _ => none
  | fuel + 1, i =>
    match lines[i]? with
    | none => none
    | some l =>
      match l.parent with
      | none => some i
      | some p => topParent lines fuel p.lineIndex

/-- first string pass: new state and the top-level lines to re-wrap, in the order found -/
def mlsPass1 (S : Settings) (lines : List Line) : List (Line × Nat) → FT → List Nat → Option (FT × List Nat)
  | [], ft, acc => some (ft, acc)
  | (l, i) :: rest, ft, acc =>
    match mlsLine S l.tokens ft with
    | none => none
    | some (ft1, changed) =>
      if changed then
        match topParent lines (lines.length + 1) i with
        | none => none
        | some p => mlsPass1 S lines rest ft1 (acc ++ [p])
      else mlsPass1 S lines rest ft1 acc

/-- second string pass -/
def mlsPass2 (S : Settings) : List Line → FT → Option FT
  | [], ft => some ft
  | l :: rest, ft =>
    match mlsLine S l.tokens ft with
    | none => none
    | some (ft1, _) => mlsPass2 S rest ft1

/-- insertion into a sorted list without duplicates (`sort_by_key` + `dedup_by_key` on line indices) -/
def insertSorted (x : Nat) : List Nat → List Nat
  | [] => [x]
  | y :: r => if x < y then x :: y :: r else if x == y then y :: r else y :: insertSorted x r

def sortDedup (xs : List Nat) : List Nat := xs.foldl (fun acc x => insertSorted x acc) []

/-- apply the solutions of a list of top-level lines, in order -/
def applyLines (solve : Nat → Option Sol) (lines : List Line) : List Nat → FT → Option FT
  | [], ft => some ft
  | i :: rest, ft =>
    match solve i with
    | none => applyLines solve lines rest ft
    | some s =>
      match applySol lines ft s i with
      | none => none
      | some ft1 => applyLines solve lines rest ft1

/-- the top-level lines of the first wrapping: no parent and not the end-of-file line -/
def firstPassLines (lines : List Line) : List Nat :=
  (lines.zipIdx.filter fun (l, _) => l.parent.isNone && l.ltype != .lEof).map (·.2)

/-- `OptimisingLineFormatter::format` -/
def wrapStage (solve : Nat → Nat → Option Sol) (cfg : Config) (lines : List Line) (ft : FT) : Option FT :=
  match applyLines (solve 0) lines (firstPassLines lines) ft with
  | none => none
  | some ft1 =>
    if !cfg.fmtMls then some (zeroLineStartSpaces ft1)
    else
      match mlsPass1 cfg.settings lines lines.zipIdx ft1 [] with
      | none => none
      | some (ft2, toReflow) =>
        match applyLines (solve 1) lines (sortDedup toReflow) ft2 with
        | none => none
        | some ft3 =>
          match mlsPass2 cfg.settings lines ft3 with
          | none => none
          | some ft4 => some (zeroLineStartSpaces ft4)

/-- the wrapper component of the pipeline for a given search; where the real code would panic the stage is the identity -/
def wrapOfSolver (solve : Nat → Nat → Option Sol) : Config → List Line → FT → FT :=
  fun cfg lines ft => (wrapStage solve cfg lines ft).getD ft

end Pasfmt
