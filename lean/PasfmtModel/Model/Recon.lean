/-
  Exact model of `DelphiLogicalLinesReconstructor::reconstruct` (defaults/reconstructor.rs).
-/
import PasfmtModel.Model.Fmt

namespace Pasfmt

def isSingleLineComment : Kind → Bool
  | .tComment c => c.isSingleline
  | _ => false

/-- what is pushed before the content of one token -/
def gapOf (S : Settings) (t : FTok) (mustBreak : Bool) : Bytes :=
  let isEof := t.tok.kind == .tEof
  if t.fmt.ignored then
    (if mustBreak && !containsByte 0x0A t.tok.ws && !isEof then S.nlStr else []) ++ t.tok.ws
  else
    let nls := if mustBreak && t.fmt.nl == 0 && !isEof then 1 else t.fmt.nl
    replicateBytes nls S.nlStr ++ replicateBytes t.fmt.ind S.indStr
      ++ replicateBytes t.fmt.cont S.contStr ++ List.replicate t.fmt.sp 0x20

def reconGo (S : Settings) : Bool → FT → Bytes
  | _, [] => []
  | mustBreak, t :: r =>
    gapOf S t mustBreak ++ t.tok.content ++ reconGo S (isSingleLineComment t.tok.kind) r

def reconstruct (S : Settings) (ft : FT) : Bytes := reconGo S false ft

end Pasfmt
