/-
  Exact model of rules/optimising_line_formatter/contexts.rs (formatting contexts of a line) and of the helpers at the
  end of mod.rs (`get_operator_precedence`, `is_binary`).

  Representation notes:
  * the builder's `ParentPointerTree<FormattingContext>` is an array of nodes with parent indices (as in Rust);
  * `NodeRefSet` is an array of booleans that has one entry per tree node (the Rust vector grows on demand and reads
    out-of-range entries as `false`; keeping one `false` entry per node is the same set);
  * a `SpecificContextStack` is the array of `(index, context)` that `ctx_iter_indices` yields (empty = `stack: None`);
    these arrays are computed once per tree node when the `LineFormattingContexts` is built.
-/
import PasfmtModel.Model.SearchTypes

namespace Pasfmt

/-- a logical line with its tokens in an array -/
structure LineA where
  parent : Option LineParent
  level : Nat
  tokens : Array Nat
  ltype : LogicalLineType
  deriving Inhabited

def Line.toA (l : Line) : LineA := { parent := l.parent, level := l.level, tokens := l.tokens.toArray, ltype := l.ltype }

/-! ### token type helpers -/

@[inline] def isOp (t : Option TokenType) (p : OperatorKind → Bool) : Bool :=
  match t with
  | some (.tOp o) => p o
  | _ => false

@[inline] def isKw (t : Option TokenType) (p : KeywordKind → Bool) : Bool :=
  match t with
  | some (.tKeyword k) => p k
  | _ => false

@[inline] def isCd (t : Option TokenType) (p : ConditionalDirectiveKind → Bool) : Bool :=
  match t with
  | some (.tConditionalDirective k) => p k
  | _ => false

/-- `Op(LParen | LBrack | LessThan(Generic))` -/
def OperatorKind.isOpener : OperatorKind → Bool
  | .oLParen | .oLBrack | .oLessThan .chGeneric => true
  | _ => false

/-- `Op(RParen | GreaterThan(Generic) | RBrack)` -/
def OperatorKind.isCloser : OperatorKind → Bool
  | .oRParen | .oRBrack | .oGreaterThan .chGeneric => true
  | _ => false

/-- `KeywordKind::is_directive` (contexts.rs) -/
def KeywordKind.isDirective (k : KeywordKind) : Bool :=
  k.isMethodDirective || k.isPropertyDirective || (match k with | .kIndex | .kName => true | _ => false)

/-- `TokenType::is_comment_or_compiler_directive` (contexts.rs) -/
def TokenType.isCommentOrCompilerDirective : TokenType → Bool
  | .tComment _ | .tCompilerDirective => true
  | _ => false

def HIGHEST_PRECEDENCE : Nat := 0
def LOWEST_PRECEDENCE : Nat := 5

/-- `get_operator_precedence` (mod.rs) -/
def getOperatorPrecedence : TokenType → Option Nat
  | .tOp o =>
    match o with
    | .oDot => some 0
    | .oAddressOf => some 1
    | .oStar | .oSlash => some 2
    | .oPlus | .oMinus => some 3
    | .oEqual .eComp | .oNotEqual | .oLessThan .chComp | .oGreaterThan .chComp | .oLessEqual | .oGreaterEqual => some 4
    | .oDotDot => some 5
    | _ => none
  | .tKeyword k =>
    match k with
    | .kNot => some 1
    | .kDiv | .kMod | .kAnd | .kShl | .kShr | .kAs => some 2
    | .kOr | .kXor => some 3
    | .kIn .iOp | .kIs => some 4
    | .kIn .iImport => some 4
    | _ => none
  | _ => none

/-- `is_binary` (mod.rs) -/
def isBinary (tokenType : TokenType) (prevTokenType : Option TokenType) : Bool :=
  let unaryCandidate := match tokenType with
    | .tOp .oPlus | .tOp .oMinus | .tOp .oAddressOf | .tKeyword .kNot => true
    | _ => false
  if !unaryCandidate then true
  else
    match tokenType with
    | .tOp .oAddressOf | .tKeyword .kNot => false
    | _ =>
      -- `tokenType` is `Op(Plus | Minus)`
      match prevTokenType with
      | some (.tOp .oRBrack) | some (.tOp .oRParen) | some (.tOp (.oGreaterThan .chGeneric))
      | some (.tKeyword .kInherited) | some (.tKeyword .kNil) => true
      | none | some (.tOp _) | some (.tKeyword _) | some (.tComment _) | some .tCompilerDirective
      | some (.tConditionalDirective _) => false
      | _ => true

/-! ### context types -/

/-- `BracketKind` -/
inductive BracketKind where
  | round | square | angle
  deriving DecidableEq, Repr, Inhabited

/-- `BracketStyle` -/
inductive BracketStyle where
  | invisible | expanded | breakClose | contClose
  deriving DecidableEq, Repr, Inhabited

/-- `ContextType` -/
inductive ContextType where
  | base | inlineDeclaration | raise | raiseAt | propDec | routineHeader | directivesLine | forLoop
  | brackets (kind : BracketKind) (style : BracketStyle)
  | commaList | commaElem | semicolonList | semicolonElem | directiveList | directive
  | controlFlow | assignment | typedAssignment
  | type | precedence (p : Nat) | assignLHS | assignRHS | controlFlowBegin | conditionalDirective
  | memberAccess | subject | guardClause | anonHeader
  deriving DecidableEq, Repr, Inhabited

abbrev CT := ContextType

@[inline] def ContextType.isBrackets : CT → Bool
  | .brackets _ _ => true
  | _ => false

@[inline] def ContextType.isPrecedence : CT → Bool
  | .precedence _ => true
  | _ => false

/-- `context_matches!(_)` -/
@[inline] def ctAny : CT → Bool := fun _ => true

/-- a `ContextType` used as a `ContextFilter` -/
@[inline] def ctIs (t : CT) : CT → Bool := fun c => c == t

/-- `FormattingContext` -/
structure FormattingContext where
  contextType : ContextType
  continuationDelta : Nat
  startingToken : Nat
  endingToken : Option Nat
  deriving Repr, Inhabited, DecidableEq

/-- `FormattingContext::new` / `From<ContextType>` / `From<(ContextType, u16)>` -/
def FormattingContext.new (t : CT) (delta : Nat := 1) : FormattingContext :=
  { contextType := t, continuationDelta := delta, startingToken := 0, endingToken := none }

/-- `FormattingContext::is_active_at_token` -/
@[inline] def FormattingContext.isActiveAtToken (self : FormattingContext) (lineIndex : Nat) : Bool :=
  self.startingToken != lineIndex &&
    (match self.endingToken with
     | none => true
     | some index => lineIndex ≤ index)

/-! ### `LineFormattingContextsBuilder` -/

/-- `Node<FormattingContext>` of the builder's tree -/
structure BNode where
  value : FormattingContext
  parentIdx : Option Nat
  deriving Inhabited

/-- `LineFormattingContextsBuilder` -/
structure Builder where
  contexts : Array BNode
  updateIndices : Array (Nat × Nat)
  currentContext : Nat
  contextsToRemove : Array Bool
  lineIndex : Nat
  memberAccessContexts : Array Bool

abbrev BM := StateM Builder

/-- `LineFormattingContextsBuilder::new` on a fresh `new_tree()` -/
def Builder.new : Builder :=
  { contexts := #[{ value := FormattingContext.new .base, parentIdx := none }], updateIndices := #[],
    currentContext := 0, contextsToRemove := #[false], lineIndex := 0, memberAccessContexts := #[false] }

/-- `walk_parents` from a node of the builder tree: the node indices, nearest first -/
def bWalkParents (nodes : Array BNode) : Nat → Nat → List Nat
  | 0, _ => []
  | fuel + 1, idx =>
    idx :: (match nodes[idx]? with
            | some ⟨_, some p⟩ => bWalkParents nodes fuel p
            | _ => [])

/-- first node on the stack (from `idx` upwards) whose type satisfies the filter: `(depth, index)` -/
def bFindInStack (nodes : Array BNode) (filter : CT → Bool) : Nat → Nat → Nat → Option (Nat × Nat)
  | 0, _, _ => none
  | fuel + 1, idx, depth =>
    match nodes[idx]? with
    | none => none
    | some n =>
      if filter n.value.contextType then some (depth, idx)
      else match n.parentIdx with
        | some p => bFindInStack nodes filter fuel p (depth + 1)
        | none => none

def Builder.currentType (b : Builder) : CT := (b.contexts[b.currentContext]!).value.contextType

/-- `type_stack()` -/
def Builder.typeStack (b : Builder) : List CT :=
  (bWalkParents b.contexts (b.contexts.size + 1) b.currentContext).map fun i => (b.contexts[i]!).value.contextType

/-- `retain` -/
def bRetain (idx : Nat) : BM Unit :=
  modify fun b => { b with contextsToRemove := b.contextsToRemove.set! idx false }

/-- `retain_current` -/
def bRetainCurrent : BM Unit := do
  let b ← get
  bRetain b.currentContext

/-- `retain_first` -/
def bRetainFirst (filter : CT → Bool) : BM Unit := do
  let b ← get
  match bFindInStack b.contexts filter (b.contexts.size + 1) b.currentContext 0 with
  | none => pure ()
  | some (_, idx) => bRetain idx

/-- `fluent` -/
def bFluent (idx : Nat) : BM Unit :=
  modify fun b => { b with memberAccessContexts := b.memberAccessContexts.set! idx false }

/-- `add_context` -/
def bAddContext (t : CT) (delta : Nat) : BM Nat := do
  let b ← get
  let fc : FormattingContext := { FormattingContext.new t delta with startingToken := b.lineIndex }
  let node := b.contexts.size
  set { b with
    contexts := b.contexts.push { value := fc, parentIdx := some b.currentContext },
    contextsToRemove := b.contextsToRemove.push false,
    memberAccessContexts := b.memberAccessContexts.push (t == ContextType.precedence 0),
    currentContext := node }
  pure node

/-- `push` -/
def bPush (t : CT) (delta : Nat := 1) : BM Unit := do
  let _ ← bAddContext t delta

/-- `push_utility` -/
def bPushUtility (t : CT) (delta : Nat := 1) : BM Unit := do
  let idx ← bAddContext t delta
  modify fun b => { b with contextsToRemove := b.contextsToRemove.set! idx true }

def ADD_ALL_PRECEDENCES : Nat := LOWEST_PRECEDENCE + 1

/-- `push_operator_precedences` -/
def bPushOperatorPrecedences (startingPrecedence : Nat) : BM Unit := do
  for precedence in (List.range' HIGHEST_PRECEDENCE (startingPrecedence - HIGHEST_PRECEDENCE)).reverse do
    bPushUtility (.precedence precedence)

/-- `push_operators` -/
def bPushOperators : BM Unit := do
  let b ← get
  let startingPrecedence := match b.currentType with
    | .precedence p => p
    | _ => ADD_ALL_PRECEDENCES
  bPushOperatorPrecedences startingPrecedence

/-- `push_expression` -/
def bPushExpression : BM Unit := bPushOperatorPrecedences ADD_ALL_PRECEDENCES

/-- `pop` -/
def bPop : BM Unit :=
  modify fun b =>
    let cur := b.contexts[b.currentContext]!
    let contexts :=
      if cur.value.endingToken.isNone then
        b.contexts.set! b.currentContext { cur with value := { cur.value with endingToken := some (b.lineIndex - 1) } }
      else b.contexts
    match cur.parentIdx with
    | some p => { b with contexts := contexts, currentContext := p }
    | none => { b with contexts := contexts }

/-- `find_stack_depth` -/
def bFindStackDepth (filter : CT → Bool) : BM (Option Nat) := do
  let b ← get
  pure ((bFindInStack b.contexts filter (b.contexts.size + 1) b.currentContext 0).map (·.1))

def bPopN : Nat → BM Unit
  | 0 => pure ()
  | n + 1 => do bPop; bPopN n

/-- `pop_until` -/
def bPopUntil (filter : CT → Bool) : BM (Option CT) := do
  match ← bFindStackDepth filter with
  | some depth => bPopN depth
  | none => pure ()
  let b ← get
  pure (some b.currentType)

/-- `pop_until_and_retain` -/
def bPopUntilAndRetain (filter : CT → Bool) : BM Unit := do
  match ← bFindStackDepth filter with
  | some depth => do bPopN depth; bRetainCurrent
  | none => pure ()

/-- `pop_until_after` -/
def bPopUntilAfter (filter : CT → Bool) : BM Bool := do
  match ← bFindStackDepth filter with
  | none => pure false
  | some depth => do bPopN (depth + 1); pure true

/-- `next_token` -/
def bNextToken : BM Unit := do
  let b ← get
  let keep := match b.currentType with
    | .precedence _ | .typedAssignment | .assignment | .assignLHS | .assignRHS | .commaList | .semicolonList => true
    | _ => false
  if !keep then bRetainCurrent
  modify fun b =>
    let pushIt := match b.updateIndices.back? with
      | none => true
      | some (_, last) => last != b.currentContext
    { b with
      updateIndices := if pushIt then b.updateIndices.push (b.lineIndex, b.currentContext) else b.updateIndices,
      lineIndex := b.lineIndex + 1 }

/-- mutation of the value of a node -/
def bModifyNode (idx : Nat) (f : FormattingContext → FormattingContext) : BM Unit :=
  modify fun b => { b with contexts := b.contexts.modify idx fun n => { n with value := f n.value } }

/-- `last_context_matching_mut` followed by a mutation -/
def bLastContextMatchingMut (filter : CT → Bool) (f : FormattingContext → FormattingContext) : BM Unit := do
  let b ← get
  match bFindInStack b.contexts filter (b.contexts.size + 1) b.currentContext 0 with
  | none => pure ()
  | some (_, idx) => bModifyNode idx f

/-- `last_context_mut` followed by a mutation -/
def bLastContextMut (f : FormattingContext → FormattingContext) : BM Unit := do
  let b ← get
  bModifyNode b.currentContext f

/-- `finalise` -/
def bFinalise : BM Unit :=
  modify fun b =>
    let n := b.contexts.size
    -- Precedence(0) contexts that have not been deemed "fluent" become `MemberAccess`
    let contexts := (List.range n).foldl (fun (cs : Array BNode) i =>
      if b.memberAccessContexts.getD i false then
        cs.modify i fun nd =>
          if nd.value.contextType == .precedence 0 then { nd with value := { nd.value with contextType := .memberAccess } }
          else nd
      else cs) b.contexts
    -- a context that is only a single token is useless
    let toRemove := (List.range n).foldl (fun (rm : Array Bool) i =>
      let ctx := (contexts[i]!).value
      if ctx.endingToken == some ctx.startingToken ||
          (ctx.endingToken.isNone && (match ctx.contextType with | .commaList | .assignment => true | _ => false)) then
        rm.set! i true
      else rm) b.contextsToRemove
    -- brackets in an expression or guard clause: the ending token must not be broken before
    let contexts := (List.range n).foldl (fun (cs : Array BNode) i =>
      let ctx := (cs[i]!).value
      let newType : Option CT := match ctx.contextType with
        | .brackets kind .expanded => some (.brackets kind .invisible)
        | .brackets kind .breakClose => some (.brackets kind .contClose)
        | _ => none
      match newType with
      | none => cs
      | some newContextType =>
        let ancestors := (bWalkParents cs (n + 1) i).drop 1
        let inPrecedenceOrInvisible :=
          match ancestors.find? (fun j =>
              !(toRemove.getD j false) &&
                !(match (cs[j]!).value.contextType with | .memberAccess | .assignRHS => true | _ => false)) with
          | none => false
          | some j =>
            match (cs[j]!).value.contextType with
            | .precedence _ | .brackets _ .invisible => true
            | _ => false
        let rec inGuardClause : List Nat → Bool
          | [] => false
          | j :: rest =>
            match (cs[j]!).value.contextType with
            | .brackets _ _ => false
            | .guardClause | .raise | .raiseAt | .forLoop => true
            | _ => inGuardClause rest
        if inPrecedenceOrInvisible || inGuardClause ancestors then
          cs.modify i fun nd => { nd with value := { nd.value with contextType := newContextType } }
        else cs) contexts
    { b with contexts := contexts, contextsToRemove := toRemove }

/-! ### `LineFormattingContexts` -/

/-- a `SpecificContextStack`: what `ctx_iter_indices` yields (context index in the final tree and the context) -/
abbrev SpecificContextStack := Array (Nat × FormattingContext)

/-- `LineFormattingContexts` (the final context tree included) -/
structure LineFormattingContexts where
  contextCount : Nat
  /-- the final `ParentPointerTree<FormattingContext>` -/
  tree : Array BNode
  updateIndices : Array (Nat × Nat)
  /-- `walk_parents` from every node of the final tree -/
  chains : Array SpecificContextStack
  /-- `get_specific_context_stack` tabulated for the line indices `0 ..= len + 1` -/
  stackAt : Array SpecificContextStack
  line : LineA
  tokenTypes : Array TokenType
  deriving Inhabited

/-- the contexts pushed for the line type before the first token -/
def bLineTypeContexts (ltype : LogicalLineType) : BM Unit := do
  match ltype with
  | .lCaseArm =>
    bPushUtility .controlFlowBegin 0
    bPushUtility .commaList 0
    bPushUtility .commaElem
    bPushExpression
  | .lDeclaration =>
    bPushUtility .assignment
    bPushUtility .assignLHS
    bPushUtility .commaList 0
  | .lImportClause | .lExportClause =>
    bPush .commaList 0
    bPush .commaElem
    bPushExpression
  | .lRoutineHeader =>
    bPushUtility .directivesLine
    bPush .routineHeader
  | .lPropertyDeclaration =>
    bPushUtility .directivesLine
    bPush .propDec
  | .lAssignment =>
    bPush .assignment
    bPush .assignLHS
    bPushExpression
  | .lForLoop => pure ()
  | _ =>
    bPushUtility .assignment
    bPushUtility .assignLHS
    bPushExpression

/-- "New contexts relating to the previous token are pushed here" (first half of the loop body of
    `LineFormattingContexts::new`, for a current token that is not a comment or compiler directive) -/
def bPrevTokenContexts (ltype : LogicalLineType) (currentTokenType : TokenType)
    (prevPrevTokenType prevTokenType prevSemanticTokenType : Option TokenType) : BM Unit := do
  let lastContextType := (← get).currentType
  match prevTokenType, prevSemanticTokenType with
  | some _, some prevDirectiveTokenType =>
    if isOp prevTokenType OperatorKind.isOpener ||
        (isOp prevTokenType (· == .oSemicolon) && lastContextType == .semicolonList) then
      if lastContextType != .semicolonList then
        bPushUtility .semicolonList 0
      bPushUtility .semicolonElem
      bPushUtility .assignment
      bPushUtility .assignLHS
      bPushUtility .commaList 0
      bPushUtility .commaElem
      bPushUtility .assignment
      bPushUtility .assignLHS
      bPushExpression
    else if isOp prevTokenType (· == .oComma) && lastContextType == .commaList then
      bPush .commaElem
      bPushUtility .assignment
      bPushUtility .assignLHS
      bPushExpression
    let pd := some prevDirectiveTokenType
    if isKw pd (· == .kOf) then
      bPush .subject
      bPushExpression
    else if isKw pd (· == .kType) && currentTokenType != .tKeyword .kOf then
      bPush .subject
      bPushExpression
    else if isKw pd (fun | .kFunction | .kProcedure | .kDestructor | .kConstructor => true | _ => false) then
      bPushExpression
    else if isKw pd (· == .kFor) && ltype == .lForLoop then
      bPush .subject
    else if isKw pd (· == .kFor) then
      bPushExpression
    else if isKw pd (fun | .kIn .iForLoop | .kTo | .kDownto => true | _ => false) then
      bPushExpression
    else if isKw pd (fun | .kIf | .kWhile | .kOn | .kUntil | .kCase => true | _ => false) then
      bPush .guardClause
      bPushExpression
    else if isKw pd (· == .kWith) then
      bPush .guardClause
      bPushUtility .commaList 0
      bPushUtility .commaElem
      bPushExpression
    else if isKw pd (fun | .kVar .dkInline | .kConst .dkInline => true | _ => false) then
      bPushUtility .assignment
      bPush .inlineDeclaration
    else if isKw pd (· == .kRaise) then
      bPushExpression
    else if isKw pd (· == .kAt) then
      bPushExpression
    else if isOp pd (fun | .oEqual .eDecl | .oAssign => true | _ => false) then
      bPush .assignRHS
      bPushExpression
    else if isKw pd (· == .kAbstract) && isKw prevPrevTokenType (· == .kClass) then
      pure ()
    else if isKw pd KeywordKind.isDirective then
      bPushExpression
    else if isOp pd (· == .oColon) && ltype != .lCaseArm then
      let b ← get
      let inAngle := match b.typeStack.find? ContextType.isBrackets with
        | some (.brackets .angle _) => true
        | _ => false
      if inAngle then
        bPushUtility .commaList 0
        bPushUtility .commaElem
      else
        bPush .type
      bPushExpression
    else if isCd pd ConditionalDirectiveKind.isIf then
      bPushOperators
    else if isCd pd ConditionalDirectiveKind.isElse then
      bPushOperators
    else if (getOperatorPrecedence prevDirectiveTokenType).isSome && isBinary prevDirectiveTokenType prevPrevTokenType then
      bPushOperators
    else pure ()
  | _, _ => pure ()

/-- "For contexts that apply to the current token" (second `match` of the loop body) -/
def bCurrentTokenContexts (line : LineA) (currentTokenType : TokenType) (prevTokenType nextTokenType : Option TokenType) :
    BM Unit := do
  let lastContextType := (← get).currentType
  let cur := some currentTokenType
  if isOp cur OperatorKind.isOpener then
    let currentKind : BracketKind := match currentTokenType with
      | .tOp .oLBrack => .square
      | .tOp (.oLessThan .chGeneric) => .angle
      | _ => .round
    let (typ, contDelta) : BracketStyle × Nat :=
      -- routine invocations
      if prevTokenType == some .tIdentifier || isOp prevTokenType (· == .oGreaterThan .chGeneric) then (.breakClose, 1)
      -- variant record definitions
      else if isOp prevTokenType (· == .oColon) then (.breakClose, 1)
      -- type definitions
      else if isOp prevTokenType (fun | .oEqual .eDecl | .oSemicolon => true | _ => false) ||
          isKw prevTokenType (fun | .kFunction | .kProcedure | .kSealed | .kAbstract | .kClass | .kInterface | .kHelper | .kOf => true
                                  | _ => false) then (.breakClose, 1)
      -- arguments
      else if isOp prevTokenType (fun | .oLParen | .oComma => true | _ => false) && currentKind == .square then (.breakClose, 1)
      else if isOp prevTokenType (fun | .oLParen | .oComma => true | _ => false) then (.expanded, 1)
      else if currentKind == .square then (.breakClose, 1)
      else (.invisible, 0)
    bPush (.brackets currentKind typ) contDelta
  else if isOp cur OperatorKind.isCloser then
    let _ ← bPopUntil ContextType.isBrackets
  else if isOp cur (· == .oSemicolon) then
    let b ← get
    let atEnd := b.lineIndex + 1 == line.tokens.size
    let popped ← bPopUntil (ctIs .directiveList)
    if atEnd && popped == some .directiveList then
      let _ ← bPopUntil (fun | .base | .routineHeader | .directivesLine => true | _ => false)
    else
      let _ ← bPopUntil (fun | .directiveList | .semicolonList | .base | .routineHeader => true | _ => false)
      bRetainCurrent
  else if isOp cur (· == .oComma) then
    bRetainFirst (ctIs .commaElem)
    let _ ← bPopUntil (ctIs .commaList)
    bRetainCurrent
  else if isOp cur (· == .oColon) then
    match ← bPopUntil (fun | .commaList | .semicolonElem | .anonHeader => true | _ => false) with
    | some .commaList =>
      bPop
      bRetainFirst (ctIs .semicolonElem)
    | some .semicolonElem =>
      bRetainCurrent
    | _ => pure ()
    bLastContextMatchingMut (fun | .assignment | .typedAssignment => true | _ => false)
      (fun c => { c with contextType := .typedAssignment })
  else if isOp cur (fun | .oEqual .eDecl | .oAssign => true | _ => false) then
    bRetainFirst (fun | .commaElem | .semicolonElem => true | _ => false)
    match ← bPopUntil (fun | .commaElem | .semicolonElem | .assignment | .typedAssignment | .assignLHS => true | _ => false) with
    | some .typedAssignment | some .assignment =>
      bRetainCurrent
      let lineIndex := (← get).lineIndex
      bLastContextMut fun c => { c with endingToken := some (lineIndex - 1) }
    | some .assignLHS =>
      bRetainCurrent
      bPop
      let b ← get
      if (match b.currentType with | .typedAssignment | .assignment => true | _ => false) then
        let lineIndex := b.lineIndex
        bLastContextMut fun c => { c with endingToken := some (lineIndex - 1) }
      bRetainCurrent
    | _ => pure ()
  else if isKw cur (fun | .kIf | .kWhile | .kWith | .kOn => true | _ => false) then
    bPushUtility .controlFlowBegin 0
    bPush .controlFlow
  else if isKw cur (· == .kElse) then
    let _ ← bPopUntil (ctIs .controlFlowBegin)
  else if isKw cur (fun | .kCase | .kUntil => true | _ => false) then
    bPush .controlFlow
  else if isKw cur (· == .kFor) && line.ltype == .lForLoop then
    bPushUtility .controlFlowBegin 0
    bPush .forLoop
  else if isKw cur (· == .kFor) then
    bPush .subject
  else if isKw cur (fun | .kIn .iForLoop | .kTo | .kDownto => true | _ => false) then
    let _ ← bPopUntil (ctIs .forLoop)
    bPush .subject
  else if isKw cur (· == .kRaise) then
    bPush .raise
  else if isKw cur (· == .kAt) then
    let _ ← bPopUntil (ctIs .raise)
    bLastContextMut fun c => { c with contextType := .raiseAt }
    bPush .subject
  else if isOp cur (· == .oDot) then
    if lastContextType == .precedence 0 then
      bRetainCurrent
      if isOp prevTokenType (fun | .oRParen | .oRBrack => true | _ => false) then
        -- fluency is considered after () and []
        let b ← get
        bFluent b.currentContext
  else if (getOperatorPrecedence currentTokenType).isSome && isBinary currentTokenType prevTokenType then
    let opPrec := (getOperatorPrecedence currentTokenType).getD 0
    bPopUntilAndRetain (ctIs (.precedence opPrec))
  else if isKw cur (· == .kOf) && isKw nextTokenType (· == .kObject) then
    let _ ← bPopUntilAfter (ctIs .anonHeader)
  else if isKw cur (fun | .kThen | .kDo | .kOf => true | _ => false) then
    let _ ← bPopUntil (fun | .controlFlow | .forLoop => true | _ => false)
  else if isKw cur (fun | .kFunction | .kProcedure => true | _ => false) && lastContextType != .routineHeader then
    bPush .anonHeader
  else if isKw cur (· == .kBegin) then
    if (← bPopUntil (ctIs .commaElem)) == some lastContextType then
      -- not in a CommaList, therefore top-level statement
      let _ ← bPopUntil (ctIs .controlFlowBegin)
    else
      bRetainCurrent
    let _ ← bPopUntilAfter (ctIs .anonHeader)
  else if isKw cur (· == .kAbstract) && isKw prevTokenType (· == .kClass) then
    pure ()
  else if isKw cur KeywordKind.isDirective then
    if (← bPopUntil (ctIs .directiveList)) != some .directiveList then
      if ← bPopUntilAfter (fun | .propDec | .routineHeader => true | _ => false) then
        bRetainCurrent
      bPush .directiveList 0
    bPush .directive
  else if isCd cur ConditionalDirectiveKind.isIf then
    bPush .conditionalDirective 0
  else if isCd cur ConditionalDirectiveKind.isElse then
    let _ ← bPopUntil (ctIs .conditionalDirective)
  else if isCd cur ConditionalDirectiveKind.isEnd then
    let _ ← bPopUntil (ctIs .conditionalDirective)
  else pure ()

/-- "After the current token, some contexts needs to be popped" -/
def bAfterTokenContexts (currentTokenType : TokenType) : BM Unit := do
  match currentTokenType with
  | .tOp (.oGreaterThan .chGeneric) =>
    let _ ← bPopUntilAfter (fun | .brackets .angle _ => true | _ => false)
  | .tOp .oRParen =>
    let _ ← bPopUntilAfter (fun | .brackets .round _ => true | _ => false)
  | .tOp .oRBrack =>
    let _ ← bPopUntilAfter (fun | .brackets .square _ => true | _ => false)
  | .tConditionalDirective kind =>
    if kind.isEnd then
      let _ ← bPopUntilAfter (ctIs .conditionalDirective)
  | _ => pure ()

/-- the builder part of `LineFormattingContexts::new` (up to and including `finalise`) -/
def bBuild (line : LineA) (tokenTypes : Array TokenType) : BM Unit := do
  let getTokenTypeFromLineIndex := fun (lineIndex : Nat) =>
    match line.tokens[lineIndex]? with
    | none => none
    | some t => tokenTypes[t]?
  bLineTypeContexts line.ltype
  let mut prevPrevTokenType : Option TokenType := none
  let mut prevTokenType : Option TokenType := none
  let mut prevSemanticTokenType : Option TokenType := none
  let mut current := getTokenTypeFromLineIndex 0
  let mut nextTokenType := getTokenTypeFromLineIndex 1
  for _ in [0:line.tokens.size] do
    match current with
    | none => break
    | some currentTokenType =>
      if !currentTokenType.isCommentOrCompilerDirective then
        bPrevTokenContexts line.ltype currentTokenType prevPrevTokenType prevTokenType prevSemanticTokenType
      bCurrentTokenContexts line currentTokenType prevTokenType nextTokenType
      bNextToken
      bAfterTokenContexts currentTokenType
      if !currentTokenType.isCommentOrDirective then
        prevPrevTokenType := prevTokenType
        prevTokenType := current
      if !currentTokenType.isCommentOrCompilerDirective then
        prevSemanticTokenType := current
      current := nextTokenType
      nextTokenType := getTokenTypeFromLineIndex ((← get).lineIndex + 1)
  bFinalise

/-- `write_context_tree`: the final tree (fresh `Base` root) and the re-mapped `update_indices` -/
def writeContextTree (b : Builder) : Array BNode × Array (Nat × Nat) :=
  let root : BNode := { value := FormattingContext.new .base, parentIdx := none }
  let (tree, nodeMappings) := b.contexts.foldl (fun (acc : Array BNode × Array Nat) builderNode =>
    let (tree, nodeMappings) := acc
    let i := nodeMappings.size
    match builderNode.parentIdx with
    | some p =>
      let parent := nodeMappings[p]!
      if b.contextsToRemove.getD i false then (tree, nodeMappings.push parent)
      else (tree.push { value := builderNode.value, parentIdx := some parent }, nodeMappings.push tree.size)
    | none => (tree, nodeMappings.push 0)) ((#[root], #[]) : Array BNode × Array Nat)
  (tree, b.updateIndices.map fun (index, node) => (index, nodeMappings[node]!))

/-- `partition_point(|&(context_token_index, _)| context_token_index <= line_index)` (the entries are sorted by
    their line index, which increases strictly) -/
def updateIndicesPartitionPoint (updateIndices : Array (Nat × Nat)) (lineIndex : Nat) : Nat :=
  (updateIndices.toList.takeWhile fun (i, _) => i ≤ lineIndex).length

/-- `LineFormattingContexts::new` (with `new_tree`) -/
def LineFormattingContexts.new (line : LineA) (tokenTypes : Array TokenType) : LineFormattingContexts :=
  let ((), b) := (bBuild line tokenTypes).run Builder.new
  let (tree, updateIndices) := writeContextTree b
  let chains : Array SpecificContextStack := (Array.range tree.size).map fun i =>
    ((bWalkParents tree (tree.size + 1) i).map fun j => (j, (tree[j]!).value)).toArray
  -- tabulate `get_specific_context_stack`
  let n := line.tokens.size + 2
  let (stackAt, _, _) := (List.range n).foldl (fun (acc : Array SpecificContextStack × Nat × SpecificContextStack) lineIndex =>
    let (out, pos, cur) := acc
    -- advance over the entries whose line index is `<= lineIndex`
    let rec advance : Nat → Nat → SpecificContextStack → Nat × SpecificContextStack
      | 0, pos, cur => (pos, cur)
      | fuel + 1, pos, cur =>
        match updateIndices[pos]? with
        | some (i, node) => if i ≤ lineIndex then advance fuel (pos + 1) (chains[node]!) else (pos, cur)
        | none => (pos, cur)
    let (pos, cur) := advance (updateIndices.size + 1) pos cur
    (out.push cur, pos, cur)) ((#[], 0, #[]) : Array SpecificContextStack × Nat × SpecificContextStack)
  { contextCount := tree.size, tree := tree, updateIndices := updateIndices, chains := chains, stackAt := stackAt,
    line := line, tokenTypes := tokenTypes }

/-- `get_default_context_data` -/
def LineFormattingContexts.getDefaultContextData (self : LineFormattingContexts) : Array FormattingContextState :=
  Array.replicate self.contextCount {}

/-- `get_specific_context_stack` -/
def LineFormattingContexts.getSpecificContextStack (self : LineFormattingContexts) (lineIndex : Nat) : SpecificContextStack :=
  match self.stackAt[lineIndex]? with
  | some s => s
  | none =>
    match updateIndicesPartitionPoint self.updateIndices lineIndex with
    | 0 => #[]
    | idx + 1 => self.chains[(self.updateIndices[idx]!).2]!

/-- `SpecificContextStack::get_token_type_from_line_index` -/
def LineFormattingContexts.getTokenTypeFromLineIndex (self : LineFormattingContexts) (lineIndex : Nat) : Option TokenType :=
  match self.line.tokens[lineIndex]? with
  | none => none
  | some t => self.tokenTypes[t]?

/-! ### `SpecificContextDataStack` -/

/-- `parents_support_break` -/
def parentsSupportBreak (stack : SpecificContextStack) (solution : FormattingNode) : Bool :=
  stack.all fun (idx, ctx) => !(ctx.isActiveAtToken solution.nextLineIndex) || (solution.contextData[idx]!).canBreak

/-- `get_last_context` -/
def getLastContext (stack : SpecificContextStack) (solution : FormattingNode) (filter : CT → Bool) :
    Option (FormattingContext × FormattingContextState) :=
  match stack.find? (fun (_, ctx) => ctx.startingToken != solution.nextLineIndex && filter ctx.contextType) with
  | none => none
  | some (idx, ctx) => some (ctx, solution.contextData[idx]!)

/-- `get_continuation_count` (`sum::<u64>() as u16`) -/
def getContinuationCount (stack : SpecificContextStack) (solution : FormattingNode) (lineIndex : Nat) : Nat :=
  (stack.foldl (fun (sum : Nat) (p : Nat × FormattingContext) =>
    let (idx, ctx) := p
    let isClosingType := some lineIndex == ctx.endingToken && ctx.contextType.isBrackets
    if (solution.contextData[idx]!).isBroken && ctx.isActiveAtToken lineIndex && !isClosingType then
      sum + ctx.continuationDelta
    else sum) 0) % 65536

/-! ### updates of the context data of a node -/

@[inline] def FormattingNode.modifyData (node : FormattingNode) (idx : Nat)
    (f : FormattingContextState → FormattingContextState) : FormattingNode :=
  match node with
  | ⟨ws, dec, nli, data, pen⟩ => ⟨ws, dec, nli, data.modify idx f, pen⟩

/-- `Option::get_or_insert` (the returned reference is not used) -/
@[inline] def getOrInsert (o : Option Bool) (v : Bool) : Option Bool :=
  match o with
  | none => some v
  | some x => some x

/-- `get_last_matching_context_mut`: the context found and its index -/
def getLastMatchingContext (stack : SpecificContextStack) (node : FormattingNode) (filter : CT → Bool) :
    Option (Nat × FormattingContext) :=
  stack.find? fun (_, ctx) => ctx.isActiveAtToken node.nextLineIndex && filter ctx.contextType

/-- `update_last_matching_context` (the returned `bool` is never used) -/
def updateLastMatchingContext (stack : SpecificContextStack) (node : FormattingNode) (filter : CT → Bool)
    (operation : FormattingContext → FormattingContextState → FormattingContextState) : FormattingNode :=
  match getLastMatchingContext stack node filter with
  | some (idx, ctx) => node.modifyData idx (operation ctx)
  | none => node

/-- `update_operator_precedences` -/
def updateOperatorPrecedences (stack : SpecificContextStack) (node : FormattingNode) (isBreak : Bool) : FormattingNode :=
  let node := updateLastMatchingContext stack node
    (fun | .precedence _ | .conditionalDirective => true | _ => false)
    (fun ctx data =>
      -- using `ConditionalDirective` as a stop-gap
      if ctx.contextType.isPrecedence then
        { data with oneElementPerLine := getOrInsert data.oneElementPerLine isBreak, canBreak := data.canBreak && isBreak }
      else data)
  if isBreak then
    (stack.toList.takeWhile fun (_, ctx) => ctx.contextType.isPrecedence).foldl (fun node (idx, _) =>
      node.modifyData idx fun data => { data with isBroken := true, oneElementPerLine := some true }) node
  else node

/-- `update_contexts` -/
def updateContexts (fc : LineFormattingContexts) (stack : SpecificContextStack) (node : FormattingNode)
    (decision : RawDecision) : FormattingNode :=
  let lineIndex := node.nextLineIndex
  let isBreak := decision == .brk
  let lastRealTokenType : Option TokenType :=
    let rec go : Nat → Option TokenType
      | 0 => none
      | index + 1 =>
        match fc.getTokenTypeFromLineIndex index with
        | some t => if !t.isCommentOrCompilerDirective then some t else go index
        | none => go index
    go lineIndex
  let node := (stack.toList.drop 1).foldl (fun (node : FormattingNode) (p : Nat × FormattingContext) =>
    if p.2.isActiveAtToken lineIndex then
      node.modifyData p.1 fun context => { context with isChildBroken := context.isChildBroken || isBreak }
    else node) node
  let applyPivotalBreak := fun (_ : FormattingContext) (data : FormattingContextState) =>
    { data with isBroken := data.isBroken || isBreak, canBreak := data.canBreak && isBreak }
  let orBroken := fun (_ : FormattingContext) (data : FormattingContextState) =>
    { data with isBroken := data.isBroken || isBreak }
  let currTokenType := fc.getTokenTypeFromLineIndex lineIndex
  let last := lastRealTokenType
  let node :=
    if currTokenType == some (.tTextLiteral .tMultiLine) then
      -- there is necessarily a break within a multiline string literal
      let node := updateLastMatchingContext stack node ctAny fun _ data => { data with isBroken := true }
      updateOperatorPrecedences stack node true
    else if (match currTokenType with | some (.tComment .cInlineBlock) | some (.tComment .cInlineLine) => true | _ => false) then
      node
    else if isOp last OperatorKind.isOpener then
      updateLastMatchingContext stack node ContextType.isBrackets fun ctx data =>
        let data := if !(match ctx.contextType with | .brackets _ .invisible => true | _ => false) then
            { data with canBreak := data.canBreak && isBreak } else data
        { data with isBroken := data.isBroken || isBreak }
    else if isKw currTokenType KeywordKind.isDirective then
      updateLastMatchingContext stack node (fun | .directivesLine | .directiveList | .commaElem => true | _ => false)
        applyPivotalBreak
    else if isKw last KeywordKind.isDirective then
      updateLastMatchingContext stack node (ctIs .directive) fun _ data =>
        { data with canBreak := data.canBreak && isBreak, isBroken := data.isBroken || isBreak }
    else if isOp last (· == .oComma) then
      updateLastMatchingContext stack node (ctIs .commaList) applyPivotalBreak
    else if isOp last (· == .oSemicolon) then
      updateLastMatchingContext stack node (ctIs .semicolonList) fun _ data =>
        { data with oneElementPerLine := getOrInsert data.oneElementPerLine isBreak,
                    canBreak := data.canBreak && isBreak, isBroken := data.isBroken || isBreak }
    else if isOp last (· == .oColon) && isOp currTokenType (· == .oLParen) then
      updateLastMatchingContext stack node (fun | .semicolonElem | .base => true | _ => false) orBroken
    else if isOp last (· == .oColon) then
      updateLastMatchingContext stack node ctAny applyPivotalBreak
    else if isKw last (fun | .kIf | .kWhile | .kUntil | .kOn | .kCase => true | _ => false) then
      updateLastMatchingContext stack node (ctIs .controlFlowBegin) orBroken
    else if isKw last (· == .kWith) then
      let found := (stack.find? fun (_, ctx) => (match ctx.contextType with | .commaList | .guardClause => true | _ => false)).filter
        fun (_, ctx) => ctx.contextType == .commaList
      let node := match found with
        | some (index, _) =>
          let node := node.modifyData index fun state =>
            { state with isBroken := state.isBroken || isBreak, canBreak := state.canBreak && isBreak }
          updateLastMatchingContext stack node (ctIs .controlFlow) applyPivotalBreak
        | none => node
      updateLastMatchingContext stack node (ctIs .controlFlowBegin) orBroken
    else if isKw last (· == .kElse) then
      updateLastMatchingContext stack node (ctIs .controlFlowBegin) orBroken
    else if isKw currTokenType (fun | .kBegin | .kEnd => true | _ => false) then
      let node := updateLastMatchingContext stack node (ctIs .controlFlowBegin) orBroken
      let node := updateLastMatchingContext stack node (ctIs .commaElem) fun _ data =>
        { data with canBreak := data.canBreak && isBreak,
                    breakAnonymousRoutine := getOrInsert data.breakAnonymousRoutine isBreak }
      updateLastMatchingContext stack node (ctIs .assignRHS) fun _ data =>
        { data with breakAnonymousRoutine := getOrInsert data.breakAnonymousRoutine isBreak }
    else if isKw last (· == .kFor) && fc.line.ltype != .lForLoop then
      updateLastMatchingContext stack node (ctIs .subject) applyPivotalBreak
    else if isOp last (fun | .oAssign | .oEqual .eDecl => true | _ => false) && isKw currTokenType (· == .kSet) then
      -- to allow `= set of (...` to break the elements of the list and not before `set`
      updateLastMatchingContext stack node (ctIs .base) orBroken
    else if isOp last (fun | .oAssign | .oEqual .eDecl => true | _ => false) then
      let isTypeParens := match stack[0]? with
        | some (_, ctx) => ctx.contextType == .brackets .round .breakClose
        | none => false
      updateLastMatchingContext stack node
        (fun | .base | .type | .typedAssignment | .assignment | .subject | .semicolonElem | .commaElem => true | _ => false)
        fun _ data =>
          let data := { data with isBroken := data.isBroken || isBreak }
          if fc.line.ltype != .lDeclaration || !isTypeParens then
            { data with canBreak := data.canBreak && isBreak }
          else data
    else if isKw currTokenType (fun | .kIn .iForLoop | .kTo | .kDownto => true | _ => false) then
      updateLastMatchingContext stack node (ctIs .forLoop) applyPivotalBreak
    else if isKw last (fun | .kIn .iForLoop | .kTo | .kDownto => true | _ => false) then node
    else if isKw last (· == .kRaise) then node
    else if isKw currTokenType (· == .kAt) then
      updateLastMatchingContext stack node (ctIs .raiseAt) applyPivotalBreak
    else if isKw last (· == .kAt) then node
    else if isKw last (· == .kType) && currTokenType.isSome && currTokenType != some (.tKeyword .kOf) then
      updateLastMatchingContext stack node ctAny applyPivotalBreak
    else if isKw last (· == .kOf) && isOp currTokenType (· == .oLParen) then
      -- to exclude `set of` anonymous enum
      node
    else if isKw last (· == .kOf) then
      updateLastMatchingContext stack node ctAny applyPivotalBreak
    else if isKw last (fun | .kUses | .kContains | .kRequires | .kExports => true | _ => false) then
      updateLastMatchingContext stack node (ctIs .base) applyPivotalBreak
    else if isOp currTokenType (· == .oDot) then
      match getLastMatchingContext stack node (fun | .precedence _ | .memberAccess => true | _ => false) with
      | some (idx, ctx) =>
        match ctx.contextType with
        | .precedence _ => updateOperatorPrecedences stack node isBreak
        | .memberAccess =>
          node.modifyData idx fun data =>
            { data with oneElementPerLine := getOrInsert data.oneElementPerLine isBreak, isBroken := data.isBroken || isBreak }
        | _ => node
      | none => node
    else if (match currTokenType with
        | some op@(.tOp _) | some op@(.tKeyword _) => (getOperatorPrecedence op).isSome && isBinary op last
        | _ => false) then
      updateOperatorPrecedences stack node isBreak
    else
      updateLastMatchingContext stack node ctAny orBroken
  let node :=
    match currTokenType with
    | some (.tConditionalDirective _) =>
      -- without the `is_active_at_token` filter
      match stack.find? fun (_, context) => context.contextType == .conditionalDirective with
      | some (index, _) => node.modifyData index fun data => { data with canBreak := data.canBreak && isBreak }
      | none => node
    | _ => node
  -- some contexts need updating if their children get updated
  stack.foldl (fun (node : FormattingNode) (p : Nat × FormattingContext) =>
    let (ctxIndex, ctx) := p
    if !ctx.isActiveAtToken lineIndex then node
    else
      match ctx.contextType with
      | .conditionalDirective =>
        if (match currTokenType with | some t => !t.isCommentOrCompilerDirective | none => false) then
          node.modifyData ctxIndex fun data =>
            { data with canBreak := data.canBreak && (data.isChildBroken || isBreak),
                        oneElementPerLine := getOrInsert data.oneElementPerLine (data.isChildBroken || isBreak) }
        else node
      | .typedAssignment | .forLoop | .raiseAt =>
        node.modifyData ctxIndex fun data => { data with isBroken := data.isBroken || data.isChildBroken }
      | .assignLHS =>
        if fc.line.ltype == .lAssignment then
          node.modifyData ctxIndex fun data => { data with isBroken := data.isBroken || data.isChildBroken }
        else node
      | .semicolonList | .commaList | .precedence _ | .directiveList =>
        node.modifyData ctxIndex fun data =>
          let data := { data with isBroken := data.isBroken || data.isChildBroken }
          if isBreak then { data with oneElementPerLine := some true } else data
      | .memberAccess =>
        if isBreak then node.modifyData ctxIndex fun data => { data with oneElementPerLine := some true } else node
      | .commaElem | .assignRHS =>
        if isBreak then node.modifyData ctxIndex fun data => { data with breakAnonymousRoutine := some true } else node
      | _ => node) node

/-- `update_contexts_from_child_solutions` -/
def updateContextsFromChildSolutions (stack : SpecificContextStack) (node : FormattingNode)
    (childSolutions : List (Nat × FormattingSolution)) : FormattingNode :=
  if childSolutions.any fun (_, solution) => solution.decisions.any fun decision =>
      (match decision.decision with | .brk _ => true | .cont => false) then
    stack.foldl (fun (node : FormattingNode) (p : Nat × FormattingContext) =>
      node.modifyData p.1 fun data => { data with isChildBroken := true, breakAnonymousRoutine := some true }) node
  else if !childSolutions.isEmpty then
    match getLastMatchingContext stack node (ctIs .controlFlowBegin) with
    | some (idx, _) => node.modifyData idx fun context => { context with canBreak := false }
    | none => node
  else node

end Pasfmt
