/-
  Logic of the command-line front end (orchestrator/src/file_formatter.rs, command_line.rs,
  formatting_orchestrator.rs, front-end/src/lib.rs): BOM sniffing, UTF-16 encoders, the write
  protocol of files mode, the three modes, the per-thread buffer of batch runs, configuration
  lookup and layering.  The file system, `encoding_rs` tables for legacy encodings, `config`/
  `serde`/`clap` and rayon are parameters.
-/
import PasfmtModel.Model.Bytes

namespace Pasfmt.IO

/-! ### Unicode scalar values, UTF-8 and UTF-16 -/

/-- a Unicode scalar value -/
def isScalar (c : Nat) : Bool := c < 0xD800 || (0xE000 ≤ c && c < 0x110000)

/-- `char::encode_utf16` for one scalar value -/
def units16 (c : Nat) : List Nat :=
  if c < 0x10000 then [c]
  else
    let v := c - 0x10000
    [0xD800 + v / 0x400, 0xDC00 + v % 0x400]

/-- `str::encode_utf16` -/
def encodeUnits16 (s : List Nat) : List Nat := s.flatMap units16

def isBmpUnit (u : Nat) : Bool := u < 0xD800 || 0xE000 ≤ u
def isHighSur (u : Nat) : Bool := 0xD800 ≤ u && u < 0xDC00
def isLowSur (u : Nat) : Bool := 0xDC00 ≤ u && u < 0xE000
def pairValue (h l : Nat) : Nat := 0x10000 + (h - 0xD800) * 0x400 + (l - 0xDC00)

/-- decoding of UTF-16 code units (what `encoding_rs` does without replacement): `none` on a lone
    surrogate -/
def decodeUnits16 : List Nat → Option (List Nat)
  | [] => some []
  | [u] => if isBmpUnit u then some [u] else none
  | u :: l :: rest =>
    if isBmpUnit u then (decodeUnits16 (l :: rest)).map (u :: ·)
    else if isHighSur u && isLowSur l then (decodeUnits16 rest).map (pairValue u l :: ·)
    else none

/-- `u16::to_le_bytes` / `to_be_bytes` -/
def unitBytes (be : Bool) (u : Nat) : Bytes :=
  let hi := UInt8.ofNat (u / 256)
  let lo := UInt8.ofNat (u % 256)
  if be then [hi, lo] else [lo, hi]

/-- `encode_utf16le` / `encode_utf16be` on scalar values -/
def encode16 (be : Bool) (s : List Nat) : Bytes := (encodeUnits16 s).flatMap (unitBytes be)

/-- byte pairs to code units; `none` for an odd number of bytes (malformed) -/
def bytesToUnits (be : Bool) : Bytes → Option (List Nat)
  | [] => some []
  | [_] => none
  | a :: b :: rest =>
    let u := if be then a.toNat * 256 + b.toNat else b.toNat * 256 + a.toNat
    (bytesToUnits be rest).map (u :: ·)

def decode16 (be : Bool) (bs : Bytes) : Option (List Nat) :=
  match bytesToUnits be bs with
  | some us => decodeUnits16 us
  | none => none

/-- UTF-8 encoding of one scalar value -/
def utf8OfScalar (c : Nat) : Bytes :=
  if c < 0x80 then [UInt8.ofNat c]
  else if c < 0x800 then [UInt8.ofNat (0xC0 + c / 64), UInt8.ofNat (0x80 + c % 64)]
  else if c < 0x10000 then
    [UInt8.ofNat (0xE0 + c / 4096), UInt8.ofNat (0x80 + c / 64 % 64), UInt8.ofNat (0x80 + c % 64)]
  else
    [UInt8.ofNat (0xF0 + c / 262144), UInt8.ofNat (0x80 + c / 4096 % 64), UInt8.ofNat (0x80 + c / 64 % 64),
     UInt8.ofNat (0x80 + c % 64)]

def utf8Encode (s : List Nat) : Bytes := s.flatMap utf8OfScalar

/-- scalar values of well-formed UTF-8 (`none` if malformed) -/
def utf8Decode : Bytes → Option (List Nat)
  | [] => some []
  | b0 :: r =>
    let n0 := b0.toNat
    if n0 < 0x80 then (utf8Decode r).map (n0 :: ·)
    else if 0xC2 ≤ n0 && n0 ≤ 0xDF then
      match r with
      | b1 :: r' => if isCont b1 then (utf8Decode r').map (((n0 - 0xC0) * 64 + (b1.toNat - 0x80)) :: ·) else none
      | _ => none
    else if 0xE0 ≤ n0 && n0 ≤ 0xEF then
      match r with
      | b1 :: b2 :: r' =>
        let c := (n0 - 0xE0) * 4096 + (b1.toNat - 0x80) * 64 + (b2.toNat - 0x80)
        if isCont b1 && isCont b2 && c ≥ 0x800 && !(0xD800 ≤ c && c < 0xE000) then (utf8Decode r').map (c :: ·) else none
      | _ => none
    else if 0xF0 ≤ n0 && n0 ≤ 0xF4 then
      match r with
      | b1 :: b2 :: b3 :: r' =>
        let c := (n0 - 0xF0) * 262144 + (b1.toNat - 0x80) * 4096 + (b2.toNat - 0x80) * 64 + (b3.toNat - 0x80)
        if isCont b1 && isCont b2 && isCont b3 && c ≥ 0x10000 && c < 0x110000 then (utf8Decode r').map (c :: ·) else none
      | _ => none
    else none

/-! ### BOM -/

inductive Enc where
  | utf8
  | utf16le
  | utf16be
  | other (id : Nat)
  deriving DecidableEq, Repr

/-- `Encoding::for_bom` -/
def sniffBom (bs : Bytes) : Option (Enc × Nat) :=
  match bs with
  | 0xEF :: 0xBB :: 0xBF :: _ => some (.utf8, 3)
  | 0xFF :: 0xFE :: _ => some (.utf16le, 2)
  | 0xFE :: 0xFF :: _ => some (.utf16be, 2)
  | _ => none

/-- external codecs: `dec` reports malformed input with `none`, `enc` reports unmappable text with `none`.
    Text is abstract (`T`). -/
structure Codec (T : Type) where
  dec : Enc → Bytes → Option T
  enc : Enc → T → Option Bytes

structure Decoded (T : Type) where
  bom : Bytes
  text : T
  enc : Enc

/-- `decode_file` -/
def decodeFile {T : Type} (C : Codec T) (cfgEnc : Enc) (bs : Bytes) : Option (Decoded T) :=
  let (enc, bomLen) := match sniffBom bs with
    | some (e, n) => (e, n)
    | none => (cfgEnc, 0)
  match C.dec enc (bs.drop bomLen) with
  | some t => some { bom := bs.take bomLen, text := t, enc := enc }
  | none => none

/-- `FileFormatter::write`: the bytes written (BOM first), `none` if the text cannot be encoded -/
def writeBytes {T : Type} (C : Codec T) (d : Decoded T) (out : T) : Option Bytes :=
  (C.enc d.enc out).map (d.bom ++ ·)

/-! ### the file as a byte vector with a position -/

structure FileSt where
  data : Bytes
  pos : Nat
  deriving Repr, DecidableEq

/-- `write_all` at the current position: overwrites, extends, advances -/
def FileSt.write (f : FileSt) (bs : Bytes) : FileSt :=
  { data := f.data.take f.pos ++ List.replicate (f.pos - f.data.length) 0 ++ bs ++ f.data.drop (f.pos + bs.length),
    pos := f.pos + bs.length }

def FileSt.seekStart (f : FileSt) : FileSt := { f with pos := 0 }

/-- `set_len` -/
def FileSt.setLen (f : FileSt) (n : Nat) : FileSt :=
  { f with data := f.data.take n ++ List.replicate (n - f.data.length) 0 }

/-- `read_to_end` from position 0 leaves the position at the end -/
def FileSt.readAll (f : FileSt) : FileSt × Bytes := ({ f with pos := f.data.length }, f.data)

/-! ### modes -/

inductive Mode where
  | files | stdout | check
  deriving DecidableEq, Repr

structure Outcome where
  /-- content of the file afterwards -/
  file : Bytes
  /-- operations that opened the file for writing / wrote to it -/
  wrote : Bool
  stdout : Bytes
  failed : Bool
  deriving Repr, DecidableEq

/-- one file in `exec_format` (path given on the command line). `fmt` = `Formatter::format`.
    `header` = the `path:\n` line of stdout mode, already encoded. -/
def runFile {T : Type} [DecidableEq T] (C : Codec T) (fmt : T → T) (utf8 : T → Bytes) (cfgEnc : Enc) (mode : Mode)
    (header : Bytes) (content : Bytes) : Outcome :=
  match decodeFile C cfgEnc content with
  | none => { file := content, wrote := false, stdout := [], failed := true }
  | some d =>
    let out := fmt d.text
    match mode with
    | .files =>
      if d.text = out then { file := content, wrote := false, stdout := [], failed := false }
      else
        match writeBytes C d out with
        | none => { file := content, wrote := false, stdout := [], failed := true }
        | some bs =>
          -- the file was read to its end; seek(0); write; set_len(written)
          let f0 : FileSt := { data := content, pos := content.length }
          let f1 := (f0.seekStart.write bs).setLen bs.length
          { file := f1.data, wrote := true, stdout := [], failed := false }
    | .stdout => { file := content, wrote := false, stdout := header ++ utf8 out ++ [0x0A], failed := false }
    | .check => { file := content, wrote := false, stdout := [], failed := d.text ≠ out }

/-- `format_stdin_to_stdout` (stdout not a terminal): bytes printed, or failure -/
def runStdin {T : Type} (C : Codec T) (fmt : T → T) (cfgEnc : Enc) (input : Bytes) : Option Bytes :=
  match decodeFile C cfgEnc input with
  | none => none
  | some d => writeBytes C d (fmt d.text)

/-- `check_stdin`: failure flag -/
def checkStdin {T : Type} [DecidableEq T] (C : Codec T) (fmt : T → T) (cfgEnc : Enc) (input : Bytes) : Bool :=
  match decodeFile C cfgEnc input with
  | none => true
  | some d => d.text ≠ fmt d.text

/-- `mode()` default and the `validate` conflict: `none` = rejected before anything runs -/
def effectiveMode (requested : Option Mode) (isStdin : Bool) : Option Mode :=
  let m := match requested with
    | some m => m
    | none => if isStdin then .stdout else .files
  if m == .files && isStdin then none else some m

/-! ### batch runs: per-thread buffer -/

/-- one item of `map_init`: the buffer is cleared, the file is read into it, the result depends on
    the file only; the buffer keeps the bytes read (state carried to the next item of the thread) -/
def workerStep (run : Bytes → Outcome) (_buf : Bytes) (content : Bytes) : Bytes × Outcome :=
  let buf := ([] : Bytes) ++ content     -- input_buf.clear(); read_to_end(input_buf)
  (buf, run buf)

/-- a worker thread processing its files in order, starting with some buffer -/
def workerRun (run : Bytes → Outcome) : Bytes → List Bytes → List Outcome
  | _, [] => []
  | buf, c :: rest =>
    let (buf', o) := workerStep run buf c
    o :: workerRun run buf' rest

/-! ### configuration -/

/-- `find_config_file`: `dirs` = the working directory followed by its ancestors (nearest first),
    `hasFile d` = `d/pasfmt.toml` is a regular file -/
def findConfig {D : Type} (hasFile : D → Bool) : List D → Option D
  | [] => none
  | d :: rest => if hasFile d then some d else findConfig hasFile rest

/-- layering of `get_config_object_from_file`: defaults, then the file's keys, then each `-C` in
    order.  Values are abstract; `valid k v` = the value deserialises for key `k`;
    `known k` = `k` is a field of the configuration struct. -/
structure ConfigSpec (K V : Type) where
  known : K → Bool
  valid : K → V → Bool
  default : K → V

def lookupLast {K V : Type} [DecidableEq K] (k : K) : List (K × V) → Option V
  | [] => none
  | (k', v) :: rest =>
    match lookupLast k rest with
    | some v' => some v'
    | none => if k' = k then some v else none

/-- effective value of key `k` -/
def effective {K V : Type} [DecidableEq K] (S : ConfigSpec K V) (file overrides : List (K × V)) (k : K) : V :=
  match lookupLast k overrides with
  | some v => v
  | none =>
    match lookupLast k file with
    | some v => v
    | none => S.default k

/-- `try_deserialize` with `deny_unknown_fields`: every supplied key must be known and its
    effective value valid -/
def configOk {K V : Type} [DecidableEq K] (S : ConfigSpec K V) (file overrides : List (K × V)) : Bool :=
  (file ++ overrides).all fun (k, _) => S.known k && S.valid k (effective S file overrides k)

/-! ### concrete codec for the driver: text = UTF-8 bytes -/

/-- UTF-8 and UTF-16 by the model's own functions; every other encoding through the supplied tables
    (results of the external encoding library for the texts of this case) -/
def driverCodec (otherDec : Bytes → Option Bytes) (otherEnc : Bytes → Option Bytes) : Codec Bytes :=
  { dec := fun e bs =>
      match e with
      | .utf8 => if validUtf8 bs then some bs else none
      | .utf16le => (decode16 false bs).map utf8Encode
      | .utf16be => (decode16 true bs).map utf8Encode
      | .other _ => otherDec bs,
    enc := fun e t =>
      match e with
      | .utf8 => some t
      | .utf16le => (utf8Decode t).map (encode16 false)
      | .utf16be => (utf8Decode t).map (encode16 true)
      | .other _ => otherEnc t }

end Pasfmt.IO
