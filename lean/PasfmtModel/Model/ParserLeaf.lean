/-
  Exact model of the control flow of `core/src/defaults/parser.rs`, part 2:
  the functions that do not recurse into `parse_structures` / `parse_statement`
  (line primitives, `consolidate_portability_directives`, `skip_pair`, `parse_expression`, `op_until` with its
  operations, `parse_parameter_list`, `parse_routine_header`, `parse_property_declaration`,
  `parse_asm_instructions`, `take_separators_on_last_line`).

  Every loop takes a fuel argument; running out of fuel is `none`.
-/
import PasfmtModel.Model.ParserBase

namespace Pasfmt.PFull

/-! ### line primitives (each issues exactly the machine op marked in parser.rs) -/

/-- `next_token`: the bracket levels are updated from the current token (the inline comments swallowed by the loop
    never change them), the rest of the loop is the machine's `next` -/
def nextToken : PM Unit := do
  let s ← get
  match s.getCurrentTokenType with
  | some (.rOp .oLParen) => set { s with parenLevel := s.parenLevel + 1 }
  | some (.rOp .oRParen) => set { s with parenLevel := s.parenLevel - 1 }
  | some (.rOp .oLBrack) => set { s with brackLevel := s.brackLevel + 1 }
  | some (.rOp .oRBrack) => set { s with brackLevel := s.brackLevel - 1 }
  | some (.rOp (.oLessThan _)) => set { s with genericLevel := s.genericLevel + 1 }
  | some (.rOp (.oGreaterThan _)) => set { s with genericLevel := s.genericLevel - 1 }
  | _ => pure ()
  prim .next

/-- `skip_token` -/
def skipToken : PM Unit := prim .skip

/-- `set_logical_line_type` -/
def setLogicalLineType (t : LogicalLineType) : PM Unit := prim (.setType t)

/-- `consolidate_portability_directives`: the backwards `while let` loop over the line -/
def consolidatePortabilityDirectivesGo (lineTokens : Array Nat) : Nat → Nat → PM Unit
  | 0, _ => panic_
  | fuel + 1, lineIndex => do
    let s ← get
    -- `get_token_type_of_line_index`
    let typeOfLineIndex (i : Nat) : Option RawKind :=
      match lineTokens[i]? with
      | none => none
      | some ti => s.kinds[ti]?
    match lineTokens[lineIndex]? with
    | none => return
    | some tokenIndex =>
      let prevTokenType := if lineIndex == 0 then none else typeOfLineIndex (lineIndex - 1)
      let here := typeOfLineIndex lineIndex
      if here == some .rIdentifier || isNumberLiteral here || isKeyword here [.kType]
          || isOp here [.oRBrack, .oRParen, .oSemicolon] then
        return
      if isOp prevTokenType [.oRBrack, .oRParen] then pure ()
      else if isKeyword prevTokenType [.kType, .kOf] then return
      else if (match prevTokenType with | some t => isOperator t | none => false) then return
      match s.kinds[tokenIndex]? with
      | some (.rIdentifierOrKeyword d) =>
        if portabilityDirectives.contains d then setKind tokenIndex (.rKeyword d)
      | _ => pure ()
      -- `let Some(prev_line_index) = line_index.checked_sub(1) else { break }`
      if lineIndex == 0 then return
      consolidatePortabilityDirectivesGo lineTokens fuel (lineIndex - 1)

/-- `consolidate_portability_directives` -/
def consolidatePortabilityDirectives : PM Unit := do
  let types ← curLineTokenTypes
  if !types.any (fun t => isEqualOp (some t) || t == .rOp .oColon) then return
  let line ← curLine
  -- `tokens.len() - 1` on `usize`
  if line.tokens.isEmpty then panic_
  let mut lineIndex := line.tokens.length - 1
  if types.getLast? == some (.rOp .oSemicolon) then
    if lineIndex == 0 then panic_
    lineIndex := lineIndex - 1
  consolidatePortabilityDirectivesGo line.tokens.toArray (line.tokens.length + 2) lineIndex

/-- `finish_logical_line`; the swallowing of trailing inline comments is inside the machine's `finish` -/
def finishLogicalLine : PM Unit := do
  if ← isAtStartOfLine then
    prim .finishEmpty
    return
  consolidatePortabilityDirectives
  let s ← get
  let (parent, contextLevel) := s.getContextLevel
  prim (.finish parent contextLevel)

/-- `make_unfinished_line` -/
def makeUnfinishedLine : PM Unit := do
  prim .markUnfinished
  finishLogicalLine

/-! ### `skip_pair`, `take_until`, `parse_expression` -/

/-- `skip_pair`: the `while` loop -/
def skipPairGo (parenLevel brackLevel genericLevel : Nat) : Nat → PM Unit
  | 0 => panic_
  | fuel + 1 => do
    let s ← get
    if (s.parenLevel != parenLevel || s.brackLevel != brackLevel || s.genericLevel != genericLevel)
        && s.getCurrentTokenType.isSome then
      nextToken
      skipPairGo parenLevel brackLevel genericLevel fuel
    else return

/-- `skip_pair` -/
def skipPair (fuel : Nat) : PM Unit := do
  let s ← get
  nextToken
  skipPairGo s.parenLevel s.brackLevel s.genericLevel fuel

/-- `take_until(predicate)` = `simple_op_until(predicate, next_token)` = `op_until(predicate, {next_token; Continue})` -/
def takeUntil (predicate : PS → Bool) : Nat → PM Unit
  | 0 => panic_
  | fuel + 1 => do
    let s ← get
    if s.getCurrentTokenType.isNone then return
    if predicate s then return
    if (← endingIdx).isSome then return
    nextToken
    takeUntil predicate fuel

/-- `parse_expression`: the `loop` -/
def parseExpressionGo : Nat → PM Unit
  | 0 => panic_
  | fuel + 1 => do
    let t ← cur
    if isOp t [.oLParen, .oLBrack] then
      skipPair fuel
    else if isCaretOp t then
      nextToken
      return
    else if isOp t [.oSemicolon, .oColon] then
      return
    else if (match t with | some tt => isOperator tt | none => false) then
      nextToken
      let t2 ← cur
      if isAnyIdentOrKeyword t2 then
        consolidateCurrentIdent
        nextToken
      else if t2 == some .rIdentifier || isTextLiteral t2 || isNumberLiteral t2 then
        nextToken
    else if t.isNone || isAnyKeyword t then
      return
    else if t == some .rIdentifier || isAnyIdentOrKeyword t || isTextLiteral t || isNumberLiteral t then
      return
    else
      nextToken
    parseExpressionGo fuel

/-- `parse_expression` -/
def parseExpression (fuel : Nat) : PM Unit := do
  let t ← cur
  if isOp t [.oLParen, .oLBrack] then
    skipPair fuel
  else if isOp t [.oSemicolon, .oColon] then
    return
  else if (match t with | some (.rKeyword k) => !isOperator (.rKeyword k) | _ => false) then
    return
  else
    nextToken
  parseExpressionGo fuel

/-! ### `parse_parameter_list` -/

/-- `fix_next_eq`: the `while let` loop -/
def fixNextEqGo : Nat → Nat → PM Unit
  | 0, _ => panic_
  | fuel + 1, index => do
    let s ← get
    match s.getTokenTypeForIndex index with
    | none => return
    | some tokenType =>
      if tokenType == .rOp (.oEqual .eDecl) || tokenType == .rOp .oSemicolon || tokenType == .rOp .oRParen then
        return
      else if tokenType == .rOp (.oEqual .eComp) then
        -- `parser.tokens[parser.pass_indices[index]]`
        let ti ← liftOpt s.passArr[index]?
        if ti < s.kinds.size then setKind ti (.rOp (.oEqual .eDecl)) else panic_
        return
      else fixNextEqGo fuel (index + 1)

/-- `fix_next_eq` -/
def fixNextEq (fuel : Nat) : PM Unit := do
  let s ← get
  fixNextEqGo fuel (s.m.passIdx + 1)

/-- `parse_parameter_list`: the `while` loop -/
def parseParameterListGo (parenLevel startIndex : Nat) : Nat → PM Unit
  | 0 => panic_
  | fuel + 1 => do
    let s ← get
    if s.m.passIdx > startIndex && isOp (s.getTokenType (-1)) [.oRParen] && parenLevel ≥ s.parenLevel then
      return
    let t ← cur
    if isOp t [.oSemicolon, .oLParen] then fixNextEq fuel
    else if t.isNone then return
    let s ← get
    let w0 := s.getTokenType (-1)
    let w1 := s.getTokenType 0
    let w2 := s.getTokenType 1
    if isOp w0 [.oColon, .oDot] && isAnyIdentOrKeyword w1 then
      consolidateCurrentIdent
    else if isOp w0 [.oSemicolon, .oLParen] && isIdentOrKeyword w1 [.kOut] then
      consolidateCurrentKeyword
    else if isOp w0 [.oColon] && isCaretOp w1 then
      consolidateCurrentCaretToType
      nextToken
    else if isKeyword w1 [.kOf] && isConstKeyword w2 then
      nextToken
    else if isOp w1 [.oSemicolon, .oLParen] && (isConstKeyword w2 || isVarKeyword w2) then
      nextToken
      setCurrentDeclKind .dkParam
    nextToken
    parseParameterListGo parenLevel startIndex fuel

/-- `parse_parameter_list` -/
def parseParameterList (fuel : Nat) : PM Unit := do
  let s ← get
  parseParameterListGo s.parenLevel s.m.passIdx fuel

/-! ### `op_until` and its operations -/

/-- the `impl Fn(&mut LLP)` / `impl Fn(&mut LLP) -> OpResult` closures handed to `simple_op_until` / `op_until` -/
inductive UntilOp where
  /-- `|parser| parser.next_token()` -/
  | nextToken
  /-- `keyword_consolidator(|k| PORTABILITY_DIRECTIVES.contains(&k))`, with `|| k == Align` when `align` -/
  | keywordConsolidator (align : Bool)
  /-- `parse_exports` -/
  | parseExports
  /-- the closure in `parse_import_clause` -/
  | importClause
  /-- the closure of the enum definition in `parse_statement` -/
  | enumDefinition
  /-- the closure in `parse_routine_header` -/
  | routineHeader
  /-- the closure in `parse_property_declaration` -/
  | propertyDeclaration
  deriving DecidableEq, Repr

/-- `is_directive` of `parse_routine_header` -/
def isRoutineDirective (k : KeywordKind) : Bool :=
  k.isMethodDirective || k == .kName || k == .kIndex || k == .kDelayed

/-- `METHOD_DIRECTIVES_WITH_ARGS` -/
def methodDirectivesWithArgs : List KeywordKind := [.kMessage, .kDeprecated, .kDispId, .kExternal, .kIndex, .kName]

/-- `PROPERTY_DIRECTIVES_WITHOUT_ARGS` -/
def propertyDirectivesWithoutArgs : List KeywordKind := [.kReadOnly, .kWriteOnly, .kNoDefault]

/-- `parse_exports` -/
def parseExports (fuel : Nat) : PM Unit := do
  let t ← cur
  if isOp t [.oComma] then
    nextToken
    parseExpression fuel
  else if isOp t [.oLParen] then
    skipPair fuel
  else if isIdentOrKeyword t [.kName, .kIndex] || isKeyword t [.kName, .kIndex] then
    consolidateCurrentKeyword
    nextToken
    parseExpression fuel
  else if isIdentOrKeyword t [.kResident] || isKeyword t [.kResident] then
    consolidateCurrentKeyword
    nextToken
  else nextToken

/-- the closure passed to `op_until` in `parse_routine_header` -/
def routineHeaderOp (fuel : Nat) : PM OpResult := do
  let s ← get
  let t := s.getCurrentTokenType
  let prev := s.getTokenType (-1)
  if isAnyIdentOrKeyword t
      && (isOp prev [.oColon, .oDot] || isKeyword prev [.kFunction, .kProcedure, .kConstructor, .kDestructor]) then
    consolidateCurrentIdent
    nextToken
  else if isEqualOp t then
    setCurrentTokenType (.rOp (.oEqual .eDecl))
    nextToken
    consolidateCurrentIdent
  else if isOp t [.oLParen] then
    parseParameterList fuel
  else if (match t with
      | some (.rKeyword k) | some (.rIdentifierOrKeyword k) => isRoutineDirective k && s.parenLevel == 0
      | _ => false) then
    let keywordKind ← liftOpt (t.bind getKeywordKind)
    if isOp (s.getTokenType 1) [.oComma, .oColon] then
      return .break_
    consolidateCurrentKeyword
    nextToken
    if keywordKind == .kExternal && (← curKw) == some .kName then
      pure ()
    else if methodDirectivesWithArgs.contains keywordKind then
      parseExpression fuel
  else if isLessThanOp t then
    skipPair fuel
  else if isOp t [.oSemicolon] then
    nextToken
    takeUntil noMoreSeparators fuel
    match ← curKw with
    | some k => if !isRoutineDirective k then return .break_
    | none => return .break_
  else if t == some (.rOp (.oCaret .caDeref)) then
    if isOp prev [.oColon] then consolidateCurrentCaretToType
    nextToken
  else nextToken
  return .continue_

/-- the closure passed to `simple_op_until` in `parse_property_declaration` -/
def propertyDeclarationOp (fuel : Nat) : PM Unit := do
  let s ← get
  let w0 := s.getTokenType (-1)
  let w1 := s.getTokenType 0
  let w2 := s.getTokenType 1
  if (isAnyIdentOrKeyword w1 && isOp w2 [.oColon])
      || ((isOp w0 [.oColon] || isKeyword w0 [.kProperty]) && isAnyIdentOrKeyword w1) then
    consolidateCurrentIdent
    nextToken
  else if isOp w0 [.oColon] && isCaretOp w1 then
    consolidateCurrentCaretToType
    nextToken
  else
    match w1 with
    | some (.rIdentifierOrKeyword keywordKind) | some (.rKeyword keywordKind) =>
      if keywordKind.isPropertyDirective && s.brackLevel == 0 then
        consolidateCurrentKeyword
        nextToken
        if !propertyDirectivesWithoutArgs.contains keywordKind then parseExpression fuel
      else nextToken
    | _ => nextToken

/-- one call of the `next_token_op` of `op_until` -/
def runUntilOp (fuel : Nat) : UntilOp → PM OpResult
  | .nextToken => do
    nextToken
    return .continue_
  | .keywordConsolidator align => do
    -- `keyword_consolidator`
    match ← cur with
    | some (.rIdentifierOrKeyword keywordKind) =>
      if portabilityDirectives.contains keywordKind || (align && keywordKind == .kAlign) then
        consolidateCurrentKeyword
    | _ => pure ()
    nextToken
    return .continue_
  | .parseExports => do
    parseExports fuel
    return .continue_
  | .importClause => do
    if isInKeyword (← cur) then setCurrentTokenType (.rKeyword (.kIn .iImport))
    nextToken
    return .continue_
  | .enumDefinition => do
    if (← cur) == some (.rOp (.oEqual .eComp)) then setCurrentTokenType (.rOp (.oEqual .eDecl))
    nextToken
    return .continue_
  | .routineHeader => routineHeaderOp fuel
  | .propertyDeclaration => do
    propertyDeclarationOp fuel
    return .continue_

/-- `op_until` (and `simple_op_until`, whose operation always answers `Continue`) -/
def opUntil (predicate : PS → Bool) (op : UntilOp) : Nat → PM Unit
  | 0 => panic_
  | fuel + 1 => do
    let s ← get
    if s.getCurrentTokenType.isNone then return
    if predicate s then return
    if (← endingIdx).isSome then return
    match ← runUntilOp fuel op with
    | .continue_ => opUntil predicate op fuel
    | .break_ => return

/-- `parse_routine_header` -/
def parseRoutineHeader (fuel : Nat) : PM Unit := do
  nextToken
  opUntil neverEnding .routineHeader fuel
  takeUntil noMoreSeparators fuel

/-- `parse_property_declaration` -/
def parsePropertyDeclaration (fuel : Nat) : PM Unit := do
  setLogicalLineType .lPropertyDeclaration
  nextToken
  parseExpression fuel
  let s ← get
  opUntil (predicateAnd afterSemicolon (predicateAnd (outsideParens s.parenLevel) (outsideBracks s.brackLevel)))
    .propertyDeclaration fuel
  if (← curKw) == some .kDefault then
    consolidateCurrentKeyword
    nextToken
    takeUntil noMoreSeparators fuel
  finishLogicalLine

/-! ### asm -/

/-- `add_asm_instruction_line` -/
def addAsmInstructionLine : PM Unit := do
  setLogicalLineType .lAsmInstruction
  finishLogicalLine

/-- `parse_asm_instructions`: the `while let` loop -/
def parseAsmInstructionsGo : Nat → PM Unit
  | 0 => panic_
  | fuel + 1 => do
    let s ← get
    match s.getTokenIndex 0 with
    | none => return
    | some ti =>
      let tt ← liftOpt s.kinds[ti]?
      if tt == .rKeyword .kEnd then return
      if tt == .rOp .oSemicolon then
        nextToken
        addAsmInstructionLine
      else if s.nl[ti]?.getD false then
        addAsmInstructionLine
        nextToken
      else
        nextToken
      parseAsmInstructionsGo fuel

/-- `parse_asm_instructions` -/
def parseAsmInstructions (fuel : Nat) : PM Unit := do
  parseAsmInstructionsGo fuel
  addAsmInstructionLine

/-! ### `take_separators_on_last_line` -/

/-- `take_separators_on_last_line` -/
def takeSeparatorsOnLastLine (fuel : Nat) (level : ParserContextLevel) : PM Unit := do
  if !isOp (← cur) [.oSemicolon] then return
  prim .pushLast
  let lineWasEmpty ← isAtStartOfLine
  pushCtx { contextType := .utility, contextEndingPredicate := .opaque .neverEnding, level := level }
  takeUntil noMoreSeparators fuel
  if lineWasEmpty then finishLogicalLine
  popCtx
  prim .popLast

end Pasfmt.PFull
