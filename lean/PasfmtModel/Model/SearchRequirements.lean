/-
  Exact model of rules/optimising_line_formatter/requirements.rs (`get_formatting_requirement`,
  `get_formatting_invariant`, `get_token_type_window`) and of the token accessors of
  `InternalOptimisingLineFormatter` (mod.rs) they use.
-/
import Std.Data.HashMap
import PasfmtModel.Model.SearchContexts

namespace Pasfmt

/-- `TokenLength` (both `u32`) -/
structure TokenLength where
  spacesBefore : Nat
  content : Nat
  deriving Repr, Inhabited

/-- `LineChildren` -/
structure LineChildren where
  parentToken : Nat
  lineIndices : Array Nat
  descendantCount : Nat
  deriving Repr, Inhabited

/-- `str::lines()` on the bytes of a text: split after every `\n`; a line loses its `\n` and then one `\r` -/
def strLinesGo (cur : Bytes) : Bytes → List Bytes
  | [] => if cur.isEmpty then [] else [cur.reverse]
  | 0x0A :: r =>
    let line := match cur with
      | 0x0D :: c => c
      | c => c
    line.reverse :: strLinesGo [] r
  | b :: r => strLinesGo (b :: cur) r

def strLines (s : Bytes) : List Bytes := strLinesGo [] s

/-- what the search reads of a live token: its type and, for a token that spans lines (a multi-line literal or
    block comment), the length of its last line (never its counters, its leading whitespace, its ignored flag, or
    any other part of its text) -/
structure SVTok where
  kind : Kind
  lastLine : Option Nat
  deriving Repr, DecidableEq

/-- in `get_token_line_length`: "multiline tokens necessarily have a break in them": `content.lines().skip(1).last()` -/
def lastLineLen (kind : Kind) (content : Bytes) : Option Nat :=
  match kind with
  | .tTextLiteral .tMultiLine | .tComment .cMultilineBlock =>
    match ((strLines content).drop 1).getLast? with
    | some lastLine => some lastLine.length
    | none => none
  | _ => none

def FTok.sview (t : FTok) : SVTok := { kind := t.tok.kind, lastLine := lastLineLen t.tok.kind t.tok.content }

/-- `InternalOptimisingLineFormatter` without the `child_line_cache` (which is threaded through the search as a state):
    `settings` and `recon_settings` come from `cfg`; `formattedTokens` is the live token state -/
structure Olf where
  cfg : SearchCfg
  iterationMax : Nat
  formattedTokens : Array SVTok
  lines : Array LineA
  lineChildren : Std.HashMap (Nat × Nat) LineChildren
  tokenTypes : Array TokenType
  tokenLengths : Array TokenLength

@[inline] def Olf.maxLineLength (O : Olf) : Nat := O.cfg.wrapColumn
@[inline] def Olf.breakBeforeBegin (O : Olf) : Bool := O.cfg.beginAlwaysWrap

/-- `get_token_type` / `FormattedTokens::get_token_type_for_index` -/
@[inline] def Olf.getTokenType (O : Olf) (tokenIndex : Nat) : Option TokenType :=
  match O.formattedTokens[tokenIndex]? with
  | some t => some t.kind
  | none => none

/-- `get_token_type_for_line_index` -/
@[inline] def Olf.getTokenTypeForLineIndex (O : Olf) (line : LineA) (lineIndex : Nat) : Option TokenType :=
  match line.tokens[lineIndex]? with
  | none => none
  | some tokenIndex => O.getTokenType tokenIndex

/-- `get_prev_token_type_for_line_index` -/
@[inline] def Olf.getPrevTokenTypeForLineIndex (O : Olf) (line : LineA) (lineIndex : Nat) : Option TokenType :=
  match line.tokens[lineIndex]? with
  | none => none
  | some tokenIndex => if tokenIndex == 0 then none else O.getTokenType (tokenIndex - 1)

/-- `get_formatting_invariant` -/
def Olf.getFormattingInvariant (O : Olf) (lineIndex : Nat) (line : LineA) : Option DR :=
  match O.getPrevTokenTypeForLineIndex line lineIndex, O.getTokenTypeForLineIndex line lineIndex with
  | none, _ => some .mustNotBreak
  | some prev, cur =>
    if (match cur with | some (.tComment .cInlineLine) | some (.tComment .cInlineBlock) => true | _ => false) then
      some .mustNotBreak
    else if (match cur with
        | some (.tComment .cIndividualLine) | some (.tComment .cIndividualBlock) | some (.tComment .cMultilineBlock)
        | some (.tTextLiteral .tMultiLine) => true
        | _ => false) then some .mustBreak
    else if (match prev with
        | .tComment .cIndividualLine | .tComment .cInlineLine | .tComment .cMultilineBlock
        | .tTextLiteral .tUnterminated => true
        | _ => false) then some .mustBreak
    else if (match prev with | .tConditionalDirective _ => true | _ => false) &&
        -- `line_index.wrapping_sub(1)` is out of range for `line_index == 0`
        (if lineIndex == 0 then none else line.tokens[lineIndex - 1]?) !=
          (line.tokens[lineIndex]?).map (fun idx => idx - 1) then
      -- the conditional directive is not in the current line
      -- (`idx.wrapping_sub(1)`: `idx > 0` here because the previous token exists)
      some .mustBreak
    else none

/-- `get_token_type_window` -/
def Olf.getTokenTypeWindow (O : Olf) (lineIndex : Nat) (line : LineA) : Option TokenType × Option TokenType :=
  let rec go : Nat → Option TokenType
    | 0 => none
    | index + 1 =>
      match O.getTokenTypeForLineIndex line index with
      | some t => if !t.isCommentOrCompilerDirective then some t else go index
      | none => go index
  (go lineIndex, O.getTokenTypeForLineIndex line lineIndex)

/-- `IfElse::if_else_or` -/
@[inline] def ifElseOr {α : Type} (self : Option Bool) (yes no el : α) : α :=
  match self with
  | none => el
  | some true => yes
  | some false => no

/-- `IfElse::if_else_or_default` for `DecisionRequirement` (default `Indifferent`) -/
@[inline] def ifElseOrDefault (self : Option Bool) (yes no : DR) : DR := ifElseOr self yes no .indifferent

/-- `IfElse::if_else_map` -/
@[inline] def ifElseMap (self : Option Bool) (yes no : DR) : Option DR :=
  self.map fun val => if val then yes else no

/-- `get_formatting_requirement`; `stack`/`node` are the `SpecificContextDataStack` -/
def Olf.getFormattingRequirement (O : Olf) (lineIndex : Nat) (line : LineA) (stack : SpecificContextStack)
    (node : FormattingNode) : DR :=
  match stack[0]? with
  | none => .invalid
  | some (lastIdx, lastContext) =>
    let ctxData := node.contextData[lastIdx]!
    let parentsSupport := parentsSupportBreak stack node
    match O.getFormattingInvariant lineIndex line with
    | some value => value.mapCanBreak parentsSupport
    | none =>
      let window := O.getTokenTypeWindow lineIndex line
      let prev := window.1
      let cur := window.2
      let glc := fun (filter : CT → Bool) => getLastContext stack node filter
      let brokenOrChild := fun (p : FormattingContext × FormattingContextState) => p.2.isBroken || p.2.isChildBroken
      let requirement : DR :=
        if isOp prev (· == .oLParen) && isOp cur (· == .oRParen) then
          ifElseOr ((glc fun | .brackets .round _ => true | _ => false).map fun (_, data) => data.isChildBroken || data.isBroken)
            .mustBreak .mustNotBreak .mustNotBreak
        else if isOp prev (· == .oLBrack) && isOp cur (· == .oRBrack) then .mustNotBreak
        else if isOp prev (· == .oGreaterThan .chGeneric) && isOp cur (· == .oLParen) then .mustNotBreak
        else if isKw prev (fun | .kClass | .kRecord => true | _ => false) &&
            isKw cur (fun | .kHelper | .kAbstract | .kSealed => true | _ => false) then .mustNotBreak
        else if (isKw prev (· == .kHelper) || isOp prev (· == .oRParen)) && isKw cur (· == .kFor) then .mustNotBreak
        else if isOp prev (· == .oCaret .caType) then .mustNotBreak
        else if isOp cur (· == .oCaret .caDeref) then .mustNotBreak
        else if (match line.ltype with | .lRoutineHeader | .lPropertyDeclaration => true | _ => false) &&
            isKw cur KeywordKind.isDirective then
          ifElseOrDefault ((glc (ctIs .directiveList)).bind fun (_, data) => data.oneElementPerLine) .mustBreak .mustNotBreak
        else if isOp prev (· == .oComma) then
          let importRequirement : Option DR :=
            if (match line.ltype with | .lImportClause | .lExportClause => true | _ => false) then some .mustBreak else none
          let commaListRequirement :=
            ifElseMap ((glc (ctIs .commaList)).bind fun (_, data) => data.oneElementPerLine) .mustBreak .mustNotBreak
          let parensRequirement :=
            ifElseMap ((glc fun | .brackets _ _ | .semicolonList => true | _ => false).bind fun (ctx, data) =>
              if ctx.contextType != .semicolonList then some data.isBroken else none) .mustBreak .indifferent
          ((importRequirement.or commaListRequirement).or parensRequirement).getD .indifferent
        else if isOp prev (· == .oSemicolon) then
          let semicolonListRequirement :=
            ifElseMap ((glc (ctIs .semicolonList)).bind fun (_, data) => data.oneElementPerLine) .mustBreak .mustNotBreak
          let parensRequirement :=
            ifElseMap ((glc ContextType.isBrackets).map fun (_, data) => data.isBroken) .mustBreak .indifferent
          (semicolonListRequirement.or parensRequirement).getD .indifferent
        else if isKw prev (fun | .kClass | .kTo => true | _ => false) &&
            isKw cur (fun | .kFunction | .kProcedure | .kConstructor | .kDestructor => true | _ => false) then .mustNotBreak
        else if isKw prev (fun | .kFunction | .kProcedure | .kConstructor | .kDestructor => true | _ => false) &&
            (cur == some .tIdentifier || isCd cur fun _ => true) then .mustNotBreak
        else if isCd prev ConditionalDirectiveKind.isIf || isCd cur ConditionalDirectiveKind.isIf then
          -- the `if` type conditional directives effectively have no bearing on the formatting
          .indifferent
        else if isCd prev ConditionalDirectiveKind.isElse then
          ifElseOrDefault ((glc (ctIs .conditionalDirective)).bind fun (_, data) => data.oneElementPerLine) .mustBreak .mustNotBreak
        else if isCd cur fun _ => true then
          ifElseOrDefault ((glc (ctIs .conditionalDirective)).bind fun (_, data) => data.oneElementPerLine) .mustBreak .mustNotBreak
        else if (prev == some .tIdentifier ||
              isKw prev (fun | .kInterface | .kClass | .kHelper | .kAbstract | .kSealed | .kFunction | .kProcedure | .kArray | .kString => true
                             | _ => false)) && isOp cur OperatorKind.isOpener then .mustNotBreak
        else if isOp prev (· == .oColon) && isOp cur (· == .oLParen) && line.ltype == .lVariantRecordCaseArm then .mustNotBreak
        else if isOp prev OperatorKind.isOpener then
          ifElseOrDefault ((glc ContextType.isBrackets).map fun (ctx, _) =>
            (match ctx.contextType with | .brackets _ .invisible => true | _ => false)) .mustNotBreak .indifferent
        else if isKw prev (· == .kReference) && isKw cur (· == .kTo) then .mustNotBreak
        else if isOp cur OperatorKind.isCloser then
          ifElseOrDefault ((glc ContextType.isBrackets).map fun (ctx, data) =>
            (match ctx.contextType with | .brackets _ .breakClose | .brackets _ .expanded => true | _ => false) && data.isBroken)
            .mustBreak .mustNotBreak
        else if isOp cur (fun | .oComma | .oSemicolon | .oColon | .oAssign => true | _ => false) then .mustNotBreak
        else if isOp cur (· == .oDot) && lastContext.contextType == .memberAccess then
          if ((glc fun | .routineHeader | .brackets _ _ | .type => true | _ => false).map fun ctx => ctx.1.contextType)
              == some .routineHeader then .mustNotBreak
          else ifElseOrDefault ctxData.oneElementPerLine .mustBreak .mustNotBreak
        else if isOp cur (· == .oEqual .eDecl) then .mustNotBreak
        else if isKw cur (fun | .kIn .iForLoop | .kTo | .kDownto => true | _ => false) then
          ifElseOrDefault ((glc (ctIs .forLoop)).map fun (_, data) => data.isChildBroken) .mustBreak .indifferent
        else if isKw prev (fun | .kIn .iForLoop | .kTo | .kDownto => true | _ => false) && line.ltype == .lForLoop then .mustNotBreak
        else if isKw cur (· == .kAt) then
          ifElseOrDefault ((glc (ctIs .raiseAt)).map brokenOrChild) .mustBreak .indifferent
        else if (match cur with
            | some op@(.tOp _) | some op@(.tKeyword _) => (getOperatorPrecedence op).isSome && isBinary op prev
            | _ => false) then
          ifElseOrDefault
            (if lastContext.contextType.isPrecedence then ctxData.oneElementPerLine else none) .mustBreak .mustNotBreak
        else if isOp prev (· == .oEqual .eDecl) &&
            isKw cur (fun | .kClass | .kInterface | .kRecord | .kDispInterface | .kPacked | .kObject => true | _ => false) then
          .indifferent
        else if isOp prev (fun | .oEqual .eDecl | .oAssign => true | _ => false) then
          ifElseOrDefault ((glc fun | .typedAssignment | .assignment => true | _ => false).map brokenOrChild) .mustBreak .indifferent
        else if (match prev with
            | some op@(.tOp _) | some op@(.tKeyword _) => (getOperatorPrecedence op).isSome
            | _ => false) then .mustNotBreak
        else if isKw cur (· == .kEnd) then
          ifElseOrDefault ((glc fun | .commaElem | .assignRHS => true | _ => false).bind fun (_, data) => data.breakAnonymousRoutine)
            .mustBreak .mustNotBreak
        else if isKw prev (fun | .kIf | .kCase | .kWhile | .kUntil | .kOn => true | _ => false) then .mustNotBreak
        else if isKw prev (· == .kWith) then
          -- `with` is treated like a `uses` clause when there is a comma list, otherwise like an `if` statement
          ifElseOrDefault
            ((stack.find? fun (_, ctx) => (match ctx.contextType with | .commaList | .guardClause => true | _ => false)).map
              fun (_, ctx) => ctx.contextType == .commaList) .indifferent .mustNotBreak
        else if isKw prev (fun | .kRaise | .kAt => true | _ => false) then .mustNotBreak
        -- for `set of` anonymous enums
        else if isKw prev (· == .kOf) && isOp cur (· == .oLParen) then .mustNotBreak
        -- for `procedure of object` to allow wrapping `object`
        else if isKw prev (· == .kOf) && isKw cur (· == .kObject) then
          ifElseOrDefault
            ((stack.find? fun (_, ctx) => ctx.contextType == .assignRHS).map fun (idx, _) => (node.contextData[idx]!).isChildBroken)
            .indifferent .mustNotBreak
        else if isKw prev (· == .kOf) then
          ifElseOr ((glc (ctIs .base)).map fun (_, data) => data.isChildBroken) .indifferent .mustNotBreak .indifferent
        else if isKw cur (fun | .kThen | .kDo | .kOf => true | _ => false) then .mustNotBreak
        else if isKw prev (fun | .kThen | .kDo => true | _ => false) && isKw cur (· == .kBegin) then
          ifElseOrDefault ((glc (ctIs .controlFlowBegin)).map fun (_, data) => data.isChildBroken) .mustBreak .indifferent
        else if isKw cur (· == .kElse) then .mustBreak
        else if prev.isSome && isKw cur (· == .kBegin) then
          ifElseOrDefault ((glc fun | .commaElem | .assignRHS => true | _ => false).bind fun (_, data) => data.breakAnonymousRoutine)
            .mustBreak .mustNotBreak
        else if isKw prev (fun | .kConst .dkInline | .kConst .dkParam | .kVar .dkInline | .kVar .dkParam => true | _ => false) then
          .mustNotBreak
        else if isKw prev (· == .kProperty) && cur == some .tIdentifier then .mustNotBreak
        else if isKw prev (· == .kFor) && line.ltype == .lForLoop then .mustNotBreak
        else .indifferent
      let requirement : DR :=
        if requirement == .indifferent && isCd prev ConditionalDirectiveKind.isEnd && cur == some .tIdentifier then
          ifElseOrDefault ((glc ctAny).map fun (_, data) => data.isChildBroken) .mustBreak .indifferent
        else if requirement == .indifferent && isCd prev ConditionalDirectiveKind.isEnd && cur.isSome then .mustBreak
        else requirement
      requirement.mapCanBreak parentsSupport

end Pasfmt
