/-
  The whole wrapper stage with the search inside: `wrapStage` (Model/WrapStage.lean) driven by the model of the search
  (Model/Search.lean), which is stateful (the child-line cache lives as long as the stage).
-/
import PasfmtModel.Model.Search

namespace Pasfmt

/-- apply the solutions the search finds for a list of top-level lines, in order; also returns them -/
def applyLinesS (phase : Nat) (lines : List Line) : List Nat → SearchState → FT → List (Nat × Nat × Sol) →
    Option (FT × SearchState × List (Nat × Nat × Sol))
  | [], st, ft, acc => some (ft, st, acc)
  | i :: rest, st, ft, acc =>
    match searchSolve st ft i with
    | (none, st') => applyLinesS phase lines rest st' ft acc
    | (some s, st') =>
      match applySol lines ft s i with
      | none => none
      | some ft1 => applyLinesS phase lines rest st' ft1 (acc ++ [(phase, i, s)])

/-- `OptimisingLineFormatter::format`, search included: final tokens and the solutions applied, in order -/
def wrapStageFull (cfg : Config) (lines : List Line) (ft : FT) : Option (FT × List (Nat × Nat × Sol)) :=
  let st0 := searchInit cfg lines ft
  match applyLinesS 0 lines (firstPassLines lines) st0 ft [] with
  | none => none
  | some (ft1, st1, sols1) =>
    if !cfg.fmtMls then some (zeroLineStartSpaces ft1, sols1)
    else
      match mlsPass1 cfg.settings lines lines.zipIdx ft1 [] with
      | none => none
      | some (ft2, toReflow) =>
        match applyLinesS 1 lines (sortDedup toReflow) st1 ft2 sols1 with
        | none => none
        | some (ft3, _, sols2) =>
          match mlsPass2 cfg.settings lines ft3 with
          | none => none
          | some ft4 => some (zeroLineStartSpaces ft4, sols2)

end Pasfmt
