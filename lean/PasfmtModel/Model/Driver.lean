/-
  Line-protocol driver: one record per input line, one canonical answer line per record.
-/
import PasfmtModel.Model.Contracts
import PasfmtModel.Model.Relex
import PasfmtModel.Model.Cursor
import PasfmtModel.Model.Parser
import PasfmtModel.Model.IO
import PasfmtModel.Model.Consolidators
import PasfmtModel.Model.ParserFull
import PasfmtModel.Model.WrapStage
import PasfmtModel.Model.WrapStageFull
import PasfmtModel.Model.PipelineFull
import PasfmtModel.Model.LayoutCheck
import PasfmtModel.Model.CrlfCheck
import PasfmtModel.Model.ParserChecks
import PasfmtModel.Model.BytesCheck

namespace Pasfmt

def showRawToks (toks : List RawTok) : String :=
  " ".intercalate (toks.map fun t => s!"{t.ws.length}:{t.content.length}:{t.kind.toRust}")

def showList (xs : List String) (sep : String := " ") : String :=
  if xs.isEmpty then "-" else sep.intercalate xs

def parseList (s : String) (sep : String := " ") : List String :=
  if s == "-" then [] else s.splitOn sep

def parseCfg (s : String) : Option Config := do
  let mut c := Config.default
  for kv in s.splitOn "," do
    match kv.splitOn "=" with
    | [k, v] =>
      let n ← v.toNat?
      c := match k with
        | "w" => { c with wrapColumn := n }
        | "b" => { c with beginAlwaysWrap := n == 1 }
        | "m" => { c with fmtMls := n == 1 }
        | "t" => { c with useTabs := n == 1 }
        | "tw" => { c with tabWidth := n }
        | "ci" => { c with contIndents := n }
        | "crlf" => { c with crlf := n == 1 }
        | _ => c
    | _ => none
  return c

def parseLine (s : String) : Option Line :=
  match s.splitOn ":" with
  | [ty, lvl, par, toks] => do
    let ty ← LogicalLineType.ofRust ty
    let lvl ← lvl.toNat?
    let par ← (if par == "-" then some none else
      match par.splitOn "." with
      | [a, b] => do
        let a ← a.toNat?
        let b ← b.toNat?
        pure (some { lineIndex := a, tokenIndex := b : LineParent })
      | _ => none)
    let toks ← (parseList toks ",").mapM String.toNat?
    pure { parent := par, level := lvl, tokens := toks, ltype := ty }
  | _ => none

def showLine (l : Line) : String :=
  let par := match l.parent with | none => "-" | some p => s!"{p.lineIndex}.{p.tokenIndex}"
  s!"{l.ltype.toRust}:{l.level}:{par}:{showList (l.tokens.map toString) ","}"

def parseLines (s : String) : Option (List Line) := (parseList s ";").mapM parseLine

def showLines (ls : List Line) : String := showList (ls.map showLine) ";"

def parseFmt (s : String) : Option FmtData :=
  match s.splitOn "." with
  | [a, b, c, d, e] => do
    let a ← a.toNat?
    let b ← b.toNat?
    let c ← c.toNat?
    let d ← d.toNat?
    let e ← e.toNat?
    pure { ignored := e == 1, nl := a, ind := b, cont := c, sp := d }
  | _ => none

def showFmt (f : FmtData) : String :=
  s!"{f.nl}.{f.ind}.{f.cont}.{f.sp}.{if f.ignored then 1 else 0}"

def parseChanged (s : String) : Option (List (Nat × Bytes)) :=
  (parseList s).mapM fun e =>
    match e.splitOn ":" with
    | [i, h] => do
      let i ← i.toNat?
      let b ← ofHex h
      pure (i, b)
    | _ => none

def showChanged (before after : List Bytes) : String :=
  showList (((before.zip after).zipIdx.filter fun ((a, b), _) => a != b).map fun ((_, b), i) => s!"{i}:{toHex b}")

def bool01 (b : Bool) : String := if b then "1" else "0"

/-! ### solutions of the wrapper (hook record): `ind.cont[d;d;…]`, `d` = `B<n>` or `C`, then `(<line>=<sol>,…)` -/

def takeNat (cs : List Char) : Option (Nat × List Char) :=
  let ds := cs.takeWhile Char.isDigit
  if ds.isEmpty then none else (String.ofList ds).toNat?.map (·, cs.dropWhile Char.isDigit)

mutual
def parseSolGo : Nat → List Char → Option (Sol × List Char)
  | 0, _ => none
  | fuel + 1, cs =>
    match takeNat cs with
    | some (ind, '.' :: r1) =>
      match takeNat r1 with
      | some (cont, '[' :: r2) =>
        match r2 with
        | ']' :: r3 => some (.mk ind cont [], r3)
        | _ =>
          match parseDecsGo fuel r2 with
          | some (ds, ']' :: r3) => some (.mk ind cont ds, r3)
          | _ => none
      | _ => none
    | _ => none

def parseDecsGo : Nat → List Char → Option (List (Dec × List (Nat × Sol)) × List Char)
  | 0, _ => none
  | fuel + 1, cs =>
    let head : Option (Dec × List Char) :=
      match cs with
      | 'C' :: r => some (.cont, r)
      | 'B' :: r => (takeNat r).map fun (n, r') => (.brk n, r')
      | _ => none
    match head with
    | none => none
    | some (d, r) =>
      let kids : Option (List (Nat × Sol) × List Char) :=
        match r with
        | '(' :: r1 => parseKidsGo fuel r1
        | _ => some ([], r)
      match kids with
      | none => none
      | some (ks, r2) =>
        match r2 with
        | ';' :: r3 => (parseDecsGo fuel r3).map fun (ds, r4) => ((d, ks) :: ds, r4)
        | _ => some ([(d, ks)], r2)

def parseKidsGo : Nat → List Char → Option (List (Nat × Sol) × List Char)
  | 0, _ => none
  | fuel + 1, cs =>
    match takeNat cs with
    | some (li, '=' :: r1) =>
      match parseSolGo fuel r1 with
      | some (s, ',' :: r2) => (parseKidsGo fuel r2).map fun (ks, r3) => ((li, s) :: ks, r3)
      | some (s, ')' :: r2) => some ([(li, s)], r2)
      | _ => none
    | _ => none
end

mutual
def showSol : Sol → String
  | .mk ind cont decs => s!"{ind}.{cont}[{showDecs decs}]"
def showDecs : List (Dec × List (Nat × Sol)) → String
  | [] => ""
  | (d, ks) :: rest =>
    (match d with | .brk n => s!"B{n}" | .cont => "C") ++
    (match ks with | [] => "" | _ => "(" ++ showKids ks ++ ")") ++
    (match rest with | [] => "" | _ => ";" ++ showDecs rest)
def showKids : List (Nat × Sol) → String
  | [] => ""
  | (li, s) :: rest => s!"{li}={showSol s}" ++ (match rest with | [] => "" | _ => "," ++ showKids rest)
end

/-- one hook record `phase:line:solution` -/
def parseSolRecord (s : String) : Option (Nat × Nat × Sol) :=
  match s.splitOn ":" with
  | [p, l, sol] => do
    let p ← p.toNat?
    let l ← l.toNat?
    let cs := sol.toList
    match parseSolGo (cs.length + 2) cs with
    | some (x, []) => pure (p, l, x)
    | _ => none
  | _ => none

/-- `ck`/`cl` fields: the three consolidators applied to the parser's own kinds and lines -/
def showConsolidated (pkS plS : String) : String :=
  match (parseList pkS).mapM TokenType.ofRust, parseLines plS with
  | some pk, some pl =>
    let po := consolidators { kinds := pk, lines := pl }
    let ck := ((pk.zip po.kinds).zipIdx.filter fun ((a, b), _) => a != b).map fun ((_, b), i) => s!"{i}:{b.toRust}"
    s!"ck={showList ck}\tcl={showLines po.lines}\t"
  | _, _ => "ck=bad-record\tcl=bad-record\t"

/-- the `fmt` stream: whole pipeline with the parser and wrapper outputs taken from the record -/
def handleFmt (cfgS inpS kindsS linesS postS changedS alnumS cursorsS : String) (wf : Bool := false) (cons : String := "")
    (solsS : Option String := none) : String :=
  match parseCfg cfgS, ofHex inpS, (parseList kindsS).mapM TokenType.ofRust, parseLines linesS,
        (parseList postS).mapM parseFmt, parseChanged changedS, (parseList alnumS).mapM ofHex,
        (parseList cursorsS).mapM String.toNat? with
  | some cfg, some inp, some kinds, some lines, some post, some changed, some alnum, some cursors =>
    match lex inp with
    | none => "model-none"
    | some raw =>
      let O : Oracles :=
        { parser := fun _ => { kinds := kinds, lines := lines },
          wrap := fun _ _ ft =>
            (ft.zip post).zipIdx.map fun ((t, f), i) =>
              match changed.lookup i with
              | some c => { tok := { t.tok with ws := [], content := c }, fmt := f }
              | none => { t with fmt := f },
          alnum := fun b => alnum.contains b }
      let (marks, lines', ft1) := preWrap O raw
      let out := formatTokens cfg O raw
      let ft2 := O.wrap cfg lines' ft1
      -- the wrapper stage recomputed by the exact model from the solutions the search returned (hook record)
      let ws : String := match solsS with
        | none => ""
        | some ss =>
          match (parseList ss).mapM parseSolRecord with
          | none => "wp=bad-record\twcn=bad-record\tsx=0\t"
          | some recs =>
            let solve : Nat → Nat → Option Sol := fun ph li => (recs.find? fun (p, l, _) => p == ph && l == li).map (·.2.2)
            -- every recorded solution belongs to a line the model wraps in that phase (first phase: checked here)
            let elig := firstPassLines lines'
            let sx := recs.all fun (p, l, _) => p != 0 || elig.contains l
            match wrapStage solve cfg lines' ft1 with
            | none => "wp=model-none\twcn=model-none\tsx=" ++ bool01 sx ++ "\t"
            | some m =>
              s!"wp={showList (m.map fun t => showFmt t.fmt)}\twcn={showChanged (ft1.map (·.tok.content)) (m.map (·.tok.content))}\tsx={bool01 sx}\t"
      let wc := wrapFrameB ft1 ft2 && wrapContentB cfg ft1 ft2 && wrapIgnoredB ft1 ft2
      let ndOk := contentsNdB raw
      -- C02 contract (well-formed cases only): the windowed re-scan of the output gives back the emitted tokens
      let rx := !wf || relexB cfg.settings raw ft2
      let marksS := showList ((marks.zipIdx.filter (·.1)).map fun (_, i) => toString i)
      let pre := showList (ft1.map fun t => showFmt t.fmt)
      let prec := showChanged (raw.map (·.content)) (ft1.map (·.tok.content))
      s!"{cons}{ws}marks={marksS}\tlv={showLines lines'}\tpre={pre}\tprec={prec}\tkr=1\twc={bool01 wc}\tnd={bool01 ndOk}\trx={bool01 rx}\tcur={showList ((trackCursors cfg.settings raw ft2 cursors).map fun o => match o with | some n => toString n | none => "underflow")}\tout={toHex out}\tinfo_sr={bool01 (safeRunAllGo false ft2)}\tinfo_sn={bool01 (noSafetyNetGo false ft2)}\tinfo_cn={bool01 (canonAll ft2)}\tinfo_nn={bool01 (noNlAll ft2)}\tinfo_nt={bool01 (noTabAll ft2)}"
  | _, _, _, _, _, _, _, _ => "bad-record"

/-- the `wsearch` stream: the whole wrapper stage with the model of the search inside (no recorded solutions) -/
def handleWsearch (cfgS inpS kindsS linesS alnumS : String) : String :=
  match parseCfg cfgS, ofHex inpS, (parseList kindsS).mapM TokenType.ofRust, parseLines linesS, (parseList alnumS).mapM ofHex with
  | some cfg, some inp, some kinds, some lines, some alnum =>
    match lex inp with
    | none => "model-none"
    | some raw =>
      let O : Oracles := { parser := fun _ => { kinds := kinds, lines := lines }, wrap := fun _ _ ft => ft, alnum := fun b => alnum.contains b }
      let (_, lines', ft1) := preWrap O raw
      match wrapStageFull cfg lines' ft1 with
      | none => "model-none"
      | some (m, sols) =>
        let ws := showList (sols.map fun (p, l, s) => s!"{p}:{l}:{showSol s}")
        s!"ws={ws}\twp={showList (m.map fun t => showFmt t.fmt)}\twcn={showChanged (ft1.map (·.tok.content)) (m.map (·.tok.content))}"
  | _, _, _, _, _ => "bad-record"

/-- the `full` stream: the whole formatter as one closed model function (no recorded stage) -/
def handleFull (cfgS inpS alnumS : String) : String :=
  match parseCfg cfgS, ofHex inpS, (parseList alnumS).mapM ofHex with
  | some cfg, some inp, some alnum =>
    match formatFull cfg (fun b => alnum.contains b) inp with
    | none => "model-none"
    | some out =>
      -- the premises of `C09.C09_format_full_crlf_config` on this input (tally only)
      let c09 := if CrlfFull.crlfOk23 cfg (fun b => alnum.contains b) inp then "hold" else "no"
      -- the premise of `C03.C03_format_full_checked`: the output is another layout of the input's tokens (tally only)
      let c03 := layoutStatus cfg (fun b => alnum.contains b) inp out
      -- the premise of `C08.C08_format_full_checked` (tally only)
      let c08 := if canonPremisesB' cfg (fun b => alnum.contains b) inp then "hold" else "no"
      -- the hypothesis `CanonState` of the byte-level clauses of C08 on the final token state (tally only)
      let c08b := match finalStateFull cfg (fun b => alnum.contains b) inp with
        | some ftz => if canonStateB cfg.settings ftz then "hold" else "no"
        | none => "none"
      s!"out={toHex out}\tinfo_c09={c09}\tinfo_c03={c03}\tinfo_c08={c08}\tinfo_c08b={c08b}"
  | _, _, _ => "bad-record"

/-- the `full2` stream: two layouts of the same tokens through the closed model, plus the premises of the layout
    theorem (C06.C06_format_full_checked) evaluated on the pair -/
def handleFull2 (cfgS inpS inp2S alnumS : String) : String :=
  match parseCfg cfgS, ofHex inpS, ofHex inp2S, (parseList alnumS).mapM ofHex with
  | some cfg, some inp, some inp2, some alnum =>
    let al : Bytes → Bool := fun b => alnum.contains b
    match formatFull cfg al inp, formatFull cfg al inp2 with
    | some out, some out2 =>
      let status := layoutStatus cfg al inp inp2
      let thm := if layoutPremisesB' cfg al inp inp2 then (if out == out2 then "ok" else "BROKEN") else "na"
      s!"out={toHex out}\tout2={toHex out2}\tinfo_c06={status}\tinfo_c06thm={thm}"
    | _, _ => "model-none"
  | _, _, _, _ => "bad-record"

def parseParent (s : String) : Option (Option LineParent) :=
  if s == "-" then some none else
  match s.splitOn "." with
  | [a, b] => do
    let a ← a.toNat?
    let b ← b.toNat?
    pure (some { lineIndex := a, tokenIndex := b })
  | _ => none

def parsePOp (s : String) : Option POp :=
  if s == "N" then some .next
  else if s == "S" then some .skip
  else if s == "E" then some .finishEmpty
  else if s == "U" then some .markUnfinished
  else if s == "p" then some .popLine
  else if s == "L" then some .pushLast
  else if s == "l" then some .popLast
  else if s.startsWith "F" then
    match (s.drop 1).toString.splitOn ":" with
    | [p, l] => do
      let p ← parseParent p
      let l ← l.toNat?
      pure (.finish p l)
    | _ => none
  else if s.startsWith "P" then do
    let p ← parseParent (s.drop 1).toString
    match p with
    | some p => pure (.pushLine p)
    | none => none
  else if s.startsWith "T" then (LogicalLineType.ofRust (s.drop 1).toString).map .setType
  else none

def parsePassOps (s : String) : Option (List Nat × List POp) :=
  match s.splitOn "|" with
  | [toks, ops] => do
    let toks ← (parseList toks ",").mapM String.toNat?
    let ops ← (parseList ops " ").mapM parsePOp
    pure (toks, ops)
  | _ => none

def showPLine (l : PLine) : String :=
  let par := match l.parent with | none => "-" | some p => s!"{p.lineIndex}.{p.tokenIndex}"
  s!"{l.ltype.toRust}:{l.level}:{par}:{showList (l.tokens.map toString) ","}"

/-- the `parse` stream: directive passes + replay of the primitive trace of every pass -/
def handleParse (kindsS passesS : String) : String :=
  match (parseList kindsS).mapM RawTokenType.ofRust, (parseList passesS ";").mapM parsePassOps with
  | some kinds, some po =>
    let ps := passes kinds
    let passesStr := showList (ps.map fun p => showList (p.map toString) ",") ";"
    let linesStr := match parseFile kinds po with
      | some ls => showList (ls.map showPLine) ";"
      | none => "machine-rejects"
    s!"passes={passesStr}\tlines={linesStr}"
  | _, _ => "bad-record"

/-- the `pfull` stream: the whole parser, control flow included; `tr` = replaying the control flow's own primitive
    trace through the machine (`parseFile`) gives the same lines (so the C14 theorems, which hold for every trace,
    apply to the model parser's output) -/
def handlePfull (kindsS nlS : String) : String :=
  match (parseList kindsS).mapM RawTokenType.ofRust with
  | some kinds =>
    let nl := if nlS == "-" then [] else nlS.toList.map (· == '1')
    match parseFileMasked (kinds.zip nl) with
    | none => "model-none"
    | some o =>
      let pk := showList (o.kinds.map fun k => k.toTokenType.toRust)
      let tr := match parseFile kinds o.traces with
        | some ls => ls == o.lines
        | none => false
      -- the hypothesis of `C14.parser_model_single_eof_line` (an end-of-file line in every pass), tallied
      let eofp := Parents.eofOk o
      s!"pk={pk}\tpl={showList (o.lines.map showPLine) ";"}\tinfo_tr={bool01 tr}\tinfo_eofline={bool01 eofp}"
  | none => "bad-record"

def parseTable (s : String) : Option (List (Bytes × Option Bytes)) :=
  (parseList s).mapM fun e =>
    match e.splitOn ":" with
    | [a, b] => do
      let a ← ofHex a
      if b == "none" then pure (a, none) else do
        let b ← ofHex b
        pure (a, some b)
    | _ => none

def tableFn (t : List (Bytes × Option Bytes)) (k : Bytes) : Option Bytes :=
  match t.lookup k with
  | some v => v
  | none => none

def parseMode (s : String) : Option IO.Mode :=
  if s == "files" then some .files else if s == "stdout" then some .stdout else if s == "check" then some .check else none

def parseEnc (s : String) : Option IO.Enc :=
  if s == "utf8" then some .utf8 else if s == "utf16le" then some .utf16le else if s == "utf16be" then some .utf16be
  else if s == "other" then some (.other 0) else none

/-- `io` stream: one file in one mode; `fmtT` maps decoded text to formatted text, `decT`/`encT`
    are the external codec's results for a legacy encoding -/
def handleIo (modeS encS contentS headerS fmtT decT encT : String) : String :=
  match parseMode modeS, parseEnc encS, ofHex contentS, ofHex headerS, parseTable fmtT, parseTable decT, parseTable encT with
  | some mode, some enc, some content, some header, some ft, some dt, some et =>
    let C := IO.driverCodec (tableFn dt) (tableFn et)
    let fmt : Bytes → Bytes := fun t => (tableFn ft t).getD t
    let o := IO.runFile C fmt id enc mode header content
    let stdin := IO.runStdin C fmt enc content
    let stdinS := match stdin with | some b => toHex b | none => "fail"
    s!"file={toHex o.file}\tinfo_wrote={bool01 o.wrote}\tstdout={toHex o.stdout}\tfailed={bool01 o.failed}\tstdin={stdinS}\tcheckstdin={bool01 (IO.checkStdin C fmt enc content)}"
  | _, _, _, _, _, _, _ => "bad-record"

/-- `sched` stream: per-thread file sequences; answers the buffer length each step starts with -/
def handleSched (workersS : String) : String :=
  match (parseList workersS ";").mapM (fun w => (parseList w ",").mapM String.toNat?) with
  | some ws =>
    -- each file is represented by its length; the buffer after a step holds that many bytes
    let stale := ws.map fun files =>
      (files.foldl (fun (acc : List Nat × Nat) len => (acc.1 ++ [acc.2], len)) ([], 0)).1
    showList (stale.map fun l => showList (l.map toString) ",") ";"
  | none => "bad-record"

def parseKV (s : String) : Option (List (String × String)) :=
  (parseList s).mapM fun e =>
    match e.splitOn "=" with
    | k :: rest => some (k, "=".intercalate rest)
    | _ => none

/-- `cfg` stream: which directory's pasfmt.toml is used, the effective values, acceptance -/
def handleCfg (dirsS fileS ovS knownS validS defaultsS : String) : String :=
  match (parseList dirsS).mapM String.toNat?, parseKV fileS, parseKV ovS, parseKV validS, parseKV defaultsS with
  | some dirs, some file, some ov, some valid, some defaults =>
    let known := parseList knownS
    let found := IO.findConfig (fun (p : Nat × Nat) => p.2 == 1) (dirs.zipIdx.map fun (d, i) => (i, d))
    let S : IO.ConfigSpec String String :=
      { known := fun k => known.contains k,
        valid := fun k v => valid.contains (k, v),
        default := fun k => (defaults.lookup k).getD "" }
    let eff := known.map fun k => s!"{k}={IO.effective S file ov k}"
    let foundS := match found with | some (i, _) => toString i | none => "none"
    s!"found={foundS}\tok={bool01 (IO.configOk S file ov)}\tinfo_eff={showList eff ","}"
  | _, _, _, _, _ => "bad-record"

def handleLine (line : String) : String :=
  match line.splitOn "\t" with
  | ["lex", h] =>
    match ofHex h with
    | none => "bad-hex"
    | some inp =>
      match lex inp with
      | none => "model-none"
      | some toks => showRawToks toks
  | ["lexsimd", h] =>
    match ofHex h with
    | none => "bad-hex"
    | some inp =>
      match lexWith true inp with
      | none => "model-none"
      | some toks => showRawToks toks
  | ["fmt", cfg, inp, kinds, lines, post, changed, alnum, cursors] => handleFmt cfg inp kinds lines post changed alnum cursors
  | ["fmt", cfg, inp, kinds, lines, post, changed, alnum, cursors, wf] => handleFmt cfg inp kinds lines post changed alnum cursors (wf == "1")
  | ["fmt", cfg, inp, kinds, lines, post, changed, alnum, cursors, wf, pk, pl] =>
    handleFmt cfg inp kinds lines post changed alnum cursors (wf == "1") (showConsolidated pk pl)
  | ["fmt", cfg, inp, kinds, lines, post, changed, alnum, cursors, wf, pk, pl, sols] =>
    handleFmt cfg inp kinds lines post changed alnum cursors (wf == "1") (showConsolidated pk pl) (some sols)
  | ["parse", kinds, passesOps] => handleParse kinds passesOps
  | ["pfull", kinds, nl] => handlePfull kinds nl
  | ["wsearch", cfg, inp, kinds, lines, alnum] => handleWsearch cfg inp kinds lines alnum
  | ["full", cfg, inp, alnum] => handleFull cfg inp alnum
  | ["full2", cfg, inp, inp2, alnum] => handleFull2 cfg inp inp2 alnum
  | ["io", mode, enc, content, header, fmtT, decT, encT] => handleIo mode enc content header fmtT decT encT
  | ["sched", workers] => handleSched workers
  | ["cfg", dirs, file, ov, known, valid, defaults] => handleCfg dirs file ov known valid defaults
  | _ => "bad-op"

partial def loop (hin : IO.FS.Stream) (hout : IO.FS.Stream) : IO Unit := do
  let line ← hin.getLine
  if line.isEmpty then return ()
  let l := if line.endsWith "\n" then (line.dropEnd 1).toString else line
  hout.putStrLn (handleLine l)
  loop hin hout

def driverMain (_args : List String) : IO Unit := do
  let hin ← IO.getStdin
  let hout ← IO.getStdout
  loop hin hout
  hout.flush

end Pasfmt
