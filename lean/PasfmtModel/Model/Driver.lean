/-
  Line-protocol driver: one record per input line, one canonical answer line per record.
-/
import PasfmtModel.Model.Lexer

namespace Pasfmt

def showRawToks (toks : List RawTok) : String :=
  " ".intercalate (toks.map fun t => s!"{t.ws.length}:{t.content.length}:{t.kind.toRust}")

def handleLine (line : String) : String :=
  match line.splitOn "\t" with
  | ["lex", h] =>
    match ofHex h with
    | none => "bad-hex"
    | some inp =>
      match lex inp with
      | none => "model-none"
      | some toks => showRawToks toks
  | ["lexsimd", h] =>
    match ofHex h with
    | none => "bad-hex"
    | some inp =>
      match lexWith true inp with
      | none => "model-none"
      | some toks => showRawToks toks
  | _ => "bad-op"

partial def loop (hin : IO.FS.Stream) (hout : IO.FS.Stream) : IO Unit := do
  let line ← hin.getLine
  if line.isEmpty then return ()
  let l := if line.endsWith "\n" then (line.dropEnd 1).toString else line
  hout.putStrLn (handleLine l)
  loop hin hout

def driverMain (_args : List String) : IO Unit := do
  let hin ← IO.getStdin
  let hout ← IO.getStdout
  loop hin hout
  hout.flush

end Pasfmt
