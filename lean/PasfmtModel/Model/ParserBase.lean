/-
  Exact model of the control flow of `core/src/defaults/parser.rs`, part 1:
  the context types, the parser state, the token accessors, the token retyping, `ParserContexts`,
  the `ContextEndingPredicate`s and the free predicates at the end of parser.rs.

  Nothing here is recursive over the grammar; the only recursion is bounded iteration over the pass indices.
-/
import PasfmtModel.Model.Parser

namespace Pasfmt.PFull

/-! ### parsing auxiliaries (enums at the end of parser.rs) -/

/-- `BlockKind` -/
inductive BlockKind where
  | bTry | bExcept | bElse | bFinally | bBegin | bAsm | bRepeat | bInitialization | bFinalization
  deriving DecidableEq, Repr, Inhabited

/-- `StatementKind` -/
inductive StatementKind where
  | sCase | sVariantRecord | sExcept | sNormal
  deriving DecidableEq, Repr, Inhabited

/-- `ContextType` -/
inductive ContextType where
  | unit | library | package | program | interface | implementation | typeBlock | visibilityBlock
  | typeDeclaration | declarationBlock | subRoutine | variantRecord | variantDeclarationBlock | labelBlock
  | statementBlock (b : BlockKind)
  | statement (k : StatementKind)
  | topLevelStatement | blockClause | importExport | utility
  deriving DecidableEq, Repr, Inhabited

def ContextType.isStatement : ContextType → Bool
  | .statement _ => true
  | _ => false

def ContextType.isStatementBlock : ContextType → Bool
  | .statementBlock _ => true
  | _ => false

/-- `ParserContextLevel` (`Parent(LineParent, u16)` / `Level(i16)`) -/
inductive ParserContextLevel where
  | parent (p : LineParent) (level : Nat)
  | level (delta : Int)
  deriving DecidableEq, Repr, Inhabited

/-- `ParserContextLevel::parent` -/
def ParserContextLevel.parent? : ParserContextLevel → Option LineParent
  | .level _ => none
  | .parent p _ => some p

/-- the `fn(&LLP) -> bool` pointers stored in contexts (defunctionalised): the named free functions and the
    closures written in place -/
inductive CtxPred where
  | neverEnding
  | kwDo
  | kwThen
  | kwOf
  | sectionHeadings
  | visibilityBlockEnding
  | beginAsm
  | elseEnd
  | kwEnd
  | kwUntil
  | exceptFinally
  | notCommentOrDirective
  | declarationSection
  | localDeclarationSection
  /-- closure in `parse`: `;` and the current line is not a `RoutineHeader` -/
  | topLevelSemicolon
  /-- closure in `parse_if_then`: `Keyword(Else)` -/
  | elseKeyword
  /-- closure in `parse_case_statement`: `Keyword(End | Else)` -/
  | caseEndElse
  /-- closures in `parse_variant_record` / `parse_variant_record_fields`: `Op(RParen)` -/
  | rparen
  /-- closure in `parse_statement_list_with_type`: `Op(Semicolon)` -/
  | semicolon
  deriving DecidableEq, Repr, Inhabited

/-- `ContextEndingPredicate` -/
inductive ContextEndingPredicate where
  | opaque (p : CtxPred)
  | transparent (p : CtxPred)
  deriving DecidableEq, Repr, Inhabited

/-- `ParserContext` -/
structure ParserContext where
  contextType : ContextType
  contextEndingPredicate : ContextEndingPredicate
  level : ParserContextLevel
  deriving Repr, Inhabited

/-- `OpResult` -/
inductive OpResult where
  | break_
  | continue_
  deriving DecidableEq, Repr

/-! ### the parser state (`InternalDelphiLogicalLineParser`) -/

/-- running a trace and then one more primitive -/
theorem MState.run_snoc (kinds : List RawKind) (pass : List Nat) (s : MState) (ops : List POp) (op : POp) (m m' : MState)
    (h1 : s.run kinds pass ops = some m) (h2 : m.step kinds pass op = some m') :
    s.run kinds pass (ops ++ [op]) = some m' := by
  induction ops generalizing s with
  | nil =>
    simp only [MState.run] at h1
    cases h1
    simp [MState.run, h2]
  | cons o rest ih =>
    simp only [List.cons_append, MState.run] at h1 ⊢
    cases hs : s.step kinds pass o with
    | none => simp [hs] at h1
    | some s1 =>
      simp only [hs] at h1 ⊢
      exact ih s1 h1

/-- the positions skipped while running a trace, one primitive more -/
theorem skippedRun_snoc (kinds : List RawKind) (pass : List Nat) (s : MState) (ops : List POp) (op : POp) (m m' : MState)
    (h1 : s.run kinds pass ops = some m) (h2 : m.step kinds pass op = some m') :
    skippedRun kinds pass s (ops ++ [op]) = skippedRun kinds pass s ops ++ skippedBy m op := by
  induction ops generalizing s with
  | nil =>
    simp only [MState.run] at h1
    cases h1
    simp [skippedRun, h2]
  | cons o rest ih =>
    simp only [List.cons_append, MState.run] at h1
    cases hs : s.step kinds pass o with
    | none => simp [hs] at h1
    | some s1 =>
      simp only [hs] at h1
      simp only [List.cons_append, skippedRun, hs, List.append_assoc]
      rw [ih s1 h1]

/-- `skip_token` is only ever applied to a compiler directive (the arm of `parse_structures` that calls it has just
    matched one); the machine model checks it, so that "skipped" tokens are known to get a directive line -/
def skipGuard (kinds0 : List RawKind) (pass : List Nat) (m : MState) : POp → Bool
  | .skip =>
    match pass[m.passIdx]? with
    | some tok => kinds0[tok]? == some .rCompilerDirective
    | none => false
  | _ => true

/-- a machine state together with the trace of primitives that produced it from the initial state: the
    state of the line builder can only be what the primitives make of it -/
structure Traced (kinds0 : List RawKind) (pass : List Nat) where
  m : MState
  /-- the primitives issued so far, newest first -/
  trace : List POp
  ok : MState.init.run kinds0 pass trace.reverse = some m
  /-- every position skipped so far holds a compiler directive -/
  skipOk : ∀ j ∈ skippedRun kinds0 pass MState.init trace.reverse,
    ∃ tok, pass[j]? = some tok ∧ kinds0[tok]? = some .rCompilerDirective

def Traced.init (kinds0 : List RawKind) (pass : List Nat) : Traced kinds0 pass :=
  { m := MState.init, trace := [], ok := rfl, skipOk := by intro j hj; simp [skippedRun] at hj }

/-- one more primitive; `none` = the machine rejects it (the real code would panic), or a skip of something that is
    not a compiler directive -/
def Traced.step {kinds0 : List RawKind} {pass : List Nat} (t : Traced kinds0 pass) (op : POp) : Option (Traced kinds0 pass) :=
  match h : t.m.step kinds0 pass op with
  | none => none
  | some m' =>
    if hg : skipGuard kinds0 pass t.m op = true then
      some { m := m', trace := op :: t.trace,
             ok := by rw [List.reverse_cons]; exact MState.run_snoc kinds0 pass _ _ op t.m m' t.ok h,
             skipOk := by
               rw [List.reverse_cons, skippedRun_snoc kinds0 pass _ _ op t.m m' t.ok h]
               intro j hj
               rcases List.mem_append.1 hj with h1 | h1
               · exact t.skipOk j h1
               · cases op <;> simp [skippedBy] at h1
                 subst h1
                 simp only [skipGuard] at hg
                 split at hg
                 · rename_i tok htok
                   exact ⟨tok, htok, by simpa using hg⟩
                 · cases hg }
    else none

structure PS where
  /-- the lexer's kinds, as a list, for `MState.step` only (comment kinds never change) -/
  kinds0 : List RawKind
  /-- `pass_indices` as a list, for `MState.step` and the two directive scans -/
  pass : List Nat
  /-- `pass_indices` -/
  passArr : Array Nat
  /-- per token: does its leading whitespace contain CR or LF -/
  nl : Array Bool
  /-- `tokens[..].token_type` (mutated by the consolidation functions) -/
  kinds : Array RawKind
  /-- `result_lines`, `current_line`, `pass_index`, `unfinished_comment_lines`, `current_line_is_unfinished`,
      `last_finished_line` (field `m`), with the primitives issued so far -/
  mt : Traced kinds0 pass
  /-- `context` (`contexts` zipped with `is_ended`), top of the stack first -/
  contexts : List (ParserContext × Bool)
  parenLevel : Nat
  brackLevel : Nat
  genericLevel : Nat

/-- the line builder's state -/
@[inline] def PS.m (s : PS) : MState := s.mt.m
/-- the primitives issued so far, newest first -/
@[inline] def PS.trace (s : PS) : List POp := s.mt.trace

abbrev PM := StateT PS Option

/-- the only function that modifies the line builder's state: one primitive of the machine -/
def prim (op : POp) : PM Unit := fun s =>
  match s.mt.step op with
  | none => none
  | some mt' => some ((), { s with mt := mt' })

/-- a Rust panic -/
def panic_ {α : Type} : PM α := fun _ => none

def liftOpt {α : Type} : Option α → PM α
  | some a => pure a
  | none => panic_

/-! ### token-type patterns -/

def isKeyword (t : Option RawKind) (ks : List KeywordKind) : Bool :=
  match t with
  | some (.rKeyword k) => ks.contains k
  | _ => false

def isIdentOrKeyword (t : Option RawKind) (ks : List KeywordKind) : Bool :=
  match t with
  | some (.rIdentifierOrKeyword k) => ks.contains k
  | _ => false

def isAnyIdentOrKeyword (t : Option RawKind) : Bool :=
  match t with
  | some (.rIdentifierOrKeyword _) => true
  | _ => false

def isAnyKeyword (t : Option RawKind) : Bool :=
  match t with
  | some (.rKeyword _) => true
  | _ => false

def isOp (t : Option RawKind) (os : List OperatorKind) : Bool :=
  match t with
  | some (.rOp o) => os.contains o
  | _ => false

/-- `Op(Equal(_))` -/
def isEqualOp (t : Option RawKind) : Bool :=
  match t with
  | some (.rOp (.oEqual _)) => true
  | _ => false

/-- `Op(Caret(_))` -/
def isCaretOp (t : Option RawKind) : Bool :=
  match t with
  | some (.rOp (.oCaret _)) => true
  | _ => false

/-- `Op(LessThan(_))` -/
def isLessThanOp (t : Option RawKind) : Bool :=
  match t with
  | some (.rOp (.oLessThan _)) => true
  | _ => false

/-- `Keyword(Const(_))` -/
def isConstKeyword (t : Option RawKind) : Bool :=
  match t with
  | some (.rKeyword (.kConst _)) => true
  | _ => false

/-- `Keyword(Var(_))` -/
def isVarKeyword (t : Option RawKind) : Bool :=
  match t with
  | some (.rKeyword (.kVar _)) => true
  | _ => false

/-- `Keyword(In(_))` -/
def isInKeyword (t : Option RawKind) : Bool :=
  match t with
  | some (.rKeyword (.kIn _)) => true
  | _ => false

def isTextLiteral (t : Option RawKind) : Bool :=
  match t with
  | some (.rTextLiteral _) => true
  | _ => false

def isNumberLiteral (t : Option RawKind) : Bool :=
  match t with
  | some (.rNumberLiteral _) => true
  | _ => false

def isCommentKind : RawKind → Bool
  | .rComment _ => true
  | _ => false

/-- `LLP::get_keyword_kind` -/
def getKeywordKind : RawKind → Option KeywordKind
  | .rIdentifierOrKeyword k => some k
  | .rKeyword k => some k
  | _ => none

/-- `token_type_filter` -/
def tokenTypeFilter : RawKind → Bool
  | .rComment _ => false
  | .rCompilerDirective => false
  | .rEof => false
  | _ => true

/-- `is_operator` -/
def isOperator : RawKind → Bool
  | .rOp _ => true
  | .rKeyword .kAnd => true
  | .rKeyword .kAs => true
  | .rKeyword .kDiv => true
  | .rKeyword (.kIn .iOp) => true
  | .rKeyword .kIs => true
  | .rKeyword .kMod => true
  | .rKeyword .kNot => true
  | .rKeyword .kOr => true
  | .rKeyword .kShl => true
  | .rKeyword .kShr => true
  | .rKeyword .kXor => true
  | _ => false

/-- `PORTABILITY_DIRECTIVES` -/
def portabilityDirectives : List KeywordKind := [.kDeprecated, .kExperimental, .kPlatform, .kLibrary]

/-! ### token accessors (pure reads of the state) -/

namespace PS

/-- `get_current_token_index` -/
def getCurrentTokenIndex (s : PS) : Option Nat := s.passArr[s.m.passIdx]?

/-- `tokens.get(index).filter(token_filter).is_some()` -/
def passesTokenFilter (s : PS) (tokenIndex : Nat) : Bool :=
  match s.kinds[tokenIndex]? with
  | some k => tokenTypeFilter k
  | none => false

/-- `find_token_index` over `pass_indices.iter().rev()`: walks `pass_indices[i-1], …, pass_indices[0]` and
    returns the `n`-th (0-based) token that passes `token_filter` -/
def findPrevNth (s : PS) : Nat → Nat → Option Nat
  | 0, _ => none
  | i + 1, n =>
    match s.passArr[i]? with
    | none => none
    | some ti =>
      if s.passesTokenFilter ti then
        match n with
        | 0 => some ti
        | n + 1 => findPrevNth s i n
      else findPrevNth s i n

/-- `find_token_index` over `pass_indices.iter()`: walks `pass_indices[i], pass_indices[i+1], …` -/
def findNextNth (s : PS) : Nat → Nat → Nat → Option Nat
  | 0, _, _ => none
  | fuel + 1, i, n =>
    match s.passArr[i]? with
    | none => none
    | some ti =>
      if s.passesTokenFilter ti then
        match n with
        | 0 => some ti
        | n + 1 => findNextNth s fuel (i + 1) n
      else findNextNth s fuel (i + 1) n

/-- `get_token_index::<OFFSET>` -/
def getTokenIndex (s : PS) (offset : Int) : Option Nat :=
  if offset == 0 then
    match s.passArr[s.m.passIdx]? with
    | none => none
    | some tokenIndex =>
      match s.kinds[tokenIndex]? with
      | none => none
      | some k => if k != .rEof then some tokenIndex else none
  else if offset < 0 then
    -- `let last_index = self.pass_indices.len().checked_sub(1)?`
    if s.passArr.size == 0 then none
    else
      let lastIndex := s.passArr.size - 1
      -- `let skip_count = last_index.checked_sub(self.pass_index)?`
      if s.m.passIdx > lastIndex then none
      else
        -- `rev().skip(skip_count + 1)` starts at `pass_indices[pass_index - 1]`
        s.findPrevNth s.m.passIdx (offset.natAbs - 1)
  else
    -- `iter().skip(self.pass_index + 1)`
    s.findNextNth (s.passArr.size - s.m.passIdx) (s.m.passIdx + 1) (offset.natAbs - 1)

/-- `get_token_type::<OFFSET>` -/
def getTokenType (s : PS) (offset : Int) : Option RawKind :=
  match s.getTokenIndex offset with
  | none => none
  | some i => s.kinds[i]?

/-- `get_current_token_type` -/
def getCurrentTokenType (s : PS) : Option RawKind := s.getTokenType 0

/-- `get_current_keyword_kind` -/
def getCurrentKeywordKind (s : PS) : Option KeywordKind :=
  match s.getCurrentTokenType with
  | some t => getKeywordKind t
  | none => none

/-- `get_token_type_for_index` -/
def getTokenTypeForIndex (s : PS) (index : Nat) : Option RawKind :=
  match s.passArr[index]? with
  | none => none
  | some i => s.kinds[i]?

/-- `get_current_logical_line_ref` -/
def getCurrentLogicalLineRef (s : PS) : Option Nat := s.m.cur.head?

/-- `get_current_logical_line` (`none` = the `unwrap` panics) -/
def getCurrentLogicalLine (s : PS) : Option PLine :=
  match s.m.cur with
  | [] => none
  | top :: _ => s.m.lines[top]?

/-- `get_current_logical_line_token_types` for an already fetched line -/
def lineTokenTypes (s : PS) (l : PLine) : List RawKind := l.tokens.filterMap (s.kinds[·]?)

/-- `get_last_context` -/
def getLastContext (s : PS) : Option ParserContext :=
  match s.contexts with
  | [] => none
  | (c, _) :: _ => some c

/-- `get_last_context_type` -/
def getLastContextType (s : PS) : Option ContextType :=
  match s.contexts with
  | [] => none
  | (c, _) :: _ => some c.contextType

/-- `is_in_statement` -/
def isInStatement (s : PS) : Bool :=
  match s.getLastContextType with
  | some (.statement _) => true
  | _ => false

/-- `is_in_type_decl` -/
def isInTypeDecl (s : PS) : Bool := s.contexts.any (fun c => c.1.contextType == .typeDeclaration)

/-- `get_context_level`: the loop over `contexts.iter().rev()` -/
def getContextLevelGo : List (ParserContext × Bool) → Int → Option LineParent × Int
  | [], sum => (none, sum)
  | (c, _) :: rest, sum =>
    match c.level with
    | .parent p d => (some p, sum + (d : Int))
    | .level d => getContextLevelGo rest (sum + d)

/-- `get_context_level` (`sum.clamp(0, u16::MAX)`) -/
def getContextLevel (s : PS) : Option LineParent × Nat :=
  let (p, sum) := getContextLevelGo s.contexts 0
  (p, min sum.toNat u16Max)

end PS

/-! ### context-ending predicates -/

/-- `visibility_specifier` -/
def visibilitySpecifier (s : PS) : Bool :=
  match s.getCurrentKeywordKind with
  | some k => [KeywordKind.kPrivate, .kProtected, .kPublic, .kPublished, .kAutomated, .kStrict].contains k
  | none => false

/-- `declaration_section` -/
def declarationSection (s : PS) : Bool :=
  let prev := s.getTokenType (-1)
  let cur := s.getCurrentTokenType
  if (isEqualOp prev || isKeyword prev [.kPacked]) && isKeyword cur [.kClass] then false
  else
    match cur with
    | some (.rKeyword kk) | some (.rIdentifierOrKeyword kk) =>
      if [KeywordKind.kExports, .kBegin, .kAsm, .kClass, .kProperty, .kFunction, .kProcedure, .kConstructor,
          .kDestructor, .kEnd, .kImplementation, .kInitialization, .kFinalization].contains kk then true
      else if [KeywordKind.kStrict, .kPrivate, .kProtected, .kPublic, .kPublished, .kAutomated].contains kk then
        s.isInTypeDecl
      else kk.isDeclSection
    | _ => false

/-- `local_declaration_section` -/
def localDeclarationSection (s : PS) : Bool :=
  match s.getCurrentTokenType with
  | some (.rKeyword kk) =>
    if [KeywordKind.kExports, .kBegin, .kAsm, .kEnd, .kFunction, .kProcedure].contains kk then true
    else kk.isDeclSection
  | _ => false

/-- `section_headings` -/
def sectionHeadings (s : PS) : Bool :=
  let cur := s.getCurrentTokenType
  if isKeyword cur [.kImplementation, .kInitialization, .kFinalization, .kEnd] then true
  else if isKeyword cur [.kInterface] then !isEqualOp (s.getTokenType (-1))
  else false

/-- the predicate behind a `CtxPred`; `none` = it would panic (`get_current_logical_line().unwrap()`) -/
def evalPred (p : CtxPred) (s : PS) : Option Bool :=
  match p with
  | .neverEnding => some false
  | .kwDo => some (s.getCurrentKeywordKind == some .kDo)
  | .kwThen => some (s.getCurrentKeywordKind == some .kThen)
  | .kwOf => some (s.getCurrentKeywordKind == some .kOf)
  | .sectionHeadings => some (sectionHeadings s)
  | .visibilityBlockEnding =>
    -- `predicate_or(visibility_specifier, end)`
    some (visibilitySpecifier s || isKeyword s.getCurrentTokenType [.kEnd])
  | .beginAsm => some (isKeyword s.getCurrentTokenType [.kBegin, .kAsm])
  | .elseEnd => some (isKeyword s.getCurrentTokenType [.kEnd, .kElse])
  | .kwEnd => some (isKeyword s.getCurrentTokenType [.kEnd])
  | .kwUntil => some (isKeyword s.getCurrentTokenType [.kUntil])
  | .exceptFinally => some (isKeyword s.getCurrentTokenType [.kExcept, .kFinally])
  | .notCommentOrDirective =>
    -- `is_none_or(|t| !t.is_comment_or_directive())`
    some (match s.getCurrentTokenType with
      | none => true
      | some t => !t.isCommentOrDirective)
  | .declarationSection => some (declarationSection s)
  | .localDeclarationSection => some (localDeclarationSection s)
  | .topLevelSemicolon =>
    -- `&&` short-circuits: the line is only fetched when the token is `;`
    if isOp s.getCurrentTokenType [.oSemicolon] then
      match s.getCurrentLogicalLine with
      | some l => some (l.ltype != .lRoutineHeader)
      | none => none
    else some false
  | .elseKeyword => some (isKeyword s.getCurrentTokenType [.kElse])
  | .caseEndElse => some (isKeyword s.getCurrentTokenType [.kEnd, .kElse])
  | .rparen => some (isOp s.getCurrentTokenType [.oRParen])
  | .semicolon => some (isOp s.getCurrentTokenType [.oSemicolon])

/-- `ParserContexts::get_ending_context_idx`: `enumerate().rev()`; the index of an entry is the number of entries
    below it -/
def getEndingContextIdxGo (s : PS) : List (ParserContext × Bool) → Option (Option Nat)
  | [] => some none
  | (c, isEnded) :: rest =>
    if isEnded then some (some rest.length)
    else
      match c.contextEndingPredicate with
      | .opaque p =>
        match evalPred p s with
        | none => none
        | some b => some (if b then some rest.length else none)
      | .transparent p =>
        match evalPred p s with
        | none => none
        | some true => some (some rest.length)
        | some false => getEndingContextIdxGo s rest

def PS.getEndingContextIdx (s : PS) : Option (Option Nat) := getEndingContextIdxGo s s.contexts

/-- `context.get_ending_context_idx(self)` -/
def endingIdx : PM (Option Nat) := fun s =>
  match s.getEndingContextIdx with
  | none => none
  | some r => some (r, s)

/-- `ParserContexts::push` -/
def pushCtx (c : ParserContext) : PM Unit := modify fun s => { s with contexts := (c, false) :: s.contexts }

/-- `ParserContexts::pop` (nothing happens on an empty stack) -/
def popCtx : PM Unit := modify fun s => { s with contexts := s.contexts.tail }

def markEnded : Nat → List (ParserContext × Bool) → List (ParserContext × Bool)
  | 0, l => l
  | _, [] => []
  | n + 1, (c, _) :: r => (c, true) :: markEnded n r

/-- `ParserContexts::update_statuses`: `.rev().take(len.saturating_sub(idx))` -/
def updateStatuses (endingContextIdx : Nat) : PM Unit :=
  modify fun s => { s with contexts := markEnded (s.contexts.length - endingContextIdx) s.contexts }

/-- `self.context.is_ended.last() == Some(&false)` -/
def PS.lastIsEndedIsFalse (s : PS) : Bool :=
  match s.contexts with
  | (_, false) :: _ => true
  | _ => false

/-! ### monadic readers -/

def cur : PM (Option RawKind) := fun s => some (s.getCurrentTokenType, s)
def prevTT : PM (Option RawKind) := fun s => some (s.getTokenType (-1), s)
def nextTT : PM (Option RawKind) := fun s => some (s.getTokenType 1, s)
def curKw : PM (Option KeywordKind) := fun s => some (s.getCurrentKeywordKind, s)
def lastCtxType : PM (Option ContextType) := fun s => some (s.getLastContextType, s)

/-- `get_current_logical_line()` with its `unwrap` -/
def curLine : PM PLine := fun s =>
  match s.getCurrentLogicalLine with
  | some l => some (l, s)
  | none => none

/-- `is_at_start_of_line` -/
def isAtStartOfLine : PM Bool := do
  let l ← curLine
  pure l.tokens.isEmpty

/-- `get_current_logical_line_token_types().collect()` -/
def curLineTokenTypes : PM (List RawKind) := do
  let l ← curLine
  let s ← get
  pure (s.lineTokenTypes l)

/-- `get_line_parent_of_current_token` (two `unwrap`s) -/
def getLineParentOfCurrentToken : PM LineParent := do
  let s ← get
  let li ← liftOpt s.getCurrentLogicalLineRef
  let ti ← liftOpt s.getCurrentTokenIndex
  pure { lineIndex := li, tokenIndex := ti }

/-- `is_directive_before_next_token`: the loop; `last_index` starts as `pass_index` (sic) -/
def isDirectiveBeforeNextTokenGo (s : PS) : List Nat → Nat → Option Bool
  | [], _ => some false
  | index :: rest, lastIndex =>
    -- `index - last_index` on `usize`
    if index < lastIndex then none
    else if index - lastIndex > 1 then some true
    else if s.passesTokenFilter index then some false
    else isDirectiveBeforeNextTokenGo s rest index

/-- `is_directive_before_next_token` -/
def isDirectiveBeforeNextToken : PM Bool := do
  let s ← get
  liftOpt (isDirectiveBeforeNextTokenGo s (s.pass.drop (s.m.passIdx + 1)) s.m.passIdx)

/-- `is_directive_after_prev_token`: the loop over `pass_indices.iter().rev().skip(rev_skip)`;
    `none` in the first component = fell out of the loop -/
def isDirectiveAfterPrevTokenGo (s : PS) : List Nat → Nat → Option (Option Bool)
  | [], _ => some none
  | index :: rest, lastIndex =>
    if lastIndex < index then none
    else if lastIndex - index > 1 then some (some true)
    else if s.passesTokenFilter index then some (some false)
    else isDirectiveAfterPrevTokenGo s rest index

/-- `is_directive_after_prev_token` -/
def isDirectiveAfterPrevToken : PM Bool := do
  let s ← get
  match s.getCurrentTokenIndex with
  | none => pure false
  | some lastIndex =>
    -- `let Some(rev_skip) = self.pass_indices.len().checked_sub(self.pass_index)`
    if s.passArr.size < s.m.passIdx then pure false
    else
      match ← liftOpt (isDirectiveAfterPrevTokenGo s (s.pass.take s.m.passIdx).reverse lastIndex) with
      | some b => pure b
      | none =>
        -- `self.pass_indices[0] != 0`
        match s.passArr[0]? with
        | some i => pure (i != 0)
        | none => panic_

/-! ### token retyping -/

/-- `token.set_token_type(..)` for a valid index -/
def setKind (i : Nat) (k : RawKind) : PM Unit := modify fun s => { s with kinds := s.kinds.setIfInBounds i k }

/-- `consolidate_current_ident` -/
def consolidateCurrentIdent : PM Unit := do
  let s ← get
  match s.getTokenIndex 0 with
  | none => pure ()
  | some i =>
    match s.kinds[i]? with
    | some (.rIdentifierOrKeyword _) => setKind i .rIdentifier
    | _ => pure ()

/-- `consolidate_current_keyword` -/
def consolidateCurrentKeyword : PM Unit := do
  let s ← get
  match s.getTokenIndex 0 with
  | none => pure ()
  | some i =>
    match s.kinds[i]? with
    | some (.rIdentifierOrKeyword k) => setKind i (.rKeyword k)
    | _ => pure ()

/-- `consolidate_prev_keyword` (the token at `pass_index - 1`, unfiltered) -/
def consolidatePrevKeyword : PM Unit := do
  let s ← get
  if s.m.passIdx == 0 then pure ()
  else
    match s.passArr[s.m.passIdx - 1]? with
    | none => pure ()
    | some i =>
      match s.kinds[i]? with
      | some (.rIdentifierOrKeyword k) => setKind i (.rKeyword k)
      | _ => pure ()

/-- `set_current_token_type` -/
def setCurrentTokenType (k : RawKind) : PM Unit := do
  let s ← get
  match s.getTokenIndex 0 with
  | none => pure ()
  | some i => setKind i k

/-- `set_current_decl_kind` -/
def setCurrentDeclKind (dk : DeclKind) : PM Unit := do
  let s ← get
  match s.getTokenIndex 0 with
  | none => pure ()
  | some i =>
    match s.kinds[i]? with
    | some (.rKeyword (.kConst _)) => setKind i (.rKeyword (.kConst dk))
    | some (.rKeyword (.kVar _)) => setKind i (.rKeyword (.kVar dk))
    | _ => pure ()

/-- `consolidate_current_caret_to_type` -/
def consolidateCurrentCaretToType : PM Unit := do
  let s ← get
  match s.getTokenIndex 0 with
  | none => pure ()
  | some i =>
    if s.kinds[i]? == some (.rOp (.oCaret .caDeref)) then setKind i (.rOp (.oCaret .caType)) else pure ()

/-- `consolidate_class_op_in` -/
def consolidateClassOpIn : PM Unit := do
  let s ← get
  match s.getTokenIndex 1 with
  | none => pure ()
  | some i => if isInKeyword s.kinds[i]? then setKind i .rIdentifier else pure ()

/-! ### parser predicates (`impl Fn(&LLP) -> bool`) -/

/-- `after_semicolon()` -/
def afterSemicolon (s : PS) : Bool :=
  isOp (s.getTokenType (-1)) [.oSemicolon] && !isOp s.getCurrentTokenType [.oSemicolon]

/-- `outside_parens(initial_level)` -/
def outsideParens (initialLevel : Nat) (s : PS) : Bool := s.parenLevel ≤ initialLevel

/-- `outside_bracks(initial_level)` -/
def outsideBracks (initialLevel : Nat) (s : PS) : Bool := s.brackLevel ≤ initialLevel

/-- `no_more_separators()` -/
def noMoreSeparators (s : PS) : Bool := !isOp s.getCurrentTokenType [.oSemicolon]

/-- `predicate_and` -/
def predicateAnd (a b : PS → Bool) (s : PS) : Bool := a s && b s

/-- `never_ending` -/
def neverEnding (_ : PS) : Bool := false

end Pasfmt.PFull
