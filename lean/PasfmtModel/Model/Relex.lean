/-
  Re-scanning the reconstructed text token by token, each token in a window of three bytes of
  lookahead (`relexFT`).  `Proofs/LexLocal7.lean` proves that a successful windowed re-scan is the
  scan of the whole output (`relexFT_sound`), using the locality of the scanner.
  The driver evaluates `relexB` on every well-formed case (field `rx`).
-/
import PasfmtModel.Model.Recon

namespace Pasfmt

/-- the lookahead window after a token: the next three bytes of the output, closed by a non-blank
    sentinel so that nothing can run to the end of the window unnoticed; fewer than three bytes are
    the true end of the output and are used as they are -/
def windowOf (la : Bytes) : Bytes := if la.length == 3 then la ++ [0x41] else la

/-- the first `n` bytes of `reconGo S mb ft`, without building the rest -/
def reconTake (S : Settings) : FT → Nat → Bool → Bytes
  | [], _, _ => []
  | t :: r, n, mb =>
    let x := gapOf S t mb ++ t.tok.content
    if n ≤ x.length then x.take n else x ++ reconTake S r (n - x.length) (isSingleLineComment t.tok.kind)

/-- windowed re-scan of the reconstruction of `ft` (which must end with a token of empty content, the
    end-of-file token): the kinds found, or `none` if some window does not give back exactly the
    emitted gap and content -/
def relexFT (S : Settings) : LexState → Bool → FT → Option (List RawKind)
  | _, _, [] => none
  | st, mb, [t] =>
    if t.tok.content.isEmpty then
      match lexOne false st (gapOf S t mb) with
      | some none => some []
      | _ => none
    else none
  | st, mb, t :: t2 :: r =>
    match lexOne false st (gapOf S t mb ++ t.tok.content
        ++ windowOf (reconTake S (t2 :: r) 3 (isSingleLineComment t.tok.kind))) with
    | some (some (ws, e, k, st')) =>
      if ws == (gapOf S t mb).length && e == (gapOf S t mb).length + t.tok.content.length then
        (relexFT S st' (isSingleLineComment t.tok.kind) (t2 :: r)).map (k :: ·)
      else none
    | _ => none

/-- the token vector that the re-scan yields: emitted gaps as leading blanks, emitted contents, the
    kinds found, and the end-of-file token -/
def relexToks (S : Settings) : Bool → FT → List RawKind → List RawTok
  | _, [], _ => []
  | mb, [t], _ => [{ ws := gapOf S t mb, content := [], kind := .rEof }]
  | mb, t :: t2 :: r, k :: ks =>
    { ws := gapOf S t mb, content := t.tok.content, kind := k } :: relexToks S (isSingleLineComment t.tok.kind) (t2 :: r) ks
  | _, _ :: _ :: _, [] => []

/-- raw kinds equal up to the first-on-line status of a comment -/
def sameKindModPos : RawKind → RawKind → Bool
  | .rComment a, .rComment b => a.isSingleline == b.isSingleline
  | a, b => a == b

/-- the contract evaluated per case: the windowed re-scan succeeds and finds the input's kinds -/
def relexB (S : Settings) (raw : List RawTok) (ft : FT) : Bool :=
  match relexFT S LexState.init false ft with
  | some ks => ks.length + 1 == raw.length && (raw.zip ks).all (fun p => sameKindModPos p.1.kind p.2)
  | none => false

end Pasfmt
