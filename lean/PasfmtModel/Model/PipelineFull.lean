/-
  The whole formatter as one closed function: scanner, parser (control flow included), the three consolidators,
  the ignorers and token rules, the wrapper stage with the search inside, the reconstructor.  Nothing is a
  parameter except `char::is_alphanumeric` on non-ASCII characters (`alnum`, used by the line-comment rule).
-/
import PasfmtModel.Model.WrapStageFull
import PasfmtModel.Model.ParserFull
import PasfmtModel.Model.Consolidators

namespace Pasfmt

def PLine.toLine (l : PLine) : Line := { parent := l.parent, level := l.level, tokens := l.tokens, ltype := l.ltype }

/-- `token.get_leading_whitespace().contains(['\r', '\n'])` -/
def wsHasBreak (ws : Bytes) : Bool := ws.any fun b => b == 0x0D || b == 0x0A

/-- `DelphiLogicalLineParser::parse` followed by the three consolidators; `none` = the parser model gives no answer -/
def parseAndConsolidate (raw : List RawTok) : Option ParserOut :=
  match parseFileMasked (raw.map fun t => (t.kind, wsHasBreak t.ws)) with
  | none => none
  | some o => some (consolidators { kinds := o.kinds.map (·.toTokenType), lines := o.lines.map PLine.toLine })

/-- `Formatter::format` of the formatter built by `make_formatter`, on scanned tokens -/
def formatTokensFull (cfg : Config) (alnum : Bytes → Bool) (raw : List RawTok) : Option Bytes :=
  match parseAndConsolidate raw with
  | none => none
  | some po =>
    let O : Oracles := { parser := fun _ => po, wrap := fun _ _ ft => ft, alnum := alnum }
    let (_, lines, ft1) := preWrap O raw
    match wrapStageFull cfg lines ft1 with
    | none => none
    | some (ft2, _) => some (reconstruct cfg.settings ft2)

/-- the whole formatter; `none` = a model stage gives no answer (the real code would panic, or fuel ran out) -/
def formatFull (cfg : Config) (alnum : Bytes → Bool) (s : Bytes) : Option Bytes :=
  match lex s with
  | none => none
  | some raw => formatTokensFull cfg alnum raw

end Pasfmt
