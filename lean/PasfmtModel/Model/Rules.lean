/-
  Exact models of the token-level rules:
  token_spacing.rs, lowercase_keywords.rs, comment_contents.rs, eof_newline.rs,
  formatting_toggle.rs, ignore_asm_instructions.rs, and the void step of formatter.rs.
-/
import PasfmtModel.Model.Fmt

namespace Pasfmt

/-! ### TokenSpacing -/

def isOpenBracketLike : Option Kind → Bool
  | some (.tOp .oLBrack) => true
  | some (.tOp .oLParen) => true
  | some (.tOp (.oLessThan .chGeneric)) => true
  | _ => false

def isCloseBracketLike : Option Kind → Bool
  | some (.tOp .oRBrack) => true
  | some (.tOp .oRParen) => true
  | some (.tOp (.oGreaterThan .chGeneric)) => true
  | _ => false

/-- `spaces_before(token_type(prev), spaces)` -/
def spacesBeforeFn (prev : Option Kind) (spaces : Nat) : Option Nat :=
  match prev with
  | none => some 0
  | _ => if isOpenBracketLike prev then some 0 else some spaces

/-- `spaces_after(token_type(next), spaces)` -/
def spacesAfterFn (next : Option Kind) (spaces : Nat) : Option Nat :=
  if isCloseBracketLike next then some 0 else some spaces

def isIdentOrKeyword : Option Kind → Bool
  | some .tIdentifier => true
  | some (.tKeyword _) => true
  | _ => false

def lparenTightKeyword : KeywordKind → Bool
  | .kClass | .kAbstract | .kSealed | .kHelper | .kInterface | .kFunction | .kProcedure | .kArray | .kString => true
  | _ => false

/-- `+`/`-`: binary or unary, decided by the nearest previous real token -/
def plusMinusSpacing (prevReal : Option Kind) : Option Nat × Option Nat :=
  match prevReal with
  | some (.tOp .oRBrack) | some (.tOp .oRParen) | some (.tOp (.oGreaterThan .chGeneric)) => (some 1, some 1)
  | some (.tKeyword .kInherited) | some (.tKeyword .kNil) => (some 1, some 1)
  | none => (none, some 0)
  | some (.tOp _) | some (.tKeyword _) | some (.tComment _) | some .tCompilerDirective
  | some (.tConditionalDirective _) => (none, some 0)
  | _ => (some 1, some 1)

/-- `(` / `[`: tight after identifiers and some keywords -/
def openBracketSpacing (prev : Option Kind) : Option Nat × Option Nat :=
  match prev with
  | some .tIdentifier => (some 0, some 0)
  | some (.tKeyword k) => if lparenTightKeyword k then (some 0, some 0) else (some 1, some 0)
  | _ => (none, some 0)

/-- `space_operator`; `prev`/`next` = neighbouring token kinds, `prevReal` = nearest previous
    token that is not a comment or directive -/
def spaceOperator (op : OperatorKind) (prev prevReal next : Option Kind) : Option Nat × Option Nat :=
  match op with
  | .oStar | .oSlash | .oAssign | .oEqual _ | .oNotEqual | .oLessEqual | .oGreaterEqual => (some 1, some 1)
  | .oLessThan .chComp | .oGreaterThan .chComp => (some 1, some 1)
  | .oPlus | .oMinus => plusMinusSpacing prevReal
  | .oComma | .oColon => (some 0, some 1)
  | .oRBrack | .oRParen => if isIdentOrKeyword next then (some 0, some 1) else (some 0, some 0)
  | .oLBrack | .oLParen => openBracketSpacing prev
  | .oCaret .caDeref => (some 0, some 0)
  | .oCaret .caType => (none, some 0)
  | .oDot | .oDotDot => (some 0, some 0)
  | .oLessThan .chGeneric => (some 0, some 0)
  | .oGreaterThan .chGeneric =>
    (some 0, match next with | some (.tOp _) => some 0 | _ => some 1)
  | .oAddressOf => (spacesBeforeFn prev 1, some 0)
  | .oSemicolon => (some 0, some 1)

/-- the `(spaces_before, spaces_after)` pair of one iteration of `TokenSpacing::format`;
    `cur` = current `spaces_before` of this token, `nextSp` = that of the next token -/
def spacingRule (k : Kind) (prev prevReal next : Option Kind) (cur : Nat) (nextSp : Option Nat) :
    Option Nat × Option Nat :=
  match k with
  | .tOp op => spaceOperator op prev prevReal next
  | .tComment .cInlineLine => (some 1, none)
  | .tComment _ | .tCompilerDirective | .tConditionalDirective _ | .tKeyword _ =>
    (spacesBeforeFn prev 1, spacesAfterFn next 1)
  | .tIdentifier => (none, some 1)
  | _ => (some (min cur 1), nextSp.map (min · 1))

/-- the `spaces_before` the next token has when its own iteration starts: what this token's
    `spaces_after` wrote (never onto the end-of-file token), else its original value -/
def nextCur (after : Option Nat) (k' : Kind) (sp' : Nat) : Nat :=
  match after with
  | some a => if k' == .tEof then sp' else a
  | none => sp'

/-- streaming form of the loop of `TokenSpacing::format` (see DESIGN §2.2): returns the final
    `spaces_before` of every token from this one on. -/
def spacingGo (prev prevReal : Option Kind) (cur : Nat) : List (Kind × Nat) → List Nat
  | [] => []
  | (k, _) :: rest =>
    let next : Option Kind := rest.head?.map (·.1)
    let nextSp : Option Nat := rest.head?.map (·.2)
    let rule := spacingRule k prev prevReal next cur nextSp
    let final := rule.1.getD cur
    let prevReal' := if k.isCommentOrDirective then prevReal else some k
    match rest with
    | [] => [final]
    | (k', sp') :: _ => final :: spacingGo (some k) prevReal' (nextCur rule.2 k' sp') rest

/-- final `spaces_before` of every token after `TokenSpacing::format` -/
def spacingResult (items : List (Kind × Nat)) : List Nat :=
  match items with
  | [] => []
  | (_, sp0) :: _ =>
    match spacingGo none none sp0 items with
    | [] => []
    | _ :: r => 0 :: r

/-- the kinds handled by the last arm of `spacingRule` (`max_one_either_side`) -/
def isOtherKind : Kind → Bool
  | .tOp _ | .tComment _ | .tCompilerDirective | .tConditionalDirective _ | .tKeyword _ | .tIdentifier => false
  | _ => true

/-- The `(kind, spaces_before)` view that `TokenSpacing` has of the tokens.  `max_one_either_side`
    reads the next token's `spaces_before` as one when that token is on another line
    (`newlines_before > 0`); the value is written to the next token unless it is the end-of-file token,
    and nothing else reads it before it is overwritten, so this is the same as raising the entry of
    such a token to at least one. -/
def spacingItemsGo (prevOther : Bool) : FT → List (Kind × Nat)
  | [] => []
  | t :: r =>
    let sp := if prevOther && decide (t.fmt.nl > 0) && !(t.tok.kind == .tEof) then max t.fmt.sp 1 else t.fmt.sp
    (t.tok.kind, sp) :: spacingItemsGo (isOtherKind t.tok.kind) r

def spacingItems (ft : FT) : List (Kind × Nat) := spacingItemsGo false ft

def tokenSpacing (ft : FT) : FT :=
  let res := spacingResult (spacingItems ft)
  ft.zipIdx.map fun (t, i) => { t with fmt := { t.fmt with sp := res.getD i t.fmt.sp } }

/-! ### LowercaseKeywords -/

def isKeywordKind : Kind → Bool
  | .tKeyword _ => true
  | _ => false

def lowercaseTok (t : FTok) : FTok :=
  if isKeywordKind t.tok.kind && t.tok.content.any isUpper then t.setContent (asciiLower t.tok.content) else t

def lowercaseKeywords (ft : FT) : FT := ft.map lowercaseTok

/-! ### CommentFormatter -/

/-- `trim_ascii_end` -/
def trimAsciiEnd (s : Bytes) : Bytes := (s.reverse.dropWhile isAsciiWs).reverse

/-- byte length of the UTF-8 character whose lead byte is `b` -/
def charLen (b : UInt8) : Nat :=
  if b < 0x80 then 1 else if b < 0xE0 then 2 else if b < 0xF0 then 3 else 4

/-- `s` is `chunk` repeated (`chars().all_equal()` on valid UTF-8, with `chunk` the first char) -/
def isRepetitionOf (chunk : Bytes) : Nat → Bytes → Bool
  | _, [] => true
  | 0, _ => false
  | fuel + 1, s =>
    if chunk.isEmpty then false
    else chunk.isPrefixOf s && isRepetitionOf chunk fuel (s.drop chunk.length)

/-- `comment_is_separator`; `alnumNonAscii` stands for `char::is_alphanumeric` on a non-ASCII
    character given by its UTF-8 bytes (external: Unicode tables). -/
def commentIsSeparator (alnumNonAscii : Bytes → Bool) (comment : Bytes) : Bool :=
  let c := trimAsciiEnd comment
  match c with
  | [] => false
  | b :: _ =>
    let first := c.take (charLen b)
    let firstAlnum := if b < 0x80 then isAlnum b else alnumNonAscii first
    decide (c.length ≥ 10) && !firstAlnum && isRepetitionOf first c.length c

/-- the slashes of a line comment (`//` or `///`) and the comment body after them -/
def lineCommentParts (content : Bytes) : Option (Bytes × Bytes) :=
  match content with
  | 0x2F :: 0x2F :: 0x2F :: c1 => some ([0x2F, 0x2F, 0x2F], c1)
  | 0x2F :: 0x2F :: c0 => some ([0x2F, 0x2F], c0)
  | _ => none

/-- the content with one space inserted after the slashes, when the rule asks for it -/
def lineCommentSpaced (alnumNonAscii : Bytes → Bool) (pre comment : Bytes) : Option Bytes :=
  match comment with
  | b :: _ =>
    if !isAsciiWs b && !commentIsSeparator alnumNonAscii comment then some (pre ++ [0x20] ++ comment) else none
  | [] => none

/-- `format_line_comment`: the new content, or `none` if `set_content` is not called -/
def formatLineComment (alnumNonAscii : Bytes → Bool) (content : Bytes) : Option Bytes :=
  match lineCommentParts content with
  | none => none
  | some (pre, comment) =>
    let new1 := lineCommentSpaced alnumNonAscii pre comment
    if (trimAsciiEnd content).length != content.length then some (trimAsciiEnd (new1.getD content))
    else new1

inductive DirState where
  | before | afterPlusMinus | afterDigit | afterComma | afterLetter | afterWord
  deriving DecidableEq, Repr

inductive DirStep where
  | next (s : DirState) (isSwitch : Bool)
  | ret
  | brk

/-- one iteration of the scanning loop of `format_compiler_directive` -/
def dirStep (st : DirState) (isSwitch : Bool) (b : UInt8) : DirStep :=
  if (st == .before || st == .afterComma) && isAlpha b then .next .afterLetter isSwitch
  else if st == .afterLetter && (b == 0x2B || b == 0x2D) then .next .afterPlusMinus true
  else if (st == .afterPlusMinus || st == .afterDigit) && b == 0x2C then .next .afterComma isSwitch
  else if (st == .afterLetter || st == .afterDigit) && isDigit b then .next .afterDigit true
  else if (st == .afterLetter || st == .afterWord) && (isAlnum b || b == 0x5F) && !isSwitch then
    .next .afterWord isSwitch
  else if st == .afterLetter && b == 0x2C then .ret
  else if st == .afterComma || st == .afterLetter then .ret
  else .brk

/-- length of the directive name, or `none` for the early `return` -/
def dirScan (st : DirState) (isSwitch : Bool) : Bytes → Option Nat
  | [] => some 0
  | b :: r =>
    match dirStep st isSwitch b with
    | .next st' sw' => (dirScan st' sw' r).map (· + 1)
    | .ret => none
    | .brk => some 0

/-- `format_compiler_directive`: the new content, or `none` if `set_content` is not called -/
def formatCompilerDirective (content : Bytes) : Option Bytes :=
  let stripped? : Option (Bytes × Bytes) :=
    match content with
    | 0x7B :: 0x24 :: r => some ([0x7B, 0x24], r)
    | 0x28 :: 0x2A :: 0x24 :: r => some ([0x28, 0x2A, 0x24], r)
    | _ => none
  match stripped? with
  | none => none
  | some (pre, stripped) =>
    match dirScan .before false stripped with
    | none => none
    | some n =>
      let directive := stripped.take n
      if directive.any isLower then some (pre ++ asciiUpper directive ++ stripped.drop n) else none

def commentFormatTok (alnumNonAscii : Bytes → Bool) (t : FTok) : FTok :=
  match t.tok.kind with
  | .tCompilerDirective | .tConditionalDirective _ =>
    (match formatCompilerDirective t.tok.content with
     | some c => t.setContent c
     | none => t)
  | .tComment .cInlineLine | .tComment .cIndividualLine =>
    (match formatLineComment alnumNonAscii t.tok.content with
     | some c => t.setContent c
     | none => t)
  | _ => t

def commentFormatter (alnumNonAscii : Bytes → Bool) (ft : FT) : FT := ft.map (commentFormatTok alnumNonAscii)

/-! ### EofNewline (through FormatterSelector on Eof lines) -/

def eofNewline (lines : List Line) (ft : FT) : FT :=
  if lines.any (fun l => l.ltype == .lEof) then
    ft.zipIdx.map fun (t, i) =>
      if i + 1 == ft.length && t.tok.kind == .tEof then
        { t with fmt := { t.fmt with nl := 1, sp := 0, ind := 0, cont := 0 } }
      else t
  else ft

/-! ### FormattingToggler / IgnoreAsmInstructions -/

inductive Toggle where
  | on | off
  deriving DecidableEq, Repr

/-- `parse_toggle` -/
def parseToggle (content : Bytes) : Option Toggle :=
  let body? : Option Bytes :=
    match content with
    | 0x2F :: 0x2F :: r => some r
    | 0x28 :: 0x2A :: r => some r
    | 0x7B :: r => some r
    | _ => none
  match body? with
  | none => none
  | some body =>
    let s1 := body.dropWhile isAsciiWs
    if s1.length < 6 || !eqIgnoreCase (s1.take 6) "pasfmt".toUTF8.toList then none
    else
      let s2 := s1.drop 6
      let nws := countWhile isAsciiWs s2
      if nws == 0 then none
      else
        let s3 := s2.drop nws
        let word := s3.take (countWhile isAlnum s3)
        if eqIgnoreCase word "on".toUTF8.toList then some .on
        else if eqIgnoreCase word "off".toUTF8.toList then some .off
        else none

def isCommentKind : Kind → Bool
  | .tComment _ => true
  | _ => false

/-- `FormattingToggler::ignore_tokens`: one Bool per token -/
def togglerMarksGo (ignored : Bool) : List Tok → List Bool
  | [] => []
  | t :: r =>
    let tg := if isCommentKind t.kind then parseToggle t.content else none
    let ignored' := match tg with | some .off => true | some .on => false | none => ignored
    (ignored' || tg.isSome) :: togglerMarksGo ignored' r

def togglerMarks (toks : List Tok) : List Bool := togglerMarksGo false toks

/-- `IgnoreAsmIstructions::ignore_tokens`: the marked indices -/
def asmMarked (lines : List Line) : List Nat :=
  (lines.filter (fun l => l.ltype == .lAsmInstruction)).flatMap (·.tokens)

def ignoredMarks (toks : List Tok) (lines : List Line) : List Bool :=
  let asm := asmMarked lines
  (togglerMarks toks).zipIdx.map fun (b, i) => b || asm.contains i

/-- the void step of `format_into_buf` -/
def voidLines (marks : List Bool) (lines : List Line) : List Line :=
  if marks.any id then
    lines.map fun l =>
      if l.tokens.all (fun t => marks.getD t false) then { l with ltype := .lVoided, tokens := [] } else l
  else lines

/-- the gap before a token is empty: no line break and no space -/
def gapEmpty (t : FTok) : Bool := t.fmt.nl == 0 && t.fmt.sp == 0

/-- kinds whose own `spaces_before` may survive their own rule of `TokenSpacing` (the rule leaves it alone or
    clamps it): identifiers, literals and unknown tokens, `+`/`-` (when unary), `(`/`[`, the pointer-type `^` -/
def keepsCur : Kind → Bool
  | .tIdentifier => true
  | .tOp .oPlus | .tOp .oMinus | .tOp .oLBrack | .tOp .oLParen | .tOp (.oCaret .caType) => true
  | .tOp _ => false
  | .tComment _ | .tCompilerDirective | .tConditionalDirective _ | .tKeyword _ => false
  | _ => true

end Pasfmt
