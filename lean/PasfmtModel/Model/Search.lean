/-
  Exact model of the search of the optimising line formatter: `format_line` / `find_optimal_solution` /
  `find_optimal_child_lines_solution` (rules/optimising_line_formatter/mod.rs), the formatting contexts
  (contexts.rs), the decision requirements (requirements.rs) and their types (types.rs, parent_pointer_tree.rs).
-/
import PasfmtModel.Model.WrapStage

namespace Pasfmt

/-- what `OptimisingLineFormatter::format` sets up before the first line is wrapped and what the search keeps between
    calls: settings, `token_types`, `token_lengths` (spaces and content lengths as they are when the stage starts),
    the lines, `line_children`, and the `child_line_cache` (which lives as long as the stage) -/
structure SearchState where
  cfg : Config
  lines : List Line
  dummy : Unit := ()

/-- the set-up of `OptimisingLineFormatter::format` (`get_line_children`, `token_types`, `token_lengths`, empty cache) -/
def searchInit (cfg : Config) (lines : List Line) (ft : FT) : SearchState := { cfg := cfg, lines := lines }

/-- `format_line` on top-level line `lineIdx` with the tokens as they are now (`ft`: counters and texts are read live,
    e.g. the lengths of the lines of multi-line tokens): the solution (`none` = no solution / iteration limit /
    asm-instruction line) and the state with the updated cache -/
def searchSolve (st : SearchState) (ft : FT) (lineIdx : Nat) : Option Sol × SearchState := (none, st)

end Pasfmt
