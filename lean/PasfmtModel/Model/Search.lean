/-
  Exact model of the search of the optimising line formatter: `format_line` / `find_optimal_solution` /
  `find_optimal_child_lines_solution` (rules/optimising_line_formatter/mod.rs), on top of the formatting contexts
  (Model/SearchContexts.lean), the decision requirements (Model/SearchRequirements.lean) and their types
  (Model/SearchTypes.lean: types.rs, parent_pointer_tree.rs, `BinaryHeap`).

  Recursion: `find_optimal_solution` calls itself for child lines (through `get_potential_solution` and
  `find_optimal_child_lines_solution`).  The model takes the solver of the child lines as a parameter (`Solver`) and ties
  the knot with a fuel that bounds the nesting depth (the number of lines: a child line is a different line than all of
  its ancestors).  The `child_line_cache` (a `RefCell`) is threaded through every function as a state.
-/
import PasfmtModel.Model.SearchRequirements

namespace Pasfmt

/-- `ChildWhitespace` -/
structure ChildWhitespace where
  whitespace : LineWhitespace
  deindent : Nat
  deriving DecidableEq, Repr, Inhabited, Hashable

/-- `ChildLineOption` -/
inductive ChildLineOption where
  | continueAll
  | breakAll (ws : ChildWhitespace)
  | continueThenBreak (ws : ChildWhitespace)
  deriving DecidableEq, Repr, Inhabited, Hashable

/-- `ChildLineInitialConditions` (`parent` is a `LineParent`) -/
structure ChildLineInitialConditions where
  lastLineLength : Nat
  parentLine : Nat
  parentToken : Nat
  childLineOption : ChildLineOption
  deriving DecidableEq, Repr, Inhabited, Hashable

/-- `child_line_cache`: only looked up by key and inserted into, never iterated -/
abbrev ChildLineCache := Std.HashMap ChildLineInitialConditions (List (Nat × FormattingSolution))

/-- `FormattingSolutionError` -/
inductive FormattingSolutionError where
  | noSolutionFound
  | iterationLimitReached
  deriving Repr, DecidableEq

/-- `find_optimal_solution` as seen by its callers: cache in, (result, cache) out -/
abbrev Solver := ChildLineCache → LineWhitespace → Nat → FirstDecision →
  Except FormattingSolutionError FormattingSolution × ChildLineCache

def u64Max : Nat := 18446744073709551615

/-! ### set-up of `OptimisingLineFormatter::format` -/

/-- the closure `get_line_tokens_before_gaps` of `get_line_children` -/
def getLineTokensBeforeGaps (lineTokens : Array Nat) : Array Nat :=
  let (_, gaps) := lineTokens.foldl (fun (acc : Option Nat × Array Nat) tokenIndex =>
    let (lastIndex, tokens) := acc
    let tokens := match lastIndex with
      | some li => if li + 1 != tokenIndex then tokens.push li else tokens
      | none => tokens
    (some tokenIndex, tokens)) ((none, #[]) : Option Nat × Array Nat)
  -- the last token can be seen to have a "gap" after it
  match lineTokens.back? with
  | some l => gaps.push l
  | none => gaps

/-- `gap_tokens.partition_point(|&gap| gap < first_token_index)` (the gaps are increasing because the tokens of a
    line are) -/
def gapsPartitionPoint (gaps : Array Nat) (firstTokenIndex : Nat) : Nat :=
  (gaps.toList.takeWhile fun gap => gap < firstTokenIndex).length

structure LineChildrenState where
  tokensBeforeGaps : Std.HashMap Nat (Array Nat) := {}
  lineParentMap : Std.HashMap (Nat × Nat) (Nat × Nat) := {}
  lineChildrenMap : Std.HashMap (Nat × Nat) LineChildren := {}

/-- the `while let Some(parent) = current_line.and_then(LogicalLine::get_parent)` loop of `get_line_children`
    (the fuel bounds the walk; parents form no cycle) -/
def lineChildrenWalk (lines : Array LineA) (lineIndex : Nat) :
    Nat → Option LineA → Bool → LineChildrenState → LineChildrenState
  | 0, _, _, st => st
  | fuel + 1, currentLine, firstParent, st =>
    match currentLine.bind (·.parent) with
    | none => st
    | some parent =>
      let pkey := (parent.lineIndex, parent.tokenIndex)
      let key := (st.lineParentMap.get? pkey).getD pkey
      let lc := (st.lineChildrenMap.get? key).getD { parentToken := parent.tokenIndex, lineIndices := #[], descendantCount := 0 }
      let lc := if firstParent then { lc with lineIndices := lc.lineIndices.push lineIndex } else lc
      let lc := { lc with descendantCount := lc.descendantCount + 1 }
      lineChildrenWalk lines lineIndex fuel lines[parent.lineIndex]? false
        { st with lineChildrenMap := st.lineChildrenMap.insert key lc }

/-- `get_line_children`.  The three hash maps are only looked up and inserted into.  `lines[parent.line_index]`
    panics in Rust for a parent that does not exist; the model then has no gap tokens for it. -/
def getLineChildren (lines : Array LineA) : Std.HashMap (Nat × Nat) LineChildren :=
  let st := (List.range lines.size).foldl (fun (st : LineChildrenState) lineIndex =>
    let line := lines[lineIndex]!
    match line.tokens[0]? with
    | none => st
    | some firstTokenIndex =>
      let st :=
        match line.parent with
        | none => st
        | some parent =>
          let (gapTokens, st) :=
            match st.tokensBeforeGaps.get? parent.lineIndex with
            | some g => (g, st)
            | none =>
              let g := getLineTokensBeforeGaps ((lines[parent.lineIndex]?.map fun (l : LineA) => l.tokens).getD #[])
              (g, { st with tokensBeforeGaps := st.tokensBeforeGaps.insert parent.lineIndex g })
          let mappedParentToken : Option Nat :=
            match gapsPartitionPoint gapTokens firstTokenIndex with
            | 0 => none
            | gapIndex + 1 => gapTokens[gapIndex]?
          let pkey := (parent.lineIndex, parent.tokenIndex)
          match mappedParentToken.filter (· != parent.tokenIndex) with
          | some m =>
            if st.lineParentMap.contains pkey then st
            else { st with lineParentMap := st.lineParentMap.insert pkey (parent.lineIndex, m) }
          | none => st
      lineChildrenWalk lines lineIndex (lines.size + 1) (some line) true st) {}
  st.lineChildrenMap

/-! ### lengths and penalties -/

/-- `get_last_child_line_len` -/
def getLastChildLineLen (childSolutions : List (Nat × FormattingSolution)) : Option Nat :=
  match childSolutions.getLast? with
  | none => none
  | some sln =>
    match sln.2.decisions.getLast? with
    | none => none
    | some decision => some decision.lastLineLength

/-- `get_token_line_length` -/
def Olf.getTokenLineLength (O : Olf) (startingWs : LineWhitespace) (prevDecision : DecisionRef) (decision : Dec)
    (tokenIndex : Option Nat) : Nat :=
  let multiline : Option Nat :=
    match tokenIndex.bind (fun index => O.formattedTokens[index]?) with
    | some t => t.lastLine
    | none => none
  match multiline with
  | some l => l
  | none =>
    match decision, tokenIndex.bind (fun index => O.tokenLengths[index]?) with
    | .cont, some tokenLength =>
      let parent := prevDecision.value
      (getLastChildLineLen parent.childSolutions).getD parent.lastLineLength + tokenLength.spacesBefore + tokenLength.content
    | .brk continuations, some tokenLength =>
      (startingWs.add { indentations := 0, continuations := continuations }).len O.cfg + tokenLength.content
    | _, none => startingWs.len O.cfg

/-- `PenaltyDecision` + `get_decision_penalty` -/
def Olf.getDecisionPenalty (O : Olf) (rawDecision : RawDecision) (lineLength lineIndex : Nat) (line : LineA)
    (stack : SpecificContextStack) : Nat :=
  let DEFAULT_BREAK_PENALTY : Nat := 3
  let isBreakingRoutineHeaderType : Unit → Bool := fun _ =>
    if !isOp (O.getPrevTokenTypeForLineIndex line lineIndex) (· == .oColon) then
      -- if the previous token isn't a colon, we aren't breaking a type
      false
    else
      match stack.find? fun (_, ctx) => (match ctx.contextType with | .anonHeader | .brackets _ _ => true | _ => false) with
      -- inside brackets can't be function header's type
      | some (_, ctx) => !ctx.contextType.isBrackets
      -- no relevant contexts, check for routine header line
      | none => line.ltype == .lRoutineHeader
  match rawDecision with
  | .brk =>
    let active := (stack.find? fun (_, ctx) => ctx.isActiveAtToken lineIndex).map fun (_, ctx) => ctx.contextType
    match active with
    | some (.brackets .angle _) => 2 ^ 10
    | _ =>
      if active == some .directivesLine && line.ltype == .lRoutineHeader then 2 ^ 9
      else if isBreakingRoutineHeaderType () then 2 ^ 8
      else DEFAULT_BREAK_PENALTY
  | .cont =>
    if lineLength > O.maxLineLength then
      2 ^ 20 + (lineLength - O.maxLineLength) * DEFAULT_BREAK_PENALTY
    else 0

/-! ### child lines -/

/-- `find_continuations_for_token_index` (`tokens` = the first `nextLineIndex` tokens of the line) -/
def findContinuationsForTokenIndex (tokenIndex : Nat) (lineTokens : Array Nat) (nextLineIndex : Nat)
    (decision : DecisionRef) : Option Nat :=
  let rec position : Nat → Nat → Option Nat
    | 0, _ => none
    | i + 1, depth => if lineTokens[i]! == tokenIndex then some depth else position i (depth + 1)
  match position (min nextLineIndex lineTokens.size) 0 with
  | none => none
  | some searchDepth =>
    (decision.walkParentsData.drop searchDepth).findSome? fun node =>
      match node.decision with
      | .brk continuations => some continuations
      | .cont => none

/-- `Potentials::and_then` with a stateful function (the first value is mapped first) -/
def Potentials.andThenM {α β σ : Type} (self : Potentials α) (map : σ → α → Option β × σ) (s : σ) : Potentials β × σ :=
  match self with
  | .none => (.none, s)
  | .one val =>
    match map s val with
    | (some mapped, s) => (.one mapped, s)
    | (Option.none, s) => (.none, s)
  | .two val1 val2 =>
    let (r1, s) := map s val1
    let (r2, s) := map s val2
    match r1, r2 with
    | some mapped1, some mapped2 => (.two mapped1 mapped2, s)
    | some mapped, Option.none | Option.none, some mapped => (.one mapped, s)
    | Option.none, Option.none => (.none, s)

/-- the loop over the child lines in `find_optimal_child_lines_solution` -/
def solveChildLines (O : Olf) (solveChild : Solver) (option : ChildLineOption) (childStartingWs : ChildWhitespace) :
    List Nat → Nat → ChildLineCache → Nat → List (Nat × FormattingSolution) →
      Option (List (Nat × FormattingSolution)) × ChildLineCache
  | [], _, cache, _, acc => (some acc.reverse, cache)
  | childLine :: rest, childLineIndex, cache, lastLineLength, acc =>
    let line := O.lines[childLine]!
    let childWhitespace : LineWhitespace :=
      { childStartingWs.whitespace with
        indentations := (childStartingWs.whitespace.indentations + line.level) - childStartingWs.deindent }
    let firstTokenDecision : FirstDecision :=
      match option with
      | .continueAll => .cont lastLineLength false
      | .breakAll _ => .brk
      | .continueThenBreak _ => if childLineIndex == 0 then .cont lastLineLength true else .brk
    match solveChild cache childWhitespace childLine firstTokenDecision with
    | (.error _, cache) => (none, cache)
    | (.ok solution, cache) =>
      let lastLineLength := match solution.decisions.getLast? with
        | some decision => decision.lastLineLength
        | none => lastLineLength
      solveChildLines O solveChild option childStartingWs rest (childLineIndex + 1) cache lastLineLength
        ((childLine, solution) :: acc)

/-- `find_optimal_child_lines_solution`; `(stack, node)` are the `parent_contexts` -/
def Olf.findOptimalChildLinesSolution (O : Olf) (solveChild : Solver) (cache : ChildLineCache) (line : Nat × LineA)
    (nextLineIndex : Nat) (startingWs : LineWhitespace) (decision : DecisionRef) (stack : SpecificContextStack)
    (node : FormattingNode) (tokenLineLength parentContinuations : Nat) :
    Potentials (List (Nat × FormattingSolution)) × ChildLineCache :=
  let lineParent := (line.1, line.2.tokens[nextLineIndex]!)
  match O.lineChildren.get? lineParent with
  | none => (.one [], cache)
  | some lineChildren =>
    let startingContinuations :=
      (findContinuationsForTokenIndex lineChildren.parentToken line.2.tokens nextLineIndex decision).getD parentContinuations
    let childStartingWs : ChildWhitespace :=
      { whitespace := startingWs.add { indentations := 0, continuations := startingContinuations }, deindent := 0 }
    let getFirstChildToken : Unit → Option TokenType := fun _ =>
      ((lineChildren.lineIndices[0]?.bind fun lineIndex => O.lines[lineIndex]?).bind fun line => line.tokens[0]?).bind
        fun tokenIndex => O.getTokenType tokenIndex
    -- `then begin`, `else if`: same indentation as the parent's line, achieved by deindenting by one level
    let parentBaseWs : ChildWhitespace := { whitespace := startingWs, deindent := 1 }
    let parentIndentedWs : ChildWhitespace := { whitespace := startingWs, deindent := 0 }
    match lineChildren.lineIndices[0]?.bind fun idx => O.lines[idx]? with
    | none => (.one [], cache)
    | some firstChild =>
      let mustBreakFirstChild := O.getFormattingInvariant 0 firstChild == some .mustBreak
      let parentTokenType := O.getTokenType lineChildren.parentToken
      let brokenOrChild := fun (p : FormattingContext × FormattingContextState) => p.2.isBroken || p.2.isChildBroken
      let startingOptions : Potentials ChildLineOption :=
        if isKw parentTokenType (fun | .kBegin | .kProcedure | .kFunction => true | _ => false) then
          -- anonymous routine subroutines and body
          match (getLastContext stack node fun | .commaElem | .assignRHS => true | _ => false).bind
              (fun (_, data) => data.breakAnonymousRoutine) with
          | some false => if lineChildren.descendantCount ≤ 1 then .one .continueAll else .none
          | _ => .one (.breakAll childStartingWs)
        else if isOp parentTokenType (· == .oLParen) then
          -- variant record fields
          if !(lineChildren.lineIndices.any fun index =>
              match O.lines[index]? with
              | some l => l.ltype == .lCaseHeader
              | none => false) then
            .two (.breakAll childStartingWs) .continueAll
          else
            -- a nested `case` in the declaration must `Break`
            .one (.breakAll childStartingWs)
        else if isKw parentTokenType (· == .kElse) then
          let first := getFirstChildToken ()
          if isKw first (· == .kIf) then
            if mustBreakFirstChild then .one (.breakAll parentIndentedWs)
            else .one (.continueThenBreak parentBaseWs)
          else if isKw first (· == .kBegin) then
            if O.breakBeforeBegin || mustBreakFirstChild then .one (.breakAll parentBaseWs)
            else .one (.continueThenBreak parentBaseWs)
          else .one (.breakAll childStartingWs)
        else if isKw parentTokenType (fun | .kThen | .kDo => true | _ => false) then
          let broken := (getLastContext stack node fun | .controlFlow | .forLoop => true | _ => false).map brokenOrChild
          let first := getFirstChildToken ()
          if broken == some false && isKw first (· == .kBegin) then
            if O.breakBeforeBegin || mustBreakFirstChild then .one (.breakAll parentBaseWs)
            else .two (.breakAll parentBaseWs) (.continueThenBreak parentBaseWs)
          else if isKw first (· == .kBegin) then .one (.breakAll parentBaseWs)
          else .one (.breakAll parentIndentedWs)
        else if isOp parentTokenType (· == .oColon) then
          let first := getFirstChildToken ()
          if isKw first (· == .kBegin) then
            if O.breakBeforeBegin || mustBreakFirstChild then .one (.breakAll parentBaseWs)
            else .two (.breakAll parentBaseWs) (.continueThenBreak parentBaseWs)
          else if isOp first (· == .oSemicolon) && lineChildren.descendantCount == 1 && !mustBreakFirstChild then
            -- exception for the empty body case, e.g., `A:;`
            .one .continueAll
          else if lineChildren.descendantCount == 1 then
            -- allow inline case arm statements
            .two .continueAll (.breakAll parentIndentedWs)
          else .one (.breakAll parentIndentedWs)
        else
          if (getLastContext stack node ctAny).map brokenOrChild == some true then .one (.breakAll childStartingWs)
          else .none
      startingOptions.andThenM (fun (cache : ChildLineCache) option =>
        let childStartingWs : ChildWhitespace :=
          match option with
          | .continueAll => { whitespace := LineWhitespace.zero, deindent := 0 }
          | .breakAll ws | .continueThenBreak ws => ws
        let cacheKey : ChildLineInitialConditions :=
          { lastLineLength := tokenLineLength, parentLine := lineParent.1, parentToken := lineParent.2,
            childLineOption := option }
        match cache.get? cacheKey with
        | some sol => (some sol, cache)
        | none =>
          match solveChildLines O solveChild option childStartingWs lineChildren.lineIndices.toList 0 cache tokenLineLength [] with
          | (none, cache) => (none, cache)
          | (some childSolutions, cache) => (some childSolutions, cache.insert cacheKey childSolutions)) cache

/-! ### the search -/

/-- what one `find_optimal_solution` call works with -/
structure SearchEnv where
  O : Olf
  solveChild : Solver
  line : Nat × LineA
  fc : LineFormattingContexts

/-- `get_potential_solution` -/
def SearchEnv.getPotentialSolution (E : SearchEnv) (cache : ChildLineCache) (nextNode : FormattingNode)
    (contexts : SpecificContextStack) (rawDecision : RawDecision) (requirement : DR) :
    Potentials FormattingNode × ChildLineCache :=
  let lineIndex := nextNode.nextLineIndex
  let nextNode := updateContexts E.fc contexts nextNode rawDecision
  let continuationCount := getContinuationCount contexts nextNode lineIndex
  let decision := rawDecision.withContinuation continuationCount
  let tokenLineLength := E.O.getTokenLineLength nextNode.startingWs nextNode.decision decision
    E.line.2.tokens[nextNode.nextLineIndex]?
  let nextNode := { nextNode with
    penalty := nextNode.penalty + E.O.getDecisionPenalty rawDecision tokenLineLength lineIndex E.line.2 contexts }
  let (childLineSolutions, cache) := E.O.findOptimalChildLinesSolution E.solveChild cache E.line nextNode.nextLineIndex
    nextNode.startingWs nextNode.decision contexts nextNode tokenLineLength continuationCount
  let getNextNode := fun (nextNode : FormattingNode) (childSolutions : List (Nat × FormattingSolution)) =>
    let nextNode := updateContextsFromChildSolutions contexts nextNode childSolutions
    let childPenalty := childSolutions.foldl (fun sum (_, solution) => sum + solution.penalty) 0
    let decision : TokenDecision :=
      { requirement := requirement, decision := decision, lastLineLength := tokenLineLength, childSolutions := childSolutions }
    { nextNode with
      penalty := nextNode.penalty + childPenalty,
      decision := nextNode.decision.addSuccessor decision,
      nextLineIndex := nextNode.nextLineIndex + 1 }
  let nodes : Potentials FormattingNode :=
    match childLineSolutions with
    | .none => .none
    | .one val => .one (getNextNode nextNode val)
    | .two val1 val2 => .two (getNextNode nextNode val1) (getNextNode nextNode val2)
  (nodes, cache)

/-- how an execution of the `'indiff` loop ends -/
inductive IndiffOutcome where
  /-- `node_heap.push(node); continue 'node_heap` -/
  | pushNode (node : FormattingNode)
  /-- `continue 'node_heap` (dead-end branch) -/
  | deadEnd
  /-- `break 'indiff` with these `node_successors` -/
  | broke (nodeSuccessors : List FormattingNode)

/-- the `'indiff` loop of `find_optimal_solution` (every iteration that continues advances `next_line_index`) -/
def SearchEnv.indiffLoop (E : SearchEnv) : Nat → ChildLineCache → Array Nat → FormattingNode →
    Option (FormattingNode × SpecificContextStack) → IndiffOutcome × ChildLineCache × Array Nat
  | 0, cache, bestPenalties, _, _ => (.deadEnd, cache, bestPenalties)
  | fuel + 1, cache, bestPenalties, node, indifferenceLine =>
    let lineIndex := node.nextLineIndex
    let contexts := E.fc.getSpecificContextStack lineIndex
    let lastTokenLength := node.decision.value.lastLineLength
    let lastChildLength := (getLastChildLineLen node.decision.value.childSolutions).getD 0
    let lastLineLength := max lastTokenLength lastChildLength
    let tooLong : Bool := lastLineLength > E.O.maxLineLength
    match (if tooLong then indifferenceLine else none) with
    | some (indiff, _) =>
      -- returning to the first `Indifferent` decision to push all successors
      let stack := E.fc.getSpecificContextStack indiff.nextLineIndex
      let (s1, cache) := E.getPotentialSolution cache indiff stack .brk .indifferent
      let (s2, cache) := E.getPotentialSolution cache indiff stack .cont .indifferent
      (.broke (s1.toList ++ s2.toList), cache, bestPenalties)
    | none =>
      if lineIndex ≥ E.line.2.tokens.size then
        -- potential solution found, adding to heap
        (.pushNode node, cache, bestPenalties)
      else
        let requirement := E.O.getFormattingRequirement node.nextLineIndex E.line.2 contexts node
        let getSolutions := fun (cache : ChildLineCache) (rawDecision : RawDecision) (node : FormattingNode)
            (stack : SpecificContextStack) => E.getPotentialSolution cache node stack rawDecision requirement
        -- the end of the loop body, after the `match requirement`
        let continueWith := fun (cache : ChildLineCache) (indifferenceLine : Option (FormattingNode × SpecificContextStack))
            (nodeSuccessors : List FormattingNode) =>
          match nodeSuccessors with
          | [single] => E.indiffLoop fuel cache bestPenalties single indifferenceLine
          | _ =>
            match indifferenceLine with
            | some (indiff, stack) =>
              -- multiple successors found, returning to the first `Indifferent` decision
              let (s1, cache) := getSolutions cache .brk indiff stack
              let (s2, cache) := getSolutions cache .cont indiff stack
              (.broke (nodeSuccessors ++ s1.toList ++ s2.toList), cache, bestPenalties)
            | none => (.broke nodeSuccessors, cache, bestPenalties)
        match requirement with
        | .invalid =>
          match indifferenceLine with
          | some (indiff, stack) =>
            let (s1, cache) := getSolutions cache .brk indiff stack
            let (s2, cache) := getSolutions cache .cont indiff stack
            (.broke (s1.toList ++ s2.toList), cache, bestPenalties)
          | none => (.deadEnd, cache, bestPenalties)
        | .mustBreak =>
          let lineIndex := node.nextLineIndex
          let (sols, cache) := getSolutions cache .brk node contexts
          let (nodeSuccessors, bestPenalties) := sols.toList.foldl
            (fun (acc : List FormattingNode × Array Nat) (node : FormattingNode) =>
              if node.penalty < acc.2[lineIndex]! then (acc.1 ++ [node], acc.2.set! lineIndex node.penalty)
              else acc) (([], bestPenalties) : List FormattingNode × Array Nat)
          (.broke nodeSuccessors, cache, bestPenalties)
        | .mustNotBreak =>
          let (sols, cache) := getSolutions cache .cont node contexts
          continueWith cache indifferenceLine sols.toList
        | .indifferent =>
          let indifferenceLine := match indifferenceLine with
            | none => some (node, contexts)
            | some x => some x
          let (sols, cache) := getSolutions cache .cont node contexts
          continueWith cache indifferenceLine sols.toList

/-- the "successor compression" loop around the `'indiff` loop: the heap after `continue 'node_heap` -/
def SearchEnv.successorLoop (E : SearchEnv) : Nat → NodeHeap → ChildLineCache → Array Nat → FormattingNode →
    NodeHeap × ChildLineCache × Array Nat
  | 0, heap, cache, bestPenalties, _ => (heap, cache, bestPenalties)
  | fuel + 1, heap, cache, bestPenalties, node =>
    match E.indiffLoop (E.line.2.tokens.size + 2) cache bestPenalties node none with
    | (.pushNode node, cache, bestPenalties) => (heapPush heap node, cache, bestPenalties)
    | (.deadEnd, cache, bestPenalties) => (heap, cache, bestPenalties)
    | (.broke [single], cache, bestPenalties) => E.successorLoop fuel heap cache bestPenalties single
    | (.broke nodeSuccessors, cache, bestPenalties) => (heapExtend heap nodeSuccessors, cache, bestPenalties)

/-- the `'node_heap` loop -/
def SearchEnv.nodeHeapLoop (E : SearchEnv) : Nat → NodeHeap → ChildLineCache → Array Nat → Nat →
    Except FormattingSolutionError FormattingSolution × ChildLineCache
  | 0, _, cache, _, _ => (.error .iterationLimitReached, cache)
  | fuel + 1, heap, cache, bestPenalties, iterationCount =>
    match heapPop heap with
    | none => (.error .noSolutionFound, cache)
    | some (node, heap) =>
      if iterationCount > E.O.iterationMax then (.error .iterationLimitReached, cache)
      else
        let iterationCount := iterationCount + 1
        if node.nextLineIndex ≥ E.line.2.tokens.size then (.ok node.intoSolution, cache)
        else if node.penalty > bestPenalties[node.nextLineIndex - 1]! then
          E.nodeHeapLoop fuel heap cache bestPenalties iterationCount
        else
          let (heap, cache, bestPenalties) := E.successorLoop (E.line.2.tokens.size + 2) heap cache bestPenalties node
          E.nodeHeapLoop fuel heap cache bestPenalties iterationCount

/-- `find_optimal_solution` for a given solver of the child lines -/
def Olf.findOptimalSolutionWith (O : Olf) (solveChild : Solver) (cache : ChildLineCache) (startingWs : LineWhitespace)
    (lineIdx : Nat) (firstTokenDecision : FirstDecision) :
    Except FormattingSolutionError FormattingSolution × ChildLineCache :=
  let lineA := O.lines[lineIdx]!
  let line := (lineIdx, lineA)
  match lineA.tokens[0]? with
  | none =>
    -- trivial solution for a line with no tokens
    (.ok (.mk startingWs [] 0 0), cache)
  | some firstTokenIndex =>
    let fc := LineFormattingContexts.new lineA O.tokenTypes
    let E : SearchEnv := { O := O, solveChild := solveChild, line := line, fc := fc }
    let bestPenalties : Array Nat := Array.replicate lineA.tokens.size u64Max
    let tl := O.tokenLengths[firstTokenIndex]!
    let spacesBefore := tl.spacesBefore
    let contentLen := tl.content
    let invariants := O.getFormattingInvariant 0 lineA
    let (newLine, requirement, lastLineLength, baseCanBreak) : Dec × DR × Nat × Bool :=
      match firstTokenDecision with
      | .brk =>
        if invariants == some .mustNotBreak then (.cont, .mustNotBreak, spacesBefore + contentLen, true)
        else (.brk 0, .mustBreak, startingWs.len O.cfg + contentLen, true)
      | .cont lineLength canBreak => (.cont, .mustNotBreak, lineLength + spacesBefore + contentLen, canBreak)
    if (invariants == some .mustNotBreak && newLine.toRaw == .brk) ||
        (invariants == some .mustBreak && newLine.toRaw == .cont) then
      -- this line breaks a formatting invariant
      (.error .noSolutionFound, cache)
    else
      let root : DecisionRef :=
        { value := { decision := newLine, requirement := requirement, lastLineLength := lastLineLength, childSolutions := [] },
          parents := [] }
      let initContextStack := fc.getSpecificContextStack 0
      let node : FormattingNode :=
        { startingWs := startingWs, decision := root, nextLineIndex := 1, contextData := fc.getDefaultContextData,
          penalty := O.getDecisionPenalty newLine.toRaw lastLineLength 0 lineA initContextStack }
      let node := if node.contextData.size > 0 then node.modifyData 0 fun baseContext => { baseContext with canBreak := baseCanBreak }
        else node
      let (childSols, cache) := O.findOptimalChildLinesSolution solveChild cache line 0 node.startingWs root
        initContextStack node lastLineLength 0
      -- `node.decision.get_mut().child_solutions = child_sol`: the two nodes of `Potentials::Two` share the root of the
      -- decision tree, so the second assignment is what both of them see
      let withChildren := fun (childSol : List (Nat × FormattingSolution)) =>
        { node with decision := { node.decision with value := { node.decision.value with childSolutions := childSol } } }
      let initial : List FormattingNode :=
        match childSols with
        | .none => []
        | .one childSol => [withChildren childSol]
        | .two _ childSol2 => [withChildren childSol2, withChildren childSol2]
      let heap := heapExtend #[] initial
      E.nodeHeapLoop (O.iterationMax + 3) heap cache bestPenalties 0

/-- `find_optimal_solution`; the fuel bounds the nesting of child lines (out of fuel = the recursion of the real code
    would not end; not reachable for lines whose parents form a forest) -/
def Olf.findOptimalSolution (O : Olf) : Nat → Solver
  | 0 => fun cache _ _ _ => (.error .noSolutionFound, cache)
  | fuel + 1 => fun cache startingWs lineIdx firstTokenDecision =>
    O.findOptimalSolutionWith (O.findOptimalSolution fuel) cache startingWs lineIdx firstTokenDecision

/-- `format_line` -/
def Olf.formatLine (O : Olf) (cache : ChildLineCache) (lineIdx : Nat) : Option FormattingSolution × ChildLineCache :=
  match O.lines[lineIdx]? with
  | none => (none, cache)
  | some line =>
    if line.ltype == .lAsmInstruction then (none, cache)
    else
      let firstDecision : FirstDecision :=
        match line.tokens[0]? with
        | some 0 => .cont 0 true
        | _ => .brk
      match O.findOptimalSolution (O.lines.size + 1) cache { indentations := line.level, continuations := 0 } lineIdx firstDecision with
      | (.ok solution, cache) => (some solution, cache)
      | (.error _, cache) => (none, cache)

/-! ### the interface to the wrapper stage -/

/-- what `OptimisingLineFormatter::format` sets up before the first line is wrapped and what the search keeps between
    calls: settings, `token_types`, `token_lengths` (spaces and content lengths as they are when the stage starts),
    the lines, `line_children`, and the `child_line_cache` (which lives as long as the stage) -/
structure SearchState where
  cfg : SearchCfg
  lines : Array LineA
  lineChildren : Std.HashMap (Nat × Nat) LineChildren
  tokenTypes : Array TokenType
  tokenLengths : Array TokenLength
  childLineCache : ChildLineCache

/-- `token_lengths`.  The spaces before a token that follows a line comment sharing its line with code are masked
    out when the token's own spacing rule could have kept the input's value (`keepsCur`): `TokenSpacing` gives such a
    token no spacing (the comment's rule writes nothing behind it), the wrapper must break before it
    (`get_formatting_invariant`: a line comment is followed by a line break) and therefore never measures it as a
    continuation, and the value is zeroed when the token starts a line.  So the search does not depend on the
    indentation of the line behind a trailing comment - by construction here; that the mask changes nothing is part of
    what the `wsearch` and `full` correspondences check on every case. -/
def tokenLengthsGo : Option Kind → FT → List TokenLength
  | _, [] => []
  | prev, t :: r =>
    let free := prev == some (.tComment .cInlineLine) && keepsCur t.tok.kind
    { spacesBefore := if free then 0 else t.fmt.sp, content := t.tok.content.length } :: tokenLengthsGo (some t.tok.kind) r

/-- the set-up of `OptimisingLineFormatter::format` (`get_line_children`, `token_types`, `token_lengths`, empty cache) -/
def searchInit (cfg : Config) (lines : List Line) (ft : FT) : SearchState :=
  let linesA := (lines.map Line.toA).toArray
  { cfg := cfg.searchCfg, lines := linesA, lineChildren := getLineChildren linesA,
    tokenTypes := (ft.map fun t => t.tok.kind).toArray,
    tokenLengths := (tokenLengthsGo none ft).toArray,
    childLineCache := {} }

/-- `format_line` on top-level line `lineIdx` with the tokens as they are now (`ft`: counters and texts are read live,
    e.g. the lengths of the lines of multi-line tokens): the solution (`none` = no solution / iteration limit /
    asm-instruction line) and the state with the updated cache -/
def searchSolveV (st : SearchState) (view : List SVTok) (lineIdx : Nat) : Option Sol × SearchState :=
  let O : Olf :=
    { cfg := st.cfg, iterationMax := 20000, formattedTokens := view.toArray,
      lines := st.lines, lineChildren := st.lineChildren, tokenTypes := st.tokenTypes, tokenLengths := st.tokenLengths }
  let (sol, cache) := O.formatLine st.childLineCache lineIdx
  (sol.map (·.toSol (st.lines.size + 1)), { st with childLineCache := cache })

/-- the search reads the live tokens only through their view (type and text) -/
def searchSolve (st : SearchState) (ft : FT) (lineIdx : Nat) : Option Sol × SearchState :=
  searchSolveV st (ft.map FTok.sview) lineIdx

end Pasfmt
