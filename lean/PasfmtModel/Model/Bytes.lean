/-
  Byte-level text representation shared by the whole model.

  pasfmt indexes bytes everywhere (`as_bytes()[i]`, `memchr`, `ws_len: u32`,
  cursor byte offsets), so text is `List UInt8`.  UTF-8 facts are explicit
  predicates, never implicit in the type.
-/
namespace Pasfmt

abbrev Bytes := List UInt8

/-- number of leading elements satisfying `p` (`bytes().take_while(p).count()`) -/
def countWhile (p : UInt8 → Bool) : Bytes → Nat
  | [] => 0
  | b :: r => if p b then countWhile p r + 1 else 0

/-- A byte that is blank on its own: code points U+0000 ..= U+0020. -/
@[inline] def isBlankByte (b : UInt8) : Bool := b ≤ 0x20

/-- Length of the maximal blank prefix: bytes `≤ 0x20` and the sequence `E3 80 80` (U+3000).
    Model of `count_leading_whitespace` / `count_unicode_whitespace` of lexer.rs (they agree
    with this on valid UTF-8). -/
def countLeadingWs : Bytes → Nat
  | [] => 0
  | 0xE3 :: 0x80 :: 0x80 :: r => countLeadingWs r + 3
  | b :: r => if b ≤ 0x20 then countLeadingWs r + 1 else 0

/-- blank run of a *reversed* text (U+3000 appears as `80 80 E3`). -/
def countLeadingWsRev : Bytes → Nat
  | [] => 0
  | 0x80 :: 0x80 :: 0xE3 :: r => countLeadingWsRev r + 3
  | b :: r => if b ≤ 0x20 then countLeadingWsRev r + 1 else 0

/-- `count_unicode_whitespace(input.chars().rev())` -/
def countTrailingWs (s : Bytes) : Nat := countLeadingWsRev s.reverse

/-- removes every blank (bytes ≤ 0x20 and E3 80 80) -/
def stripBlank : Bytes → Bytes
  | [] => []
  | 0xE3 :: 0x80 :: 0x80 :: r => stripBlank r
  | b :: r => if b ≤ 0x20 then stripBlank r else b :: stripBlank r

def BlankOnly (g : Bytes) : Prop := stripBlank g = []

instance (g : Bytes) : Decidable (BlankOnly g) := inferInstanceAs (Decidable (stripBlank g = []))

@[inline] def isUpper (b : UInt8) : Bool := 0x41 ≤ b && b ≤ 0x5A
@[inline] def isLower (b : UInt8) : Bool := 0x61 ≤ b && b ≤ 0x7A
@[inline] def isDigit (b : UInt8) : Bool := 0x30 ≤ b && b ≤ 0x39
@[inline] def isAlpha (b : UInt8) : Bool := isUpper b || isLower b
@[inline] def isAlnum (b : UInt8) : Bool := isAlpha b || isDigit b
/-- `u8::is_ascii_whitespace`: space, \t, \n, \x0C, \r (not \x0B) -/
@[inline] def isAsciiWs (b : UInt8) : Bool := b == 0x20 || b == 0x09 || b == 0x0A || b == 0x0C || b == 0x0D

@[inline] def toLowerByte (b : UInt8) : UInt8 := if isUpper b then b + 0x20 else b
@[inline] def toUpperByte (b : UInt8) : UInt8 := if isLower b then b - 0x20 else b

/-- ASCII lower-casing of a byte string (`to_ascii_lowercase`) -/
def asciiLower (s : Bytes) : Bytes := s.map toLowerByte
def asciiUpper (s : Bytes) : Bytes := s.map toUpperByte

/-- `eq_ignore_ascii_case` -/
def eqIgnoreCase (a b : Bytes) : Bool := asciiLower a == asciiLower b

/-- is `i` a char boundary of `s` in Rust's sense (0, len, or a non-continuation byte) -/
def isCharBoundary (s : Bytes) (i : Nat) : Bool :=
  if i == 0 then true
  else match s[i]? with
    | none => i == s.length
    | some b => !(0x80 ≤ b && b ≤ 0xBF)

@[inline] def isCont (b : UInt8) : Bool := 0x80 ≤ b && b ≤ 0xBF

/-- length of the well-formed UTF-8 character at the head of the text (Unicode Table 3-7), if any -/
def firstCharLen : Bytes → Option Nat
  | [] => none
  | b0 :: r =>
    if b0 < 0x80 then some 1
    else if 0xC2 ≤ b0 && b0 ≤ 0xDF then
      match r with
      | b1 :: _ => if isCont b1 then some 2 else none
      | _ => none
    else if 0xE0 ≤ b0 && b0 ≤ 0xEF then
      match r with
      | b1 :: b2 :: _ =>
        if (if b0 == 0xE0 then 0xA0 ≤ b1 && b1 ≤ 0xBF
            else if b0 == 0xED then 0x80 ≤ b1 && b1 ≤ 0x9F
            else isCont b1) && isCont b2 then some 3 else none
      | _ => none
    else if 0xF0 ≤ b0 && b0 ≤ 0xF4 then
      match r with
      | b1 :: b2 :: b3 :: _ =>
        if (if b0 == 0xF0 then 0x90 ≤ b1 && b1 ≤ 0xBF
            else if b0 == 0xF4 then 0x80 ≤ b1 && b1 ≤ 0x8F
            else isCont b1) && isCont b2 && isCont b3 then some 4 else none
      | _ => none
    else none

theorem firstCharLen_bounds (l : Bytes) (k : Nat) (h : firstCharLen l = some k) : 1 ≤ k ∧ k ≤ l.length := by
  unfold firstCharLen at h
  repeat' split at h
  all_goals first
    | (simp only [Option.some.injEq] at h; subst h; simp only [List.length_cons]; omega)
    | (simp at h)

/-- Well-formed UTF-8: a sequence of well-formed characters. -/
def validUtf8 (l : Bytes) : Bool :=
  match h : firstCharLen l with
  | none => l.isEmpty
  | some k => validUtf8 (l.drop k)
termination_by l.length
decreasing_by
  have := firstCharLen_bounds l k h
  simp only [List.length_drop]
  omega

def ValidUtf8 (s : Bytes) : Prop := validUtf8 s = true

/-- every `E3` byte is followed by two continuation bytes inside the text (true of valid UTF-8) -/
def nd : Bytes → Bool
  | [] => true
  | 0xE3 :: b1 :: b2 :: r => isCont b1 && isCont b2 && nd r
  | 0xE3 :: _ => false
  | _ :: r => nd r

/-- `fold ∘ stripBlank`: the sequence of non-blank characters, ASCII letters lower-cased -/
def foldStrip (c : Bytes) : Bytes := asciiLower (stripBlank c)

/-- first index of byte `c` (memchr) -/
def findByte (c : UInt8) : Bytes → Option Nat
  | [] => none
  | b :: r => if b == c then some 0 else (findByte c r).map (· + 1)

/-- first index of a byte satisfying `p` -/
def findIdx (p : UInt8 → Bool) : Bytes → Option Nat
  | [] => none
  | b :: r => if p b then some 0 else (findIdx p r).map (· + 1)

/-- first index at which `pat` occurs (memmem::find); `pat` non-empty in all uses -/
def findSub (pat : Bytes) : Bytes → Option Nat
  | [] => if pat.isEmpty then some 0 else none
  | b :: r => if pat.isPrefixOf (b :: r) then some 0 else (findSub pat r).map (· + 1)

/-- last index of byte `c` (rfind of an ASCII char) -/
def rfindByte (c : UInt8) (s : Bytes) : Option Nat :=
  match findByte c s.reverse with
  | none => none
  | some k => some (s.length - 1 - k)

def containsByte (c : UInt8) (s : Bytes) : Bool := s.any (· == c)

def countByte (c : UInt8) (s : Bytes) : Nat := (s.filter (· == c)).length

def replicateBytes (n : Nat) (s : Bytes) : Bytes := (List.replicate n s).flatten

-- hex helpers for the line protocol
def hexDigit (n : Nat) : Char :=
  if n < 10 then Char.ofNat (48 + n) else Char.ofNat (87 + n)

def toHex (s : Bytes) : String :=
  if s.isEmpty then "-" else
  String.ofList (s.foldr (fun b acc => hexDigit (b.toNat / 16) :: hexDigit (b.toNat % 16) :: acc) [])

def hexVal (c : Char) : Option Nat :=
  if '0' ≤ c ∧ c ≤ '9' then some (c.toNat - 48)
  else if 'a' ≤ c ∧ c ≤ 'f' then some (c.toNat - 87)
  else if 'A' ≤ c ∧ c ≤ 'F' then some (c.toNat - 55)
  else none

def ofHexChars : List Char → Option Bytes
  | [] => some []
  | a :: b :: r => do
    let x ← hexVal a
    let y ← hexVal b
    let rest ← ofHexChars r
    pure (UInt8.ofNat (x * 16 + y) :: rest)
  | _ => none

def ofHex (s : String) : Option Bytes :=
  if s == "-" then some [] else ofHexChars s.toList

end Pasfmt
