/-
  Executable (decidable) contract checkers: evaluated by the driver on every record, and proved
  sound w.r.t. the Prop-level hypotheses of the theorems in `Proofs/Contracts*.lean`.
-/
import PasfmtModel.Model.Pipeline
import PasfmtModel.Model.Mls

namespace Pasfmt

def all2B {α β : Type} (f : α → β → Bool) : List α → List β → Bool
  | [], [] => true
  | a :: as, b :: bs => f a b && all2B f as bs
  | _, _ => false

/-- frame of the wrapper stage on one token (C01 part): whitespace kept or dropped, content
    changed only in blanks/case when the original has no dangling `E3` -/
def wrapRelB (t t' : FTok) : Bool :=
  (t'.tok.ws == t.tok.ws || t'.tok.ws == []) &&
  (t'.tok.content == t.tok.content ||
    (!nd t.tok.content || (nd t'.tok.content && foldStrip t'.tok.content == foldStrip t.tok.content)))

def wrapFrameB (ft ft' : FT) : Bool := all2B wrapRelB ft ft'

/-- contents of all scanned tokens have no dangling `E3` (follows from valid UTF-8 + char-boundary
    token ends; checked per run until `lex_char_boundaries` is proved) -/
def contentsNdB (raw : List RawTok) : Bool := raw.all fun t => nd t.content

/-- content clause of `WrapContract`: the wrapper stage changes only non-ignored multi-line string
    literals, exactly as the string re-indenter computes from the token's final counters
    (includes `ReflowKeepsStringIndent`) -/
def wrapContentB (cfg : Config) (ft ft' : FT) : Bool :=
  all2B (fun t t' =>
    t'.tok.kind == t.tok.kind && t'.fmt.ignored == t.fmt.ignored &&
    t'.tok.content == mlsTok cfg.settings cfg.fmtMls t t'.fmt.ind t'.fmt.cont) ft ft'

/-- ignored tokens pass the wrapper stage untouched (flag, original whitespace, text), and no further
    token becomes ignored (C07) -/
def wrapIgnoredB (ft ft' : FT) : Bool :=
  all2B (fun t t' => t'.fmt.ignored == t.fmt.ignored &&
    (!t.fmt.ignored || (t'.tok.ws == t.tok.ws && t'.tok.content == t.tok.content))) ft ft'

/-- side conditions of the reconstruction theorems, evaluated on the final token list -/
def isSingleLineCommentK : Kind → Bool
  | .tComment .cInlineLine => true
  | .tComment .cIndividualLine => true
  | _ => false

/-- no safety-net newline is inserted in front of any ignored token (C07 `verbatim_emitted`) -/
def safeRunAllGo : Bool → FT → Bool
  | _, [] => true
  | mb, t :: r =>
    (!t.fmt.ignored || !(mb && !containsByte 0x0A t.tok.ws && !(t.tok.kind == .tEof))) &&
      safeRunAllGo (isSingleLineCommentK t.tok.kind) r

/-- the safety net does not fire at all -/
def noSafetyNetGo : Bool → FT → Bool
  | _, [] => true
  | mb, t :: r =>
    !(mb && !(t.tok.kind == .tEof) &&
        (if t.fmt.ignored then !containsByte 0x0A t.tok.ws else t.fmt.nl == 0)) &&
      noSafetyNetGo (isSingleLineCommentK t.tok.kind) r

def canonFmtB (f : FmtData) : Bool :=
  decide (f.nl ≤ 2) && (f.nl == 0 || f.sp == 0) && (f.nl != 0 || (f.ind == 0 && f.cont == 0 && decide (f.sp ≤ 1)))

def canonAll (ft : FT) : Bool :=
  ft.zipIdx.all fun (t, i) => t.fmt.ignored || (canonFmtB t.fmt && (i != 0 || (t.fmt.nl == 0 && t.fmt.sp == 0)))

def noNlAll (ft : FT) : Bool :=
  ft.all fun t => !containsByte 0x0A t.tok.content && (!t.fmt.ignored || !containsByte 0x0A t.tok.ws)

def noTabAll (ft : FT) : Bool :=
  ft.all fun t => !containsByte 0x09 t.tok.content && (!t.fmt.ignored || !containsByte 0x09 t.tok.ws)

end Pasfmt
