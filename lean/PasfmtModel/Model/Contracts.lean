/-
  Executable (decidable) contract checkers: evaluated by the driver on every record, and proved
  sound w.r.t. the Prop-level hypotheses of the theorems in `Proofs/Contracts*.lean`.
-/
import PasfmtModel.Model.Pipeline

namespace Pasfmt

def all2B {α β : Type} (f : α → β → Bool) : List α → List β → Bool
  | [], [] => true
  | a :: as, b :: bs => f a b && all2B f as bs
  | _, _ => false

/-- frame of the wrapper stage on one token (C01 part): whitespace kept or dropped, content
    changed only in blanks/case when the original has no dangling `E3` -/
def wrapRelB (t t' : FTok) : Bool :=
  (t'.tok.ws == t.tok.ws || t'.tok.ws == []) &&
  (t'.tok.content == t.tok.content ||
    (!nd t.tok.content || (nd t'.tok.content && foldStrip t'.tok.content == foldStrip t.tok.content)))

def wrapFrameB (ft ft' : FT) : Bool := all2B wrapRelB ft ft'

/-- contents of all scanned tokens have no dangling `E3` (follows from valid UTF-8 + char-boundary
    token ends; checked per run until `lex_char_boundaries` is proved) -/
def contentsNdB (raw : List RawTok) : Bool := raw.all fun t => nd t.content

end Pasfmt
