/-
  Executable side of the byte-level clauses of C08 (`C08.bytes_canonical`, `C08.C08_bytes_full_checked`): the decidable
  predicate `canonStateB` on the token state handed to the reconstructor, tallied by the driver on every case of the
  `full` stream (`info_c08b`).  Definitions only; the theorems are in Proofs/ReconBytes.lean.
-/
import PasfmtModel.Model.LayoutCheck

namespace Pasfmt

/-- the blank bytes of the property: space (0x20) and horizontal tab (0x09) -/
def isBlank (b : UInt8) : Bool := b == 0x20 || b == 0x09

/-- the first byte exists and is a space or a tab -/
def startsBlank (s : Bytes) : Bool :=
  match s.head? with
  | some b => isBlank b
  | none => false

/-- the last byte exists and is a space or a tab -/
def endsBlank (s : Bytes) : Bool :=
  match s.getLast? with
  | some b => isBlank b
  | none => false

/-- the reconstruction settings are of the kind `Config.settings` produces: the line terminator is LF or CR LF,
    the two indentation strings consist of spaces and tabs only -/
def settingsOkB (S : Settings) : Bool :=
  (S.nlStr == [0x0A] || S.nlStr == [0x0D, 0x0A]) && S.indStr.all isBlank && S.contStr.all isBlank

/-- what is asked of every single token: it is not kept verbatim; its counters are canonical (`canonFmtB`, the
    `canonFmt` of `Props/C08.lean`); its text contains no LF (no multi-line token), does not start and does not end
    with a space or a tab; and if its text is empty (the end-of-file token) it has no spaces and no indentation -/
def tokOkB (t : FTok) : Bool :=
  !t.fmt.ignored && canonFmtB t.fmt &&
  !containsByte 0x0A t.tok.content && !startsBlank t.tok.content && !endsBlank t.tok.content &&
  (!t.tok.content.isEmpty || (t.fmt.sp == 0 && t.fmt.ind == 0 && t.fmt.cont == 0))

/-- only the last token may have an empty text -/
def nonEmptyButLast : FT → Bool
  | [] => true
  | t :: r => (r.isEmpty || !t.tok.content.isEmpty) && nonEmptyButLast r

/-- the first token has no line break and no space before it -/
def firstOkB : FT → Bool
  | [] => true
  | t :: _ => t.fmt.nl == 0 && t.fmt.sp == 0

def canonStateB (S : Settings) (ft : FT) : Bool :=
  settingsOkB S && ft.all tokOkB && nonEmptyButLast ft && firstOkB ft

/-- `tokOkB` without the canonical counters -/
def tokContentOkB (t : FTok) : Bool :=
  !t.fmt.ignored &&
  !containsByte 0x0A t.tok.content && !startsBlank t.tok.content && !endsBlank t.tok.content &&
  (!t.tok.content.isEmpty || (t.fmt.sp == 0 && t.fmt.ind == 0 && t.fmt.cont == 0))

/-- `CanonState` without the settings and without the canonical counters: no token is kept verbatim, no text
    contains LF or starts or ends with a space or a tab, only the last text may be empty (and then it has no spaces
    and no indentation before it), the first token has no line break and no space before it -/
def contentStateB (ft : FT) : Bool :=
  ft.all tokContentOkB && nonEmptyButLast ft && firstOkB ft

/-- the token state the closed model hands to the reconstructor (`formatFull` without its last step) -/
def finalStateFull (cfg : Config) (alnum : Bytes → Bool) (s : Bytes) : Option FT :=
  match lex s with
  | none => none
  | some raw =>
    match parseAndConsolidate raw with
    | none => none
    | some po =>
      match wrapStageFull cfg (preWrap (preO alnum po) raw).2.1 (preWrap (preO alnum po) raw).2.2 with
      | none => none
      | some (ft2, _) => some ft2

end Pasfmt
