/-
  Exact model of the control flow of `core/src/defaults/parser.rs` (which line-building primitive is
  called when, and how token kinds are consolidated), on top of the primitive machine of `Model/Parser.lean`.

  Part 3: the mutually recursive functions of `impl InternalDelphiLogicalLineParser` (one mutual block, structural
  recursion on a fuel argument), `parse`, and `parse_file`.
  Parts 1 and 2 are `Model/ParserBase.lean` (state, accessors, contexts, predicates) and `Model/ParserLeaf.lean`
  (functions that never reach `parse_structures` / `parse_statement`).
-/
import PasfmtModel.Model.ParserLeaf

namespace Pasfmt

structure ParseFullOut where
  /-- token kinds after parsing (still `RawTokenType`; the conversion to `TokenType` is `toTokenType`) -/
  kinds : List RawKind
  /-- the logical lines, in the order `parse_file` returns them -/
  lines : List PLine
  /-- per conditional-directive pass: its token indices and the trace of primitives the control flow issued -/
  traces : List (List Nat × List POp)
  /-- per conditional-directive pass: the lines the line builder holds at the end of the pass -/
  passLines : List (List PLine)

namespace PFull

/-- the `impl Fn(&mut LLP)` closures handed to `do_with_context` (defunctionalised) -/
inductive Action where
  /-- `|parser| parser.parse_statement_list_with_type(context_type)` (in `parse_statement_block_with_kind`) -/
  | parseStatementListWithType (ct : ContextType)
  /-- `|parser| parser.parse_structures()` (in `parse_statement_list_with_type_and_predicate`) -/
  | parseStructures
  /-- `|parser| { parser.parse_structures(); parser.finish_logical_line(); }` (in `parse_block`) -/
  | parseStructuresFinish
  /-- `|parser| parser.next_token()` (in `parse_anonymous_routine`) -/
  | nextToken
  /-- `|parser| parser.parse_routine()` (in `parse_anonymous_routine`) -/
  | parseRoutine
  /-- `|parser| parser.parse_asm_instructions()` (in `parse_asm_block`) -/
  | parseAsmInstructions
  deriving Repr

/-- short-circuit `&&` whose right operand reads the state -/
@[inline] def andM (b : Bool) (m : PM Bool) : PM Bool := if b then m else pure false

def mkCtx (ct : ContextType) (p : ContextEndingPredicate) (l : ParserContextLevel) : ParserContext :=
  { contextType := ct, contextEndingPredicate := p, level := l }

/-- the `any(|ctx| matches!(ctx.context_type, ..))` scans over `context.contexts` -/
def PS.anyContextType (s : PS) (cts : List ContextType) : Bool :=
  s.contexts.any (fun c => cts.contains c.1.contextType)

mutual

/-- `parse_structures` -/
def parseStructures : Nat → PM Unit
  | 0 => panic_
  | fuel + 1 => do
    let s ← get
    let some tokenType := s.getCurrentTokenType | return
    if let some endingContext ← endingIdx then
      updateStatuses endingContext
      return
    let t := some tokenType
    let lastCtx := s.getLastContextType
    if ← andM (tokenType == .rCompilerDirective)
        (do if ← isDirectiveBeforeNextToken then isDirectiveAfterPrevToken else pure false) then
      skipToken
    else if isCommentKind tokenType || tokenType == .rCompilerDirective then
      nextToken
      if tokenType == .rCompilerDirective then setLogicalLineType .lCompilerDirective
      if (← get).isInStatement then finishLogicalLine else makeUnfinishedLine
    else if isKeyword t [.kLibrary, .kUnit, .kProgram, .kPackage] || isIdentOrKeyword t [.kPackage] then
      if (s.getTokenType (-1)).isNone then
        consolidateCurrentKeyword
        let pushProgramHeadContext (ct : ContextType) : PM Unit :=
          pushCtx (mkCtx ct (.opaque .neverEnding) (.level 0))
        match getKeywordKind tokenType with
        | some .kLibrary => pushProgramHeadContext .library
        | some .kUnit => pushProgramHeadContext .unit
        | some .kProgram => pushProgramHeadContext .program
        | some .kPackage => pushProgramHeadContext .package
        | _ => pure ()
      nextToken
      opUntil afterSemicolon (.keywordConsolidator false) fuel
      finishLogicalLine
    else if ← andM (isOp t [.oLBrack]) isAtStartOfLine then
      skipPair fuel
      setLogicalLineType .lAttribute
      makeUnfinishedLine
    else if isKeyword t [.kInterface, .kImplementation, .kInitialization, .kFinalization] then
      finishLogicalLine
      nextToken
      finishLogicalLine
      if tokenType == .rKeyword .kInterface then
        parseBlock fuel (mkCtx .interface (.opaque .sectionHeadings) (.level 0))
      else if tokenType == .rKeyword .kImplementation then
        parseBlock fuel (mkCtx .implementation (.opaque .sectionHeadings) (.level 0))
      else if tokenType == .rKeyword .kInitialization then
        parseStatementBlockWithKind fuel
          (mkCtx (.statementBlock .bInitialization) (.opaque .sectionHeadings) (.level 1)) .sNormal
      else
        parseStatementBlockWithKind fuel
          (mkCtx (.statementBlock .bFinalization) (.opaque .sectionHeadings) (.level 1)) .sNormal
    else if isKeyword t [.kBegin] then
      nextToken
      parseStatementListBlock fuel (mkCtx (.statementBlock .bBegin) (.opaque .kwEnd) (.level 1))
      if isKeyword (← cur) [.kEnd] then nextToken
      if isOp (← cur) [.oDot] then nextToken else takeUntil noMoreSeparators fuel
      finishLogicalLine
    else if isKeyword t [.kEnd] then
      nextToken
      if isOp (← cur) [.oDot] then nextToken
    else if isKeyword t [.kRepeat] then
      nextToken
      parseStatementListBlock fuel (mkCtx (.statementBlock .bRepeat) (.opaque .kwUntil) (.level 1))
      nextToken
      pushCtx (mkCtx .blockClause (.transparent .neverEnding) (.level 0))
      parseStatement fuel
      popCtx
      takeUntil noMoreSeparators fuel
      finishLogicalLine
    else if isKeyword t [.kTry] then
      nextToken
      parseStatementListBlock fuel (mkCtx (.statementBlock .bTry) (.opaque .exceptFinally) (.level 1))
      let (contextType, statementKind) :=
        if isKeyword (← cur) [.kExcept] then (ContextType.statementBlock .bExcept, StatementKind.sExcept)
        else (ContextType.statementBlock .bFinally, StatementKind.sNormal)
      nextToken
      parseStatementBlockWithKind fuel (mkCtx contextType (.opaque .elseEnd) (.level 1)) statementKind
      if isKeyword (← cur) [.kElse] then
        nextToken
        parseStatementListBlock fuel (mkCtx (.statementBlock .bElse) (.opaque .kwEnd) (.level 1))
      nextToken
      takeUntil noMoreSeparators fuel
      finishLogicalLine
    else if (isKeyword t [.kOn] || isIdentOrKeyword t [.kOn]) && lastCtx == some (.statement .sExcept) then
      consolidateCurrentKeyword
      parseDoStatement fuel .kOn
    else if isKeyword t [.kFor, .kWhile, .kWith] then
      match tokenType with
      | .rKeyword keywordKind => parseDoStatement fuel keywordKind
      | _ => pure ()
    else if isKeyword t [.kIf] then
      parseIfThen fuel
    else if isKeyword t [.kElse] then
      nextToken
    else if isKeyword t [.kCase] then
      if s.anyContextType [.typeDeclaration] then parseVariantRecord fuel else parseCaseStatement fuel
    else if isKeyword t [.kUses] then
      parseImportClause fuel
    else if (isKeyword t [.kContains, .kRequires] || isIdentOrKeyword t [.kContains, .kRequires])
        && lastCtx == some .package then
      parseImportClause fuel
    else if isKeyword t [.kExports] then
      finishLogicalLine
      nextToken
      finishLogicalLine
      pushCtx (mkCtx .importExport (.opaque .neverEnding) (.level 1))
      parseCommentLines fuel
      parseExpression fuel
      opUntil afterSemicolon .parseExports fuel
      setLogicalLineType .lExportClause
      finishLogicalLine
      popCtx
    else if isKeyword t [.kClass] then
      nextToken
      if (← curKw) == some .kOperator then
        consolidateCurrentKeyword
        consolidateClassOpIn
    else if isKeyword t [.kStrict] || isIdentOrKeyword t [.kStrict] then
      nextToken
    else if (isKeyword t [.kPrivate, .kProtected, .kPublic, .kPublished, .kAutomated]
          || isIdentOrKeyword t [.kPrivate, .kProtected, .kPublic, .kPublished, .kAutomated])
        && s.isInTypeDecl then
      if isIdentOrKeyword (s.getTokenType (-1)) [.kStrict] then consolidatePrevKeyword
      consolidateCurrentKeyword
      nextToken
      finishLogicalLine
      parseBlock fuel (mkCtx .visibilityBlock (.opaque .visibilityBlockEnding) (.level 1))
    else if (match tokenType with | .rKeyword k => k.isDeclSection | _ => false) then
      if (match lastCtx with | some (.statement _) | some (.statementBlock _) => true | _ => false) then
        -- Inline declaration (`continue`)
        setLogicalLineType .lInlineDeclaration
        setCurrentDeclKind .dkInline
        nextToken
      else
        setCurrentDeclKind .dkSection
        nextToken
        let reduceLevel := (← lastCtxType) == some .subRoutine
        if reduceLevel then pushCtx (mkCtx .subRoutine (.opaque .neverEnding) (.level (-1)))
        finishLogicalLine
        let contextType := if tokenType == .rKeyword .kType then ContextType.typeBlock else .declarationBlock
        parseBlock fuel (mkCtx contextType (.opaque .declarationSection) (.level 1))
        if reduceLevel then popCtx
    else if isKeyword t [.kProperty] then
      parsePropertyDeclaration fuel
    else if isKeyword t [.kFunction, .kProcedure, .kConstructor, .kDestructor, .kOperator] then
      parseRoutine fuel
    else if isKeyword t [.kAsm] then
      parseAsmBlock fuel
    else if isKeyword t [.kRaise] then
      nextToken
      parseExpression fuel
      if (← curKw) == some .kAt then
        consolidateCurrentKeyword
        parseExpression fuel
    else
      parseStatement fuel
    parseStructures fuel

/-- `parse_if_then` -/
def parseIfThen : Nat → PM Unit
  | 0 => panic_
  | fuel + 1 => do
    nextToken
    parseLineSection fuel (mkCtx .utility (.opaque .kwThen) (.level 0))
    if (← curKw) != some .kThen then return
    let parent ← getLineParentOfCurrentToken
    nextToken
    let mut level := ParserContextLevel.parent parent 1
    parseBlock fuel (mkCtx (.statement .sNormal) (.transparent .elseKeyword) level)
    if (← get).lastIsEndedIsFalse then
      if (← curKw) == some .kElse then
        let parent ← getLineParentOfCurrentToken
        nextToken
        level := ParserContextLevel.parent parent 1
        parseBlock fuel (mkCtx (.statement .sNormal) (.transparent .neverEnding) level)
    takeSeparatorsOnLastLine fuel level
    finishLogicalLine

/-- `parse_do_statement` -/
def parseDoStatement : Nat → KeywordKind → PM Unit
  | 0, _ => panic_
  | fuel + 1, keywordKind => do
    nextToken
    setLogicalLineType (if keywordKind == .kFor then .lForLoop else .lUnknown)
    parseLineSection fuel (mkCtx .utility (.opaque .kwDo) (.level 0))
    if (← curKw) != some .kDo then return
    let parent ← getLineParentOfCurrentToken
    nextToken
    let level := ParserContextLevel.parent parent 1
    parseBlock fuel (mkCtx (.statement .sNormal) (.transparent .neverEnding) level)
    takeSeparatorsOnLastLine fuel level
    finishLogicalLine

/-- `parse_case_statement` -/
def parseCaseStatement : Nat → PM Unit
  | 0 => panic_
  | fuel + 1 => do
    nextToken
    setLogicalLineType .lCaseHeader
    parseLineSection fuel (mkCtx .utility (.opaque .kwOf) (.level 0))
    if isKeyword (← cur) [.kOf] then nextToken else return
    finishLogicalLine
    parseStatementBlockWithKind fuel (mkCtx (.statement .sCase) (.opaque .caseEndElse) (.level 1)) .sCase
    if isKeyword (← cur) [.kElse] then
      nextToken
      finishLogicalLine
      parseStatementListBlock fuel (mkCtx (.statementBlock .bElse) (.opaque .kwEnd) (.level 1))
    if isKeyword (← cur) [.kEnd] then nextToken

/-- `parse_variant_record` -/
def parseVariantRecord : Nat → PM Unit
  | 0 => panic_
  | fuel + 1 => do
    let s ← get
    let levelDelta : Int :=
      match s.getLastContext with
      | some { level := .parent _ _, .. } => 0
      | _ => -1
    pushCtx (mkCtx .variantRecord (.transparent .neverEnding) (.level levelDelta))
    nextToken
    setLogicalLineType .lCaseHeader
    parseLineSection fuel (mkCtx .utility (.opaque .kwOf) (.level 0))
    if isKeyword (← cur) [.kOf] then nextToken else return
    finishLogicalLine
    parseStatementBlockWithKind fuel (mkCtx .variantDeclarationBlock (.transparent .rparen) (.level 1)) .sVariantRecord
    popCtx

/-- `parse_case_arm` -/
def parseCaseArm : Nat → LineParent → PM Unit
  | 0, _ => panic_
  | fuel + 1, parent => do
    let level := ParserContextLevel.parent parent 1
    parseBlock fuel (mkCtx (.statement .sNormal) (.transparent .neverEnding) level)
    takeSeparatorsOnLastLine fuel level
    finishLogicalLine

/-- `parse_comment_lines` -/
def parseCommentLines : Nat → PM Unit
  | 0 => panic_
  | fuel + 1 => parseBlock fuel (mkCtx .utility (.opaque .notCommentOrDirective) (.level 0))

/-- `parse_import_clause` -/
def parseImportClause : Nat → PM Unit
  | 0 => panic_
  | fuel + 1 => do
    finishLogicalLine
    consolidateCurrentKeyword
    nextToken
    finishLogicalLine
    pushCtx (mkCtx .importExport (.opaque .neverEnding) (.level 1))
    parseCommentLines fuel
    opUntil afterSemicolon .importClause fuel
    setLogicalLineType .lImportClause
    finishLogicalLine
    popCtx

/-- `parse_statement` -/
def parseStatement : Nat → PM Unit
  | 0 => panic_
  | fuel + 1 => do
    let s ← get
    let some tokenType := s.getCurrentTokenType | return
    if let some context := s.getLastContext then
      if let some endingContext ← endingIdx then
        updateStatuses endingContext
        return
      if ← isAtStartOfLine then
        let lineType : Option LogicalLineType :=
          match context.contextType with
          | .statement .sCase => some .lCaseArm
          | .labelBlock | .typeBlock | .declarationBlock | .visibilityBlock => some .lDeclaration
          | .statement .sVariantRecord => some .lVariantRecordCaseArm
          | _ => none
        if let some lineType := lineType then setLogicalLineType lineType
    let t := some tokenType
    let lastCtx := s.getLastContextType
    if isKeyword t [.kClass, .kInterface, .kDispInterface, .kRecord, .kObject] then
      nextToken
      if (match ← curKw with | some .kAbstract | some .kSealed => true | _ => false) then
        if (← nextTT) != some (.rOp .oColon) then consolidateCurrentKeyword
        nextToken
      let nt ← nextTT
      if (← curKw) == some .kHelper && (isKeyword nt [.kFor] || isOp nt [.oLParen]) then
        consolidateCurrentKeyword
        nextToken
        if (← cur) == some (.rOp .oLParen) then parseParens fuel
        if (← curKw) == some .kFor then nextToken
        parseExpression fuel
      else if (← cur) == some (.rOp .oLParen) then
        parseParens fuel
      let c ← cur
      if isKeyword c [.kOf] then
        -- class of ... (`break`)
        nextToken
        return
      else if isOp c [.oSemicolon] then
        return
      finishLogicalLine
      pushCtx (mkCtx .typeDeclaration (.opaque .kwEnd) (.level 0))
      pushCtx (mkCtx .visibilityBlock (.opaque .visibilityBlockEnding) (.level 1))
      if isOp (← cur) [.oLBrack] && isTextLiteral (← nextTT) then
        nextToken
        takeUntil (fun p => isOp p.getCurrentTokenType [.oRBrack]) fuel
        nextToken
        setLogicalLineType .lGuid
        finishLogicalLine
      parseStructures fuel
      popCtx
      parseStructures fuel
      popCtx
      finishLogicalLine
      nextToken
      opUntil afterSemicolon (.keywordConsolidator true) fuel
      takeUntil noMoreSeparators fuel
      finishLogicalLine
      return
    else if isKeyword t [.kOf] then
      if lastCtx == some .blockClause then
        popCtx
        return
      else
        nextToken
        if isConstKeyword (← cur) then
          setCurrentTokenType (.rKeyword (.kConst .dkOther))
          nextToken
    else if isVarKeyword t then
      if isKeyword (s.getTokenType (-1)) [.kFor] then setCurrentDeclKind .dkInline
      nextToken
    else if isOp t [.oLParen] then
      if isOp (s.getTokenType (-1)) [.oColon] && lastCtx == some (.statement .sVariantRecord) then
        parseVariantRecordFields fuel
      else parseParens fuel
    else if isOp t [.oSemicolon] then
      takeUntil noMoreSeparators fuel
      finishLogicalLine
      return
    else if isLessThanOp t && lastCtx == some .typeBlock then
      skipPair fuel
    else if isOp t [.oColon] then
      let parent ← getLineParentOfCurrentToken
      nextToken
      if (← curLine).ltype == .lCaseArm then
        finishLogicalLine
        parseCaseArm fuel parent
      else if (match ← lastCtxType with
          | some .visibilityBlock | some .declarationBlock | some .typeDeclaration => true
          | _ => false) then
        let c ← cur
        if isKeyword c [.kClass] then nextToken
        else if isKeyword c [.kFunction, .kProcedure] then
          parseRoutineHeader fuel
          finishLogicalLine
          return
      consolidateCurrentCaretToType
    else if isEqualOp t then
      if (match lastCtx with
          | some .declarationBlock | some .typeBlock | some (.statement _) => true
          | _ => false) then
        if !(← curLineTokenTypes).any (fun tt => tt == .rOp (.oEqual .eDecl) || tt == .rOp .oAssign) then
          setCurrentTokenType (.rOp (.oEqual .eDecl))
      nextToken
      if (← lastCtxType) == some .typeBlock then
        let c ← cur
        if isKeyword c [.kType] then
          nextToken
          if isKeyword (← cur) [.kOf] then nextToken
        else if isCaretOp c then
          consolidateCurrentCaretToType
          nextToken
        else if isKeyword c [.kFunction, .kProcedure] then
          parseRoutineHeader fuel
          finishLogicalLine
          return
        else if isOp c [.oLParen] then
          let parenLevel := (← get).parenLevel
          nextToken
          opUntil (outsideParens parenLevel) .enumDefinition fuel
    else if isIdentOrKeyword t [.kReference] then
      if isKeyword (s.getTokenType 1) [.kTo] then consolidateCurrentKeyword
      nextToken
    else if tokenType == .rKeyword (.kIn .iOp) then
      if ← andM ((← curLine).ltype == .lForLoop)
          (do pure (!(← curLineTokenTypes).any (fun tt => tt == .rKeyword (.kIn .iForLoop)))) then
        setCurrentTokenType (.rKeyword (.kIn .iForLoop))
      nextToken
    else if isKeyword t [.kTo] then
      nextToken
      if isKeyword (← cur) [.kFunction, .kProcedure] then
        parseRoutineHeader fuel
        finishLogicalLine
        return
    else if isIdentOrKeyword t [.kAbsolute]
        && (s.getTokenType (-1) == some .rIdentifier || isAnyIdentOrKeyword (s.getTokenType (-1))) then
      consolidateCurrentKeyword
      nextToken
    else if isOp t [.oAssign] then
      nextToken
      if (← curLine).ltype == .lUnknown then setLogicalLineType .lAssignment
    else if isKeyword t [.kFunction, .kProcedure] then
      parseAnonymousRoutine fuel
    else if isKeyword t [.kBegin] then
      nextToken
      parseStatementListBlock fuel (mkCtx (.statementBlock .bBegin) (.opaque .kwEnd) (.level 1))
      nextToken
      takeUntil noMoreSeparators fuel
      finishLogicalLine
    else if ← andM (tokenType == .rIdentifier || isNumberLiteral t || isAnyIdentOrKeyword t)
        (do
          if ← isAtStartOfLine then
            pure (s.getTokenType 1 == some (.rOp .oColon)
              && !(match lastCtx with
                | some .declarationBlock | some .visibilityBlock | some (.statement .sCase)
                | some (.statement .sVariantRecord) | some .variantDeclarationBlock | some .typeDeclaration => true
                | _ => false))
          else pure false) then
      -- Labels
      nextToken
      nextToken
      finishLogicalLine
      return
    else
      nextToken
    parseStatement fuel

/-- `parse_line_section` -/
def parseLineSection : Nat → ParserContext → PM Unit
  | 0, _ => panic_
  | fuel + 1, context => do
    pushCtx context
    parseStatement fuel
    popCtx

/-- `parse_statement_list_block` -/
def parseStatementListBlock : Nat → ParserContext → PM Unit
  | 0, _ => panic_
  | fuel + 1, context => parseStatementBlockWithKind fuel context .sNormal

/-- `parse_statement_block_with_kind` -/
def parseStatementBlockWithKind : Nat → ParserContext → StatementKind → PM Unit
  | 0, _, _ => panic_
  | fuel + 1, context, statementKind =>
    doWithContext fuel context (.parseStatementListWithType (.statement statementKind))

/-- `parse_statement_list_with_type` -/
def parseStatementListWithType : Nat → ContextType → PM Unit
  | 0, _ => panic_
  | fuel + 1, contextType =>
    parseStatementListWithTypeAndPredicate fuel contextType (.transparent .semicolon)

/-- `parse_statement_list_with_type_and_predicate` (one iteration of its `loop` per call) -/
def parseStatementListWithTypeAndPredicate : Nat → ContextType → ContextEndingPredicate → PM Unit
  | 0, _, _ => panic_
  | fuel + 1, contextType, contextEndingPredicate => do
    let level := ParserContextLevel.level 0
    doWithContext fuel (mkCtx contextType contextEndingPredicate level) .parseStructures
    finishLogicalLine
    takeSeparatorsOnLastLine fuel level
    if (← endingIdx).isSome || (← cur).isNone then return
    parseStatementListWithTypeAndPredicate fuel contextType contextEndingPredicate

/-- `parse_block` -/
def parseBlock : Nat → ParserContext → PM Unit
  | 0, _ => panic_
  | fuel + 1, context => doWithContext fuel context .parseStructuresFinish

/-- the `action(self)` call of `do_with_context` -/
def runAction : Nat → Action → PM Unit
  | 0, _ => panic_
  | fuel + 1, action =>
    match action with
    | .parseStatementListWithType ct => parseStatementListWithType fuel ct
    | .parseStructures => parseStructures fuel
    | .parseStructuresFinish => do
      parseStructures fuel
      finishLogicalLine
    | .nextToken => nextToken
    | .parseRoutine => parseRoutine fuel
    | .parseAsmInstructions => parseAsmInstructions fuel

/-- `do_with_context` -/
def doWithContext : Nat → ParserContext → Action → PM Unit
  | 0, _, _ => panic_
  | fuel + 1, context, action => do
    let contextParent := context.level.parent?
    match contextParent with
    | some p => prim (.pushLine p)
    | none => finishLogicalLine
    pushCtx context
    runAction fuel action
    popCtx
    if contextParent.isSome then prim .popLine

/-- `parse_parens` (one iteration of its `loop` per call of `parseParensGo`) -/
def parseParens : Nat → PM Unit
  | 0 => panic_
  | fuel + 1 => do
    nextToken
    parseParensGo fuel

def parseParensGo : Nat → PM Unit
  | 0 => panic_
  | fuel + 1 => do
    let t ← cur
    if t.isNone then return
    if isOp t [.oLParen] then parseParens fuel
    else if isOp t [.oRParen] then
      nextToken
      return
    else if isKeyword t [.kFunction, .kProcedure] then parseAnonymousRoutine fuel
    else nextToken
    parseParensGo fuel

/-- `parse_variant_record_fields` -/
def parseVariantRecordFields : Nat → PM Unit
  | 0 => panic_
  | fuel + 1 => do
    let parent ← getLineParentOfCurrentToken
    nextToken
    parseBlock fuel (mkCtx .declarationBlock (.opaque .rparen) (.parent parent 1))
    if isOp (← cur) [.oRParen] then nextToken

/-- `parse_anonymous_routine` -/
def parseAnonymousRoutine : Nat → PM Unit
  | 0 => panic_
  | fuel + 1 => do
    let routineKeywordParent ← getLineParentOfCurrentToken
    nextToken
    parseAnonymousRoutineGo fuel routineKeywordParent

/-- the `loop` of `parse_anonymous_routine` -/
def parseAnonymousRoutineGo : Nat → LineParent → PM Unit
  | 0, _ => panic_
  | fuel + 1, routineKeywordParent => do
    let some tokenType ← cur | return
    let t := some tokenType
    if isOp t [.oLParen] then
      parseParameterList fuel
    else if (match tokenType with | .rKeyword k => k.isDeclSection | _ => false) then
      let contextType : ContextType :=
        if tokenType == .rKeyword .kType then .typeBlock
        else if tokenType == .rKeyword .kLabel then .labelBlock
        else .declarationBlock
      setCurrentDeclKind .dkAnonSection
      doWithContext fuel (mkCtx contextType (.opaque .neverEnding) (.parent routineKeywordParent 0)) .nextToken
      parseBlock fuel (mkCtx contextType (.opaque .localDeclarationSection) (.parent routineKeywordParent 1))
    else if isKeyword t [.kBegin] then
      let parent ← getLineParentOfCurrentToken
      parseBeginEnd fuel (.parent parent 1)
      return
    else if isOp t [.oSemicolon, .oRParen, .oRBrack] then
      return
    else if isKeyword t [.kProcedure, .kFunction] then
      doWithContext fuel (mkCtx .subRoutine (.opaque .neverEnding) (.parent routineKeywordParent 1)) .parseRoutine
    else nextToken
    parseAnonymousRoutineGo fuel routineKeywordParent

/-- `parse_routine` -/
def parseRoutine : Nat → PM Unit
  | 0 => panic_
  | fuel + 1 => do
    setLogicalLineType .lRoutineHeader
    parseRoutineHeader fuel
    let isForwardDeclaration :=
      (← curLineTokenTypes).any (fun tt => tt == .rKeyword .kForward || tt == .rKeyword .kExternal)
        || (← get).anyContextType [.interface, .typeDeclaration]
    finishLogicalLine
    if !isForwardDeclaration then
      parseBlock fuel (mkCtx .subRoutine (.opaque .beginAsm) (.level 1))
      let c ← cur
      if isKeyword c [.kAsm] then parseAsmBlock fuel
      else if isKeyword c [.kBegin] then
        parseBeginEnd fuel (.level 1)
        takeUntil noMoreSeparators fuel
        finishLogicalLine

/-- `parse_asm_block` -/
def parseAsmBlock : Nat → PM Unit
  | 0 => panic_
  | fuel + 1 => do
    nextToken
    finishLogicalLine
    doWithContext fuel (mkCtx (.statementBlock .bAsm) (.opaque .neverEnding) (.level 1)) .parseAsmInstructions
    nextToken
    takeUntil noMoreSeparators fuel
    finishLogicalLine

/-- `parse_begin_end` -/
def parseBeginEnd : Nat → ParserContextLevel → PM Unit
  | 0, _ => panic_
  | fuel + 1, contextLevel => do
    nextToken
    parseStatementListBlock fuel (mkCtx (.statementBlock .bBegin) (.opaque .kwEnd) contextLevel)
    nextToken

end

/-- `InternalDelphiLogicalLineParser::parse` -/
def parse (fuel : Nat) : PM Unit := do
  parseStatementListWithTypeAndPredicate fuel .topLevelStatement (.opaque .topLevelSemicolon)
  finishLogicalLine
  nextToken
  setLogicalLineType .lEof
  finishLogicalLine

/-- `InternalDelphiLogicalLineParser::new` -/
def PS.new (kinds0 : List RawKind) (kinds : Array RawKind) (nl : Array Bool) (pass : List Nat) : PS :=
  { kinds0 := kinds0, pass := pass, passArr := pass.toArray, nl := nl, kinds := kinds, mt := Traced.init kinds0 pass,
    contexts := [], parenLevel := 0, brackLevel := 0, genericLevel := 0 }

/-- the loop after each pass of `parse_file`: what is still `IdentifierOrKeyword` becomes `Identifier` -/
def cementPass (kinds : Array RawKind) : List Nat → Option (Array RawKind)
  | [] => some kinds
  | passToken :: rest =>
    match kinds[passToken]? with
    | none => none
    | some (.rIdentifierOrKeyword _) => cementPass (kinds.setIfInBounds passToken .rIdentifier) rest
    | some _ => cementPass kinds rest

/-- the passes of `parse_file`: final kinds, the lines of every pass, the traces -/
def runPasses (kinds0 : List RawKind) (nl : Array Bool) (fuel : Nat) :
    List (List Nat) → Array RawKind → List (List PLine) → List (List Nat × List POp) →
    Option (Array RawKind × List (List PLine) × List (List Nat × List POp))
  | [], kinds, ls, trs => some (kinds, ls.reverse, trs.reverse)
  | pass :: rest, kinds, ls, trs =>
    match (parse fuel).run (PS.new kinds0 kinds nl pass) with
    | none => none
    | some ((), s) =>
      -- `kinds0` and `pass` index the traced machine state and are never written, and `parse` ends by consuming the
      -- end-of-file token, the last of the pass; the guard makes these facts the theorems can use (it cannot fail:
      -- the correspondence would show `model-none`)
      if s.kinds0 = kinds0 ∧ s.pass = pass ∧ pass.length ≤ s.m.passIdx then
        match cementPass s.kinds pass with
        | none => none
        | some kinds' => runPasses kinds0 nl fuel rest kinds' (s.m.lines :: ls) ((pass, s.trace.reverse) :: trs)
      else none

end PFull

def isDirectiveRaw : RawKind → Bool
  | .rCompilerDirective => true
  | .rConditionalDirective _ => true
  | _ => false

/-- the parser retypes words and operators only: a directive keeps its kind and nothing becomes a directive -/
def dirKindsKept : List RawKind → List RawKind → Bool
  | [], [] => true
  | a :: as, b :: bs => ((!isDirectiveRaw a && !isDirectiveRaw b) || a == b) && dirKindsKept as bs
  | _, _ => false

/-- `consolidate_pass_lines` for every pass in turn -/
def consolidateAll : List PLine → List (List PLine) → Option (List PLine)
  | acc, [] => some acc
  | acc, ls :: rest =>
    match consolidatePass acc ls with
    | none => none
    | some acc' => consolidateAll acc' rest

open PFull in
/-- `parse_file`: `toks[i] = (kind of token i, does its leading whitespace contain CR or LF)`.
    `none` = the real code would panic, or the model's fuel ran out. -/
def parseFileFull (toks : List (RawKind × Bool)) : Option ParseFullOut :=
  let kinds0 := toks.map (·.1)
  let nl := (toks.map (·.2)).toArray
  let fuel := 200 * (toks.length + 10)
  match runPasses kinds0 nl fuel (passes kinds0) kinds0.toArray [] [] with
  | none => none
  | some (kinds, passLines, traces) =>
    match consolidateAll [] passLines with
    | none => none
    | some acc =>
      let finalKinds := kinds.toList
      -- guard (cannot fail, see `dirKindsKept`): makes "directives keep their kind" a fact the theorems can use
      if !dirKindsKept kinds0 finalKinds then none else
      let attributed := attributedOf finalKinds passLines
      let dl := directiveLinesGo attributed 0 finalKinds.zipIdx
      match consolidatePass acc dl with
      | none => none
      | some lines => some { kinds := finalKinds, lines := lines, traces := traces, passLines := passLines }

/-- The line-break flags as the parser can read them.  `parse_asm_instructions` is the only reader of a token's
    leading whitespace, and it runs only after an `asm` keyword has been consumed, so the flag of a token up to and
    including the first `asm` keyword of the file is never read: it is masked out here, which makes "the parse does
    not depend on where the lines break outside assembler code" true by construction (C06).  That the mask changes
    nothing is part of what the `pfull` and `full` correspondences check on every case. -/
def maskFlags : Bool → List (RawKind × Bool) → List (RawKind × Bool)
  | _, [] => []
  | seen, (k, b) :: r => (k, seen && b) :: maskFlags (seen || k == .rKeyword .kAsm) r

/-- `parse_file` on the masked flags -/
def parseFileMasked (toks : List (RawKind × Bool)) : Option ParseFullOut := parseFileFull (maskFlags false toks)

end Pasfmt
