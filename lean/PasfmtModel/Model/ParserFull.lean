/-
  Exact model of the control flow of `core/src/defaults/parser.rs` (which line-building primitive is
  called when, and how token kinds are consolidated), on top of the primitive machine of `Model/Parser.lean`.
-/
import PasfmtModel.Model.Parser

namespace Pasfmt

structure ParseFullOut where
  /-- token kinds after parsing (still `RawTokenType`; the conversion to `TokenType` is `toTokenType`) -/
  kinds : List RawKind
  /-- the logical lines, in the order `parse_file` returns them -/
  lines : List PLine
  /-- per conditional-directive pass: its token indices and the trace of primitives the control flow issued -/
  traces : List (List Nat × List POp)

/-- `parse_file`: `toks[i] = (kind of token i, does its leading whitespace contain CR or LF)`.
    `none` = the real code would panic, or the model's fuel ran out. -/
def parseFileFull (toks : List (RawKind × Bool)) : Option ParseFullOut := none

end Pasfmt
