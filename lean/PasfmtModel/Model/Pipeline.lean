/-
  `Formatter::format_into_buf` for the formatter built by `pasfmt::make_formatter`:
  exact glue around the two abstracted components (parser control flow + post-parse
  consolidators = `parser`, line-wrapping search = `wrap`), which are parameters.
-/
import PasfmtModel.Model.Rules
import PasfmtModel.Model.Recon

namespace Pasfmt

structure ParserOut where
  kinds : List Kind
  lines : List Line

structure Oracles where
  /-- parser + generics/conditional-directive/package-directive consolidators -/
  parser : List RawTok → ParserOut
  /-- `OptimisingLineFormatter::format` -/
  wrap : Config → List Line → FT → FT
  /-- `char::is_alphanumeric` on a non-ASCII character (UTF-8 bytes) -/
  alnum : Bytes → Bool

/-- tokens after parsing: text from the lexer, kinds from the parser -/
def retype : List RawTok → List Kind → List Tok
  | [], _ => []
  | t :: r, [] => t.toTok :: retype r []
  | t :: r, k :: ks => { ws := t.ws, content := t.content, kind := k } :: retype r ks

/-- state before the wrapper stage, and the (voided) lines -/
def preWrap (O : Oracles) (raw : List RawTok) : List Bool × List Line × FT :=
  let po := O.parser raw
  let toks := retype raw po.kinds
  let marks := ignoredMarks toks po.lines
  let lines := voidLines marks po.lines
  let ft0 := FT.new toks (fun i => marks.getD i false)
  let ft1 := eofNewline lines (commentFormatter O.alnum (lowercaseKeywords (tokenSpacing ft0)))
  (marks, lines, ft1)

def formatTokens (cfg : Config) (O : Oracles) (raw : List RawTok) : Bytes :=
  let (_, lines, ft1) := preWrap O raw
  reconstruct cfg.settings (O.wrap cfg lines ft1)

/-- `none` only if the lexer model fails (never: `lex_total`) -/
def format (cfg : Config) (O : Oracles) (s : Bytes) : Option Bytes :=
  (lex s).map (formatTokens cfg O)

end Pasfmt
