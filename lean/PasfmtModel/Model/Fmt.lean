/-
  Tokens, per-token formatting data, logical lines, settings.
  Exact models of `lang.rs`: `FormattingData::from`, `FormattedTokens` (guarded mutation),
  `ReconstructionSettings::new`, and of the settings conversions of `front-end/src/lib.rs`.
-/
import PasfmtModel.Model.Lexer
import PasfmtModel.Generated.Consts

namespace Pasfmt

structure Tok where
  ws : Bytes
  content : Bytes
  kind : Kind
  deriving Repr, DecidableEq

/-- `From<RawToken> for Token` -/
def RawTok.toTok (t : RawTok) : Tok := { ws := t.ws, content := t.content, kind := t.kind.toTokenType }

def u16Max : Nat := 65535
@[inline] def u16sat (n : Nat) : Nat := min n u16Max

structure FmtData where
  ignored : Bool
  nl : Nat
  ind : Nat
  cont : Nat
  sp : Nat
  deriving Repr, DecidableEq

/-- the part of a whitespace string after its last `\n` (`split('\n').next_back()`) -/
def lastLine (ws : Bytes) : Bytes :=
  match rfindByte 0x0A ws with
  | none => ws
  | some p => ws.drop (p + 1)

/-- `trim_end_matches('\r')` -/
def trimEndCr (s : Bytes) : Bytes := (s.reverse.dropWhile (· == 0x0D)).reverse

/-- length of the prefix removed by `str::trim_start` when the string consists of blanks only:
    White_Space code points among the blanks are U+0009..U+000D, U+0020 and U+3000. -/
def trimStartLen : Bytes → Nat
  | [] => 0
  | 0xE3 :: 0x80 :: 0x80 :: r => trimStartLen r + 3
  | b :: r => if (0x09 ≤ b && b ≤ 0x0D) || b == 0x20 then trimStartLen r + 1 else 0

/-- `FormattingData::from((leading_whitespace, ignored))` -/
def FmtData.ofWs (ws : Bytes) (ignored : Bool) : FmtData :=
  { ignored := ignored,
    nl := u16sat (countByte 0x0A ws),
    ind := 0, cont := 0,
    sp := u16sat (trimStartLen (trimEndCr (lastLine ws))) }

structure FTok where
  tok : Tok
  fmt : FmtData
  deriving Repr, DecidableEq

abbrev FT := List FTok

/-- `Token::set_content` through `tokens_mut`/`get_token_mut`: refused for ignored tokens -/
def FTok.setContent (t : FTok) (c : Bytes) : FTok :=
  if t.fmt.ignored then t else { t with tok := { t.tok with ws := [], content := c } }

/-- `FormattedTokens::new_from_tokens` -/
def FT.new (toks : List Tok) (isIgnored : Nat → Bool) : FT :=
  toks.zipIdx.map fun (t, i) => { tok := t, fmt := FmtData.ofWs t.ws (isIgnored i) }

structure LineParent where
  lineIndex : Nat
  tokenIndex : Nat
  deriving Repr, DecidableEq

structure Line where
  parent : Option LineParent
  level : Nat
  tokens : List Nat
  ltype : LogicalLineType
  deriving Repr, DecidableEq

/-- user-facing configuration (front-end `FormattingConfig`, without `encoding`) -/
structure Config where
  wrapColumn : Nat        -- u32
  beginAlwaysWrap : Bool
  fmtMls : Bool
  useTabs : Bool
  tabWidth : Nat          -- u8
  contIndents : Nat       -- u8
  crlf : Bool
  deriving Repr, DecidableEq

def Config.default : Config :=
  { wrapColumn := defaultWrapColumn, beginAlwaysWrap := false, fmtMls := defaultFormatMultilineStrings,
    useTabs := defaultUseTabs, tabWidth := defaultTabWidth, contIndents := defaultContinuationIndents, crlf := false }

/-- `ReconstructionSettings` -/
structure Settings where
  nlStr : Bytes
  indStr : Bytes
  contStr : Bytes
  deriving Repr, DecidableEq

/-- `u8::saturating_mul` -/
def satMulU8 (a b : Nat) : Nat := min (a * b) 255

/-- `From<&FormattingConfig> for ReconstructionSettings` followed by `ReconstructionSettings::new` -/
def Config.settings (c : Config) : Settings :=
  let nl : Bytes := if c.crlf then [0x0D, 0x0A] else [0x0A]
  if c.useTabs then
    { nlStr := nl, indStr := List.replicate 1 0x09, contStr := List.replicate c.contIndents 0x09 }
  else
    { nlStr := nl, indStr := List.replicate c.tabWidth 0x20,
      contStr := List.replicate (satMulU8 c.contIndents c.tabWidth) 0x20 }

end Pasfmt
