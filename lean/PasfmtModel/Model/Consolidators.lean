/-
  Exact models of the three post-parse consolidators registered by `pasfmt::make_formatter`:
  * `rules/generics_consolidator.rs`   `DistinguishGenericTypeParamsConsolidator::consolidate`
  * `rules/conditional_directive_consolidator.rs`   `ConditionalDirectiveConsolidator::consolidate`
  * `rules/deindent_package_directives.rs`   `DeindentPackageDirectives::consolidate`
  They run, in this order, between the parser and the token ignorers.
-/
import PasfmtModel.Model.Pipeline

namespace Pasfmt

/-! ### generics: `<` / `>` that delimit type parameters become `LessThan(Generic)` / `GreaterThan(Generic)` -/

structure TPState where
  openIdx : Nat
  brack : Nat
  deriving Repr, DecidableEq

structure GState where
  kinds : Array Kind
  comma : Bool
  prevStr : Bool
  brack : Nat
  stack : List TPState          -- head = last pushed
  deriving Repr

/-- the `while let Some(prev) = state.pop()` loop of the `]` arm -/
def popBrack (brack : Nat) : List TPState → List TPState × Nat
  | [] => ([], brack)
  | p :: rest => if p.brack < brack then (p :: rest, brack - 1) else popBrack brack rest

def genericArgKeyword : KeywordKind → Bool
  | .kClass | .kRecord | .kConstructor | .kString | .kArray | .kSet | .kOf => true
  | _ => false

def cannotFollowGenericClose : Option Kind → Bool
  | some .tIdentifier | some (.tOp .oAddressOf) | some (.tKeyword .kNot) => true
  | _ => false

/-- `if token_type.is_some_and(|t| !t.is_comment_or_directive()) { prev_was_string = … }`, then continue -/
def gUpd (tt : Option Kind) (s' : GState) : Bool × GState :=
  match tt with
  | some t =>
    if t.isCommentOrDirective then (true, s')
    else (true, { s' with prevStr := t == .tKeyword .kString })
  | none => (true, s')

/-- one iteration of the inner loop on token `i` (the body of `while !state.is_empty()` without the
    `next_idx += 1`); `false` = `break` -/
def gStep (s : GState) (i : Nat) : Bool × GState :=
  let tt := s.kinds[i]?
  let upd := gUpd tt
  match tt with
  | some (.tOp (.oLessThan _)) => upd { s with stack := { openIdx := i, brack := s.brack } :: s.stack }
  | some (.tOp .oComma) => upd { s with comma := true }
  | some .tIdentifier | some (.tOp .oDot) | some (.tOp .oColon) | some (.tOp .oSemicolon)
  | some .tCompilerDirective | some (.tComment _) | some (.tConditionalDirective _) => upd s
  | some (.tOp (.oGreaterThan _)) =>
    if s.comma && cannotFollowGenericClose s.kinds[i + 1]? then (false, s)
    else
      match s.stack with
      | [] => (false, s)      -- `state.pop().unwrap()`: unreachable, the loop runs only while the stack is non-empty
      | closed :: rest =>
        let k1 := s.kinds.setIfInBounds closed.openIdx (.tOp (.oLessThan .chGeneric))
        let k2 := k1.setIfInBounds i (.tOp (.oGreaterThan .chGeneric))
        upd { s with kinds := k2, brack := closed.brack, stack := rest }
  | some (.tOp .oLBrack) =>
    if s.prevStr || s.brack > 0 then upd { s with brack := s.brack + 1 } else (false, s)
  | some (.tOp .oRBrack) =>
    if s.brack > 0 then
      let (st, b) := popBrack s.brack s.stack
      upd { s with stack := st, brack := b }
    else (false, s)
  | some (.tKeyword kk) =>
    if genericArgKeyword kk then upd s
    else if s.brack > 0 && kk.isNumericOperator then upd s
    else (false, s)
  | some (.tTextLiteral _) | some (.tNumberLiteral _) | some (.tOp _) =>
    if s.brack > 0 then upd s else (false, s)
  | _ => (false, s)

/-- the inner loop from token `i`: final state and final `next_idx` -/
def gInner (n : Nat) (s : GState) (i : Nat) : GState × Nat :=
  if s.stack.isEmpty then (s, i)
  else if _h : i < n then
    match gStep s i with
    | (false, s') => (s', i)
    | (true, s') => gInner n s' (i + 1)
  else
    -- `tokens.get(next_idx)` is `None`: `_ => break`
    (s, i)
termination_by n - i

/-- the outer loop from token `i` -/
def gOuter (n : Nat) (kinds : Array Kind) (i : Nat) : Array Kind :=
  if h : i < n then
    match kinds[i]? with
    | some (.tOp (.oLessThan _)) =>
      let s0 : GState := { kinds := kinds, comma := false, prevStr := false, brack := 0,
                           stack := [{ openIdx := i, brack := 0 }] }
      let (s, j) := gInner n s0 (i + 1)
      -- `token_idx = next_idx`; `j ≥ i + 1` always (`gInner_ge`), the `max` only serves termination
      gOuter n s.kinds (max j (i + 1))
    | _ => gOuter n kinds (i + 1)
  else kinds
termination_by n - i
decreasing_by all_goals omega

/-- `DistinguishGenericTypeParamsConsolidator::consolidate` -/
def genericsConsolidate (kinds : List Kind) : List Kind :=
  (gOuter kinds.length kinds.toArray 0).toList

/-! ### conditional directives inside a line -/

inductive CondState where
  | outside | afterIf | afterElse
  deriving Repr, DecidableEq

def cdcAllowedKind : Option Kind → Bool
  | some .tIdentifier | some (.tNumberLiteral _) | some (.tTextLiteral .tSingleLine)
  | some (.tOp .oDot) => true
  | some (.tComment c) =>
    (match c with
     | .cIndividualBlock | .cIndividualLine | .cInlineBlock | .cInlineLine => true
     | _ => false)
  | _ => false

def cdcAllowed (kinds : Array Kind) (i : Nat) : Bool := cdcAllowedKind kinds[i]?

structure CdcAcc where
  state : CondState
  directives : List Nat      -- in push order
  newToks : List Nat         -- in push order
  deriving Repr

/-- the state transition for a gap that starts with directive `b` and ends with directive `e` -/
def cdcTransition (st : CondState) (b e : ConditionalDirectiveKind) (single : Bool) : Option CondState :=
  match st with
  | .outside =>
    if b.isIf then
      if single then some .afterIf else if e.isElse then some .afterElse else none
    else none
  | .afterIf =>
    if b.isElse then
      if single then some .afterElse else if e.isEnd then some .outside else none
    else if b.isEnd && single then some .outside
    else none
  | .afterElse =>
    if b.isEnd && single then some .outside else none

/-- the gap part of one `(prev, current)` window of `expand_line`; `none` = `return vec![]` -/
def cdcGap (kinds : Array Kind) (acc : CdcAcc) (prev cur : Nat) : Option CdcAcc :=
  if cur - prev > 1 then
    let gs := prev + 1
    let ge := cur - 1
    match kinds[gs]?, kinds[ge]? with
    | some (.tConditionalDirective b), some (.tConditionalDirective e) =>
      match cdcTransition acc.state b e (gs == ge) with
      | none => none
      | some st =>
        -- `(gap_start_tok..gap_end_tok).skip(1)`
        let inner := (List.range (ge - gs - 1)).map (· + gs + 1)
        if inner.all (cdcAllowed kinds) then
          let tail := if ge != gs then [ge] else []
          some { state := st, directives := acc.directives ++ [gs] ++ tail,
                 newToks := acc.newToks ++ [gs] ++ inner ++ tail }
        else none
    | _, _ => none
  else some acc

/-- one `(prev, current)` window of `expand_line`; `none` = `return vec![]` -/
def cdcWindow (kinds : Array Kind) (acc : CdcAcc) (prev cur : Nat) : Option CdcAcc :=
  match cdcGap kinds acc prev cur with
  | none => none
  | some a =>
    if a.state == .outside || cdcAllowed kinds cur then some { a with newToks := a.newToks ++ [cur] }
    else none

def cdcWindows (kinds : Array Kind) (acc : CdcAcc) : Nat → List Nat → Option CdcAcc
  | _, [] => some acc
  | prev, cur :: rest =>
    match cdcWindow kinds acc prev cur with
    | none => none
    | some a => cdcWindows kinds a cur rest

/-- `expand_line`: the line's new tokens and the directives merged into it (`none` = nothing done) -/
def cdcExpand (kinds : Array Kind) (toks : List Nat) : Option (List Nat × List Nat) :=
  match toks with
  | [] => none
  | first :: rest =>
    let last := toks.getLast?.getD first
    if last - first + 1 == toks.length then none
    else
      match cdcWindows kinds { state := .outside, directives := [], newToks := [first] } first rest with
      | none => none
      | some a =>
        if a.directives.isEmpty || a.state != .outside then none
        else some (a.newToks, a.directives)

def Line.void (l : Line) : Line := { l with tokens := [], ltype := .lVoided }

/-- `ConditionalDirectiveConsolidator::consolidate`.  The real code voids, for every merged
    directive, the directive line found by a binary search on the first token; directive lines of a
    parse are non-empty and have distinct first tokens, so this is the line starting with it. -/
def cdcConsolidate (kinds : List Kind) (lines : List Line) : List Line :=
  let ka := kinds.toArray
  let expanded := lines.map fun l =>
    match cdcExpand ka l.tokens with
    | some (toks, dirs) => ({ l with tokens := toks }, dirs)
    | none => (l, [])
  let dirs := expanded.flatMap (·.2)
  expanded.map fun (l, _) =>
    if l.ltype == .lConditionalDirective then
      match l.tokens.head? with
      | some t => if dirs.contains t then l.void else l
      | none => l
    else l

/-! ### package files: directive lines at level 0 -/

def firstRealKind (kinds : List Kind) : Option Kind := kinds.find? (fun k => !k.isCommentOrDirective)

/-- `DeindentPackageDirectives::consolidate` -/
def deindentPackage (kinds : List Kind) (lines : List Line) : List Line :=
  match firstRealKind kinds with
  | some (.tKeyword .kPackage) =>
    lines.map fun l =>
      if l.ltype == .lCompilerDirective || l.ltype == .lConditionalDirective then { l with level := 0 } else l
  | _ => lines

/-- the three consolidators in the order `make_formatter` registers them -/
def consolidators (po : ParserOut) : ParserOut :=
  let kinds := genericsConsolidate po.kinds
  let lines := cdcConsolidate kinds po.lines
  { kinds := kinds, lines := deindentPackage kinds lines }

/-- a pipeline whose `parser` component is the parser alone; the consolidators are the exact models -/
def Oracles.withConsolidators (O : Oracles) : Oracles :=
  { O with parser := fun raw => consolidators (O.parser raw) }

end Pasfmt
