/-
  Executable side of `C09.C09_format_full_crlf_config`: the decidable side conditions of the crlf/lf theorem for the
  closed model, evaluated by the driver on every case of the `full` stream (`info_c09`).  Definitions only; the
  theorems are in Proofs/CrlfFull.lean.
-/
import PasfmtModel.Model.PipelineFull

namespace Pasfmt.CrlfFull

/-- a non-ignored multi-line literal: what the string passes look at -/
def mlsLive (t : FTok) : Bool := !t.fmt.ignored && isMlsKind t.tok.kind

/-- the two runs agree on whether the re-indenter changes this token -/
def agreeTok (SL SC : Settings) (t : FTok) : Bool :=
  !mlsLive t ||
    (mlsRewrite SL t.tok.content t.fmt.ind t.fmt.cont).isSome == (mlsRewrite SC t.tok.content t.fmt.ind t.fmt.cont).isSome

/-- the text of token `j` when the stage starts -/
def origContent (ft0 : FT) (j : Nat) : Bytes := (ft0[j]?.map (·.tok.content)).getD []

/-- the lf run's state when the first string pass starts -/
def phase0 (cfg : Config) (lines : List Line) (ft : FT) : Option FT :=
  (applyLinesS 0 lines (firstPassLines lines) (searchInit cfg lines ft) ft []).map (·.1)

/-- a token of the lf run's final state that is safe to emit under the substitution; `oc` = its text when the stage
    started.  An ignored token (emitted with its whitespace, verbatim): no `\n` in whitespace or text.  Any other
    token: no `\n` in its text, or the stage changed the text (then it is a re-indented literal, whose line breaks
    are the configured ones). -/
def safeTok (oc : Bytes) (t : FTok) : Bool :=
  if t.fmt.ignored then !containsByte 0x0A t.tok.ws && !containsByte 0x0A t.tok.content
  else !containsByte 0x0A t.tok.content || t.tok.content != oc

/-- the side conditions of the stage theorem, computed from the lf run: (1) every non-ignored multi-line literal of
    the stage's input ends in a quote; (2) if strings are re-indented, the two runs agree on which literals the first
    string pass changes; (3) every token of the lf run's final state is safe to emit under the substitution. -/
def crlfStageOk (cfg : Config) (lines : List Line) (ft0 : FT) : Bool :=
  ft0.all (fun t => !mlsLive t || t.tok.content.getLast? == some 0x27) &&
  (!cfg.fmtMls ||
    match phase0 { cfg with crlf := false } lines ft0 with
    | some ft1 => ft1.all (agreeTok ({ cfg with crlf := false }).settings ({ cfg with crlf := true }).settings)
    | none => true) &&
  (match wrapStageFull { cfg with crlf := false } lines ft0 with
    | some (ftz, _) => ftz.zipIdx.all (fun x => safeTok (origContent ft0 x.2) x.1)
    | none => true)

/-- the side conditions for a whole input: `crlfStageOk` at the state the wrapper stage starts from (which does not
    depend on the configuration) -/
def crlfOk (cfg : Config) (alnum : Bytes → Bool) (s : Bytes) : Bool :=
  match lex s with
  | none => true
  | some raw =>
    match parseAndConsolidate raw with
    | none => true
    | some po =>
      let O : Oracles := { parser := fun _ => po, wrap := fun _ _ ft => ft, alnum := alnum }
      crlfStageOk cfg (preWrap O raw).2.1 (preWrap O raw).2.2


/-- conjuncts (2) and (3) of `crlfStageOk`: conjunct (1) (every non-ignored multi-line literal ends in a quote) is a
    theorem at the state the wrapper stage starts from (`Proofs/CrlfPremise.lean`) -/
def crlfStageOk23 (cfg : Config) (lines : List Line) (ft0 : FT) : Bool :=
  (!cfg.fmtMls ||
    match phase0 { cfg with crlf := false } lines ft0 with
    | some ft1 => ft1.all (agreeTok ({ cfg with crlf := false }).settings ({ cfg with crlf := true }).settings)
    | none => true) &&
  (match wrapStageFull { cfg with crlf := false } lines ft0 with
    | some (ftz, _) => ftz.zipIdx.all (fun x => safeTok (origContent ft0 x.2) x.1)
    | none => true)

/-- `crlfStageOk23` at the state the wrapper stage starts from: `crlfOk` without its first conjunct -/
def crlfOk23 (cfg : Config) (alnum : Bytes → Bool) (s : Bytes) : Bool :=
  match lex s with
  | none => true
  | some raw =>
    match parseAndConsolidate raw with
    | none => true
    | some po =>
      let O : Oracles := { parser := fun _ => po, wrap := fun _ _ ft => ft, alnum := alnum }
      crlfStageOk23 cfg (preWrap O raw).2.1 (preWrap O raw).2.2

end Pasfmt.CrlfFull
