/-
  Executable side of `C14.parser_model_single_eof_line`: the decidable hypothesis "an end-of-file line in every pass",
  tallied by the driver on every case of the `pfull` stream (`info_eofline`).  Definitions only; the theorems are in
  Proofs/ParserParents.lean.
-/
import PasfmtModel.Model.ParserFull

namespace Pasfmt.Parents

/-- the end-of-file line of a file of `n` tokens -/
def eofLine (n : Nat) : PLine := { parent := none, level := 0, tokens := [n - 1], ltype := .lEof }

/-- the hypothesis on the lines of one pass: exactly one line has type `Eof`, and it is `eofLine n` -/
def passEofOk (n : Nat) (ls : List PLine) : Bool := ls.filter (fun l => l.ltype == .lEof) == [eofLine n]

/-- the hypothesis of `final_single_eof_line`: in every pass, the last `next_token` of `parse` met the end-of-file token
    (it was not consumed earlier) with every context closed -/
def eofOk (o : ParseFullOut) : Bool := o.passLines.all (passEofOk o.kinds.length)


end Pasfmt.Parents
