/-
  Exact models of the parts of the parser that build logical lines:
  * `parser/directive_tree.rs`: `DirectiveTree::parse`, `passes`
  * the line-building primitives of `defaults/parser.rs` as a state machine driven by an
    operation trace (which primitive is called when is the parser's control flow: a parameter)
  * `consolidate_pass_lines`, the directive lines and the final ordering of `parse_file`.
-/
import PasfmtModel.Model.Fmt

namespace Pasfmt

/-! ### directive tree -/

inductive DSection where
  | flat (explored : Bool) (lo hi : Nat)
  | nested (trees : List (List DSection))
  deriving Repr, Inhabited

abbrev DTree := List DSection

def condKind? : RawKind → Option ConditionalDirectiveKind
  | .rConditionalDirective c => some c
  | _ => none

/-- `Section::parse_flat`: the flat section, the directive that ended it, the remaining tokens -/
def parseFlat (start : Option Nat) (lo hi : Nat) : List (Nat × RawKind) →
    DSection × Option ConditionalDirectiveKind × List (Nat × RawKind)
  | [] => (.flat false lo hi, none, [])
  | (idx, k) :: rest =>
    match condKind? k with
    | some c => (.flat false lo hi, some c, rest)
    | none =>
      let s := start.getD idx
      parseFlat (some s) s (idx + 1) rest

mutual
/-- `DirectiveTree::parse_next` -/
def parseNext (fuel : Nat) (topLevel : Bool) (acc : DTree) (toks : List (Nat × RawKind)) :
    DTree × Option ConditionalDirectiveKind × List (Nat × RawKind) :=
  match fuel with
  | 0 => (acc.reverse, none, toks)
  | fuel + 1 =>
    let (flat, cdk, rest) := parseFlat none 0 0 toks
    let acc := flat :: acc
    match cdk with
    | some c =>
      if c.isIf then
        let (nested, rest') := parseNested fuel rest
        parseNext fuel topLevel (nested :: acc) rest'
      else if topLevel then parseNext fuel topLevel acc rest
      else (acc.reverse, cdk, rest)
    | none => (acc.reverse, none, rest)

/-- `Section::parse_nested` -/
def parseNested (fuel : Nat) (toks : List (Nat × RawKind)) : DSection × List (Nat × RawKind) :=
  match fuel with
  | 0 => (.nested [], toks)
  | fuel + 1 =>
    let (ifTree, cdk, rest) := parseNext fuel false [] toks
    parseNestedElse fuel [ifTree] cdk rest

def parseNestedElse (fuel : Nat) (acc : List DTree) (cdk : Option ConditionalDirectiveKind)
    (toks : List (Nat × RawKind)) : DSection × List (Nat × RawKind) :=
  match fuel with
  | 0 => (.nested acc.reverse, toks)
  | fuel + 1 =>
    match cdk with
    | some c =>
      if c.isElse then
        let (tree, next, rest) := parseNext fuel false [] toks
        parseNestedElse fuel (tree :: acc) next rest
      else (.nested acc.reverse, toks)
    | none => (.nested acc.reverse, toks)
end

/-- `DirectiveTree::parse` -/
def parseTree (kinds : List RawKind) : DTree :=
  (parseNext (3 * kinds.length + 3) true [] (kinds.zipIdx.map (fun (k, i) => (i, k)))).1

mutual
def sectionExplored (fuel : Nat) : DSection → Bool
  | .flat e _ _ => e
  | .nested trees =>
    match fuel with
    | 0 => true
    | fuel + 1 => trees.all (treeExplored fuel)

def treeExplored (fuel : Nat) (t : DTree) : Bool :=
  match fuel with
  | 0 => true
  | fuel + 1 => t.all (sectionExplored fuel)
end

mutual
/-- `Section::pass`: updated section and the token indices it contributes -/
def sectionPass (fuel : Nat) : DSection → DSection × List Nat
  | .flat _ lo hi => (.flat true lo hi, (List.range (hi - lo)).map (· + lo))
  | .nested trees =>
    match fuel with
    | 0 => (.nested trees, [])
    | fuel + 1 =>
      -- find_or_last(|g| !g.explored())
      let idx? := trees.findIdx? (fun g => !treeExplored (fuel + 1) g)
      let idx := match idx? with
        | some i => some i
        | none => if trees.isEmpty then none else some (trees.length - 1)
      match idx with
      | none => (.nested trees, [])
      | some i =>
        match trees[i]? with
        | none => (.nested trees, [])
        | some t =>
          let (t', toks) := treePass fuel t
          (.nested (trees.set i t'), toks)

/-- `DirectiveTree::pass` -/
def treePass (fuel : Nat) (t : DTree) : DTree × List Nat :=
  match fuel with
  | 0 => (t, [])
  | fuel + 1 =>
    t.foldl (fun (acc : DTree × List Nat) s =>
      let (s', toks) := sectionPass fuel s
      (acc.1 ++ [s'], acc.2 ++ toks)) ([], [])
end

/-- `PassIter`: all passes -/
def passesGo (depthFuel : Nat) : Nat → DTree → List (List Nat)
  | 0, _ => []
  | n + 1, t =>
    let (t', pass) := treePass depthFuel t
    if treeExplored depthFuel t' then [pass] else pass :: passesGo depthFuel n t'

def passes (kinds : List RawKind) : List (List Nat) :=
  let t := parseTree kinds
  let f := 2 * kinds.length + 4
  passesGo f (kinds.length + 2) t

/-! ### the line-building state machine -/

structure PLine where
  parent : Option LineParent
  level : Nat
  tokens : List Nat
  ltype : LogicalLineType
  deriving Repr, DecidableEq

inductive POp where
  | next
  | skip
  | finishEmpty
  | finish (parent : Option LineParent) (level : Nat)
  | markUnfinished
  | pushLine (parent : LineParent)
  | popLine
  | pushLast
  | popLast
  | setType (t : LogicalLineType)
  deriving Repr, DecidableEq

structure MState where
  lines : List PLine
  cur : List Nat            -- `current_line` stack, top first; never empty
  passIdx : Nat
  unfinished : List Nat
  curUnfinished : Bool
  lastFinished : Nat
  deriving Repr

def MState.init : MState :=
  { lines := [{ parent := none, level := 0, tokens := [], ltype := .lUnknown }], cur := [0], passIdx := 0,
    unfinished := [], curUnfinished := false, lastFinished := 0 }

def isInlineCommentKind : RawKind → Bool
  | .rComment .cInlineBlock => true
  | .rComment .cInlineLine => true
  | _ => false

def modifyLine (lines : List PLine) (i : Nat) (f : PLine → PLine) : List PLine :=
  match lines[i]? with
  | some l => lines.set i (f l)
  | none => lines

/-- push the inline comments that follow onto line `ln` (`while let Some(inline comment)`) -/
def absorbInline (kinds : List RawKind) (pass : List Nat) (fuel : Nat) (lines : List PLine) (ln : Nat) (passIdx : Nat) :
    List PLine × Nat :=
  match fuel with
  | 0 => (lines, passIdx)
  | fuel + 1 =>
    match pass[passIdx]? with
    | some tok =>
      if isInlineCommentKind (kinds.getD tok .rEof) then
        absorbInline kinds pass fuel (modifyLine lines ln (fun l => { l with tokens := l.tokens ++ [tok] })) ln (passIdx + 1)
      else (lines, passIdx)
    | none => (lines, passIdx)

/-- one primitive; `none` = the real code would panic (`unwrap` on a missing line) -/
def MState.step (kinds : List RawKind) (pass : List Nat) (s : MState) (op : POp) : Option MState :=
  match s.cur with
  | [] => none
  | top :: curRest =>
    match op with
    | .next =>
      -- first iteration of the loop always runs
      let lines1 := match pass[s.passIdx]? with
        | some tok => modifyLine s.lines top (fun l => { l with tokens := l.tokens ++ [tok] })
        | none => s.lines
      let (lines2, p2) := absorbInline kinds pass (pass.length + 1) lines1 top (s.passIdx + 1)
      some { s with lines := lines2, passIdx := p2 }
    | .skip => some { s with passIdx := s.passIdx + 1 }
    | .finishEmpty =>
      match s.lines[top]? with
      | some l => if l.tokens.isEmpty then some { s with lines := s.lines.set top { l with ltype := .lUnknown } } else none
      | none => none
    | .finish parent level =>
      match s.lines[top]? with
      | none => none
      | some l =>
        if l.tokens.isEmpty then none
        else
          let (lines1, p1) := absorbInline kinds pass (pass.length + 1) s.lines top s.passIdx
          let lines2 :=
            if !s.curUnfinished then
              s.unfinished.foldl (fun ls u => modifyLine ls u (fun l => { l with level := level })) lines1
            else lines1
          let unfinished' := if !s.curUnfinished then [] else s.unfinished
          let lines3 := modifyLine lines2 top (fun l => { l with parent := parent, level := level })
          let newIdx := lines3.length
          let lines4 := lines3 ++ [{ parent := none, level := level, tokens := [], ltype := .lUnknown }]
          some { lines := lines4, cur := newIdx :: curRest, passIdx := p1, unfinished := unfinished',
                 curUnfinished := false, lastFinished := top }
    | .markUnfinished =>
      some { s with unfinished := s.unfinished ++ [top], curUnfinished := true }
    | .pushLine parent =>
      let newIdx := s.lines.length
      some { s with lines := s.lines ++ [{ parent := some parent, level := 0, tokens := [], ltype := .lUnknown }],
                    cur := newIdx :: s.cur, lastFinished := newIdx }
    | .popLine => if curRest.isEmpty then none else some { s with cur := curRest }
    | .pushLast => some { s with cur := s.lastFinished :: s.cur }
    | .popLast => if curRest.isEmpty then none else some { s with cur := curRest }
    | .setType t => some { s with lines := modifyLine s.lines top (fun l => { l with ltype := t }) }

def MState.run (kinds : List RawKind) (pass : List Nat) (s : MState) : List POp → Option MState
  | [] => some s
  | op :: ops =>
    match s.step kinds pass op with
    | none => none
    | some s' => s'.run kinds pass ops

/-- positions of the pass skipped by one primitive (ghost) -/
def skippedBy (s : MState) : POp → List Nat
  | .skip => [s.passIdx]
  | _ => []

/-- all positions skipped while running `ops` from `s` (ghost) -/
def skippedRun (kinds : List RawKind) (pass : List Nat) (s : MState) : List POp → List Nat
  | [] => []
  | op :: ops =>
    match s.step kinds pass op with
    | none => []
    | some s' => skippedBy s op ++ skippedRun kinds pass s' ops

/-! ### consolidation of passes -/

def usizeMax : Nat := 18446744073709551615

/-- `consolidate_pass_lines`: `acc` = distinct lines so far in first-occurrence order.
    A parent line that has not been mapped yet is dropped (`mapped_line_indices.get(..)`). -/
def consolidateGo (acc : List PLine) (mapped : List Nat) : List PLine → Option (List PLine)
  | [] => some acc
  | line :: rest =>
    if line.tokens.isEmpty then consolidateGo acc (mapped ++ [usizeMax]) rest
    else
      let parent? : Option (Option LineParent) :=
        match line.parent with
        | none => some none
        | some p =>
          match mapped[p.lineIndex]? with
          | some m => some (some { lineIndex := m, tokenIndex := p.tokenIndex })
          | none => some none
      match parent? with
      | none => none
      | some parent =>
        let line' := { line with parent := parent }
        match acc.findIdx? (· == line') with
        | some i => consolidateGo acc (mapped ++ [i]) rest
        | none => consolidateGo (acc ++ [line']) (mapped ++ [acc.length]) rest

def consolidatePass (acc : List PLine) (passLines : List PLine) : Option (List PLine) :=
  consolidateGo acc [] passLines

/-- the directive lines of `parse_file`; `attributed` = compiler directives consumed by `next_token` -/
def directiveLinesGo (attributed : List Nat) (level : Nat) : List (RawKind × Nat) → List PLine
  | [] => []
  | (k, idx) :: rest =>
    if attributed.contains idx then directiveLinesGo attributed level rest
    else
      match k with
      | .rCompilerDirective =>
        { parent := none, level := level, tokens := [idx], ltype := .lCompilerDirective } :: directiveLinesGo attributed level rest
      | .rConditionalDirective c =>
        if c.isIf then
          { parent := none, level := level, tokens := [idx], ltype := .lConditionalDirective } ::
            directiveLinesGo attributed (level + 1) rest
        else if c.isEnd then
          { parent := none, level := level - 1, tokens := [idx], ltype := .lConditionalDirective } ::
            directiveLinesGo attributed (level - 1) rest
        else if c.isElse then
          { parent := none, level := level - 1, tokens := [idx], ltype := .lConditionalDirective } ::
            directiveLinesGo attributed level rest
        else directiveLinesGo attributed level rest
      | _ => directiveLinesGo attributed level rest

/-- compiler directives pushed to a line by `next_token` (the `attributed_directives` set):
    every compiler-directive token that occurs in some line of some pass -/
def attributedOf (kinds : List RawKind) (passLines : List (List PLine)) : List Nat :=
  (passLines.flatMap (fun ls => ls.flatMap (·.tokens))).filter
    (fun t => kinds.getD t .rEof == .rCompilerDirective)

/-- `parse_file` given, for every pass, its token list and its operation trace -/
def parseFile (kinds : List RawKind) (passesOps : List (List Nat × List POp)) : Option (List PLine) := do
  let mut acc : List PLine := []
  let mut allPassLines : List (List PLine) := []
  for (pass, ops) in passesOps do
    let s ← MState.init.run kinds pass ops
    allPassLines := allPassLines ++ [s.lines]
    acc ← consolidatePass acc s.lines
  let attributed := attributedOf kinds allPassLines
  let dl := directiveLinesGo attributed 0 kinds.zipIdx
  consolidatePass acc dl

end Pasfmt
