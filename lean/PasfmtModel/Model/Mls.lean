/-
  Exact model of optimising_line_formatter/multiline_strings.rs.
-/
import PasfmtModel.Model.Fmt

namespace Pasfmt

@[inline] def isNlCr (b : UInt8) : Bool := b == 0x0A || b == 0x0D

/-- `trim_matches(['\n', '\r'])` -/
def trimNlCr (s : Bytes) : Bytes := ((s.dropWhile isNlCr).reverse.dropWhile isNlCr).reverse

/-- `split_inclusive` with the stateful closure of `lines_custom`; `cur` = current piece, reversed -/
def splitCustomGo (skipNextNl : Bool) (cur : Bytes) : Bytes → List Bytes
  | [] => if cur.isEmpty then [] else [cur.reverse]
  | c :: r =>
    if skipNextNl && c == 0x0A then splitCustomGo false (c :: cur) r
    else if isNlCr c then (c :: cur).reverse :: splitCustomGo (c == 0x0D) [] r
    else splitCustomGo false (c :: cur) r

/-- `lines_custom` -/
def linesCustom (s : Bytes) : List Bytes := (splitCustomGo false [] s).map trimNlCr

/-- `str::lines().last()` for a text that does not end in a line break: the part after the last
    `\n`, minus one trailing `\r` -/
def lastLineOf (s : Bytes) : Bytes :=
  let l := lastLine s
  match l.getLast? with
  | some 0x0D => l.dropLast
  | _ => l

/-- `trim_end_matches('\'')` -/
def trimEndQuotes (s : Bytes) : Bytes := (s.reverse.dropWhile (· == 0x27)).reverse

/-- the loop of `try_rewrite_string` over the lines after the first -/
def rewriteLines (S : Settings) (ind cont : Nat) (base : Bytes) : List Bytes → Option Bytes
  | [] => some []
  | line :: rest =>
    if base.isPrefixOf line then
      let stripped := line.drop base.length
      match rewriteLines S ind cont base rest with
      | none => none
      | some tail =>
        some (S.nlStr ++ (if stripped.isEmpty then [] else
          replicateBytes ind S.indStr ++ replicateBytes cont S.contStr ++ stripped) ++ tail)
    else if line.isPrefixOf base then
      (rewriteLines S ind cont base rest).map (S.nlStr ++ ·)
    else none

/-- `try_rewrite_string` -/
def tryRewriteString (S : Settings) (ind cont : Nat) (base : Bytes) (original : Bytes) : Option Bytes :=
  match linesCustom original with
  | [] => some []
  | first :: rest => (rewriteLines S ind cont base rest).map (first ++ ·)

/-- one multi-line literal in `format_multiline_strings`: the new content if `set_content` is called -/
def mlsRewrite (S : Settings) (content : Bytes) (ind cont : Nat) : Option Bytes :=
  let last := lastLineOf content
  let base := last.take (countLeadingWs last)
  if base.length != (trimEndQuotes last).length then none
  else
    match tryRewriteString S ind cont base content with
    | some c' => if c' != content then some c' else none
    | none => none

def isMlsKind : Kind → Bool
  | .tTextLiteral .tMultiLine => true
  | _ => false

/-- the content a token has after the string-formatting pass, given the counters it had then -/
def mlsTok (S : Settings) (fmtMls : Bool) (t : FTok) (ind cont : Nat) : Bytes :=
  if fmtMls && !t.fmt.ignored && isMlsKind t.tok.kind then
    (mlsRewrite S t.tok.content ind cont).getD t.tok.content
  else t.tok.content

end Pasfmt
