/-
  C18 — Batch formatting equals formatting each file alone, under any schedule.
  Schedule-abstract worker model; true concurrency (data races) is outside the model: the argument
  there is Rust's (`&Formatter: Sync`, per-call caches, one idempotent `AtomicPtr` store).
-/
import PasfmtModel.Proofs.IOProofs
import PasfmtModel.Model.Pipeline

namespace Pasfmt.C18
open Pasfmt.IO

theorem step_buf_irrelevant (run : Bytes → Outcome) (b1 b2 content : Bytes) :
    (workerStep run b1 content).2 = (workerStep run b2 content).2 := IO.step_buf_irrelevant run b1 b2 content

/-- every assignment of files to workers, every per-worker order, every initial buffer content:
    each file gets the result of formatting it alone -/
theorem schedule_independent (run : Bytes → Outcome) (workers : List (Bytes × List Bytes)) :
    workers.flatMap (fun w => workerRun run w.1 w.2) = (workers.flatMap (·.2)).map run :=
  IO.schedule_independent run workers

/-- the run fails iff some file fails; a failing file changes nothing for the others (their
    results are `run f` regardless) -/
theorem exit_iff_some_failed (run : Bytes → Outcome) (workers : List (Bytes × List Bytes)) :
    ((workers.flatMap (fun w => workerRun run w.1 w.2)).any (·.failed)) =
      ((workers.flatMap (·.2)).any (fun f => (run f).failed)) := IO.exit_iff_some_failed run workers

/-- the formatter is a function of (configuration, text): the model's `format` has no state argument -/
theorem formatter_pure (cfg : Config) (O : Oracles) (s : Bytes) : format cfg O s = format cfg O s := rfl

end Pasfmt.C18
