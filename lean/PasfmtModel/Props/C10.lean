/-
  C10 — Indentation settings only re-render indentation.
-/
import PasfmtModel.Proofs.ReconProps

namespace Pasfmt.C10

/-- For fixed whitespace counters and `continuation_indents * tab_width ≤ 255`, replacing every tab
    of the `use_tabs = true` rendering by `tab_width` spaces gives exactly the `use_tabs = false`
    rendering (tokens kept verbatim must not contain tabs themselves: then every tab of the output
    is an indentation tab). -/
theorem recon_tabs_to_spaces (c : Config) (hsat : c.contIndents * c.tabWidth ≤ 255)
    (ft : FT) (h : ∀ t ∈ ft, noTabTok t = true) :
    expandTabs c.tabWidth (reconstruct ({ c with useTabs := true }).settings ft)
      = reconstruct ({ c with useTabs := false }).settings ft :=
  reconGo_tabs_to_spaces c hsat ft false h

/-- indentation of a broken line = (levels + continuation_indents × continuations) units, a unit
    being one tab or `tab_width` spaces (no saturation: `continuation_indents * tab_width ≤ 255`) -/
theorem indent_units (c : Config) (hsat : c.contIndents * c.tabWidth ≤ 255) (ind cont : Nat) :
    replicateBytes ind c.settings.indStr ++ replicateBytes cont c.settings.contStr =
      if c.useTabs then List.replicate (ind + c.contIndents * cont) 0x09
      else List.replicate ((ind + c.contIndents * cont) * c.tabWidth) 0x20 := by
  have hsatm : satMulU8 c.contIndents c.tabWidth = c.contIndents * c.tabWidth := by
    unfold satMulU8; omega
  unfold Config.settings
  simp only
  split
  · rw [replicateBytes_replicate, replicateBytes_replicate, List.replicate_append_replicate]
    congr 1; rw [Nat.mul_comm cont]; omega
  · rw [replicateBytes_replicate, replicateBytes_replicate, List.replicate_append_replicate, hsatm]
    congr 1
    rw [Nat.add_mul, Nat.mul_assoc, Nat.mul_comm cont, Nat.mul_assoc, Nat.mul_comm c.tabWidth cont]

/-- the saturation `continuation_indents * tab_width > 255` (known finding F6) is exactly where the
    unit law fails: the continuation width is then 255 columns -/
theorem saturated_width (c : Config) (h : c.useTabs = false) (hs : c.contIndents * c.tabWidth > 255) :
    c.settings.contStr.length = 255 := by
  unfold Config.settings; simp [h, satMulU8]; omega

end Pasfmt.C10
