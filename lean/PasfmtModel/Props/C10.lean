/-
  C10 — Indentation settings only re-render indentation.

  Proved: the rendering law for FIXED counters (`recon_tabs_to_spaces`, `indent_units`, `saturated_width`); the
  reduction of the whole property to "the search makes the same decisions under both settings"
  (`stage_of_search_simulation_partial`, `format_full_partial`); the leaf facts of that open statement
  (`penalty_width_free`, `too_long_false`, `token_line_length_le`, `requirement_width_free`); the unconditional
  instance `tab_width = 1` (`stage_tab_width_one`).
  OPEN: `search_width_free` (the decisions of the search do not depend on the widths of the indentation strings when
  no line reaches the width limit); the inventory of all length reads and the exact obstacle (the child-line cache
  key contains a line length) are in the header of Proofs/SearchWidthFree.lean.
-/
import PasfmtModel.Proofs.ReconProps
import PasfmtModel.Proofs.SearchWidthFree

namespace Pasfmt.C10

/-- For fixed whitespace counters and `continuation_indents * tab_width ≤ 255`, replacing every tab
    of the `use_tabs = true` rendering by `tab_width` spaces gives exactly the `use_tabs = false`
    rendering (tokens kept verbatim must not contain tabs themselves: then every tab of the output
    is an indentation tab). -/
theorem recon_tabs_to_spaces (c : Config) (hsat : c.contIndents * c.tabWidth ≤ 255)
    (ft : FT) (h : ∀ t ∈ ft, noTabTok t = true) :
    expandTabs c.tabWidth (reconstruct ({ c with useTabs := true }).settings ft)
      = reconstruct ({ c with useTabs := false }).settings ft :=
  reconGo_tabs_to_spaces c hsat ft false h

/-- indentation of a broken line = (levels + continuation_indents × continuations) units, a unit
    being one tab or `tab_width` spaces (no saturation: `continuation_indents * tab_width ≤ 255`) -/
theorem indent_units (c : Config) (hsat : c.contIndents * c.tabWidth ≤ 255) (ind cont : Nat) :
    replicateBytes ind c.settings.indStr ++ replicateBytes cont c.settings.contStr =
      if c.useTabs then List.replicate (ind + c.contIndents * cont) 0x09
      else List.replicate ((ind + c.contIndents * cont) * c.tabWidth) 0x20 := by
  have hsatm : satMulU8 c.contIndents c.tabWidth = c.contIndents * c.tabWidth := by
    unfold satMulU8; omega
  unfold Config.settings
  simp only
  split
  · rw [replicateBytes_replicate, replicateBytes_replicate, List.replicate_append_replicate]
    congr 1; rw [Nat.mul_comm cont]; omega
  · rw [replicateBytes_replicate, replicateBytes_replicate, List.replicate_append_replicate, hsatm]
    congr 1
    rw [Nat.add_mul, Nat.mul_assoc, Nat.mul_comm cont, Nat.mul_assoc, Nat.mul_comm c.tabWidth cont]

/-- the saturation `continuation_indents * tab_width > 255` (known finding F6) is exactly where the
    unit law fails: the continuation width is then 255 columns -/
theorem saturated_width (c : Config) (h : c.useTabs = false) (hs : c.contIndents * c.tabWidth > 255) :
    c.settings.contStr.length = 255 := by
  unfold Config.settings; simp [h, satMulU8]; omega

/-- The penalty of a decision is the same in two runs of the search that differ only in the widths of the
    indentation strings: always for a break, and for a continue when neither line length exceeds the width limit
    (the only length-dependent summand is the overflow penalty, which is then 0 in both runs). -/
theorem penalty_width_free {O₁ O₂ : Olf} (h : OlfTwin O₁ O₂) (rd : RawDecision) (l₁ l₂ li : Nat)
    (line : LineA) (stack : SpecificContextStack)
    (hl : rd = .cont → l₁ ≤ O₁.cfg.wrapColumn ∧ l₂ ≤ O₁.cfg.wrapColumn) :
    O₁.getDecisionPenalty rd l₁ li line stack = O₂.getDecisionPenalty rd l₂ li line stack :=
  getDecisionPenalty_width_free h rd l₁ l₂ li line stack hl

/-- the "last line is too long" test of the search (the only other comparison of a length with the limit) is false
    when both lengths it reads are within the limit -/
theorem too_long_false (O : Olf) (lastTokenLength lastChildLength : Nat)
    (h1 : lastTokenLength ≤ O.cfg.wrapColumn) (h2 : lastChildLength ≤ O.cfg.wrapColumn) :
    decide (max lastTokenLength lastChildLength > O.maxLineLength) = false :=
  tooLong_false_of_le O lastTokenLength lastChildLength h1 h2

/-- one step of the bound on line lengths: if everything the length of the next token is computed from is at most
    `B` (previous length, lengths in the previous token's child solutions, the width of the line's whitespace, the
    last line of a multi-line token), the new length is at most `B` plus the token's spaces and content -/
theorem token_line_length_le (O : Olf) (ws : LineWhitespace) (prev : DecisionRef) (d : Dec) (ti : Option Nat) (B : Nat)
    (hprev : prev.value.lastLineLength ≤ B)
    (hchild : ∀ s ∈ prev.value.childSolutions, ∀ x ∈ s.2.decisions, x.lastLineLength ≤ B)
    (hws : ∀ c, d = .brk c → (ws.add { indentations := 0, continuations := c }).len O.cfg ≤ B)
    (hws0 : ws.len O.cfg ≤ B)
    (hml : ∀ i t l, ti = some i → O.formattedTokens[i]? = some t → t.lastLine = some l → l ≤ B) :
    O.getTokenLineLength ws prev d ti ≤
      B + ((ti.bind fun i => O.tokenLengths[i]?).map fun t => t.spacesBefore + t.content).getD 0 :=
  getTokenLineLength_le O ws prev d ti B hprev hchild hws hws0 hml

/-- the requirement of a decision (must break / must not break / indifferent / invalid) reads neither the widths
    of the indentation strings nor any line length -/
theorem requirement_width_free {O₁ O₂ : Olf} (h : OlfTwin O₁ O₂) (li : Nat) (line : LineA)
    (stack : SpecificContextStack) (node : FormattingNode) :
    O₁.getFormattingRequirement li line stack node = O₂.getFormattingRequirement li line stack node :=
  getFormattingRequirement_twin h li line stack node

/-- C10 for the wrapper stage and the reconstruction, reduced to the open statement about the search.  If the
    searches under `use_tabs = true` and `use_tabs = false` are related by a simulation `R` (related states give the
    same solution for every line and related states again, for all token states satisfying a property `V` that
    applying a solution preserves), then with `format_multiline_strings = false` and
    `continuation_indents * tab_width ≤ 255` the stage ends with the same tokens under both settings, and replacing
    every tab of the `use_tabs = true` output by `tab_width` spaces gives exactly the `use_tabs = false` output
    (no final token may contain a tab itself). -/
theorem stage_of_search_simulation_partial (c : Config) (hsat : c.contIndents * c.tabWidth ≤ 255)
    (hm : c.fmtMls = false) (R : SearchState → SearchState → Prop) (V : FT → Prop) (lines : List Line) (ft : FT)
    (hV : ∀ ft s i ft1, V ft → applySol lines ft s i = some ft1 → V ft1)
    (hR : ∀ st₁ st₂ ft i, R st₁ st₂ → V ft →
      (searchSolve st₁ ft i).1 = (searchSolve st₂ ft i).1 ∧ R (searchSolve st₁ ft i).2 (searchSolve st₂ ft i).2)
    (hinit : R (searchInit { c with useTabs := true } lines ft) (searchInit { c with useTabs := false } lines ft))
    (hv : V ft) (ft2 : FT) (sols : List (Nat × Nat × Sol))
    (hw : wrapStageFull { c with useTabs := true } lines ft = some (ft2, sols))
    (hnt : ∀ t ∈ ft2, noTabTok t = true) :
    wrapStageFull { c with useTabs := false } lines ft = some (ft2, sols) ∧
      expandTabs c.tabWidth (reconstruct ({ c with useTabs := true }).settings ft2)
        = reconstruct ({ c with useTabs := false }).settings ft2 :=
  C10_stage_of_search_simulation_partial c hsat hm R V lines ft hV hR hinit hv ft2 sols hw hnt

/-- C10 for the wrapper stage and the reconstruction when `tab_width = 1`, for every line width: the search sees
    the same configuration under both settings, so with `format_multiline_strings = false` the stage ends with the
    same tokens, and replacing every tab of the `use_tabs = true` output by one space gives the `use_tabs = false`
    output. -/
theorem stage_tab_width_one (c : Config) (h1 : c.tabWidth = 1) (hc : c.contIndents ≤ 255)
    (hm : c.fmtMls = false) (lines : List Line) (ft ft2 : FT) (sols : List (Nat × Nat × Sol))
    (hw : wrapStageFull { c with useTabs := true } lines ft = some (ft2, sols))
    (hnt : ∀ t ∈ ft2, noTabTok t = true) :
    wrapStageFull { c with useTabs := false } lines ft = some (ft2, sols) ∧
      expandTabs c.tabWidth (reconstruct ({ c with useTabs := true }).settings ft2)
        = reconstruct ({ c with useTabs := false }).settings ft2 :=
  C10_stage_tab_width_one c h1 hc hm lines ft ft2 sols hw hnt

/-- C10 for the whole formatter, reduced to two facts about the wrapper stage on the tokens and lines the earlier
    stages produce: (1) the stage ends with the same tokens under `use_tabs = true` and `use_tabs = false` (what
    `stage_of_search_simulation_partial` / `stage_tab_width_one` give), (2) no token it ends with contains a tab.
    Then replacing every tab of the `use_tabs = true` output by `tab_width` spaces gives exactly the
    `use_tabs = false` output (`continuation_indents * tab_width ≤ 255`); in particular one run fails iff the other
    does. -/
theorem format_full_partial (c : Config) (hsat : c.contIndents * c.tabWidth ≤ 255) (alnum : Bytes → Bool)
    (s : Bytes)
    (hstage : ∀ raw, lex s = some raw → ∀ po, parseAndConsolidate raw = some po →
      ∀ p, p = preWrap { parser := fun _ => po, wrap := fun _ _ ft => ft, alnum := alnum } raw →
      wrapStageFull { c with useTabs := true } p.2.1 p.2.2 = wrapStageFull { c with useTabs := false } p.2.1 p.2.2 ∧
      ∀ ft2 sols, wrapStageFull { c with useTabs := true } p.2.1 p.2.2 = some (ft2, sols) →
        ∀ t ∈ ft2, noTabTok t = true) :
    (formatFull { c with useTabs := true } alnum s).map (expandTabs c.tabWidth) =
      formatFull { c with useTabs := false } alnum s := by
  unfold formatFull
  cases hl : lex s with
  | none => rfl
  | some raw => exact C10_format_tokens_partial c hsat alnum raw (hstage raw hl)

end Pasfmt.C10
