/-
  C03 — Formatting is idempotent on well-formed code.
  Proved: the content normalisations and the counter rules that do not depend on the wrapper are
  fixpoints.  That the wrapper's decisions only depend on kinds/lengths/nesting, and that a reflow
  after string re-indentation equals a fresh wrap (`ReflowFresh`, false on the current tree for
  child lines: known finding F10), are contracts checked by the format-twice oracle (partial).
-/
import PasfmtModel.Proofs.RulesSim
import PasfmtModel.Proofs.ReconProps
import PasfmtModel.Model.Mls
import PasfmtModel.Proofs.RulesIdem
import PasfmtModel.Proofs.SpacingIdem
import PasfmtModel.Proofs.GapReadBack
import PasfmtModel.Proofs.MlsMore
import PasfmtModel.Proofs.LayoutFull

namespace Pasfmt.C03

theorem asciiLower_no_upper (c : Bytes) : (asciiLower c).any isUpper = false := by
  unfold asciiLower
  rw [List.any_map, List.any_eq_false]
  intro b _
  have hall : ∀ n : Fin 256, isUpper (toLowerByte (UInt8.ofNat n.val)) = false := by decide +kernel
  have := hall ⟨b.toNat, b.toNat_lt⟩
  simpa using this

/-- keyword lower-casing is a fixpoint -/
theorem lowercase_idem (t : FTok) : lowercaseTok (lowercaseTok t) = lowercaseTok t := by
  unfold lowercaseTok
  split
  · rename_i h
    unfold FTok.setContent
    split
    · rename_i hig
      simp [h, hig, FTok.setContent]
    · simp only [asciiLower_no_upper, Bool.and_false, Bool.false_eq_true, if_false]
  · rename_i h
    simp [h]

/-- blank-line grouping survives re-formatting: `clamp(clamp(x,1,2),1,2) = clamp(x,1,2)` -/
theorem blank_group_stable (x : Nat) : max 1 (min (max 1 (min x 2)) 2) = max 1 (min x 2) := by omega

/-- an already trimmed line comment with a blank after the slashes is left alone -/
theorem trimAsciiEnd_idem (y : Bytes) : trimAsciiEnd (trimAsciiEnd y) = trimAsciiEnd y := by
  unfold trimAsciiEnd
  rw [List.reverse_reverse]
  congr 1
  -- dropWhile p (dropWhile p l) = dropWhile p l
  generalize y.reverse = l
  induction l with
  | nil => rfl
  | cons a r ih =>
    rw [List.dropWhile_cons]
    split
    · exact ih
    · rename_i h
      rw [List.dropWhile_cons]; simp [h]

/-- the whitespace the reconstructor emits for counters `(nl, 0, 0, sp)` is read back by
    `FormattingData::from` as exactly `nl` line breaks (lf and crlf) -/
theorem fmtdata_of_emitted_newlines (n : Nat) (crlf : Bool) (hn : n ≤ 65535) :
    (FmtData.ofWs (replicateBytes n (if crlf then [0x0D, 0x0A] else [0x0A])) false).nl = n := by
  unfold FmtData.ofWs u16sat u16Max
  simp only
  have : countByte 0x0A (replicateBytes n (if crlf then [0x0D, 0x0A] else [0x0A])) = n := by
    unfold replicateBytes countByte
    induction n with
    | zero => rfl
    | succ k ih =>
      rw [List.replicate_succ, List.flatten_cons, List.filter_append, List.length_append, ih (by omega)]
      cases crlf <;> simp <;> omega
  rw [this]; omega

/-- the line-comment rule applied to its own result does not change it again, for every comment text
    and every behaviour of the Unicode-alphanumeric test -/
theorem line_comment_rule_idem (U : Bytes → Bool) (c c' : Bytes) (h : formatLineComment U c = some c') :
    formatLineComment U c' = none := formatLineComment_idem U c c' h

/-- the compiler-directive rule applied to its own result does not change it again -/
theorem directive_rule_idem (c c' : Bytes) (h : formatCompilerDirective c = some c') :
    formatCompilerDirective c' = none := formatCompilerDirective_idem c c' h

/-- the comment formatter as a whole is a fixpoint after one application (ignored tokens included) -/
theorem comment_formatter_idem (U : Bytes → Bool) (ft : FT) :
    commentFormatter U (commentFormatter U ft) = commentFormatter U ft := commentFormatter_idem U ft

/-- `TokenSpacing` is a fixpoint on its own result: on tokens that carry the spacing it computed it
    computes the same spacing again, for every sequence of kinds and every original spacing -/
theorem token_spacing_idem (l : List (Kind × Nat)) :
    spacingResult (respace l (spacingResult l)) = spacingResult l := spacingResult_idem l

/-- the whitespace emitted for a non-ignored token with counters `(n, i, c, s)` is read back by
    `FormattingData::from` as `n` line breaks and a blank run exactly as wide as indentation +
    continuation + spaces (saturating at `u16::MAX`), for every configuration -/
theorem emitted_gap_read_back (cfg : Config) (n i c s : Nat) :
    FmtData.ofWs (replicateBytes n cfg.settings.nlStr ++ (replicateBytes i cfg.settings.indStr ++
        replicateBytes c cfg.settings.contStr ++ List.replicate s 0x20)) false =
      { ignored := false, nl := u16sat n, ind := 0, cont := 0,
        sp := u16sat (replicateBytes i cfg.settings.indStr ++ replicateBytes c cfg.settings.contStr ++
          List.replicate s 0x20).length } := ofWs_gap cfg n i c s

/-- **the multi-line string re-indenter is a fixpoint after one application**: if it turned a literal that ends in a
    quote (every multi-line literal token does) into `c'`, then applied to `c'` with the same counters and settings it
    reports "no change" - it recomputes the same text - so the token text stays `c'`.  `MlsMore.SettingsOk S` (line
    ending LF or CR LF, indentation strings of blanks other than CR/LF) holds for the settings of every configuration
    (`MlsMore.settings_ok`).  Each hypothesis is needed: `C12.mls_no_quote_counterexample`,
    `C12.mls_settings_counterexamples`. -/
theorem mls_rewrite_idem (S : Settings) (hS : MlsMore.SettingsOk S) (content : Bytes) (ind cont : Nat) (c' : Bytes)
    (hq : content.getLast? = some 0x27) (h : mlsRewrite S content ind cont = some c') :
    mlsRewrite S c' ind cont = none :=
  MlsMore.mls_idem S hS content ind cont c' hq h

/-- the same for the string-formatting pass on one token of any kind, under every configuration: a token `t'` that
    carries the text the pass computed for `t` (same kind, same ignored flag) keeps its text when the pass runs again
    with the same counters.  Excluded: multi-line literal tokens whose text does not end in a quote (there are none). -/
theorem mls_token_idem (cfg : Config) (fm : Bool) (t t' : FTok) (ind cont : Nat)
    (hq : isMlsKind t.tok.kind = true → t.tok.content.getLast? = some 0x27)
    (hk : t'.tok.kind = t.tok.kind) (hi : t'.fmt.ignored = t.fmt.ignored)
    (hc : t'.tok.content = mlsTok cfg.settings fm t ind cont) : mlsTok cfg.settings fm t' ind cont = t'.tok.content :=
  MlsMore.mlsTok_idem cfg.settings (MlsMore.settings_ok cfg) fm t t' ind cont hq hk hi hc

-- Tests (labelled as tests).  "'''\n    abc\n    '''" under the default configuration with counters (1, 1):
-- first application re-indents, second application reports no change
example : mlsRewrite Config.default.settings [39,39,39,10, 32,32,32,32,97,98,99,10, 32,32,32,32,39,39,39] 1 1
    = some [39,39,39,10, 32,32,32,32,32,32,97,98,99,10, 32,32,32,32,32,32,39,39,39] := by decide +kernel
example : mlsRewrite Config.default.settings
    [39,39,39,10, 32,32,32,32,32,32,97,98,99,10, 32,32,32,32,32,32,39,39,39] 1 1 = none := by decide +kernel

/-- **Idempotence of the closed model of the whole formatter, decided per input.**  If `s` is formatted to `out` and
    `out` is another layout of the tokens of `s` in the sense of the layout theorem (`layoutPremisesB cfg alnum s out`,
    decidable: same token types and texts - so `s` already has its keywords lower-cased, its comments and directives
    normalised and its multi-line literals in place -, same blank-line grouping, `GapEqW`, every token written by a
    first-phase solution), then formatting `out` again returns `out`.
    A corollary of `C06.C06_format_full_checked`; the driver tallies the premise on every case of the `full` stream
    (`info_c03`).  For inputs whose token texts are not yet normalised, idempotence is decided by the format-twice
    oracle and the `full`/`wsearch` correspondences. -/
theorem C03_format_full_checked (cfg : Config) (alnum : Bytes → Bool) (s out : Bytes)
    (h : formatFull cfg alnum s = some out) (hp : layoutPremisesB cfg alnum s out = true) :
    formatFull cfg alnum out = some out := by
  obtain ⟨o, h1, h2⟩ := formatFull_layout_checked cfg alnum s out hp
  rw [h] at h1
  cases h1
  exact h2

end Pasfmt.C03
