/-
  C08 — Output whitespace is canonical.
  Theorems on `reconstruct` for every token list whose final counters satisfy the decidable
  per-token contract `canonTok` (evaluated on every case by the driver; the exact rules and the
  wrapper contract are what establish it).
-/
import PasfmtModel.Proofs.ReconProps
import PasfmtModel.Props.C10
import PasfmtModel.Proofs.SpacingLayout
import PasfmtModel.Proofs.SpacingLe
import PasfmtModel.Proofs.WrapStageProps
import PasfmtModel.Proofs.PipelineFullProps
import PasfmtModel.Proofs.CanonStage

namespace Pasfmt.C08

/-- the canonical shape of the counters of a non-ignored token -/
def canonFmt (f : FmtData) : Bool :=
  decide (f.nl ≤ 2) && (f.nl == 0 || f.sp == 0) && (f.nl != 0 || (f.ind == 0 && f.cont == 0 && decide (f.sp ≤ 1)))

/-- what is emitted in front of a non-ignored token with canonical counters (no safety net):
    nothing or one space on the same line, or one/two line breaks followed by whole indentation
    units and nothing else -/
theorem gap_shape (S : Settings) (t : FTok) (mb : Bool) (hi : t.fmt.ignored = false)
    (hc : canonFmt t.fmt = true) (hsafe : (mb && t.fmt.nl == 0 && !(t.tok.kind == .tEof)) = false) :
    (t.fmt.nl = 0 ∧ (gapOf S t mb = [] ∨ gapOf S t mb = [0x20])) ∨
    ((t.fmt.nl = 1 ∨ t.fmt.nl = 2) ∧
      gapOf S t mb = replicateBytes t.fmt.nl S.nlStr ++ (replicateBytes t.fmt.ind S.indStr ++ replicateBytes t.fmt.cont S.contStr)) := by
  unfold canonFmt at hc
  simp only [Bool.and_eq_true, Bool.or_eq_true, decide_eq_true_eq, beq_iff_eq, bne_iff_ne, ne_eq] at hc
  obtain ⟨⟨h2, h0⟩, h1⟩ := hc
  unfold gapOf
  simp only [hi, hsafe]
  by_cases hn : t.fmt.nl = 0
  · left
    refine ⟨hn, ?_⟩
    rcases h1 with h1 | h1
    · exact absurd hn h1
    · obtain ⟨⟨hind, hcont⟩, hsp⟩ := h1
      simp only [hn, hind, hcont, replicateBytes, List.replicate_zero, List.flatten_nil, List.nil_append]
      have : t.fmt.sp = 0 ∨ t.fmt.sp = 1 := by omega
      rcases this with h | h <;> simp [h]
  · right
    have hsp : t.fmt.sp = 0 := by
      rcases h0 with h | h
      · exact absurd h hn
      · exact h
    refine ⟨by omega, ?_⟩
    simp [hsp, List.append_assoc]

/-- hence, with `continuation_indents * tab_width ≤ 255`, the indentation of every broken line is a
    whole number of units: tabs only under `use_tabs`, otherwise a multiple of `tab_width` spaces -/
theorem indent_whole_units (c : Config) (hsat : c.contIndents * c.tabWidth ≤ 255) (ind cont : Nat) :
    ∃ k, replicateBytes ind c.settings.indStr ++ replicateBytes cont c.settings.contStr =
      if c.useTabs then List.replicate k 0x09 else List.replicate (k * c.tabWidth) 0x20 :=
  ⟨ind + c.contIndents * cont, C10.indent_units c hsat ind cont⟩

/-- the end-of-file rule gives the last token exactly one line break and nothing else -/
theorem eof_one_newline (lines : List Line) (ft : FT) (t : FTok)
    (hl : lines.any (fun l => l.ltype == .lEof) = true)
    (ht : ft.getLast? = some t) (hk : t.tok.kind = .tEof) :
    ∃ t', (eofNewline lines ft).getLast? = some t' ∧ t'.tok = t.tok ∧
      t'.fmt.nl = 1 ∧ t'.fmt.sp = 0 ∧ t'.fmt.ind = 0 ∧ t'.fmt.cont = 0 := by
  unfold eofNewline
  simp only [hl, if_true]
  rw [List.getLast?_eq_some_iff] at ht
  obtain ⟨pre, hpre⟩ := ht
  subst hpre
  refine ⟨{ t with fmt := { t.fmt with nl := 1, sp := 0, ind := 0, cont := 0 } }, ?_, rfl, rfl, rfl, rfl, rfl⟩
  rw [List.zipIdx_append, List.map_append, List.getLast?_append]
  simp [List.zipIdx_cons, hk]

/-- every value `TokenSpacing` writes is 0, 1 or `min(original, 1)` -/
theorem spacingRule_le_one (k : Kind) (prev prevReal next : Option Kind) (cur : Nat) (nextSp : Option Nat) :
    OptLe1 (spacingRule k prev prevReal next cur nextSp).1 ∧
    OptLe1 (spacingRule k prev prevReal next cur nextSp).2 :=
  Pasfmt.spacingRule_le_one k prev prevReal next cur nextSp

theorem spacingGo_le_one (prev prevReal : Option Kind) (cur : Nat) (l : List (Kind × Nat))
    (hc : cur ≤ 1) (hl : ∀ p ∈ l, p.2 ≤ 1) : ∀ v ∈ spacingGo prev prevReal cur l, v ≤ 1 := by
  induction l generalizing prev prevReal cur with
  | nil => intro v hv; simp [spacingGo] at hv
  | cons x rest ih =>
    obtain ⟨k, sp⟩ := x
    unfold spacingGo
    simp only
    have hrule := spacingRule_le_one k prev prevReal (rest.head?.map (·.1)) cur (rest.head?.map (·.2))
    have hfinal : (spacingRule k prev prevReal (rest.head?.map (·.1)) cur (rest.head?.map (·.2))).1.getD cur ≤ 1 := by
      cases h1 : (spacingRule k prev prevReal (rest.head?.map (·.1)) cur (rest.head?.map (·.2))).1 with
      | none => simpa using hc
      | some v => have := hrule.1; rw [h1] at this; simpa [OptLe1] using this
    cases rest with
    | nil =>
      intro v hv; simp at hv; subst hv; exact hfinal
    | cons y rest' =>
      obtain ⟨k', sp'⟩ := y
      intro v hv
      simp only [List.mem_cons] at hv
      rcases hv with rfl | hv
      · exact hfinal
      · have hsp' : sp' ≤ 1 := hl (k', sp') (by simp)
        have hr2 := hrule.2
        simp only [List.head?_cons, Option.map_some] at hr2 hv ⊢
        refine ih _ _ _ ?_ (fun p hp => hl p (by simp [hp])) v hv
        generalize (spacingRule k prev prevReal (some k') cur (some sp')).2 = after at hr2 ⊢
        unfold nextCur
        cases after with
        | none => exact hsp'
        | some a =>
          simp only [OptLe1] at hr2
          simp only
          split <;> omega

theorem spacingResult_le_one_of_clamped (l : List (Kind × Nat)) (hl : ∀ p ∈ l, p.2 ≤ 1) :
    ∀ v ∈ spacingResult l, v ≤ 1 := by
  unfold spacingResult
  split
  · intro v hv; simp at hv
  · rename_i k0 sp0 rest
    have h := spacingGo_le_one none none sp0 ((k0, sp0) :: rest) (hl (k0, sp0) (by simp)) hl
    split
    · intro v hv; simp at hv
    · rename_i a r heq
      intro v hv
      rcases List.mem_cons.1 hv with rfl | hv'
      · omega
      · exact h v (by rw [heq]; simp [hv'])

theorem layoutEq_clamp (l : List (Kind × Nat)) : LayoutEq l (l.map fun p => (p.1, min p.2 1)) := by
  induction l with
  | nil => exact .nil
  | cons x r ih =>
    obtain ⟨k, a⟩ := x
    exact .cons (by omega) ih

/-- **After `TokenSpacing` no token is preceded by more than one space** (whatever the original
    spacing; token lists without inline line comments — the token after one starts a new line) -/
theorem spacing_at_most_one (l : List (Kind × Nat)) (hni : noInlineLine l) : ∀ v ∈ spacingResult l, v ≤ 1 := by
  rw [spacingResult_layout l _ (layoutEq_clamp l) hni]
  apply spacingResult_le_one_of_clamped
  intro p hp
  rw [List.mem_map] at hp
  obtain ⟨q, _, rfl⟩ := hp
  simp only; omega

/-- **No token starts a line with spaces, for every search of the line wrapper**: the exact model of the wrapper
    stage (`Model/WrapStage.lean`) ends by removing the spaces before every token that has a line break before it,
    after the last re-wrap (repair a94e22a moved the removal behind the re-wrap) - so a line's indentation is made of
    whole indentation units only (`indent_whole_units`), whatever solutions the search returned. -/
theorem no_spaces_at_line_start (solve : Nat → Nat → Option Sol) (cfg : Config) (lines : List Line)
    (ft ft' : FT) (h : wrapStage solve cfg lines ft = some ft') : ∀ t ∈ ft', t.fmt.nl > 0 → t.fmt.sp = 0 :=
  wrapStage_no_spaces_at_line_start solve cfg lines ft ft' h

/-- the same for the stage with the exact model of the search inside (the wrapper stage of the closed model
    `formatFull`, compared with the real stage on every case of the `wsearch` stream) -/
theorem no_spaces_at_line_start_full (cfg : Config) (lines : List Line) (ft ft' : FT) (sols : List (Nat × Nat × Sol))
    (h : wrapStageFull cfg lines ft = some (ft', sols)) : ∀ t ∈ ft', t.fmt.nl > 0 → t.fmt.sp = 0 :=
  wrapStageFull_no_spaces_at_line_start cfg lines ft ft' sols h

/-- `canonFmt` is the driver's `canonFmtB` -/
theorem canonFmt_eq (f : FmtData) : canonFmt f = canonFmtB f := rfl

/-- **Canonical counters after the wrapper stage with the search inside, whatever the search returns**: if before
    the stage every token that is not kept verbatim has at most one space before it and the tokens already final (the
    end-of-file token) have canonical counters, and every other such token lies in a line for which a first-phase
    solution was applied (`allWritten`), then after the stage every token that is not kept verbatim has canonical
    counters: at most two line breaks, no spaces at a line start, no indentation without a line break, at most one
    space otherwise.  With `gap_shape` and `indent_whole_units` this is the shape of every gap the reconstructor emits. -/
theorem canonical_counters_after_stage (cfg : Config) (lines : List Line) (W0 : Nat → Bool) (ft ftz : FT)
    (sols : List (Nat × Nat × Sol))
    (h : CanonOn (fun j => W0 j = true) ft)
    (h1 : wrapStageFull cfg lines ft = some (ftz, sols))
    (hall : allWritten lines W0 ft.length sols = true) :
    ∀ t ∈ ftz, t.fmt.ignored = false → canonFmt t.fmt = true :=
  wrapStageFull_canon cfg lines W0 ft ftz sols h h1 hall

/-- **C08 for the closed model of the whole formatter, decided per input.**  `canonPremisesB cfg alnum s`
    (Model/LayoutCheck.lean, executable) says: in the run on `s`, before the wrapper stage every token not kept
    verbatim has at most one space before it (a theorem when no line comment shares its line with code:
    `spacing_at_most_one`), and every such token is the end-of-file token written by the end-of-file rule or lies in a
    line for which the wrapper found a solution in its first phase.  Whenever it answers `true`, the output is the
    reconstruction of a state whose non-verbatim tokens all have canonical counters - hence (by `gap_shape`) between
    two tokens there is nothing, one space, or one or two line breaks followed by whole indentation units.  It fails
    exactly where the wrapper reports "no solution" for a line (known finding F34).  The driver tallies it on every
    case of the `full` stream (`info_c08`). -/
theorem C08_format_full_checked (cfg : Config) (alnum : Bytes → Bool) (s : Bytes)
    (h : canonPremisesB cfg alnum s = true) :
    ∃ ftz, formatFull cfg alnum s = some (reconstruct cfg.settings ftz) ∧
      ∀ t ∈ ftz, t.fmt.ignored = false → canonFmt t.fmt = true :=
  formatFull_canon_checked cfg alnum s h

end Pasfmt.C08
