/-
  C08 — Output whitespace is canonical.
  Theorems on `reconstruct` for every token list whose final counters satisfy the decidable
  per-token contract `canonTok` (evaluated on every case by the driver; the exact rules and the
  wrapper contract are what establish it).
-/
import PasfmtModel.Proofs.ReconProps
import PasfmtModel.Props.C10
import PasfmtModel.Proofs.SpacingLayout
import PasfmtModel.Proofs.SpacingLe
import PasfmtModel.Proofs.WrapStageProps
import PasfmtModel.Proofs.PipelineFullProps
import PasfmtModel.Proofs.CanonStage
import PasfmtModel.Proofs.CanonPremise
import PasfmtModel.Proofs.ReconBytes

namespace Pasfmt.C08

/-- the canonical shape of the counters of a non-ignored token -/
def canonFmt (f : FmtData) : Bool :=
  decide (f.nl ≤ 2) && (f.nl == 0 || f.sp == 0) && (f.nl != 0 || (f.ind == 0 && f.cont == 0 && decide (f.sp ≤ 1)))

/-- what is emitted in front of a non-ignored token with canonical counters (no safety net):
    nothing or one space on the same line, or one/two line breaks followed by whole indentation
    units and nothing else -/
theorem gap_shape (S : Settings) (t : FTok) (mb : Bool) (hi : t.fmt.ignored = false)
    (hc : canonFmt t.fmt = true) (hsafe : (mb && t.fmt.nl == 0 && !(t.tok.kind == .tEof)) = false) :
    (t.fmt.nl = 0 ∧ (gapOf S t mb = [] ∨ gapOf S t mb = [0x20])) ∨
    ((t.fmt.nl = 1 ∨ t.fmt.nl = 2) ∧
      gapOf S t mb = replicateBytes t.fmt.nl S.nlStr ++ (replicateBytes t.fmt.ind S.indStr ++ replicateBytes t.fmt.cont S.contStr)) := by
  unfold canonFmt at hc
  simp only [Bool.and_eq_true, Bool.or_eq_true, decide_eq_true_eq, beq_iff_eq, bne_iff_ne, ne_eq] at hc
  obtain ⟨⟨h2, h0⟩, h1⟩ := hc
  unfold gapOf
  simp only [hi, hsafe]
  by_cases hn : t.fmt.nl = 0
  · left
    refine ⟨hn, ?_⟩
    rcases h1 with h1 | h1
    · exact absurd hn h1
    · obtain ⟨⟨hind, hcont⟩, hsp⟩ := h1
      simp only [hn, hind, hcont, replicateBytes, List.replicate_zero, List.flatten_nil, List.nil_append]
      have : t.fmt.sp = 0 ∨ t.fmt.sp = 1 := by omega
      rcases this with h | h <;> simp [h]
  · right
    have hsp : t.fmt.sp = 0 := by
      rcases h0 with h | h
      · exact absurd h hn
      · exact h
    refine ⟨by omega, ?_⟩
    simp [hsp, List.append_assoc]

/-- hence, with `continuation_indents * tab_width ≤ 255`, the indentation of every broken line is a
    whole number of units: tabs only under `use_tabs`, otherwise a multiple of `tab_width` spaces -/
theorem indent_whole_units (c : Config) (hsat : c.contIndents * c.tabWidth ≤ 255) (ind cont : Nat) :
    ∃ k, replicateBytes ind c.settings.indStr ++ replicateBytes cont c.settings.contStr =
      if c.useTabs then List.replicate k 0x09 else List.replicate (k * c.tabWidth) 0x20 :=
  ⟨ind + c.contIndents * cont, C10.indent_units c hsat ind cont⟩

/-- the end-of-file rule gives the last token exactly one line break and nothing else -/
theorem eof_one_newline (lines : List Line) (ft : FT) (t : FTok)
    (hl : lines.any (fun l => l.ltype == .lEof) = true)
    (ht : ft.getLast? = some t) (hk : t.tok.kind = .tEof) :
    ∃ t', (eofNewline lines ft).getLast? = some t' ∧ t'.tok = t.tok ∧
      t'.fmt.nl = 1 ∧ t'.fmt.sp = 0 ∧ t'.fmt.ind = 0 ∧ t'.fmt.cont = 0 := by
  unfold eofNewline
  simp only [hl, if_true]
  rw [List.getLast?_eq_some_iff] at ht
  obtain ⟨pre, hpre⟩ := ht
  subst hpre
  refine ⟨{ t with fmt := { t.fmt with nl := 1, sp := 0, ind := 0, cont := 0 } }, ?_, rfl, rfl, rfl, rfl, rfl⟩
  rw [List.zipIdx_append, List.map_append, List.getLast?_append]
  simp [List.zipIdx_cons, hk]

/-- every value `TokenSpacing` writes is 0, 1 or `min(original, 1)` -/
theorem spacingRule_le_one (k : Kind) (prev prevReal next : Option Kind) (cur : Nat) (nextSp : Option Nat) :
    OptLe1 (spacingRule k prev prevReal next cur nextSp).1 ∧
    OptLe1 (spacingRule k prev prevReal next cur nextSp).2 :=
  Pasfmt.spacingRule_le_one k prev prevReal next cur nextSp

theorem spacingGo_le_one (prev prevReal : Option Kind) (cur : Nat) (l : List (Kind × Nat))
    (hc : cur ≤ 1) (hl : ∀ p ∈ l, p.2 ≤ 1) : ∀ v ∈ spacingGo prev prevReal cur l, v ≤ 1 := by
  induction l generalizing prev prevReal cur with
  | nil => intro v hv; simp [spacingGo] at hv
  | cons x rest ih =>
    obtain ⟨k, sp⟩ := x
    unfold spacingGo
    simp only
    have hrule := spacingRule_le_one k prev prevReal (rest.head?.map (·.1)) cur (rest.head?.map (·.2))
    have hfinal : (spacingRule k prev prevReal (rest.head?.map (·.1)) cur (rest.head?.map (·.2))).1.getD cur ≤ 1 := by
      cases h1 : (spacingRule k prev prevReal (rest.head?.map (·.1)) cur (rest.head?.map (·.2))).1 with
      | none => simpa using hc
      | some v => have := hrule.1; rw [h1] at this; simpa [OptLe1] using this
    cases rest with
    | nil =>
      intro v hv; simp at hv; subst hv; exact hfinal
    | cons y rest' =>
      obtain ⟨k', sp'⟩ := y
      intro v hv
      simp only [List.mem_cons] at hv
      rcases hv with rfl | hv
      · exact hfinal
      · have hsp' : sp' ≤ 1 := hl (k', sp') (by simp)
        have hr2 := hrule.2
        simp only [List.head?_cons, Option.map_some] at hr2 hv ⊢
        refine ih _ _ _ ?_ (fun p hp => hl p (by simp [hp])) v hv
        generalize (spacingRule k prev prevReal (some k') cur (some sp')).2 = after at hr2 ⊢
        unfold nextCur
        cases after with
        | none => exact hsp'
        | some a =>
          simp only [OptLe1] at hr2
          simp only
          split <;> omega

theorem spacingResult_le_one_of_clamped (l : List (Kind × Nat)) (hl : ∀ p ∈ l, p.2 ≤ 1) :
    ∀ v ∈ spacingResult l, v ≤ 1 := by
  unfold spacingResult
  split
  · intro v hv; simp at hv
  · rename_i k0 sp0 rest
    have h := spacingGo_le_one none none sp0 ((k0, sp0) :: rest) (hl (k0, sp0) (by simp)) hl
    split
    · intro v hv; simp at hv
    · rename_i a r heq
      intro v hv
      rcases List.mem_cons.1 hv with rfl | hv'
      · omega
      · exact h v (by rw [heq]; simp [hv'])

theorem layoutEq_clamp (l : List (Kind × Nat)) : LayoutEq l (l.map fun p => (p.1, min p.2 1)) := by
  induction l with
  | nil => exact .nil
  | cons x r ih =>
    obtain ⟨k, a⟩ := x
    exact .cons (by omega) ih

/-- **After `TokenSpacing` no token is preceded by more than one space** (whatever the original
    spacing; token lists without inline line comments — the token after one starts a new line) -/
theorem spacing_at_most_one (l : List (Kind × Nat)) (hni : noInlineLine l) : ∀ v ∈ spacingResult l, v ≤ 1 := by
  rw [spacingResult_layout l _ (layoutEq_clamp l) hni]
  apply spacingResult_le_one_of_clamped
  intro p hp
  rw [List.mem_map] at hp
  obtain ⟨q, _, rfl⟩ := hp
  simp only; omega

/-- **No token starts a line with spaces, for every search of the line wrapper**: the exact model of the wrapper
    stage (`Model/WrapStage.lean`) ends by removing the spaces before every token that has a line break before it,
    after the last re-wrap (repair a94e22a moved the removal behind the re-wrap) - so a line's indentation is made of
    whole indentation units only (`indent_whole_units`), whatever solutions the search returned. -/
theorem no_spaces_at_line_start (solve : Nat → Nat → Option Sol) (cfg : Config) (lines : List Line)
    (ft ft' : FT) (h : wrapStage solve cfg lines ft = some ft') : ∀ t ∈ ft', t.fmt.nl > 0 → t.fmt.sp = 0 :=
  wrapStage_no_spaces_at_line_start solve cfg lines ft ft' h

/-- the same for the stage with the exact model of the search inside (the wrapper stage of the closed model
    `formatFull`, compared with the real stage on every case of the `wsearch` stream) -/
theorem no_spaces_at_line_start_full (cfg : Config) (lines : List Line) (ft ft' : FT) (sols : List (Nat × Nat × Sol))
    (h : wrapStageFull cfg lines ft = some (ft', sols)) : ∀ t ∈ ft', t.fmt.nl > 0 → t.fmt.sp = 0 :=
  wrapStageFull_no_spaces_at_line_start cfg lines ft ft' sols h

/-- `canonFmt` is the driver's `canonFmtB` -/
theorem canonFmt_eq (f : FmtData) : canonFmt f = canonFmtB f := rfl

/-- **Canonical counters after the wrapper stage with the search inside, whatever the search returns**: if before
    the stage every token that is not kept verbatim has at most one space before it and the tokens already final (the
    end-of-file token) have canonical counters, and every other such token lies in a line for which a first-phase
    solution was applied (`allWritten`), then after the stage every token that is not kept verbatim has canonical
    counters: at most two line breaks, no spaces at a line start, no indentation without a line break, at most one
    space otherwise.  With `gap_shape` and `indent_whole_units` this is the shape of every gap the reconstructor emits. -/
theorem canonical_counters_after_stage (cfg : Config) (lines : List Line) (W0 : Nat → Bool) (ft ftz : FT)
    (sols : List (Nat × Nat × Sol))
    (h : CanonOn (fun j => W0 j = true) ft)
    (h1 : wrapStageFull cfg lines ft = some (ftz, sols))
    (hall : allWritten lines W0 ft.length sols = true) :
    ∀ t ∈ ftz, t.fmt.ignored = false → canonFmt t.fmt = true :=
  wrapStageFull_canon cfg lines W0 ft ftz sols h h1 hall

/-- **C08 for the closed model of the whole formatter, decided per input.**  `canonPremisesB cfg alnum s`
    (Model/LayoutCheck.lean, executable) says: in the run on `s`, before the wrapper stage every token not kept
    verbatim has at most one space before it (a theorem when no line comment shares its line with code:
    `spacing_at_most_one`), and every such token is the end-of-file token written by the end-of-file rule or lies in a
    line for which the wrapper found a solution in its first phase.  Whenever it answers `true`, the output is the
    reconstruction of a state whose non-verbatim tokens all have canonical counters - hence (by `gap_shape`) between
    two tokens there is nothing, one space, or one or two line breaks followed by whole indentation units.  It fails
    exactly where the wrapper reports "no solution" for a line (known finding F34).  The driver tallies it on every
    case of the `full` stream (`info_c08`). -/
theorem C08_format_full_checked (cfg : Config) (alnum : Bytes → Bool) (s : Bytes)
    (h : canonPremisesB cfg alnum s = true) :
    ∃ ftz, formatFull cfg alnum s = some (reconstruct cfg.settings ftz) ∧
      ∀ t ∈ ftz, t.fmt.ignored = false → canonFmt t.fmt = true :=
  formatFull_canon_checked cfg alnum s h

/-! ## The clauses of the property on the bytes of the output

  Everything below is about the bytes of `reconstruct S ft`, for **every** token list `ft` that satisfies the
  decidable predicate `CanonState S ft` (`Proofs/ReconBytes.lean`).  `CanonState S ft` says:
  * `S` is of the kind `Config.settings` produces: `S.nlStr` is LF or CR LF, `S.indStr` and `S.contStr` consist of
    spaces and tabs (`settingsOk_config`: true of every `cfg.settings`);
  * no token of `ft` is kept verbatim (`ignored`), and every token has canonical counters (`canonFmt`);
  * the first token has no line break and no space before it;
  * no token text contains LF (no multi-line token); no text starts or ends with a blank, a blank being exactly the
    byte 0x20 or the byte 0x09 (the comment rule trims trailing ASCII whitespace; other blanks, finding F5, are
    not blanks here); only the last text (the end-of-file token) may be empty, and then it has no spaces and no
    indentation before it.
  The safety-net line break after a line comment is handled: clauses 1, 2, 3 and 5 hold with it, clause 4 asks that
  it does not fire (`noSafetyNetGo false ft`), because a line started by it begins with the token's own space.

  "The lines of the output" are defined declaratively: `IsLines nl out Ls` says `out = L₀ ++ nl ++ L₁ ++ … ++ nl ++ Lₙ`
  for the non-empty list `Ls = [L₀, …, Lₙ]` and no `Lᵢ` contains LF.  For `nl` = LF or CR LF there is at most one
  such list (`isLines_unique`), and `output_lines` says the output has one. -/

/-- a small state used in the examples: the texts `b`, `x`, `;`, `e` and the empty end-of-file text, rendered
    `b⏎␣␣x;⏎⏎e⏎` with two spaces per indentation level -/
def exTok (c : Bytes) (k : Kind) (nl ind cont sp : Nat) : FTok :=
  { tok := { ws := [], content := c, kind := k },
    fmt := { ignored := false, nl := nl, ind := ind, cont := cont, sp := sp } }

def exCfg : Config :=
  { wrapColumn := 120, beginAlwaysWrap := false, fmtMls := true, useTabs := false, tabWidth := 2, contIndents := 2,
    crlf := false }

def exFt : FT :=
  [exTok [0x62] .tIdentifier 0 0 0 0, exTok [0x78] .tIdentifier 1 1 0 0, exTok [0x3B] .tIdentifier 0 0 0 0,
   exTok [0x65] .tIdentifier 2 0 0 0, exTok [] .tEof 1 0 0 0]

example : CanonState exCfg.settings exFt := by decide
example : reconstruct exCfg.settings exFt = [0x62, 0x0A, 0x20, 0x20, 0x78, 0x3B, 0x0A, 0x0A, 0x65, 0x0A] := by decide
example : outLines exCfg.settings exFt = [[0x62], [0x20, 0x20, 0x78, 0x3B], [], [0x65], []] := by decide
/-- a space before the text of the end-of-file token is excluded (it would be a trailing blank) -/
example : ¬ CanonState exCfg.settings [exTok [0x62] .tIdentifier 0 0 0 0, exTok [] .tEof 0 0 0 1] := by decide
/-- a text ending in a tab is excluded -/
example : ¬ CanonState exCfg.settings [exTok [0x62, 0x09] .tIdentifier 0 0 0 0, exTok [] .tEof 1 0 0 0] := by decide

/-- the same texts with tabs and CR LF: `b␍⏎⇥x;␍⏎␍⏎e␍⏎` -/
def exCfgTabs : Config := { exCfg with useTabs := true, crlf := true }
example : CanonState exCfgTabs.settings exFt := by decide
example : outLines exCfgTabs.settings exFt = [[0x62], [0x09, 0x78, 0x3B], [], [0x65], []] := by decide
example : reconstruct exCfgTabs.settings exFt =
    [0x62, 0x0D, 0x0A, 0x09, 0x78, 0x3B, 0x0D, 0x0A, 0x0D, 0x0A, 0x65, 0x0D, 0x0A] := by decide

/-- a state in which the safety net fires: the line comment `//` followed by `x` with one space and no line break is
    rendered `//⏎␣x⏎`; `CanonState` holds (clauses 1, 2, 3, 5 apply), `noSafetyNetGo` does not (clause 4 does not) -/
def exFtNet : FT :=
  [exTok [0x2F, 0x2F] (.tComment .cIndividualLine) 0 0 0 0, exTok [0x78] .tIdentifier 0 0 0 1, exTok [] .tEof 1 0 0 0]
example : CanonState exCfg.settings exFtNet := by decide
example : noSafetyNetGo false exFtNet = false := by decide
example : outLines exCfg.settings exFtNet = [[0x2F, 0x2F], [0x20, 0x78], []] := by decide

/-- **The output has lines, and only one list of lines.**  For every state satisfying `CanonState` (no token kept
    verbatim, no multi-line token, …) the output is `L₀ ++ nl ++ L₁ ++ … ++ nl ++ Lₙ` with `[L₀, …, Lₙ] = outLines S ft`
    (computed from the tokens), no `Lᵢ` contains LF, and every other list with these two properties is the same
    list.  The clauses below quantify over "every `Ls` with `IsLines …`": that is this list. -/
theorem output_lines (S : Settings) (ft : FT) (h : CanonState S ft) :
    IsLines S.nlStr (reconstruct S ft) (outLines S ft) ∧
    ∀ Ls, IsLines S.nlStr (reconstruct S ft) Ls → Ls = outLines S ft :=
  ⟨reconstruct_lines S ft h, fun Ls hL => lines_eq_outLines S ft h Ls hL⟩

/-- **Clause 1: no output line ends in a blank.**  No line of the output ends in a space (0x20) or a tab (0x09).
    The hypotheses exclude tokens kept verbatim, multi-line tokens, and token texts that themselves end in a space or
    a tab (the comment rule trims these; a comment ending in an exotic blank, finding F5, is not a counterexample
    because only 0x20 and 0x09 count as blanks here) and spaces or indentation before an empty text.  Of the
    counters nothing is used: the clause holds whatever `nl`, `ind`, `cont`, `sp` are, and with the safety-net
    line break. -/
theorem no_trailing_blank (S : Settings) (ft : FT) (h : CanonState S ft) (Ls : List Bytes)
    (hL : IsLines S.nlStr (reconstruct S ft) Ls) : ∀ L ∈ Ls, endsBlank L = false :=
  recon_no_trailing_blank S ft h Ls hL

example : ∀ L ∈ outLines exCfg.settings exFt, endsBlank L = false :=
  no_trailing_blank _ _ (by decide) _ (output_lines _ _ (by decide)).1

/-- **Clause 2: tokens on one line are separated by at most one space and never by a tab.**  For any two
    neighbouring tokens `t`, `u` of the state, the output is `A ++ text t ++ G ++ text u ++ rest`, where `A ++ text t`
    is the output for the tokens up to `t`, and the bytes `G` between the two texts are: nothing, or exactly one
    space (0x20), or they start with a line terminator (`u` starts a new line).  The hypotheses exclude a `u` kept
    verbatim or with non-canonical counters (more than one space without a line break); `gap_between` is the same
    statement for an arbitrary token list in which only `u` is asked to be such. -/
theorem at_most_one_space (S : Settings) (ft : FT) (h : CanonState S ft) (pre post : FT) (t u : FTok)
    (hft : ft = pre ++ t :: u :: post) :
    ∃ A G, reconstruct S (pre ++ [t]) = A ++ t.tok.content ∧
      reconstruct S ft =
        A ++ t.tok.content ++ G ++ u.tok.content ++ reconGo S (isSingleLineComment u.tok.kind) post ∧
      (G = [] ∨ G = [0x20] ∨ ∃ W, G = S.nlStr ++ W) :=
  recon_at_most_one_space S ft h pre post t u hft

/-- between `x` and `;` there is nothing, before `x` the gap starts with the terminator -/
example : ∃ A G, reconstruct exCfg.settings exFt =
      A ++ [0x78] ++ G ++ [0x3B] ++ reconGo exCfg.settings false [exTok [0x65] .tIdentifier 2 0 0 0, exTok [] .tEof 1 0 0 0] ∧
      (G = [] ∨ G = [0x20] ∨ ∃ W, G = exCfg.settings.nlStr ++ W) := by
  obtain ⟨A, G, _, h2, h3⟩ := at_most_one_space exCfg.settings exFt (by decide)
    [exTok [0x62] .tIdentifier 0 0 0 0] [exTok [0x65] .tIdentifier 2 0 0 0, exTok [] .tEof 1 0 0 0]
    (exTok [0x78] .tIdentifier 1 1 0 0) (exTok [0x3B] .tIdentifier 0 0 0 0) rfl
  exact ⟨A, G, h2, h3⟩

/-- **Clause 3: never two consecutive blank lines, no blank line at the start.**  The output does not contain three
    consecutive line terminators (two consecutive blank lines are exactly that), and it does not start with a line
    terminator.  The hypotheses exclude tokens kept verbatim, multi-line tokens, more than two line breaks before a
    token (`canonFmt`), a line break before the first token, and empty texts other than the last (an empty text
    between two line breaks would join two blank lines). -/
theorem no_double_blank_line (S : Settings) (ft : FT) (h : CanonState S ft) :
    ¬ (S.nlStr ++ S.nlStr ++ S.nlStr) <:+: reconstruct S ft ∧ ¬ S.nlStr <+: reconstruct S ft :=
  recon_no_double_blank_line S ft h

example : ¬ ([0x0A, 0x0A, 0x0A] : Bytes) <:+: [0x62, 0x0A, 0x20, 0x20, 0x78, 0x3B, 0x0A, 0x0A, 0x65, 0x0A] := by
  have h := (no_double_blank_line exCfg.settings exFt (by decide)).1
  have e : reconstruct exCfg.settings exFt = [0x62, 0x0A, 0x20, 0x20, 0x78, 0x3B, 0x0A, 0x0A, 0x65, 0x0A] := by decide
  rw [e] at h; exact h

/-- **Clause 4: every line's indentation is a whole number of indentation units.**  Every line of the output is
    empty, or it is `k` indentation units - `k` tabs under `use_tabs`, otherwise `k * tab_width` spaces - followed by
    a byte that is neither a space nor a tab.  Besides `CanonState` the hypotheses exclude the saturation
    `continuation_indents * tab_width > 255` (finding F6) and states in which the safety-net line break after a line
    comment fires (the line it starts begins with the token's own single space). -/
theorem line_indentation_whole_units (c : Config) (hsat : c.contIndents * c.tabWidth ≤ 255) (ft : FT)
    (h : CanonState c.settings ft) (hsn : noSafetyNetGo false ft = true) (Ls : List Bytes)
    (hL : IsLines c.settings.nlStr (reconstruct c.settings ft) Ls) : ∀ L ∈ Ls, LineIndentOk c L :=
  recon_line_indentation c hsat ft h hsn Ls hL

example : ∀ L ∈ outLines exCfg.settings exFt, LineIndentOk exCfg L :=
  line_indentation_whole_units exCfg (by decide) exFt (by decide) (by decide) _ (output_lines _ _ (by decide)).1

/-- the line `␣␣x;` of the example is one unit of two spaces followed by `x` -/
example : LineIndentOk exCfg [0x20, 0x20, 0x78, 0x3B] := Or.inr ⟨1, 0x78, [0x3B], by decide, by decide⟩

/-- **Clause 5: the output ends with exactly one line terminator.**  If the last token has an empty text (the
    end-of-file token) and exactly one line break before it (what the end-of-file rule writes, `eof_one_newline`),
    the output is `X ++ nl` and `X` does not end with a terminator.  The hypotheses exclude a token before it whose
    text ends in a line break (no text contains LF) or is empty, and spaces or indentation before the last text. -/
theorem ends_with_one_terminator (S : Settings) (ft : FT) (h : CanonState S ft) (pre : FT) (e : FTok)
    (hft : ft = pre ++ [e]) (hc : e.tok.content = []) (hnl : e.fmt.nl = 1) :
    ∃ X, reconstruct S ft = X ++ S.nlStr ∧ ¬ S.nlStr <:+ X :=
  recon_ends_with_one_terminator S ft h pre e hft hc hnl

example : ∃ X, reconstruct exCfg.settings exFt = X ++ [0x0A] ∧ ¬ ([0x0A] : Bytes) <:+ X :=
  ends_with_one_terminator exCfg.settings exFt (by decide) (exFt.take 4) (exTok [] .tEof 1 0 0 0) (by decide) rfl rfl

/-- **Outside verbatim regions.**  The same clauses for a run `seg` of tokens standing anywhere in a token list
    `pre ++ seg ++ post` (for instance between two regions kept verbatim; `pre` and `post` are arbitrary): the bytes
    emitted for the run are a contiguous piece of the output; no line of this piece ends in a space or a tab; the piece
    does not contain three consecutive terminators; and (no saturation, no safety net inside the run) every line of the
    piece but its first - which continues the line open where the run starts - is empty or whole indentation units
    followed by a non-blank byte.  `SegState` is `CanonState` without the condition on the first token. -/
theorem segment_clauses (c : Config) (pre seg post : FT) (h : SegState c.settings seg) :
    ∃ piece, reconstruct c.settings (pre ++ seg ++ post) =
        reconGo c.settings false pre ++ piece ++ reconGo c.settings (mbAfter (mbAfter false pre) seg) post ∧
      piece = reconGo c.settings (mbAfter false pre) seg ∧
      ¬ (c.settings.nlStr ++ c.settings.nlStr ++ c.settings.nlStr) <:+: piece ∧
      ∃ Ls, IsLines c.settings.nlStr piece Ls ∧ (∀ L ∈ Ls, endsBlank L = false) ∧
        (c.contIndents * c.tabWidth ≤ 255 → noSafetyNetGo (mbAfter false pre) seg = true →
          ∀ L ∈ Ls.tail, LineIndentOk c L) :=
  ⟨_, reconstruct_segment c.settings pre seg post, rfl, seg_no_double_blank_line _ _ seg h,
    _, seg_lines _ _ seg h, seg_no_trailing_blank _ _ seg h _ (seg_lines _ _ seg h),
    fun hsat hsn => seg_line_indentation c hsat _ seg h hsn _ (seg_lines _ _ seg h)⟩

/-- a run `x ;` after a token kept verbatim (whose original whitespace `⏎␣` is emitted as it was): the piece
    emitted for the run is `⏎␣␣x;`, its lines are the empty rest of the open line and `␣␣x;` -/
example : ∃ Ls, IsLines exCfg.settings.nlStr
      (reconGo exCfg.settings false [exTok [0x78] .tIdentifier 1 1 0 0, exTok [0x3B] .tIdentifier 0 0 0 0]) Ls ∧
      (∀ L ∈ Ls, endsBlank L = false) ∧ ∀ L ∈ Ls.tail, LineIndentOk exCfg L := by
  obtain ⟨_, _, rfl, _, Ls, h1, h2, h3⟩ := segment_clauses exCfg
    [{ tok := { ws := [0x0A, 0x20], content := [0x7B, 0x7D], kind := .tComment .cInlineBlock },
       fmt := { ignored := true, nl := 1, ind := 0, cont := 0, sp := 1 } }]
    [exTok [0x78] .tIdentifier 1 1 0 0, exTok [0x3B] .tIdentifier 0 0 0 0] [exTok [] .tEof 1 0 0 0] (by decide)
  exact ⟨Ls, h1, h2, h3 (by decide) (by decide)⟩

/-! ### composition with the closed model -/

/-- all byte-level clauses for one state -/
structure BytesCanonical (c : Config) (ft : FT) : Prop where
  /-- the output is made of the lines `outLines` -/
  lines : IsLines c.settings.nlStr (reconstruct c.settings ft) (outLines c.settings ft)
  /-- clause 1 -/
  noTrailingBlank : ∀ L ∈ outLines c.settings ft, endsBlank L = false
  /-- clause 2 -/
  atMostOneSpace : ∀ (pre post : FT) (t u : FTok), ft = pre ++ t :: u :: post →
    ∃ A G, reconstruct c.settings (pre ++ [t]) = A ++ t.tok.content ∧
      reconstruct c.settings ft =
        A ++ t.tok.content ++ G ++ u.tok.content ++ reconGo c.settings (isSingleLineComment u.tok.kind) post ∧
      (G = [] ∨ G = [0x20] ∨ ∃ W, G = c.settings.nlStr ++ W)
  /-- clause 3 -/
  noDoubleBlankLine :
    ¬ (c.settings.nlStr ++ c.settings.nlStr ++ c.settings.nlStr) <:+: reconstruct c.settings ft ∧
    ¬ c.settings.nlStr <+: reconstruct c.settings ft
  /-- clause 4 -/
  indentation : c.contIndents * c.tabWidth ≤ 255 → noSafetyNetGo false ft = true →
    ∀ L ∈ outLines c.settings ft, LineIndentOk c L
  /-- clause 5 -/
  oneTerminator : ∀ (pre : FT) (e : FTok), ft = pre ++ [e] → e.tok.content = [] → e.fmt.nl = 1 →
    ∃ X, reconstruct c.settings ft = X ++ c.settings.nlStr ∧ ¬ c.settings.nlStr <:+ X

/-- all clauses at once, for every state satisfying `CanonState` -/
theorem bytes_canonical (c : Config) (ft : FT) (h : CanonState c.settings ft) : BytesCanonical c ft :=
  { lines := (output_lines _ ft h).1
    noTrailingBlank := no_trailing_blank _ ft h _ (output_lines _ ft h).1
    atMostOneSpace := fun pre post t u hft => at_most_one_space _ ft h pre post t u hft
    noDoubleBlankLine := no_double_blank_line _ ft h
    indentation := fun hsat hsn => line_indentation_whole_units c hsat ft h hsn _ (output_lines _ ft h).1
    oneTerminator := fun pre e hft hc hnl => ends_with_one_terminator _ ft h pre e hft hc hnl }

example : BytesCanonical exCfg exFt := bytes_canonical _ _ (by decide)
example : BytesCanonical exCfgTabs exFt := bytes_canonical _ _ (by decide)

theorem formatFull_eq_finalState (cfg : Config) (alnum : Bytes → Bool) (s : Bytes) :
    formatFull cfg alnum s = (finalStateFull cfg alnum s).map (reconstruct cfg.settings) := by
  unfold formatFull finalStateFull
  cases lex s with
  | none => rfl
  | some raw =>
    simp only
    unfold formatTokensFull
    cases parseAndConsolidate raw with
    | none => rfl
    | some po =>
      simp only
      have e : preWrap { parser := fun _ => po, wrap := fun _ _ ft => ft, alnum := alnum } raw
          = preWrap (preO alnum po) raw := rfl
      rw [e]
      cases wrapStageFull cfg (preWrap (preO alnum po) raw).2.1 (preWrap (preO alnum po) raw).2.2 with
      | none => rfl
      | some r => rfl

/-- **C08 on the bytes, for the closed model of the whole formatter, decided per input.**  When `canonPremisesB`
    answers `true` on the input (see `C08_format_full_checked`: it fails exactly where the wrapper reports "no
    solution", finding F34), the model has a final token state `ftz` (`finalStateFull`, executable), the output is
    its reconstruction, every token of `ftz` not kept verbatim has canonical counters, and if moreover the decidable
    content check `contentStateB ftz` answers `true` - no token kept verbatim, no multi-line token, no text starting
    or ending in a space or a tab, only the last text empty, nothing before the first token - then all byte-level
    clauses hold for the output (`BytesCanonical`): no line ends in a blank, at most one space between two tokens of
    a line, no two consecutive blank lines and none at the start, whole indentation units (no saturation, no safety
    net), exactly one terminator at the end.  Inputs with verbatim regions or multi-line tokens are not covered by
    this statement; for them `segment_clauses` speaks about every run of tokens outside those. -/
theorem C08_bytes_full_checked (cfg : Config) (alnum : Bytes → Bool) (s : Bytes)
    (h : canonPremisesB cfg alnum s = true) :
    ∃ ftz, finalStateFull cfg alnum s = some ftz ∧
      formatFull cfg alnum s = some (reconstruct cfg.settings ftz) ∧
      (∀ t ∈ ftz, t.fmt.ignored = false → canonFmt t.fmt = true) ∧
      (contentStateB ftz = true → CanonState cfg.settings ftz ∧ BytesCanonical cfg ftz) := by
  unfold canonPremisesB at h
  split at h
  · cases h
  · rename_i raw hl
    split at h
    · cases h
    · rename_i po hpo
      simp only [Bool.and_eq_true] at h
      obtain ⟨hpre, hw⟩ := h
      split at hw
      · cases hw
      · rename_i ftz sols hstage
        have hcanon := wrapStageFull_canon cfg _ _ _ ftz sols (preStageOkB_sound _ _ hpre) hstage hw
        have hfin : finalStateFull cfg alnum s = some ftz := by
          unfold finalStateFull
          rw [hl]; simp only; rw [hpo]; simp only; rw [hstage]
        refine ⟨ftz, hfin, by rw [formatFull_eq_finalState, hfin]; rfl, hcanon, fun hc => ?_⟩
        have hcs := canonState_of_content cfg ftz hcanon hc
        exact ⟨hcs, bytes_canonical cfg ftz hcs⟩

/-- **before the wrapper stage at most one space stands before every token that is not free, for every input**:
    in the state `preWrap` hands to the wrapper stage, a token has at most one space before it or its position is free
    (`freeAtB`: it follows a line comment sharing its line with code, and its own spacing rule keeps the input's
    spaces).  `TokenSpacing` writes 0 or 1 everywhere else; the later rules keep the spaces or write 0. -/
theorem C08_pre_stage_spaces (O : Oracles) (raw : List RawTok) (j : Nat) (t : FTok)
    (ht : (preWrap O raw).2.2[j]? = some t) :
    t.fmt.sp ≤ 1 ∨ freeAtB (preWrap O raw).2.2 j = true :=
  CanonPremise.preWrap_sp O raw j t ht

/-- the reduced premises (`canonPremisesB'`: "at most one space before" asked at the free positions only) imply the
    premises of `C08_format_full_checked` -/
theorem C08_premises_reduced (cfg : Config) (alnum : Bytes → Bool) (s : Bytes)
    (h : canonPremisesB' cfg alnum s = true) : canonPremisesB cfg alnum s = true :=
  CanonPremise.canonPremisesB_of_prime cfg alnum s h

/-- **C08 for the closed model of the whole formatter, with the premise "at most one space before" proved** except at
    the free positions: `C08_format_full_checked` from `canonPremisesB'` (Model/LayoutCheck.lean, executable) -/
theorem C08_format_full_checked2 (cfg : Config) (alnum : Bytes → Bool) (s : Bytes)
    (h : canonPremisesB' cfg alnum s = true) :
    ∃ ftz, formatFull cfg alnum s = some (reconstruct cfg.settings ftz) ∧
      ∀ t ∈ ftz, t.fmt.ignored = false → canonFmt t.fmt = true :=
  C08_format_full_checked cfg alnum s (C08_premises_reduced cfg alnum s h)

end Pasfmt.C08
