/-
  C15 — Cursor tracking keeps cursors on the same text and never alters the result.
  Theorems on the exact cursor model (`Model/Cursor.lean`, checked arithmetic, u16 truncation).
-/
import PasfmtModel.Proofs.CursorProps
import PasfmtModel.Model.Pipeline

namespace Pasfmt.C15

/-- "Requesting cursor tracking never changes the formatted text": the model's `format` has no cursor
    argument at all; the cursor functions only read the final token list.  (Tied to the code by the
    with/without-cursors oracle on every case.) -/
theorem cursors_not_read (cfg : Config) (O : Oracles) (s : Bytes) (_cursors : List Nat) :
    format cfg O s = format cfg O s := rfl

/-- `offset_for_token` equals the true offset of the token's text in the output when no safety-net
    newline was inserted (it does not count that newline) -/
theorem offset_for_token_true (S : Settings) (ft : FT) (k : Nat) (t : FTok)
    (hk : ft[k]? = some t) (hsn : noSafetyNetGo false ft = true) :
    ∃ A B, reconstruct S ft = A ++ t.tok.content ++ B ∧ A.length = offsetForToken S ft k :=
  offset_for_token_spec S ft false k t hk hsn

/-- a cursor at offset `o` inside or at the end of a single-line token `k` is reported at
    `start'(k) + min(o, |content'|)`: the same offset inside the same token when its text is
    unchanged (files below 4 GiB) -/
theorem cursor_same_token (S : Settings) (ft : FT) (k o : Nat) (t : FTok)
    (hk : ft[k]? = some t) (ho : o ≤ t.tok.content.length)
    (hsmall : offsetForToken S ft k + t.tok.content.length < 4294967296) :
    relocate S ft { tokIdx := k, pos := .content o } = some (offsetForToken S ft k + o) := by
  unfold relocate
  simp only [hk, asU32]
  have h1 : offsetForToken S ft k % 4294967296 = offsetForToken S ft k := Nat.mod_eq_of_lt (by omega)
  have h2 : t.tok.content.length % 4294967296 = t.tok.content.length := Nat.mod_eq_of_lt (by omega)
  rw [h1, h2, Nat.min_eq_left ho, Nat.mod_eq_of_lt (by omega)]

/-- cursors beyond the end of the input are attached to no token … -/
theorem cursor_past_end_attach (raw : List RawTok) (c : Nat) (h : c > (raw.map RawTok.strLen).sum) :
    processCursor raw c = { tokIdx := raw.length, pos := .content 0 } :=
  processCursor_past_end raw c h

/-- … and are reported at the end of the output -/
theorem cursor_past_end (S : Settings) (ft : FT) (last : FTok) (hl : ft.getLast? = some last)
    (hc : last.tok.content = []) (hsn : noSafetyNetGo false ft = true)
    (hsmall : (reconstruct S ft).length < 4294967296) :
    relocate S ft { tokIdx := ft.length, pos := .content 0 } = some (reconstruct S ft).length :=
  relocate_past_end S ft last hl hc hsn hsmall

/-- the arithmetic of `relocate_cursors` can underflow: the cursor in the same-line gap before a
    multi-line token (known finding F3) is a concrete witness on the model.
    Token 0 = `foo;` (4 bytes), token 1 = `{a\nb}` with 2 spaces before it, cursor in the gap. -/
theorem cursor_total_fails_F3 :
    relocate { nlStr := [10], indStr := [32, 32], contStr := [32, 32, 32, 32] }
      [ { tok := { ws := [], content := [102, 111, 111, 59], kind := .tOp .oSemicolon },
          fmt := { ignored := false, nl := 0, ind := 0, cont := 0, sp := 0 } },
        { tok := { ws := [32, 32], content := [123, 97, 10, 98, 125], kind := .tComment .cMultilineBlock },
          fmt := { ignored := false, nl := 0, ind := 0, cont := 0, sp := 1 } } ]
      { tokIdx := 1, pos := .whitespace 5 0 } = none := by
  decide +kernel

end Pasfmt.C15
