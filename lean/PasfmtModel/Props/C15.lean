/-
  C15 — Cursor tracking keeps cursors on the same text and never alters the result.
  Theorems on the exact cursor model (`Model/Cursor.lean`, checked arithmetic, u16 truncation).
-/
import PasfmtModel.Proofs.CursorProps
import PasfmtModel.Proofs.CursorProps2
import PasfmtModel.Proofs.CursorBoundary
import PasfmtModel.Model.Pipeline
import PasfmtModel.Proofs.Utf8Pipeline

namespace Pasfmt.C15

/-- "Requesting cursor tracking never changes the formatted text": the model's `format` has no cursor
    argument at all; the cursor functions only read the final token list.  (Tied to the code by the
    with/without-cursors oracle on every case.) -/
theorem cursors_not_read (cfg : Config) (O : Oracles) (s : Bytes) (_cursors : List Nat) :
    format cfg O s = format cfg O s := rfl

/-- `offset_for_token` equals the true offset of the token's text in the output when no safety-net
    newline was inserted (it does not count that newline) -/
theorem offset_for_token_true (S : Settings) (ft : FT) (k : Nat) (t : FTok)
    (hk : ft[k]? = some t) (hsn : noSafetyNetGo false ft = true) :
    ∃ A B, reconstruct S ft = A ++ t.tok.content ++ B ∧ A.length = offsetForToken S ft k :=
  offset_for_token_spec S ft false k t hk hsn

/-- a cursor at offset `o` inside or at the end of a single-line token `k` is reported at
    `start'(k) + min(o, |content'|)`: the same offset inside the same token when its text is
    unchanged (files below 4 GiB) -/
theorem cursor_same_token (S : Settings) (ft : FT) (k o : Nat) (t : FTok)
    (hk : ft[k]? = some t) (ho : o ≤ t.tok.content.length)
    (hsmall : offsetForToken S ft k + t.tok.content.length < 4294967296) :
    relocate S ft { tokIdx := k, pos := .content o } = some (offsetForToken S ft k + o) := by
  unfold relocate
  simp only [hk, asU32]
  have h1 : offsetForToken S ft k % 4294967296 = offsetForToken S ft k := Nat.mod_eq_of_lt (by omega)
  have h2 : t.tok.content.length % 4294967296 = t.tok.content.length := Nat.mod_eq_of_lt (by omega)
  rw [h1, h2, Nat.min_eq_left ho, Nat.mod_eq_of_lt (by omega)]

/-- cursors beyond the end of the input are attached to no token … -/
theorem cursor_past_end_attach (raw : List RawTok) (c : Nat) (h : c > (raw.map RawTok.strLen).sum) :
    processCursor raw c = { tokIdx := raw.length, pos := .content 0 } :=
  processCursor_past_end raw c h

/-- … and are reported at the end of the output -/
theorem cursor_past_end (S : Settings) (ft : FT) (last : FTok) (hl : ft.getLast? = some last)
    (hc : last.tok.content = []) (hsn : noSafetyNetGo false ft = true)
    (hsmall : (reconstruct S ft).length < 4294967296) :
    relocate S ft { tokIdx := ft.length, pos := .content 0 } = some (reconstruct S ft).length :=
  relocate_past_end S ft last hl hc hsn hsmall

/-- the arithmetic of `relocate_cursors` can underflow: the cursor in the same-line gap before a
    multi-line token (known finding F3) is a concrete witness on the model.
    Token 0 = `foo;` (4 bytes), token 1 = `{a\nb}` with 2 spaces before it, cursor in the gap. -/
theorem cursor_total_fails_F3 :
    relocate { nlStr := [10], indStr := [32, 32], contStr := [32, 32, 32, 32] }
      [ { tok := { ws := [], content := [102, 111, 111, 59], kind := .tOp .oSemicolon },
          fmt := { ignored := false, nl := 0, ind := 0, cont := 0, sp := 0 } },
        { tok := { ws := [32, 32], content := [123, 97, 10, 98, 125], kind := .tComment .cMultilineBlock },
          fmt := { ignored := false, nl := 0, ind := 0, cont := 0, sp := 1 } } ]
      { tokIdx := 1, pos := .whitespace 5 0 } = none := by
  decide +kernel

/-! ## Second batch: the input side, in-bounds, multi-line tokens

  Sample used by the `example`s: input `foo ;⏎` (tokens `foo`, `;` with one leading space, end-of-file
  with a leading line break), output `foo;⏎`. -/

def exS : Settings := { nlStr := [10], indStr := [32, 32], contStr := [32, 32, 32, 32] }

def exRaw : List RawTok :=
  [ { ws := [], content := [102, 111, 111], kind := .rIdentifier },
    { ws := [32], content := [59], kind := .rOp .oSemicolon },
    { ws := [10], content := [], kind := .rEof } ]

def exFt : FT :=
  [ { tok := { ws := [], content := [102, 111, 111], kind := .tIdentifier },
      fmt := { ignored := false, nl := 0, ind := 0, cont := 0, sp := 0 } },
    { tok := { ws := [32], content := [59], kind := .tOp .oSemicolon },
      fmt := { ignored := false, nl := 0, ind := 0, cont := 0, sp := 0 } },
    { tok := { ws := [10], content := [], kind := .tEof },
      fmt := { ignored := false, nl := 1, ind := 0, cont := 0, sp := 0 } } ]

/-- Input side.  Let `t` be token `k` of the scanned input, not a multi-line comment or multi-line
    string, and let the cursor be `o` bytes into the text of `t` (`o = |text|` means just behind
    it), i.e. at absolute offset (length of tokens `0..k`) + (leading whitespace of `t`) + `o`.
    Then `process_cursors` attaches it to token `k` at content offset `o`.
    Excluded: `o ≥ 2^32` (the `as u32` cast), and the case `o = 0` with no whitespace in front of
    `t` and `k > 0`: that position is also the end of the previous token, and the code attaches the
    cursor to the first token whose range contains it (see `cursor_at_token_start_sticks`). -/
theorem processCursor_in_token (raw : List RawTok) (k : Nat) (t : RawTok) (o : Nat)
    (hk : raw[k]? = some t) (hm : isMultilineRawKind t.kind = false)
    (ho : o ≤ t.content.length) (h32 : o < 4294967296)
    (hfirst : 0 < o ∨ 0 < t.ws.length ∨ k = 0) :
    processCursor raw (((raw.take k).map RawTok.strLen).sum + t.ws.length + o)
      = { tokIdx := k, pos := .content o } :=
  Pasfmt.processCursor_in_token raw k t o hk hm ho h32 hfirst

/-- the cursor behind `;` in `foo ;⏎` (offset 5) is token 1, content offset 1 -/
example : processCursor exRaw 5 = { tokIdx := 1, pos := .content 1 } :=
  processCursor_in_token exRaw 1 { ws := [32], content := [59], kind := .rOp .oSemicolon } 1
    rfl rfl (by decide) (by decide) (by decide)

/-- What the code does in the case excluded above: a cursor exactly at the start of the text of
    token `k+1`, when that token has no leading whitespace, is attached to token `k` (single-line,
    and not an empty token unless `k = 0`) at the end of its text — the cursor "sticks" to the
    previous token.  Excluded: a previous token of 4 GiB or more. -/
theorem cursor_at_token_start_sticks (raw : List RawTok) (k : Nat) (t t' : RawTok)
    (hk : raw[k]? = some t) (hk' : raw[k + 1]? = some t') (hws : t'.ws = [])
    (hm : isMultilineRawKind t.kind = false) (h32 : t.content.length < 4294967296)
    (hfirst : 0 < t.strLen ∨ k = 0) :
    processCursor raw (((raw.take (k + 1)).map RawTok.strLen).sum + t'.ws.length + 0)
      = { tokIdx := k, pos := .content t.content.length } :=
  processCursor_at_token_start_sticks raw k t t' hk hk' hws hm h32 hfirst

/-- in `a;` the cursor between `a` and `;` belongs to `a` -/
example : processCursor [ { ws := [], content := [97], kind := .rIdentifier },
                          { ws := [], content := [59], kind := .rOp .oSemicolon } ] 1
    = { tokIdx := 0, pos := .content 1 } :=
  cursor_at_token_start_sticks _ 0 { ws := [], content := [97], kind := .rIdentifier }
    { ws := [], content := [59], kind := .rOp .oSemicolon } rfl rfl rfl rfl (by decide) (by decide)

/-- Third clause of C15, end to end, for single-line tokens.  A cursor `o` bytes into the text of
    input token `k` (same position conditions as `processCursor_in_token`), when token `k` of the
    final token list still has the same text, is reported at `offset_for_token(k) + o`.
    Excluded: multi-line comments/strings (see `cursor_in_unchanged_multiline_token`), the
    sticking case `o = 0`, and outputs in which token `k` ends at or beyond 4 GiB. -/
theorem cursor_in_unchanged_token (S : Settings) (raw : List RawTok) (ft : FT) (k o : Nat)
    (t : RawTok) (t' : FTok)
    (hk : raw[k]? = some t) (hk' : ft[k]? = some t') (hsame : t'.tok.content = t.content)
    (hm : isMultilineRawKind t.kind = false) (ho : o ≤ t.content.length)
    (hfirst : 0 < o ∨ 0 < t.ws.length ∨ k = 0)
    (hsmall : offsetForToken S ft k + t.content.length < 4294967296) :
    trackCursors S raw ft [((raw.take k).map RawTok.strLen).sum + t.ws.length + o]
      = [some (offsetForToken S ft k + o)] := by
  have hlen : t'.tok.content.length = t.content.length := by rw [hsame]
  unfold trackCursors
  simp only [List.map_cons, List.map_nil]
  rw [Pasfmt.processCursor_in_token raw k t o hk hm ho (by omega) hfirst,
      cursor_same_token S ft k o t' hk' (by omega) (by omega)]

/-- `foo ;⏎` → `foo;⏎`: the cursor behind `;` moves from 5 to 4 -/
example : trackCursors exS exRaw exFt [5] = [some 4] :=
  cursor_in_unchanged_token exS exRaw exFt 1 1 { ws := [32], content := [59], kind := .rOp .oSemicolon }
    { tok := { ws := [32], content := [59], kind := .tOp .oSemicolon },
      fmt := { ignored := false, nl := 0, ind := 0, cont := 0, sp := 0 } }
    rfl rfl rfl rfl (by decide) (by decide) (by decide)

/-- The same with the true position: when moreover no safety-net newline was inserted, the output
    is `A ++ text ++ B` with the text of token `k` starting at `|A|`, and the cursor is reported at
    `|A| + o`: the same offset inside the same token. -/
theorem cursor_in_unchanged_token_true (S : Settings) (raw : List RawTok) (ft : FT) (k o : Nat)
    (t : RawTok) (t' : FTok)
    (hk : raw[k]? = some t) (hk' : ft[k]? = some t') (hsame : t'.tok.content = t.content)
    (hm : isMultilineRawKind t.kind = false) (ho : o ≤ t.content.length)
    (hfirst : 0 < o ∨ 0 < t.ws.length ∨ k = 0)
    (hsn : noSafetyNetGo false ft = true)
    (hsmall : (reconstruct S ft).length < 4294967296) :
    ∃ A B, reconstruct S ft = A ++ t.content ++ B ∧
      trackCursors S raw ft [((raw.take k).map RawTok.strLen).sum + t.ws.length + o]
        = [some (A.length + o)] := by
  obtain ⟨A, B, hAB, hA⟩ := offset_for_token_true S ft k t' hk' hsn
  have hle := offset_add_content_le S ft false k t' hk' hsn
  refine ⟨A, B, by rw [hAB, hsame], ?_⟩
  rw [hA]
  exact cursor_in_unchanged_token S raw ft k o t t' hk hk' hsame hm ho hfirst
    (by unfold reconstruct at hsmall; rw [← hsame]; omega)

example : noSafetyNetGo false exFt = true ∧ (reconstruct exS exFt).length < 4294967296 := by decide

/-- Second clause of C15 ("every reported cursor lies within the output"), strongest version that
    holds on the model: for every internal cursor (all three position forms, any token index) and
    every final token list (with or without safety-net newlines), the reported offset is at most
    the length of the output.  No size bound is needed.  Excluded, because the statement is false
    there:
    * (`heof`) a token index beyond the list when the last token has non-empty text — cannot
      happen in the code, the last token is the empty end-of-file token
      (`cursor_in_bounds_fails_without_eof`);
    * (`hign`) a cursor in the leading whitespace of an *ignored* token whose newline counter
      times the length of the configured line ending exceeds the length of that whitespace, e.g. a
      `{pasfmt off}` region with bare `\n` line breaks formatted with `line_ending = crlf`
      (`cursor_in_bounds_fails_ignored_crlf`, reproduced on the real binary).
    Only the case `relocate = some r` is covered: `none` means an unsigned subtraction underflows
    (`cursor_total_fails_F3`). -/
theorem cursor_in_bounds_partial (S : Settings) (ft : FT) (ic : ICursor) (r : Nat)
    (heof : ic.tokIdx < ft.length ∨ ∀ last, ft.getLast? = some last → last.tok.content = [])
    (hign : ∀ t c n, ft[ic.tokIdx]? = some t → ic.pos = .whitespace c n → t.fmt.ignored = true →
      S.nlStr.length * t.fmt.nl ≤ t.tok.ws.length)
    (h : relocate S ft ic = some r) :
    r ≤ (reconstruct S ft).length :=
  relocate_in_bounds S ft ic r heof hign h

/-- Corollary without a condition on the cursor: with the one-byte line ending (`\n`), a token
    list ending in a token with empty text, and ignored tokens carrying the newline counter computed
    from their whitespace (`FormattingData::from`, never changed for ignored tokens), *every*
    reported cursor is within the output. -/
theorem cursor_in_bounds_lf (S : Settings) (ft : FT) (ic : ICursor) (r : Nat)
    (hS : S.nlStr.length = 1)
    (heof : ∀ last, ft.getLast? = some last → last.tok.content = [])
    (hfmt : ∀ t ∈ ft, t.fmt.ignored = true → t.fmt.nl = u16sat (countByte 0x0A t.tok.ws))
    (h : relocate S ft ic = some r) :
    r ≤ (reconstruct S ft).length := by
  refine relocate_in_bounds S ft ic r (Or.inr heof) ?_ h
  intro t c n hk _ hi
  exact ignoredNlFits_ofWs_lf S t hS (hfmt t (List.mem_of_getElem? hk) hi) hi

example : exS.nlStr.length = 1 ∧
    (∀ last, exFt.getLast? = some last → last.tok.content = []) ∧
    (∀ t ∈ exFt, t.fmt.ignored = true → t.fmt.nl = u16sat (countByte 0x0A t.tok.ws)) := by
  refine ⟨rfl, ?_, by decide⟩
  intro last h; simp [exFt] at h; subst h; rfl

/-- `cursor_in_bounds_partial` is false without `hign`: input `{}` followed by three bare `\n`,
    everything ignored, `line_ending = crlf`.  The output is the input, 5 bytes long; the cursor at
    input offset 4 (behind the second `\n`) is reported at 6.  (`pasfmt -C line_ending=crlf
    --cursor 14` on `{pasfmt off}\n\n\n` prints `CURSOR=16` for a 15-byte output.) -/
theorem cursor_in_bounds_fails_ignored_crlf :
    let S : Settings := { nlStr := [13, 10], indStr := [32, 32], contStr := [32, 32, 32, 32] }
    let raw : List RawTok :=
      [ { ws := [], content := [123, 125], kind := .rComment .cInlineBlock },
        { ws := [10, 10, 10], content := [], kind := .rEof } ]
    let ft : FT :=
      [ { tok := { ws := [], content := [123, 125], kind := .tComment .cInlineBlock },
          fmt := FmtData.ofWs [] true },
        { tok := { ws := [10, 10, 10], content := [], kind := .tEof },
          fmt := FmtData.ofWs [10, 10, 10] true } ]
    noSafetyNetGo false ft = true ∧ (reconstruct S ft).length = 5 ∧
      trackCursors S raw ft [4] = [some 6] := by
  decide +kernel

/-- `cursor_in_bounds_partial` is false without `heof`: a token index beyond a list whose last
    token has text is reported at (length of the output) + (length of that text).  Not reachable
    from the code, where the last token is the empty end-of-file token. -/
theorem cursor_in_bounds_fails_without_eof :
    let S : Settings := { nlStr := [10], indStr := [32, 32], contStr := [32, 32, 32, 32] }
    let ft : FT :=
      [ { tok := { ws := [], content := [97, 98], kind := .tIdentifier },
          fmt := { ignored := false, nl := 0, ind := 0, cont := 0, sp := 0 } } ]
    noSafetyNetGo false ft = true ∧ (reconstruct S ft).length = 2 ∧
      relocate S ft { tokIdx := 1, pos := .content 0 } = some 4 := by
  decide +kernel

/-- A cursor that was in the whitespace in front of token `idx` is reported inside the new gap in
    front of token `idx`: not behind the start of the token's text, and at most the length of the
    gap before it.  Excluded: ignored tokens violating the `hign` condition above, and outputs in
    which the token starts at or beyond 4 GiB. -/
theorem cursor_whitespace_in_gap (S : Settings) (ft : FT) (idx c n : Nat) (t : FTok) (r : Nat)
    (hk : ft[idx]? = some t)
    (hfit : t.fmt.ignored = true → S.nlStr.length * t.fmt.nl ≤ t.tok.ws.length)
    (hsmall : offsetForToken S ft idx < 4294967296)
    (h : relocate S ft { tokIdx := idx, pos := .whitespace c n } = some r) :
    r ≤ offsetForToken S ft idx ∧ offsetForToken S ft idx ≤ r + wsLen S t :=
  relocate_whitespace_in_gap S ft idx c n t r hk hfit hsmall h

/-- the cursor in the space of `foo ;⏎` (internal form: column 3, no break behind it) is reported
    at 3 in `foo;⏎`, where the gap in front of `;` is empty -/
example : relocate exS exFt { tokIdx := 1, pos := .whitespace 3 0 } = some 3 := by decide +kernel

/-- Third clause of C15 for multi-line comments and multi-line strings.  A cursor `o` bytes into
    the text of the multi-line input token `k`, when token `k` of the final token list still has
    the same text, is reported at `offset_for_token(k) + o`.
    Excluded: the rest of the cursor's line inside the token is 65536 bytes or longer, or 65536 or
    more line breaks of the token follow the cursor (both are cast to `u16`); the sticking case
    `o = 0` without leading whitespace and `k > 0`; outputs in which the token ends at or beyond
    4 GiB. -/
theorem cursor_in_unchanged_multiline_token (S : Settings) (raw : List RawTok) (ft : FT) (k o : Nat)
    (t : RawTok) (t' : FTok)
    (hk : raw[k]? = some t) (hk' : ft[k]? = some t') (hsame : t'.tok.content = t.content)
    (hm : isMultilineRawKind t.kind = true) (ho : o ≤ t.content.length)
    (hfirst : 0 < o ∨ 0 < t.ws.length ∨ k = 0)
    (hcol : firstLen (t.content.drop o) < 65536) (hnl : countByte 0x0A (t.content.drop o) < 65536)
    (hsmall : offsetForToken S ft k + t.content.length < 4294967296) :
    trackCursors S raw ft [((raw.take k).map RawTok.strLen).sum + t.ws.length + o]
      = [some (offsetForToken S ft k + o)] := by
  have hlen : t'.tok.content.length = t.content.length := by rw [hsame]
  unfold trackCursors
  simp only [List.map_cons, List.map_nil]
  rw [processCursor_in_multiline_token raw k t o hk hm ho hfirst hcol hnl, ← hsame,
      relocate_multiline_same S ft k o t' hk' (by omega) (by omega)]

/-- sufficient for `hcol` and `hnl`: the token is shorter than 65536 bytes -/
theorem multiline_small (c : Bytes) (o : Nat) (h : c.length < 65536) :
    firstLen (c.drop o) < 65536 ∧ countByte 0x0A (c.drop o) < 65536 := by
  have h1 : firstLen (c.drop o) ≤ (c.drop o).length := by
    have := lastPiecesLen_drop c o; omega
  have h2 := countByte_le_length 0x0A (c.drop o)
  have h3 : (c.drop o).length ≤ c.length := by simp
  omega

/-- The same with the true position (no safety-net newline inserted): the output is
    `A ++ text ++ B` and the cursor is reported at `|A| + o`. -/
theorem cursor_in_unchanged_multiline_token_true (S : Settings) (raw : List RawTok) (ft : FT)
    (k o : Nat) (t : RawTok) (t' : FTok)
    (hk : raw[k]? = some t) (hk' : ft[k]? = some t') (hsame : t'.tok.content = t.content)
    (hm : isMultilineRawKind t.kind = true) (ho : o ≤ t.content.length)
    (hfirst : 0 < o ∨ 0 < t.ws.length ∨ k = 0)
    (hcol : firstLen (t.content.drop o) < 65536) (hnl : countByte 0x0A (t.content.drop o) < 65536)
    (hsn : noSafetyNetGo false ft = true)
    (hsmall : (reconstruct S ft).length < 4294967296) :
    ∃ A B, reconstruct S ft = A ++ t.content ++ B ∧
      trackCursors S raw ft [((raw.take k).map RawTok.strLen).sum + t.ws.length + o]
        = [some (A.length + o)] := by
  obtain ⟨A, B, hAB, hA⟩ := offset_for_token_true S ft k t' hk' hsn
  have hle := offset_add_content_le S ft false k t' hk' hsn
  refine ⟨A, B, by rw [hAB, hsame], ?_⟩
  rw [hA]
  exact cursor_in_unchanged_multiline_token S raw ft k o t t' hk hk' hsame hm ho hfirst hcol hnl
    (by unfold reconstruct at hsmall; rw [← hsame]; omega)

/-- `x {a⏎b}⏎` → `x {a⏎b}⏎`: the cursor behind `a` (offset 4 = 1 + 1 + 2) stays at 4 -/
example :
    trackCursors exS
      [ { ws := [], content := [120], kind := .rIdentifier },
        { ws := [32], content := [123, 97, 10, 98, 125], kind := .rComment .cMultilineBlock },
        { ws := [10], content := [], kind := .rEof } ]
      [ { tok := { ws := [], content := [120], kind := .tIdentifier },
          fmt := { ignored := false, nl := 0, ind := 0, cont := 0, sp := 0 } },
        { tok := { ws := [32], content := [123, 97, 10, 98, 125], kind := .tComment .cMultilineBlock },
          fmt := { ignored := false, nl := 0, ind := 0, cont := 0, sp := 1 } },
        { tok := { ws := [10], content := [], kind := .tEof },
          fmt := { ignored := false, nl := 1, ind := 0, cont := 0, sp := 0 } } ]
      [4] = [some 4] :=
  cursor_in_unchanged_multiline_token exS _ _ 1 2
    { ws := [32], content := [123, 97, 10, 98, 125], kind := .rComment .cMultilineBlock }
    { tok := { ws := [32], content := [123, 97, 10, 98, 125], kind := .tComment .cMultilineBlock },
      fmt := { ignored := false, nl := 0, ind := 0, cont := 0, sp := 1 } }
    rfl rfl rfl rfl (by decide) (by decide) (by decide) (by decide) (by decide)

/-! ## Third batch: "on a character boundary"

  `isCharBoundary s i` is Rust's `str::is_char_boundary`: `i = 0`, or `i = |s|`, or byte `i` of `s`
  is not a UTF-8 continuation byte (so an offset behind the end of `s` is never a boundary, and
  "on a character boundary" contains "within the output").
  Hypotheses shared by the theorems below:
  * `AsciiSettings S`: the line ending and the two indentation strings are ASCII — true of the
    settings of every configuration (`settings_ascii`);
  * `PiecesValid ft`: the text of every token is well-formed UTF-8, and so is the verbatim leading
    whitespace of every ignored token (for scanned tokens: `C13.lex_char_boundaries`; for the final
    token state of the closed model `formatFull` on well-formed input: `formatFull_pieces_valid`,
    fourth batch);
  * `noSafetyNetGo false ft = true`: no safety-net newline was inserted, as in
    `offset_for_token_true` (without it the statement is false: `cursor_boundary_fails_safety_net`).

  Sample with a non-ASCII character: input `é ;⏎`, output `é;⏎`. -/

def exRawU : List RawTok :=
  [ { ws := [], content := [195, 169], kind := .rIdentifier },
    { ws := [32], content := [59], kind := .rOp .oSemicolon },
    { ws := [10], content := [], kind := .rEof } ]

def exFtU : FT :=
  [ { tok := { ws := [], content := [195, 169], kind := .tIdentifier },
      fmt := { ignored := false, nl := 0, ind := 0, cont := 0, sp := 0 } },
    { tok := { ws := [32], content := [59], kind := .tOp .oSemicolon },
      fmt := { ignored := false, nl := 0, ind := 0, cont := 0, sp := 0 } },
    { tok := { ws := [10], content := [], kind := .tEof },
      fmt := { ignored := false, nl := 1, ind := 0, cont := 0, sp := 0 } } ]

/-- the line ending (`\n` or `\r\n`) and the indentation strings (tabs or spaces) of every
    configuration are ASCII -/
theorem settings_ascii (cfg : Config) : AsciiSettings cfg.settings := config_settings_ascii cfg

/-- the sample settings are those of the default configuration -/
theorem exS_ascii : AsciiSettings exS := by
  have : exS = Config.default.settings := by decide
  rw [this]; exact settings_ascii _

/-- Everything `reconstruct` writes in front of a non-ignored token — line breaks, indentation,
    continuation indentation, spaces, the safety-net line break — is ASCII (every byte below 0x80),
    with the settings of any configuration. -/
theorem gap_is_ascii (cfg : Config) (t : FTok) (mustBreak : Bool) (hi : t.fmt.ignored = false) :
    ∀ b ∈ gapOf cfg.settings t mustBreak, b < 0x80 :=
  gapOf_ascii cfg.settings t mustBreak (settings_ascii cfg) hi

/-- Hence, in a well-formed text `A ++ g ++ R` where `g` is ASCII (a gap of a non-ignored token),
    every offset inside `g` or at its end is a character boundary, and so is its start as soon as
    `|A|` is one. -/
theorem gap_offsets_on_boundary (s A g R : Bytes) (hs : s = A ++ g ++ R) (hv : ValidUtf8 s)
    (hg : ∀ b ∈ g, b < 0x80) (hA : isCharBoundary s A.length = true) (j : Nat) (hj : j ≤ g.length) :
    isCharBoundary s (A.length + j) = true :=
  ascii_run_offsets_boundary s A g R hs hv hg hA j hj

/-- The output is well-formed UTF-8 when every token text (and the verbatim whitespace of every
    ignored token) is: it is the chain gap, text, gap, text, … of well-formed pieces. -/
theorem output_valid_utf8 (S : Settings) (ft : FT) (hS : AsciiSettings S) (hv : PiecesValid ft) :
    ValidUtf8 (reconstruct S ft) :=
  reconGo_valid S false ft hS hv

/-- The text of every token starts (`o = 0`) and ends (`o = |text|`) on a character boundary of the
    output, and every character boundary `o` of the token's own text is one of the output, at
    `offset_for_token(k) + o`. -/
theorem token_offsets_on_boundary (S : Settings) (ft : FT) (k o : Nat) (t : FTok)
    (hk : ft[k]? = some t) (ho : o ≤ t.tok.content.length)
    (hb : isCharBoundary t.tok.content o = true)
    (hS : AsciiSettings S) (hv : PiecesValid ft) (hsn : noSafetyNetGo false ft = true) :
    isCharBoundary (reconstruct S ft) (offsetForToken S ft k + o) = true :=
  token_offsets_boundary S ft k o t hk ho hb hS hv hsn

/-- A cursor that was in the whitespace in front of a *non-ignored* token (internal form
    `.whitespace col newlinesAfter`, any values) is reported on a character boundary of the output:
    it lands inside or at an end of the new gap in front of that token
    (`cursor_whitespace_in_gap`), and the gap is ASCII.
    Excluded: ignored tokens (false there: `cursor_boundary_fails_ignored_wide_blank`, and out of
    bounds in `cursor_in_bounds_fails_ignored_crlf`), inserted safety-net newlines, outputs in
    which the token starts at or beyond 4 GiB; only `relocate = some r` is covered (`none` =
    arithmetic underflow, `cursor_total_fails_F3`). -/
theorem cursor_in_gap_on_boundary (S : Settings) (ft : FT) (idx c n : Nat) (t : FTok) (r : Nat)
    (hk : ft[idx]? = some t) (hi : t.fmt.ignored = false)
    (hS : AsciiSettings S) (hv : PiecesValid ft) (hsn : noSafetyNetGo false ft = true)
    (hsmall : offsetForToken S ft idx < 4294967296)
    (h : relocate S ft { tokIdx := idx, pos := .whitespace c n } = some r) :
    isCharBoundary (reconstruct S ft) r = true :=
  relocate_whitespace_boundary S ft idx c n t r hk hi hS hv hsn hsmall h

/-- the cursor in the space of `é ;⏎` is reported at 2 in `é;⏎`, a character boundary -/
example : relocate exS exFtU { tokIdx := 1, pos := .whitespace 2 0 } = some 2 ∧
    isCharBoundary (reconstruct exS exFtU) 2 = true := by
  have h : relocate exS exFtU { tokIdx := 1, pos := .whitespace 2 0 } = some 2 := by decide +kernel
  exact ⟨h, cursor_in_gap_on_boundary exS exFtU 1 2 0 _ 2 rfl rfl exS_ascii
    (piecesValid_of_b _ (by decide +kernel)) (by decide) (by decide) h⟩

/-- A cursor attached to token `k` at content offset `o` (`pos = .content o`, single-line token),
    where `o` is a character boundary of the token's *current* text, is reported at
    `offset_for_token(k) + o`, which is a character boundary of the output.
    Excluded: inserted safety-net newlines, outputs in which the token ends at or beyond 4 GiB, and
    offsets that are not a boundary of the current text — which happens when the text of the token
    was changed (`cursor_boundary_fails_changed_comment_F16`). -/
theorem cursor_in_token_on_boundary (S : Settings) (ft : FT) (k o : Nat) (t : FTok)
    (hk : ft[k]? = some t) (ho : o ≤ t.tok.content.length)
    (hb : isCharBoundary t.tok.content o = true)
    (hS : AsciiSettings S) (hv : PiecesValid ft) (hsn : noSafetyNetGo false ft = true)
    (hsmall : offsetForToken S ft k + t.tok.content.length < 4294967296) :
    relocate S ft { tokIdx := k, pos := .content o } = some (offsetForToken S ft k + o) ∧
      isCharBoundary (reconstruct S ft) (offsetForToken S ft k + o) = true :=
  ⟨cursor_same_token S ft k o t hk ho hsmall, token_offsets_boundary S ft k o t hk ho hb hS hv hsn⟩

/-- an input cursor on a character boundary of the input text that is `o` bytes into the text of
    token `k` is on a character boundary of that token's text -/
theorem input_cursor_boundary_in_token (raw : List RawTok) (k o : Nat) (t : RawTok)
    (hk : raw[k]? = some t) (ho : o ≤ t.content.length)
    (hb : isCharBoundary (raw.flatMap (fun t => t.ws ++ t.content))
      (((raw.take k).map RawTok.strLen).sum + t.ws.length + o) = true) :
    isCharBoundary t.content o = true :=
  input_boundary_in_token raw k o t hk ho hb

/-- "On a character boundary", end to end, single-line tokens.  The input is the concatenation of
    the scanned tokens (`C13.lex_lossless`).  A cursor on a character boundary of the input, `o`
    bytes into the text of input token `k`, when token `k` of the final token list still has the
    same text, is reported at `offset_for_token(k) + o`, on a character boundary of the output.
    Excluded (as in `cursor_in_unchanged_token_true`): multi-line comments/strings (next theorem),
    the sticking case `o = 0`, inserted safety-net newlines, outputs of 4 GiB or more. -/
theorem cursor_on_boundary_unchanged_token (S : Settings) (raw : List RawTok) (ft : FT) (k o : Nat)
    (t : RawTok) (t' : FTok)
    (hk : raw[k]? = some t) (hk' : ft[k]? = some t') (hsame : t'.tok.content = t.content)
    (hm : isMultilineRawKind t.kind = false) (ho : o ≤ t.content.length)
    (hfirst : 0 < o ∨ 0 < t.ws.length ∨ k = 0)
    (hS : AsciiSettings S) (hv : PiecesValid ft)
    (hsn : noSafetyNetGo false ft = true)
    (hsmall : (reconstruct S ft).length < 4294967296)
    (hb : isCharBoundary (raw.flatMap (fun t => t.ws ++ t.content))
      (((raw.take k).map RawTok.strLen).sum + t.ws.length + o) = true) :
    trackCursors S raw ft [((raw.take k).map RawTok.strLen).sum + t.ws.length + o]
        = [some (offsetForToken S ft k + o)] ∧
      isCharBoundary (reconstruct S ft) (offsetForToken S ft k + o) = true := by
  have hle := offset_add_content_le S ft false k t' hk' hsn
  have hbo := input_boundary_in_token raw k o t hk ho hb
  refine ⟨cursor_in_unchanged_token S raw ft k o t t' hk hk' hsame hm ho hfirst
      (by unfold reconstruct at hsmall; rw [← hsame]; omega), ?_⟩
  exact token_offsets_boundary S ft k o t' hk' (by rw [hsame]; exact ho) (by rw [hsame]; exact hbo)
    hS hv hsn

/-- `é ;⏎` → `é;⏎`: the cursor behind `é` (offset 2, a character boundary of the input) stays at 2,
    a character boundary of the output -/
example : trackCursors exS exRawU exFtU [2] = [some 2] ∧
    isCharBoundary (reconstruct exS exFtU) 2 = true :=
  cursor_on_boundary_unchanged_token exS exRawU exFtU 0 2
    { ws := [], content := [195, 169], kind := .rIdentifier }
    { tok := { ws := [], content := [195, 169], kind := .tIdentifier },
      fmt := { ignored := false, nl := 0, ind := 0, cont := 0, sp := 0 } }
    rfl rfl rfl rfl (by decide) (by decide) exS_ascii (piecesValid_of_b _ (by decide +kernel))
    (by decide) (by decide) (by decide +kernel)

/-- The same for multi-line comments and multi-line strings (position conditions as in
    `cursor_in_unchanged_multiline_token`). -/
theorem cursor_on_boundary_unchanged_multiline_token (S : Settings) (raw : List RawTok) (ft : FT)
    (k o : Nat) (t : RawTok) (t' : FTok)
    (hk : raw[k]? = some t) (hk' : ft[k]? = some t') (hsame : t'.tok.content = t.content)
    (hm : isMultilineRawKind t.kind = true) (ho : o ≤ t.content.length)
    (hfirst : 0 < o ∨ 0 < t.ws.length ∨ k = 0)
    (hcol : firstLen (t.content.drop o) < 65536) (hnl : countByte 0x0A (t.content.drop o) < 65536)
    (hS : AsciiSettings S) (hv : PiecesValid ft)
    (hsn : noSafetyNetGo false ft = true)
    (hsmall : (reconstruct S ft).length < 4294967296)
    (hb : isCharBoundary (raw.flatMap (fun t => t.ws ++ t.content))
      (((raw.take k).map RawTok.strLen).sum + t.ws.length + o) = true) :
    trackCursors S raw ft [((raw.take k).map RawTok.strLen).sum + t.ws.length + o]
        = [some (offsetForToken S ft k + o)] ∧
      isCharBoundary (reconstruct S ft) (offsetForToken S ft k + o) = true := by
  have hle := offset_add_content_le S ft false k t' hk' hsn
  have hbo := input_boundary_in_token raw k o t hk ho hb
  refine ⟨cursor_in_unchanged_multiline_token S raw ft k o t t' hk hk' hsame hm ho hfirst hcol hnl
      (by unfold reconstruct at hsmall; rw [← hsame]; omega), ?_⟩
  exact token_offsets_boundary S ft k o t' hk' (by rw [hsame]; exact ho) (by rw [hsame]; exact hbo)
    hS hv hsn

/-- Cursors beyond the end of the input are reported at the end of the output
    (`cursor_past_end`), which is a character boundary. -/
theorem cursor_past_end_on_boundary (S : Settings) (ft : FT) (last : FTok)
    (hl : ft.getLast? = some last) (hc : last.tok.content = [])
    (hsn : noSafetyNetGo false ft = true) (hsmall : (reconstruct S ft).length < 4294967296) :
    relocate S ft { tokIdx := ft.length, pos := .content 0 } = some (reconstruct S ft).length ∧
      isCharBoundary (reconstruct S ft) (reconstruct S ft).length = true :=
  ⟨cursor_past_end S ft last hl hc hsn hsmall, isCharBoundary_length _⟩

/-- Known finding F16: a cursor in a line comment whose text *changes* can be reported inside a
    multi-byte character.  Input `//é⏎` (well-formed; the comment is `2F 2F C3 A9`), the line
    comment rule inserts a space: output `// é⏎` = `2F 2F 20 C3 A9 0A` (this token list is what
    the closed model `formatFull` computes for this input).  The cursor at input offset 4 (end of
    the comment, a character boundary of the input) is content offset 4 of token 0 and is reported
    at 4, between `C3` and `A9`.  `token_offsets_on_boundary` does not apply: 4 is not a boundary of
    the new text. -/
theorem cursor_boundary_fails_changed_comment_F16 :
    let S : Settings := { nlStr := [10], indStr := [32, 32], contStr := [32, 32, 32, 32] }
    let raw : List RawTok :=
      [ { ws := [], content := [47, 47, 195, 169], kind := .rComment .cIndividualLine },
        { ws := [10], content := [], kind := .rEof } ]
    let ft : FT :=
      [ { tok := { ws := [], content := [47, 47, 32, 195, 169], kind := .tComment .cIndividualLine },
          fmt := { ignored := false, nl := 0, ind := 0, cont := 0, sp := 0 } },
        { tok := { ws := [10], content := [], kind := .tEof },
          fmt := { ignored := false, nl := 1, ind := 0, cont := 0, sp := 0 } } ]
    noSafetyNetGo false ft = true ∧ piecesValidB ft = true ∧
      validUtf8 (raw.flatMap (fun t => t.ws ++ t.content)) = true ∧
      isCharBoundary (raw.flatMap (fun t => t.ws ++ t.content)) 4 = true ∧
      reconstruct S ft = [47, 47, 32, 195, 169, 10] ∧
      trackCursors S raw ft [4] = [some 4] ∧
      isCharBoundary (reconstruct S ft) 4 = false := by
  decide +kernel

/-- The theorems above are false without `noSafetyNetGo` (known finding F19: `offset_for_token`
    does not count the safety-net newline).  Token list `//x`, `é` with no line break requested
    between them: the reconstructor inserts one, the output is `//x⏎é` = `2F 2F 78 0A C3 A9`; the
    cursor behind `é` (content offset 2 of token 1) is reported at 5, between `C3` and `A9`. -/
theorem cursor_boundary_fails_safety_net :
    let S : Settings := { nlStr := [10], indStr := [32, 32], contStr := [32, 32, 32, 32] }
    let ft : FT :=
      [ { tok := { ws := [], content := [47, 47, 120], kind := .tComment .cIndividualLine },
          fmt := { ignored := false, nl := 0, ind := 0, cont := 0, sp := 0 } },
        { tok := { ws := [10], content := [195, 169], kind := .tIdentifier },
          fmt := { ignored := false, nl := 0, ind := 0, cont := 0, sp := 0 } } ]
    noSafetyNetGo false ft = false ∧ piecesValidB ft = true ∧
      reconstruct S ft = [47, 47, 120, 10, 195, 169] ∧
      relocate S ft { tokIdx := 1, pos := .content 2 } = some 5 ∧
      isCharBoundary (reconstruct S ft) 5 = false := by
  decide +kernel

/-- `cursor_in_gap_on_boundary` is false for ignored tokens whose verbatim whitespace is not
    ASCII: the column arithmetic counts bytes.  Input `a  b□□c` with `□` = U+3000 (`E3 80 80`),
    `c` ignored, `a  b` reformatted to `a b`.  The cursor between the two `□` (input offset 7, a
    character boundary) has byte column 7; the output is `a b□□c`, where byte column 7 is inside
    the second `□`. -/
theorem cursor_boundary_fails_ignored_wide_blank :
    let S : Settings := { nlStr := [10], indStr := [32, 32], contStr := [32, 32, 32, 32] }
    let raw : List RawTok :=
      [ { ws := [], content := [97], kind := .rIdentifier },
        { ws := [32, 32], content := [98], kind := .rIdentifier },
        { ws := [227, 128, 128, 227, 128, 128], content := [99], kind := .rIdentifier } ]
    let ft : FT :=
      [ { tok := { ws := [], content := [97], kind := .tIdentifier },
          fmt := { ignored := false, nl := 0, ind := 0, cont := 0, sp := 0 } },
        { tok := { ws := [32, 32], content := [98], kind := .tIdentifier },
          fmt := { ignored := false, nl := 0, ind := 0, cont := 0, sp := 1 } },
        { tok := { ws := [227, 128, 128, 227, 128, 128], content := [99], kind := .tIdentifier },
          fmt := FmtData.ofWs [227, 128, 128, 227, 128, 128] true } ]
    noSafetyNetGo false ft = true ∧ piecesValidB ft = true ∧
      isCharBoundary (raw.flatMap (fun t => t.ws ++ t.content)) 7 = true ∧
      processCursor raw 7 = { tokIdx := 2, pos := .whitespace 7 0 } ∧
      reconstruct S ft = [97, 32, 98, 227, 128, 128, 227, 128, 128, 99] ∧
      trackCursors S raw ft [7] = [some 7] ∧
      isCharBoundary (reconstruct S ft) 7 = false := by
  decide +kernel

/-! ## Fourth batch: `PiecesValid` holds for the closed model of the formatter

  The hypothesis `PiecesValid ft` of the theorems of the third batch is discharged for the final token state
  of `formatFull` (scanner, parser, consolidators, ignorers, token rules, wrapper stage with the search
  inside): well-formed input gives well-formed pieces at every stage.  No step had to be weakened: no rule of
  the model cuts inside a multi-byte character. -/

/-- Step 1, the scanner: well-formed UTF-8 input is cut into tokens whose leading whitespace and text are
    both well-formed UTF-8 (every token boundary is a character boundary, `C13.lex_char_boundaries`). -/
theorem lex_pieces_valid (s : Bytes) (raw : List RawTok) (hv : ValidUtf8 s) (h : lex s = some raw) :
    ∀ t ∈ raw, ValidUtf8 t.ws ∧ ValidUtf8 t.content :=
  Utf8Pipeline.lex_pieces_valid s raw hv h

/-- Step 2, `LowercaseKeywords`: ASCII lower-casing replaces ASCII letters by ASCII letters and keeps
    every other byte, so the text is well-formed UTF-8 after it exactly when it was before. -/
theorem lowercase_keeps_utf8 (c : Bytes) : validUtf8 (asciiLower c) = validUtf8 c :=
  Utf8Pipeline.asciiLower_valid c

/-- More generally, replacing ASCII bytes by ASCII bytes (texts related by `BSim`: same length, equal
    bytes except where both are below 0x80) never changes whether a text is well-formed UTF-8. -/
theorem ascii_replacement_keeps_utf8 (l l' : Bytes) (h : Utf8Pipeline.BSim l l') :
    validUtf8 l = validUtf8 l' :=
  Utf8Pipeline.validUtf8_bsim h

/-- Step 2, the line-comment rule of `CommentFormatter` (one space inserted right behind the ASCII
    slashes, ASCII whitespace removed at the end): a well-formed comment stays well-formed, for every
    behaviour of `char::is_alphanumeric`. -/
theorem line_comment_rule_keeps_utf8 (alnum : Bytes → Bool) (c c' : Bytes) (hv : ValidUtf8 c)
    (h : formatLineComment alnum c = some c') : ValidUtf8 c' :=
  Utf8Pipeline.formatLineComment_valid alnum c c' hv h

/-- Step 2, the compiler-directive rule of `CommentFormatter` (ASCII upper-casing of a span of the
    text): a well-formed directive stays well-formed. -/
theorem directive_rule_keeps_utf8 (c c' : Bytes) (hv : ValidUtf8 c)
    (h : formatCompilerDirective c = some c') : ValidUtf8 c' :=
  Utf8Pipeline.formatCompilerDirective_valid c c' hv h

/-- Step 2 together, with `TokenSpacing` and `EofNewline` (which change counters only) and the
    conversion of the scanned tokens: the token state handed to the wrapper stage consists of
    well-formed pieces — text and leading whitespace of every token — for every parser result. -/
theorem pre_wrap_pieces_valid (O : Oracles) (raw : List RawTok)
    (h : ∀ t ∈ raw, ValidUtf8 t.ws ∧ ValidUtf8 t.content) :
    ∀ t ∈ (preWrap O raw).2.2, ValidUtf8 t.tok.content ∧ ValidUtf8 t.tok.ws :=
  Utf8Pipeline.preWrap_valid O raw h

/-- The prefix of blanks that `count_leading_whitespace` measures (bytes up to 0x20 and whole
    U+3000 = `E3 80 80`) is always well-formed UTF-8, whatever the text is: a partial `E3 80` is not
    counted as a blank.  This prefix of the last line is what the string re-indenter strips from
    every line of a multi-line literal. -/
theorem leading_blank_run_is_whole_characters (l : Bytes) : ValidUtf8 (l.take (countLeadingWs l)) :=
  Utf8Pipeline.leadingWs_valid l

/-- a space followed by a partial U+3000 (`E3 80`, then `A`): only the space is counted -/
example : countLeadingWs [0x20, 0xE3, 0x80, 0x41] = 1 := by decide

/-- Step 3, the string re-indenter: when `try_rewrite_string` replaces the text of a multi-line
    literal, well-formed text stays well-formed (settings with ASCII line ending and indentation:
    `settings_ascii`).  It cuts the literal behind CR / LF, removes from each line a prefix equal to the
    (well-formed) blank run of the last line, or the whole line, and writes ASCII in front. -/
theorem mls_rewrite_keeps_utf8 (S : Settings) (hS : AsciiSettings S) (c : Bytes) (ind cont : Nat) (c' : Bytes)
    (hv : ValidUtf8 c) (h : mlsRewrite S c ind cont = some c') : ValidUtf8 c' :=
  Utf8Pipeline.mlsRewrite_valid S hS c ind cont c' hv h

/-- Step 3, the wrapper stage with the search inside (`OptimisingLineFormatter::format`): whatever
    solutions the search returns, a token state of well-formed pieces is turned into one (solutions
    change counters only, the two string passes change text only through the re-indenter and may
    empty the leading whitespace). -/
theorem wrap_stage_keeps_pieces_valid (cfg : Config) (lines : List Line) (ft ftz : FT)
    (sols : List (Nat × Nat × Sol))
    (h : ∀ t ∈ ft, ValidUtf8 t.tok.content ∧ ValidUtf8 t.tok.ws)
    (h1 : wrapStageFull cfg lines ft = some (ftz, sols)) :
    ∀ t ∈ ftz, ValidUtf8 t.tok.content ∧ ValidUtf8 t.tok.ws :=
  Utf8Pipeline.wrapStageFull_valid cfg lines ft ftz sols h h1

/-- Step 4.  **For well-formed UTF-8 input, whenever the closed model of the whole formatter
    answers, its output is the reconstruction of a token state satisfying `PiecesValid`** (every token
    text, and the verbatim whitespace of every ignored token, is well-formed UTF-8), for every
    configuration and every behaviour of `char::is_alphanumeric`. -/
theorem formatFull_pieces_valid (cfg : Config) (alnum : Bytes → Bool) (s out : Bytes) (hv : ValidUtf8 s)
    (h : formatFull cfg alnum s = some out) :
    ∃ ftz, out = reconstruct cfg.settings ftz ∧ PiecesValid ftz :=
  Utf8Pipeline.formatFull_pieces_valid cfg alnum s out hv h

/-- The same naming the state: `formatFullState` returns the scanned tokens and the final token
    state of the closed model (the two arguments of `trackCursors`); `formatFull` is the
    reconstruction of that state (`Utf8Pipeline.formatFull_eq_state`).  For well-formed input the
    state satisfies both hypotheses `AsciiSettings` and `PiecesValid` of the third batch. -/
theorem formatFull_state_pieces_valid (cfg : Config) (alnum : Bytes → Bool) (s : Bytes)
    (raw : List RawTok) (ftz : FT) (hv : ValidUtf8 s)
    (h : Utf8Pipeline.formatFullState cfg alnum s = some (raw, ftz)) :
    lex s = some raw ∧ formatFull cfg alnum s = some (reconstruct cfg.settings ftz) ∧
      AsciiSettings cfg.settings ∧ PiecesValid ftz := by
  obtain ⟨h1, h2, h3⟩ := Utf8Pipeline.formatFullState_spec cfg alnum s raw ftz hv h
  exact ⟨h1, h2, settings_ascii cfg, h3.piecesValid⟩

/-- every answer of `formatFull` comes from such a state -/
theorem formatFull_has_state (cfg : Config) (alnum : Bytes → Bool) (s out : Bytes)
    (h : formatFull cfg alnum s = some out) :
    ∃ raw ftz, Utf8Pipeline.formatFullState cfg alnum s = some (raw, ftz) ∧
      out = reconstruct cfg.settings ftz :=
  Utf8Pipeline.formatFullState_some_of_formatFull cfg alnum s out h

/-- `cursor_in_gap_on_boundary` for the closed model, without hypotheses on the pieces: for
    well-formed input, a cursor that was in the whitespace in front of a non-ignored token of the
    final state is reported on a character boundary of the formatter's output.
    Excluded as before: ignored tokens, inserted safety-net newlines, tokens starting at or beyond
    4 GiB, arithmetic underflow (`relocate = none`). -/
theorem formatFull_cursor_in_gap_on_boundary (cfg : Config) (alnum : Bytes → Bool) (s : Bytes)
    (raw : List RawTok) (ftz : FT) (hv : ValidUtf8 s)
    (h : Utf8Pipeline.formatFullState cfg alnum s = some (raw, ftz))
    (idx c n : Nat) (t : FTok) (r : Nat)
    (hk : ftz[idx]? = some t) (hi : t.fmt.ignored = false)
    (hsn : noSafetyNetGo false ftz = true)
    (hsmall : offsetForToken cfg.settings ftz idx < 4294967296)
    (hr : relocate cfg.settings ftz { tokIdx := idx, pos := .whitespace c n } = some r) :
    ∃ out, formatFull cfg alnum s = some out ∧ isCharBoundary out r = true := by
  obtain ⟨_, h2, hS, hp⟩ := formatFull_state_pieces_valid cfg alnum s raw ftz hv h
  exact ⟨_, h2, cursor_in_gap_on_boundary cfg.settings ftz idx c n t r hk hi hS hp hsn hsmall hr⟩

/-- `cursor_on_boundary_unchanged_token` for the closed model, without hypotheses on the pieces:
    for well-formed input, a cursor on a character boundary of the input, `o` bytes into the text of
    the single-line input token `k`, when token `k` of the final state still has the same text, is
    reported at `offset_for_token(k) + o`, on a character boundary of the formatter's output.
    Excluded as before: the sticking case `o = 0`, inserted safety-net newlines, outputs of 4 GiB or
    more; multi-line comments and strings: `formatFull_cursor_on_boundary_unchanged_multiline_token`. -/
theorem formatFull_cursor_on_boundary_unchanged_token (cfg : Config) (alnum : Bytes → Bool) (s : Bytes)
    (raw : List RawTok) (ftz : FT) (hv : ValidUtf8 s)
    (h : Utf8Pipeline.formatFullState cfg alnum s = some (raw, ftz))
    (k o : Nat) (t : RawTok) (t' : FTok)
    (hk : raw[k]? = some t) (hk' : ftz[k]? = some t') (hsame : t'.tok.content = t.content)
    (hm : isMultilineRawKind t.kind = false) (ho : o ≤ t.content.length)
    (hfirst : 0 < o ∨ 0 < t.ws.length ∨ k = 0)
    (hsn : noSafetyNetGo false ftz = true)
    (hsmall : (reconstruct cfg.settings ftz).length < 4294967296)
    (hb : isCharBoundary s (((raw.take k).map RawTok.strLen).sum + t.ws.length + o) = true) :
    ∃ out, formatFull cfg alnum s = some out ∧
      trackCursors cfg.settings raw ftz [((raw.take k).map RawTok.strLen).sum + t.ws.length + o]
        = [some (offsetForToken cfg.settings ftz k + o)] ∧
      isCharBoundary out (offsetForToken cfg.settings ftz k + o) = true := by
  obtain ⟨h1, h2, hS, hp⟩ := formatFull_state_pieces_valid cfg alnum s raw ftz hv h
  have hloss : raw.flatMap (fun t => t.ws ++ t.content) = s := lex_lossless_with false s raw h1
  rw [← hloss] at hb
  exact ⟨_, h2, cursor_on_boundary_unchanged_token cfg.settings raw ftz k o t t' hk hk' hsame hm ho hfirst
    hS hp hsn hsmall hb⟩

/-- The same for multi-line comments and multi-line strings (position conditions as in
    `cursor_in_unchanged_multiline_token`). -/
theorem formatFull_cursor_on_boundary_unchanged_multiline_token (cfg : Config) (alnum : Bytes → Bool)
    (s : Bytes) (raw : List RawTok) (ftz : FT) (hv : ValidUtf8 s)
    (h : Utf8Pipeline.formatFullState cfg alnum s = some (raw, ftz))
    (k o : Nat) (t : RawTok) (t' : FTok)
    (hk : raw[k]? = some t) (hk' : ftz[k]? = some t') (hsame : t'.tok.content = t.content)
    (hm : isMultilineRawKind t.kind = true) (ho : o ≤ t.content.length)
    (hfirst : 0 < o ∨ 0 < t.ws.length ∨ k = 0)
    (hcol : firstLen (t.content.drop o) < 65536) (hnl : countByte 0x0A (t.content.drop o) < 65536)
    (hsn : noSafetyNetGo false ftz = true)
    (hsmall : (reconstruct cfg.settings ftz).length < 4294967296)
    (hb : isCharBoundary s (((raw.take k).map RawTok.strLen).sum + t.ws.length + o) = true) :
    ∃ out, formatFull cfg alnum s = some out ∧
      trackCursors cfg.settings raw ftz [((raw.take k).map RawTok.strLen).sum + t.ws.length + o]
        = [some (offsetForToken cfg.settings ftz k + o)] ∧
      isCharBoundary out (offsetForToken cfg.settings ftz k + o) = true := by
  obtain ⟨h1, h2, hS, hp⟩ := formatFull_state_pieces_valid cfg alnum s raw ftz hv h
  have hloss : raw.flatMap (fun t => t.ws ++ t.content) = s := lex_lossless_with false s raw h1
  rw [← hloss] at hb
  exact ⟨_, h2, cursor_on_boundary_unchanged_multiline_token cfg.settings raw ftz k o t t' hk hk' hsame hm ho
    hfirst hcol hnl hS hp hsn hsmall hb⟩

end Pasfmt.C15
