/-
  C19 — Configuration is resolved by a fixed precedence and rejects unknown settings.
-/
import PasfmtModel.Proofs.IOProofs

namespace Pasfmt.C19
open Pasfmt.IO

theorem nearest_ancestor {D : Type} (hasFile : D → Bool) (pre : List D) (d : D) (post : List D)
    (hpre : ∀ x ∈ pre, hasFile x = false) (hd : hasFile d = true) :
    findConfig hasFile (pre ++ d :: post) = some d := IO.nearest_ancestor hasFile pre d post hpre hd

theorem no_config_found {D : Type} (hasFile : D → Bool) (dirs : List D) (h : ∀ x ∈ dirs, hasFile x = false) :
    findConfig hasFile dirs = none := IO.no_config_found hasFile dirs h

variable {K V : Type} [DecidableEq K]

theorem precedence_override (S : ConfigSpec K V) (file ov : List (K × V)) (k : K) (v : V) :
    effective S file (ov ++ [(k, v)]) k = v := IO.precedence_override S file ov k v

theorem precedence_file (S : ConfigSpec K V) (file ov : List (K × V)) (k : K) (v : V)
    (hov : lookupLast k ov = none) (hf : lookupLast k file = some v) : effective S file ov k = v :=
  IO.precedence_file S file ov k v hov hf

theorem precedence_default (S : ConfigSpec K V) (file ov : List (K × V)) (k : K)
    (hov : lookupLast k ov = none) (hf : lookupLast k file = none) : effective S file ov k = S.default k :=
  IO.precedence_default S file ov k hov hf

theorem unknown_rejected (S : ConfigSpec K V) (file ov : List (K × V)) (k : K) (v : V)
    (hmem : (k, v) ∈ file ++ ov) (hk : S.known k = false) : configOk S file ov = false :=
  IO.unknown_rejected S file ov k v hmem hk

/-- an ill-typed effective value of a supplied key is rejected -/
theorem illtyped_rejected (S : ConfigSpec K V) (file ov : List (K × V)) (k : K) (v : V)
    (hmem : (k, v) ∈ file ++ ov) (hv : S.valid k (effective S file ov k) = false) : configOk S file ov = false := by
  unfold configOk
  rw [List.all_eq_false]
  exact ⟨(k, v), hmem, by simp [hv]⟩

end Pasfmt.C19
