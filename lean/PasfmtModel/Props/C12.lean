/-
  C12 — Multi-line string literals keep their value.
  Theorems on the exact model of multiline_strings.rs (`Model/Mls.lean`).
-/
import PasfmtModel.Model.Mls
import PasfmtModel.Model.Contracts
import PasfmtModel.Proofs.MlsSim
import PasfmtModel.Proofs.LinesCustom
import PasfmtModel.Proofs.MlsMore
import PasfmtModel.Proofs.MlsPipeline

namespace Pasfmt.C12

/-- what the re-indenter makes of one interior line: `none` = the literal is rejected -/
def lineValue (base line : Bytes) : Option Bytes :=
  if base.isPrefixOf line then some (line.drop base.length)
  else if line.isPrefixOf base then some []
  else none

/-- rendering of one interior line with value `v` -/
def renderLine (S : Settings) (ind cont : Nat) (v : Bytes) : Bytes :=
  S.nlStr ++ (if v.isEmpty then [] else replicateBytes ind S.indStr ++ replicateBytes cont S.contStr ++ v)

/-- The rewriting loop succeeds exactly when every interior line starts with the closing line's
    indentation or is a prefix of it, and then the result is, line by line, the configured line
    terminator followed by (for non-empty values) exactly `ind` indentation strings, `cont`
    continuation strings and the line's value: the values are unchanged, trailing blanks included. -/
theorem rewriteLines_spec (S : Settings) (ind cont : Nat) (base : Bytes) (lines : List Bytes) :
    rewriteLines S ind cont base lines =
      (lines.mapM (lineValue base)).map (fun vs => (vs.map (renderLine S ind cont)).flatten) := by
  induction lines with
  | nil => rfl
  | cons line rest ih =>
    rw [rewriteLines, List.mapM_cons, ih]
    generalize List.mapM (lineValue base) rest = m
    by_cases h1 : base.isPrefixOf line = true
    · cases m <;> simp [lineValue, h1, renderLine, List.append_assoc]
    · by_cases h2 : line.isPrefixOf base = true
      · cases m <;> simp [lineValue, h1, h2, renderLine]
      · simp [lineValue, h1, h2]

/-- a literal with an interior line that neither starts with the base indentation nor is a prefix
    of it is rejected (left byte for byte) -/
theorem rewriteLines_rejects (S : Settings) (ind cont : Nat) (base : Bytes) (lines : List Bytes)
    (h : ∃ l ∈ lines, lineValue base l = none) : rewriteLines S ind cont base lines = none := by
  rw [rewriteLines_spec]
  obtain ⟨l, hl, hv⟩ := h
  have : lines.mapM (lineValue base) = none := by
    induction lines with
    | nil => simp at hl
    | cons a r ih =>
      rw [List.mapM_cons]
      rcases List.mem_cons.1 hl with rfl | h'
      · simp [hv]
      · cases ha : lineValue base a with
        | none => simp
        | some v => simp [ih h']
  simp [this]

/-- text before the closing quotes on the last line: the literal is left alone -/
theorem mls_rejects_text_before_quotes (S : Settings) (content : Bytes) (ind cont : Nat)
    (h : ((lastLineOf content).take (countLeadingWs (lastLineOf content))).length
          ≠ (trimEndQuotes (lastLineOf content)).length) :
    mlsRewrite S content ind cont = none := by
  unfold mlsRewrite
  simp only
  rw [if_pos (by simpa using h)]

/-- with `format_multiline_strings = false`, ignored tokens, and non-literals the stage keeps the text -/
theorem mls_off (S : Settings) (t : FTok) (ind cont : Nat) : mlsTok S false t ind cont = t.tok.content := by
  unfold mlsTok; simp

theorem mls_ignored (S : Settings) (b : Bool) (t : FTok) (ind cont : Nat) (h : t.fmt.ignored = true) :
    mlsTok S b t ind cont = t.tok.content := by
  unfold mlsTok; simp [h]

theorem mls_other_kinds (S : Settings) (b : Bool) (t : FTok) (ind cont : Nat) (h : isMlsKind t.tok.kind = false) :
    mlsTok S b t ind cont = t.tok.content := by
  unfold mlsTok; simp [h]

/-- re-indentation changes blanks only: for a literal without a dangling `E3` byte (every well-formed
    UTF-8 text) the sequence of non-blank characters is unchanged, for the settings of every
    configuration and every pair of counters -/
theorem mls_only_blanks_change (cfg : Config) (content : Bytes) (ind cont : Nat) (c' : Bytes)
    (h : mlsRewrite cfg.settings content ind cont = some c') (hnd : nd content = true) :
    nd c' = true ∧ foldStrip c' = foldStrip content :=
  mlsRewrite_sim cfg.settings (settings_blank cfg) content ind cont c' h hnd

-- Tests (labelled as tests): a literal with LF/CR/CRLF interior endings, a short line and an
-- over-indented line, rewritten to indentation 1 x "  " + 1 x "    " with LF.
-- content = "'''\r\n    a  \n  \r      b\n    '''"
example : mlsRewrite { nlStr := [10], indStr := [32, 32], contStr := [32, 32, 32, 32] }
    [39,39,39,13,10, 32,32,32,32,97,32,32,10, 32,32,13, 32,32,32,32,32,32,98,10, 32,32,32,32,39,39,39] 1 1
    = some [39,39,39,10, 32,32,32,32,32,32,97,32,32,10, 10, 32,32,32,32,32,32,32,32,98,10, 32,32,32,32,32,32,39,39,39] := by
  decide +kernel

/-- the indentation the re-indenter writes in front of every non-empty interior line and of the closing quotes -/
def newIndent (S : Settings) (ind cont : Nat) : Bytes := replicateBytes ind S.indStr ++ replicateBytes cont S.contStr

/-- an interior line after re-indentation, without its terminator -/
def lineText (S : Settings) (ind cont : Nat) (v : Bytes) : Bytes := if v.isEmpty then [] else newIndent S ind cont ++ v

theorem renderLine_eq (S : Settings) (ind cont : Nat) (v : Bytes) :
    renderLine S ind cont v = S.nlStr ++ lineText S ind cont v := by
  unfold renderLine lineText newIndent
  split <;> simp

theorem isPrefixOf_self_append (a b : Bytes) : a.isPrefixOf (a ++ b) = true := by
  induction a with
  | nil => simp
  | cons x a ih => simp [ih]

theorem lineValue_lineText (S : Settings) (ind cont : Nat) (v : Bytes) :
    lineValue (newIndent S ind cont) (lineText S ind cont v) = some v := by
  unfold lineValue lineText
  by_cases hv : v.isEmpty = true
  · have : v = [] := by simpa using hv
    subst this
    simp only [List.isEmpty_nil, if_true]
    by_cases hb : (newIndent S ind cont).isPrefixOf [] = true
    · simp [hb]
    · simp [hb]
  · simp only [hv, Bool.false_eq_true, if_false, isPrefixOf_self_append, if_true]
    simp

/-- **the value survives.**  Reading the re-indented interior lines (and the closing-quote line)
    relative to the new indentation gives back exactly the values they had relative to the old one:
    nothing but the common indentation changed — trailing blanks, blank lines and over-indentation
    included. -/
theorem mls_values_preserved (S : Settings) (ind cont : Nat) (vs : List Bytes) :
    (vs.map (lineText S ind cont)).mapM (lineValue (newIndent S ind cont)) = some vs := by
  induction vs with
  | nil => rfl
  | cons v vs ih =>
    simp only [List.map_cons, List.mapM_cons, lineValue_lineText, ih]
    rfl

/-- **`lines_custom` splits at LF, CR and CR LF and at nothing else, and loses no byte of a line**: the model of the
    Rust code (a `split_inclusive` with a stateful closure, then `trim_matches(['\n','\r'])`) equals the reference
    definition by cases `refLines`, for every text that does not end in CR LF (a multi-line literal ends in a quote). -/
theorem lines_custom_splits_at_terminators (s : Bytes) (h : ¬ ∃ p, s = p ++ [0x0D, 0x0A]) :
    linesCustom s = refLines s :=
  linesCustom_eq_refLines s h

-- `a⏎b` with CR LF, `b` ended by a lone CR, `c` by LF, an empty line, `d` unterminated
example : refLines [0x61, 0x0D, 0x0A, 0x62, 0x0D, 0x63, 0x0A, 0x0A, 0x64] = [[0x61], [0x62], [0x63], [], [0x64]] := by decide
example : linesCustom [0x61, 0x0D, 0x0A, 0x62, 0x0D, 0x63, 0x0A, 0x0A, 0x64] = [[0x61], [0x62], [0x63], [], [0x64]] := by decide
-- the excluded case: a final CR LF yields one more (empty) line in the Rust code
example : linesCustom [0x61, 0x0D, 0x0A] = [[0x61], []] ∧ refLines [0x61, 0x0D, 0x0A] = [[0x61]] := by decide

/-! ### end to end from `mlsRewrite` (helpers in `Proofs/MlsMore.lean`)

Common hypothesis `content.getLast? = some 0x27`: the literal ends in a quote - true of every multi-line literal token
(the scanner ends it after the closing quotes); it excludes texts whose last line holds no closing quotes at all, for
which the model does other things (counterexamples below).  `MlsMore.SettingsOk S`: the line ending is LF or CR LF and
the indentation strings consist of blanks `≤ 0x20` other than CR/LF - true of `cfg.settings` for every `cfg`
(`MlsMore.settings_ok`). -/

theorem renderAll_eq (S : Settings) (ind cont : Nat) (vs : List Bytes) :
    MlsMore.renderAll S ind cont vs = (vs.map (renderLine S ind cont)).flatten := by
  rfl

/-- an interior line after re-indentation is empty or the new indentation followed by its (non-empty) value -/
theorem lineText_cases (S : Settings) (ind cont : Nat) (v : Bytes) :
    (v = [] ∧ lineText S ind cont v = []) ∨ (v ≠ [] ∧ lineText S ind cont v = newIndent S ind cont ++ v) := by
  unfold lineText
  cases v with
  | nil => simp
  | cons a r => simp

/-- **C12, "afterwards the closing quotes and all interior lines are indented exactly like the opening quotes' line"**,
    on the model's own structure, end to end from `mlsRewrite`, for every literal that ends in a quote, every pair of
    counters and every settings record.  If the rewriter changes the literal, then the literal consists of an opening
    line, interior lines and a closing line `base ++ q` (`base` = the blanks of the closing line, `q` = a non-empty run
    of quotes, nothing after it); every interior line has a value `v` with respect to `base`; and the new text is the
    unchanged opening line, then per interior line the configured line ending followed by nothing (empty value) or by
    exactly `ind` indentation strings, `cont` continuation strings and the value (`renderLine`), then the line ending,
    the same `ind`+`cont` strings and the same quotes `q`.  No piece contains a CR or LF of its own. -/
theorem mls_indent_exact (S : Settings) (content : Bytes) (ind cont : Nat) (c' : Bytes)
    (hq : content.getLast? = some 0x27) (h : mlsRewrite S content ind cont = some c') :
    ∃ (opening : Bytes) (interior : List Bytes) (base q : Bytes) (vs : List Bytes),
      linesCustom content = opening :: (interior ++ [base ++ q]) ∧
      countLeadingWs (base ++ q) = base.length ∧ q ≠ [] ∧ (∀ b ∈ q, b = 0x27) ∧
      interior.mapM (lineValue base) = some vs ∧
      c' = opening ++ (vs.map (renderLine S ind cont)).flatten ++ S.nlStr ++ newIndent S ind cont ++ q ∧
      NoNl opening ∧ (∀ v ∈ vs, NoNl v) := by
  obtain ⟨first, interior, base, q, vs, h1, _, h3, h4, h5, h6, _, h8, h9, h10, _⟩ :=
    MlsMore.mlsRewrite_anatomy S content ind cont c' hq h
  refine ⟨first, interior, base, q, vs, h1, h3, h4, h5, h6, ?_, h9, h10⟩
  rw [h8, MlsMore.renderAll_snoc, MlsMore.lineText_quotes S ind cont h4, renderAll_eq]
  simp [newIndent, MlsMore.newIndent]

/-- the same **on the bytes of the result**, for the settings of every configuration: split at its line breaks, the
    rewritten literal is the unchanged opening line, then for each interior value either an empty line or the new
    indentation followed by the value (`lineText_cases`), then the new indentation followed by the closing quotes. -/
theorem mls_indent_exact_lines (S : Settings) (hS : MlsMore.SettingsOk S) (content : Bytes) (ind cont : Nat) (c' : Bytes)
    (hq : content.getLast? = some 0x27) (h : mlsRewrite S content ind cont = some c') :
    ∃ (opening q : Bytes) (vs : List Bytes),
      (linesCustom content).head? = some opening ∧ MlsMore.literalValue content = some vs ∧
      q ≠ [] ∧ (∀ b ∈ q, b = 0x27) ∧
      linesCustom c' = opening :: (vs.map (lineText S ind cont) ++ [newIndent S ind cont ++ q]) := by
  obtain ⟨first, interior, base, q, vs, h1, _, _, h4, h5, _, h7, h8, h9, h10, _⟩ :=
    MlsMore.mlsRewrite_anatomy S content ind cont c' hq h
  refine ⟨first, q, vs, by rw [h1]; rfl, h7, h4, h5, ?_⟩
  rw [h8, linesCustom_eq_refLines _ (MlsMore.not_ends_crlf (MlsMore.rewritten_ends_quote S ind cont first vs q h4 h5))]
  exact MlsMore.rewritten_lines hS ind cont first vs q h9 h10 h4 h5

/-- **C03/C12: a second application changes nothing.**  If the rewriter turned the literal into `c'`, then applied to
    `c'` with the same counters and settings it reports "no change" (`none`; the model has no separate fast path - it
    recomputes the text and finds it equal), so the token text stays `c'`.  Excluded: texts that do not end in a quote,
    line endings other than LF / CR LF, indentation strings with non-blanks or line breaks (counterexamples below). -/
theorem mls_rewrite_idem (S : Settings) (hS : MlsMore.SettingsOk S) (content : Bytes) (ind cont : Nat) (c' : Bytes)
    (hq : content.getLast? = some 0x27) (h : mlsRewrite S content ind cont = some c') :
    mlsRewrite S c' ind cont = none :=
  MlsMore.mls_idem S hS content ind cont c' hq h

/-- **C12, first sentence, end to end: the value of the literal is unchanged.**  `MlsMore.literalValue` is defined
    without reference to the rewriter (lines split at CR LF / CR / LF; first and last line dropped; indentation = the
    blanks in front of the closing quotes; each interior line stripped of it, a line that is a prefix of it counting as
    empty).  Whenever the rewriter changes a literal that ends in a quote, the literal is well-formed and the new text
    has the same value - trailing blanks, blank lines and over-indentation included. -/
theorem mls_value_full (S : Settings) (hS : MlsMore.SettingsOk S) (content : Bytes) (ind cont : Nat) (c' : Bytes)
    (hq : content.getLast? = some 0x27) (h : mlsRewrite S content ind cont = some c') :
    ∃ vs, MlsMore.literalValue content = some vs ∧ MlsMore.literalValue c' = some vs := by
  obtain ⟨first, interior, base, q, vs, _, _, _, h4, h5, _, h7, h8, h9, h10, _⟩ :=
    MlsMore.mlsRewrite_anatomy S content ind cont c' hq h
  refine ⟨vs, h7, ?_⟩
  rw [h8]
  exact MlsMore.literalValue_rewritten hS ind cont first vs q h9 h10 h4 h5

/-- the same for the settings of every configuration, as an equation -/
theorem mls_value_full_cfg (cfg : Config) (content : Bytes) (ind cont : Nat) (c' : Bytes)
    (hq : content.getLast? = some 0x27) (h : mlsRewrite cfg.settings content ind cont = some c') :
    MlsMore.literalValue c' = MlsMore.literalValue content := by
  obtain ⟨vs, h1, h2⟩ := mls_value_full cfg.settings (MlsMore.settings_ok cfg) content ind cont c' hq h
  rw [h1, h2]

-- Tests (labelled as tests).  content = "'''\n    abc\n    '''", rewritten to 1 x "  " + 1 x "    " with LF
example : mlsRewrite { nlStr := [10], indStr := [32, 32], contStr := [32, 32, 32, 32] }
    [39,39,39,10, 32,32,32,32,97,98,99,10, 32,32,32,32,39,39,39] 1 1
    = some [39,39,39,10, 32,32,32,32,32,32,97,98,99,10, 32,32,32,32,32,32,39,39,39] := by decide +kernel
example : linesCustom [39,39,39,10, 32,32,32,32,32,32,97,98,99,10, 32,32,32,32,32,32,39,39,39]
    = [[39,39,39], [32,32,32,32,32,32,97,98,99], [32,32,32,32,32,32,39,39,39]] := by decide +kernel
example : mlsRewrite { nlStr := [10], indStr := [32, 32], contStr := [32, 32, 32, 32] }
    [39,39,39,10, 32,32,32,32,32,32,97,98,99,10, 32,32,32,32,32,32,39,39,39] 1 1 = none := by decide +kernel
example : MlsMore.literalValue [39,39,39,10, 32,32,32,32,97,98,99,10, 32,32,32,32,39,39,39] = some [[97,98,99]] := by
  decide +kernel
example : MlsMore.literalValue [39,39,39,10, 32,32,32,32,32,32,97,98,99,10, 32,32,32,32,32,32,39,39,39] = some [[97,98,99]] := by
  decide +kernel
-- the literal of the first test: CR LF / LF / CR endings, a short line, an over-indented line, trailing blanks
example : MlsMore.literalValue
    [39,39,39,13,10, 32,32,32,32,97,32,32,10, 32,32,13, 32,32,32,32,32,32,98,10, 32,32,32,32,39,39,39]
    = some [[97,32,32], [], [32,32,98]] := by decide +kernel
example : MlsMore.literalValue
    [39,39,39,10, 32,32,32,32,32,32,97,32,32,10, 10, 32,32,32,32,32,32,32,32,98,10, 32,32,32,32,32,32,39,39,39]
    = some [[97,32,32], [], [32,32,98]] := by decide +kernel
-- an interior line that does not start with the closing line's indentation: ill-formed
example : MlsMore.literalValue [39,39,39,10, 32,97,10, 32,32,39,39,39] = none := by decide +kernel

/-! #### the hypotheses are needed -/

/-- **Counterexample without "ends in a quote"**: `x⏎··␍··` (the last line of `str::lines()` is `··␍··`, all blank,
    no closing quotes) is rewritten to `x⏎⏎`, whose last piece is not "indentation + quotes", and a second and a third
    application change the text again (`x⏎`, then `x`): neither `mls_indent_exact` nor `mls_rewrite_idem` hold for it. -/
theorem mls_no_quote_counterexample :
    let S : Settings := { nlStr := [10], indStr := [32, 32], contStr := [32, 32] }
    mlsRewrite S [120, 10, 32, 32, 13, 32, 32] 1 0 = some [120, 10, 10] ∧
    mlsRewrite S [120, 10, 10] 1 0 = some [120, 10] ∧
    mlsRewrite S [120, 10] 1 0 = some [120] := by decide +kernel

/-- **Counterexample to value preservation without "ends in a quote"**: `⏎'⏎⏎` has no value (its last line is empty),
    the rewritten text `⏎··⇥'⏎` has the value "no interior lines". -/
theorem mls_value_no_quote_counterexample :
    let S : Settings := { nlStr := [10], indStr := [32, 32], contStr := [9] }
    mlsRewrite S [10, 39, 10, 10] 1 1 = some [10, 32, 32, 9, 39, 10] ∧
    MlsMore.literalValue [10, 39, 10, 10] = none ∧ MlsMore.literalValue [10, 32, 32, 9, 39, 10] = some [] := by
  decide +kernel

/-- **Counterexamples for the settings**: with the line ending `⏎⏎`, with the indentation string `⏎`, and with the
    indentation string `'`, the rewritten literal is changed again by a second application. -/
theorem mls_settings_counterexamples :
    (mlsRewrite { nlStr := [10, 10], indStr := [32, 32], contStr := [] } [39,39,39,10,97,10,39,39,39] 0 0
        = some [39,39,39,10,10,97,10,10,39,39,39] ∧
      mlsRewrite { nlStr := [10, 10], indStr := [32, 32], contStr := [] } [39,39,39,10,10,97,10,10,39,39,39] 0 0
        = some [39,39,39,10,10,10,10,97,10,10,10,10,39,39,39]) ∧
    (mlsRewrite { nlStr := [10], indStr := [10], contStr := [] } [39,39,39,10,32,39,39,39] 1 0
        = some [39,39,39,10,10,39,39,39] ∧
      mlsRewrite { nlStr := [10], indStr := [10], contStr := [] } [39,39,39,10,10,39,39,39] 1 0
        = some [39,39,39,10,10,10,39,39,39]) ∧
    (mlsRewrite { nlStr := [10], indStr := [39], contStr := [] } [39,39,39,10,32,39,39,39] 1 0
        = some [39,39,39,10,39,39,39,39] ∧
      mlsRewrite { nlStr := [10], indStr := [39], contStr := [] } [39,39,39,10,39,39,39,39] 1 0
        = some [39,39,39,10,39,39,39,39,39]) := by decide +kernel

/-- with a non-blank indentation string (`a`) the value is lost: the new closing line `a'''` has text before the quotes -/
theorem mls_value_settings_counterexample :
    let S : Settings := { nlStr := [10], indStr := [97], contStr := [] }
    mlsRewrite S [39,39,39,10,32,39,39,39] 1 0 = some [39,39,39,10,97,39,39,39] ∧
    MlsMore.literalValue [39,39,39,10,32,39,39,39] = some [] ∧ MlsMore.literalValue [39,39,39,10,97,39,39,39] = none := by
  decide +kernel

/-- **C12: the re-indented literal is still ONE multi-line string literal token.**  If the scanner's text-literal
    sub-lexer reads `content`, standing in front of any `rest`, as one multi-line literal (length `|content|`, kind
    `MultiLine`), and the re-indenter turns `content` into `c'`, then it reads `c'` in front of the same `rest` as one
    multi-line literal of length exactly `|c'|`: re-indentation creates no earlier run of closing quotes and keeps
    the opening and closing runs.  Nothing is assumed about `rest` (it may start with a quote).  Excluded: settings
    whose indentation strings contain non-blanks (counterexample below). -/
theorem mls_still_one_token (S : Settings) (hS : MlsMore.SettingsOk S) (content rest : Bytes) (ind cont : Nat) (c' : Bytes)
    (hscan : textLiteral (content ++ rest) = (content.length, .tMultiLine))
    (h : mlsRewrite S content ind cont = some c') :
    textLiteral (c' ++ rest) = (c'.length, .tMultiLine) :=
  MlsMore.mls_one_token S hS content rest ind cont c' hscan h

/-- the same for one step of the scanner (`whitespace_and_token`), in any scanner state, in and outside `asm` blocks:
    no leading blanks, a token of length `|c'|` and kind `TextLiteral(MultiLine)` -/
theorem mls_still_one_token_lexOne (cfg : Config) (content rest : Bytes) (ind cont : Nat) (c' : Bytes)
    (hscan : textLiteral (content ++ rest) = (content.length, .tMultiLine))
    (h : mlsRewrite cfg.settings content ind cont = some c') (simd : Bool) (st : LexState) :
    lexOne simd st (c' ++ rest) = some (some (0, c'.length, .rTextLiteral .tMultiLine,
      { isFirst := false, inAsm := st.inAsm, prevReal := some (.rTextLiteral .tMultiLine) })) :=
  MlsMore.mls_one_token_lexOne cfg.settings (MlsMore.settings_ok cfg) content rest ind cont c' hscan h simd st

-- Tests (labelled as tests): "'''\n    abc\n    '''" and its re-indented form, each followed by "';"
example : textLiteral ([39,39,39,10, 32,32,32,32,97,98,99,10, 32,32,32,32,39,39,39] ++ [39, 59])
    = (19, .tMultiLine) := by decide +kernel
example : textLiteral ([39,39,39,10, 32,32,32,32,32,32,97,98,99,10, 32,32,32,32,32,32,39,39,39] ++ [39, 59])
    = (23, .tMultiLine) := by decide +kernel

/-- **Counterexample for the settings**: with the indentation string `'` the literal `'''⏎·'''` (8 bytes) becomes
    `'''⏎''''` (8 bytes), of which the scanner reads only the first 7 as the literal. -/
theorem mls_one_token_settings_counterexample :
    textLiteral [39,39,39,10,32,39,39,39] = (8, .tMultiLine) ∧
    mlsRewrite { nlStr := [10], indStr := [39], contStr := [] } [39,39,39,10,32,39,39,39] 1 0
      = some [39,39,39,10,39,39,39,39] ∧
    textLiteral [39,39,39,10,39,39,39,39] = (7, .tMultiLine) := by decide +kernel

/-- the common hypothesis "the literal ends in a quote" holds for every text that the scanner reads as a multi-line
    literal (whatever follows it) -/
theorem mls_token_ends_quote (content rest : Bytes)
    (hscan : textLiteral (content ++ rest) = (content.length, .tMultiLine)) : content.getLast? = some 0x27 :=
  MlsMore.multi_ends_quote content rest hscan

/-! ### end to end, for the closed model of the whole formatter (helpers in `Proofs/MlsPipeline.lean`)

`formatFull cfg alnum s` = scanner, parser and consolidators, ignore marks and token rules, the wrapper stage with the
search inside (`wrapStageFull`), the reconstructor.  `MlsPipe.MlsChain S k c c'`: `c'` is obtained from `c` by exactly
`k` successive applications of the re-indenter `mlsRewrite S` (each with its own pair of counters, each changing the
text). -/

open MlsPipe in
/-- **C12 through the wrapper stage, token by token, whatever solutions the search returns.**  Let `t` be token `j`
    when the stage starts, and let its text end in a quote if it is typed multi-line literal (true of every scanned
    literal).  Then the stage ends with a token `tz` at position `j` of the same kind and ignored flag, and either the
    token is untouched; or its text is the result of one application of the re-indenter (first *or* second string
    pass); or of two, the second one with the counters the token has in the end.  The last two only for a token that
    is not ignored, is typed multi-line literal, and with `format_multiline_strings = true`.  In particular the text
    is reached by a chain of at most two applications, and the token is untouched if it is ignored, of another kind,
    or the option is off.  (Within one pass a token that is visited twice is rewritten once: idempotence.) -/
theorem stage_mls_contents (cfg : Config) (lines : List Line) (ft ftz : FT) (sols : List (Nat × Nat × Sol))
    (h : wrapStageFull cfg lines ft = some (ftz, sols)) (j : Nat) (t : FTok) (hj : ft[j]? = some t)
    (hq : isMlsKind t.tok.kind = true → t.tok.content.getLast? = some 0x27) :
    ∃ tz, ftz[j]? = some tz ∧ tz.tok.kind = t.tok.kind ∧ tz.fmt.ignored = t.fmt.ignored ∧
      (tz.tok = t.tok ∨
        (t.fmt.ignored = false ∧ isMlsKind t.tok.kind = true ∧ cfg.fmtMls = true ∧
          ((∃ i k, mlsRewrite cfg.settings t.tok.content i k = some tz.tok.content) ∨
           (∃ i k c1, mlsRewrite cfg.settings t.tok.content i k = some c1 ∧
              mlsRewrite cfg.settings c1 tz.fmt.ind tz.fmt.cont = some tz.tok.content)))) ∧
      (∃ k, k ≤ 2 ∧ MlsChain cfg.settings k t.tok.content tz.tok.content) ∧
      (t.fmt.ignored = true ∨ isMlsKind t.tok.kind = false ∨ cfg.fmtMls = false → tz.tok = t.tok) := by
  obtain ⟨tz, h1, h2, h3, h4⟩ := wrapStageFull_at cfg lines ft ftz sols h j t hj hq
  exact ⟨tz, h1, h2, h3, h4, h4.chain, h4.frozen⟩

open MlsPipe in
/-- the same for all tokens at once and without any hypothesis on the texts (then without the bound "two"): the stage
    keeps the number of tokens, every kind and every ignored flag; a text changes through applications of the
    re-indenter only (`MlsReach` = some chain); ignored tokens, tokens of other kinds, and all tokens when
    `format_multiline_strings = false` are untouched -/
theorem stage_mls_reach (cfg : Config) (lines : List Line) (ft ftz : FT) (sols : List (Nat × Nat × Sol))
    (h : wrapStageFull cfg lines ft = some (ftz, sols)) :
    ftz.length = ft.length ∧
    ∀ (j : Nat) (t : FTok), ft[j]? = some t → ∃ tz, ftz[j]? = some tz ∧ tz.tok.kind = t.tok.kind ∧
      tz.fmt.ignored = t.fmt.ignored ∧ MlsReach cfg.settings t.tok.content tz.tok.content ∧
      (t.fmt.ignored = true ∨ isMlsKind t.tok.kind = false ∨ cfg.fmtMls = false → tz.tok = t.tok) := by
  have hr := wrapStageFull_reach cfg lines ft ftz sols h
  refine ⟨(all2_length hr).symm, ?_⟩
  intro j t hj
  obtain ⟨tz, hz, r⟩ := all2_getElem? hr hj
  exact ⟨tz, hz, r.kind, r.ign, r.reach, r.frozen⟩

/-- **the token rules before the stage keep literals**: the two rules that rewrite token text (`LowercaseKeywords`,
    `CommentFormatter`) return a token typed text literal - of any sort - exactly as they got it -/
theorem rules_keep_literals (U : Bytes → Bool) (t : FTok) (k : TextLiteralKind) (h : t.tok.kind = .tTextLiteral k) :
    commentFormatTok U (lowercaseTok t) = t :=
  MlsPipe.rules_keep_tok U t (Or.inl (by rw [h]; rfl))

/-- the same for the whole prefix of the pipeline up to the wrapper stage (`TokenSpacing`, `LowercaseKeywords`,
    `CommentFormatter`, `EofNewline`, for any parser result): as many tokens as scanned, and a token that is ignored
    or whose kind is not keyword / line comment / directive (`MlsPipe.ruleKind`) has its scanned text -/
theorem rules_keep_literals_preWrap (O : Oracles) (raw : List RawTok) :
    (preWrap O raw).2.2.length = raw.length ∧
    ∀ (j : Nat) (r : RawTok), raw[j]? = some r → ∃ t, (preWrap O raw).2.2[j]? = some t ∧
      (MlsPipe.ruleKind t.tok.kind = false ∨ t.fmt.ignored = true → t.tok.content = r.content) := by
  have hr := MlsPipe.preWrap_keeps O raw
  exact ⟨(MlsPipe.all2_length hr).symm, fun j r hj => MlsPipe.all2_getElem? hr hj⟩

/-- every token that the scanner types `TextLiteral(MultiLine)` ends in a quote -/
theorem scanned_mls_ends_quote (s : Bytes) (raw : List RawTok) (h : lex s = some raw) (r : RawTok) (hr : r ∈ raw)
    (hk : r.kind = .rTextLiteral .tMultiLine) : r.content.getLast? = some 0x27 :=
  MlsPipe.lex_multi_ends_quote s raw h r hr hk

/-- **the parser and the consolidators never retype a text literal** (`Proofs/ParserLiterals.lean`: an invariant over
    the whole control flow of the parser model - every write of a token type is guarded by a test that no text literal
    passes): in the kinds the formatter works with, a token that the scanner typed `TextLiteral(k)` is typed
    `TextLiteral(k)` -/
theorem parser_keeps_literals (raw : List RawTok) (po : ParserOut) (h : parseAndConsolidate raw = some po)
    (i : Nat) (r : RawTok) (k : TextLiteralKind) (hi : raw[i]? = some r) (hk : r.kind = .rTextLiteral k) :
    po.kinds[i]? = some (.tTextLiteral k) :=
  ParserLit.parseAndConsolidate_keeps_literals raw po h i r k hi hk

/-- **C12 for the closed model of the whole formatter: values.**  Whenever the formatter answers, its answer is the
    reconstruction of a final token state `ftz` with as many tokens as the scanner produced, and for every token `j`
    that the scanner typed `TextLiteral(MultiLine)`, with `tz` the final token at position `j`:
    `tz` is still typed multi-line literal and its text ends in a quote; **the value of the literal is the scanned
    literal's value**; the text is the scanned text after at most two applications of the re-indenter; and it is the
    scanned text, byte for byte, in a verbatim region (`tz` ignored) and when `format_multiline_strings = false`.
    No hypothesis on the input. -/
theorem formatFull_mls_values (cfg : Config) (alnum : Bytes → Bool) (s out : Bytes)
    (h : formatFull cfg alnum s = some out) :
    ∃ (raw : List RawTok) (ftz : FT), lex s = some raw ∧ out = reconstruct cfg.settings ftz ∧
      ftz.length = raw.length ∧
      ∀ (j : Nat) (r : RawTok), raw[j]? = some r → r.kind = .rTextLiteral .tMultiLine →
        ∃ tz, ftz[j]? = some tz ∧
          tz.tok.kind = .tTextLiteral .tMultiLine ∧ tz.tok.content.getLast? = some 0x27 ∧
          MlsMore.literalValue tz.tok.content = MlsMore.literalValue r.content ∧
          (∃ k, k ≤ 2 ∧ MlsPipe.MlsChain cfg.settings k r.content tz.tok.content) ∧
          (tz.fmt.ignored = true → tz.tok.content = r.content) ∧
          (cfg.fmtMls = false → tz.tok.content = r.content) := by
  obtain ⟨raw, ftz, h1, h2, h3, h4⟩ := MlsPipe.formatFull_literals cfg alnum s out h
  refine ⟨raw, ftz, h1, h2, h3, ?_⟩
  intro j r hj hk
  obtain ⟨tz, hz, kept⟩ := h4 j r hj hk
  exact ⟨tz, hz, kept.kind, kept.ends, kept.value, kept.chain, kept.ignored, kept.off⟩

/-- the chain of `formatFull_mls_values` spelled out, with the counters of the last application: the final text of a
    scanned multi-line literal is the scanned text; or (only outside verbatim regions and with
    `format_multiline_strings = true`) the result of one application of the re-indenter to it (in the first or in
    the second string pass); or of two, the second one with the token's own final counters `tz.fmt.ind`,
    `tz.fmt.cont` - the ones the reconstructor reads.  `mls_indent_exact` then gives the exact indentation of the
    closing quotes and of every interior line in terms of the counters of the last application. -/
theorem formatFull_mls_outcome (cfg : Config) (alnum : Bytes → Bool) (s out : Bytes)
    (h : formatFull cfg alnum s = some out) :
    ∃ (raw : List RawTok) (ftz : FT), lex s = some raw ∧ out = reconstruct cfg.settings ftz ∧
      ftz.length = raw.length ∧
      ∀ (j : Nat) (r : RawTok), raw[j]? = some r → r.kind = .rTextLiteral .tMultiLine →
        ∃ tz, ftz[j]? = some tz ∧
          (tz.tok.content = r.content ∨
            (tz.fmt.ignored = false ∧ cfg.fmtMls = true ∧
              ((∃ i k, mlsRewrite cfg.settings r.content i k = some tz.tok.content) ∨
               (∃ i k c1, mlsRewrite cfg.settings r.content i k = some c1 ∧
                  mlsRewrite cfg.settings c1 tz.fmt.ind tz.fmt.cont = some tz.tok.content)))) := by
  obtain ⟨raw, ftz, h1, h2, h3, h4⟩ := MlsPipe.formatFull_literals cfg alnum s out h
  refine ⟨raw, ftz, h1, h2, h3, ?_⟩
  intro j r hj hk
  obtain ⟨tz, hz, kept⟩ := h4 j r hj hk
  exact ⟨tz, hz, kept.outcome⟩

/-- a literal with an interior line that neither starts with the indentation of the closing line nor is a prefix of
    it is rejected by the re-indenter, for every pair of counters -/
theorem mls_rejects_bad_line (S : Settings) (content : Bytes) (ind cont : Nat)
    (h : ∃ l ∈ (linesCustom content).tail,
      lineValue ((lastLineOf content).take (countLeadingWs (lastLineOf content))) l = none) :
    mlsRewrite S content ind cont = none := by
  unfold mlsRewrite
  simp only
  split
  · rfl
  · unfold tryRewriteString
    cases hl : linesCustom content with
    | nil => rw [hl] at h; simp at h
    | cons first rest =>
      rw [hl] at h
      simp only [List.tail_cons] at h
      simp only [rewriteLines_rejects S ind cont _ rest h, Option.map_none]

/-- **C12 for the closed model of the whole formatter: literals that violate the indentation rule.**  With the
    notation of `formatFull_mls_values`: if the re-indenter rejects the scanned literal for every pair of counters -
    e.g. because of an interior line that neither starts with the closing line's indentation nor is a prefix of it,
    or of text before the closing quotes (`mls_rejects_bad_line`, `mls_rejects_text_before_quotes`) - then it is
    reproduced byte for byte.  No hypothesis on the input. -/
theorem formatFull_mls_rejected_verbatim (cfg : Config) (alnum : Bytes → Bool) (s out : Bytes)
    (h : formatFull cfg alnum s = some out) :
    ∃ (raw : List RawTok) (ftz : FT), lex s = some raw ∧ out = reconstruct cfg.settings ftz ∧
      ftz.length = raw.length ∧
      ∀ (j : Nat) (r : RawTok), raw[j]? = some r → r.kind = .rTextLiteral .tMultiLine →
        (∀ ind cont, mlsRewrite cfg.settings r.content ind cont = none) →
        ∃ tz, ftz[j]? = some tz ∧ tz.tok.content = r.content := by
  obtain ⟨raw, ftz, h1, h2, h3, h4⟩ := MlsPipe.formatFull_literals cfg alnum s out h
  refine ⟨raw, ftz, h1, h2, h3, ?_⟩
  intro j r hj hk hrej
  obtain ⟨tz, hz, kept⟩ := h4 j r hj hk
  exact ⟨tz, hz, kept.rejected hrej⟩

/-- the same for the violation named in C12: an interior line of the scanned literal that neither starts with the
    blanks in front of the closing quotes nor is a prefix of them -/
theorem formatFull_mls_bad_line_verbatim (cfg : Config) (alnum : Bytes → Bool) (s out : Bytes)
    (h : formatFull cfg alnum s = some out) :
    ∃ (raw : List RawTok) (ftz : FT), lex s = some raw ∧ out = reconstruct cfg.settings ftz ∧
      ftz.length = raw.length ∧
      ∀ (j : Nat) (r : RawTok), raw[j]? = some r → r.kind = .rTextLiteral .tMultiLine →
        (∃ l ∈ (linesCustom r.content).tail,
          lineValue ((lastLineOf r.content).take (countLeadingWs (lastLineOf r.content))) l = none) →
        ∃ tz, ftz[j]? = some tz ∧ tz.tok.content = r.content := by
  obtain ⟨raw, ftz, h1, h2, h3, h4⟩ := formatFull_mls_rejected_verbatim cfg alnum s out h
  exact ⟨raw, ftz, h1, h2, h3, fun j r hj hk hbad =>
    h4 j r hj hk (fun ind cont => mls_rejects_bad_line cfg.settings r.content ind cont hbad)⟩

end Pasfmt.C12
