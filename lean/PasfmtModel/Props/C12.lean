/-
  C12 — Multi-line string literals keep their value.
  Theorems on the exact model of multiline_strings.rs (`Model/Mls.lean`).
-/
import PasfmtModel.Model.Mls
import PasfmtModel.Model.Contracts
import PasfmtModel.Proofs.MlsSim
import PasfmtModel.Proofs.LinesCustom
import PasfmtModel.Proofs.MlsMore

namespace Pasfmt.C12

/-- what the re-indenter makes of one interior line: `none` = the literal is rejected -/
def lineValue (base line : Bytes) : Option Bytes :=
  if base.isPrefixOf line then some (line.drop base.length)
  else if line.isPrefixOf base then some []
  else none

/-- rendering of one interior line with value `v` -/
def renderLine (S : Settings) (ind cont : Nat) (v : Bytes) : Bytes :=
  S.nlStr ++ (if v.isEmpty then [] else replicateBytes ind S.indStr ++ replicateBytes cont S.contStr ++ v)

/-- The rewriting loop succeeds exactly when every interior line starts with the closing line's
    indentation or is a prefix of it, and then the result is, line by line, the configured line
    terminator followed by (for non-empty values) exactly `ind` indentation strings, `cont`
    continuation strings and the line's value: the values are unchanged, trailing blanks included. -/
theorem rewriteLines_spec (S : Settings) (ind cont : Nat) (base : Bytes) (lines : List Bytes) :
    rewriteLines S ind cont base lines =
      (lines.mapM (lineValue base)).map (fun vs => (vs.map (renderLine S ind cont)).flatten) := by
  induction lines with
  | nil => rfl
  | cons line rest ih =>
    rw [rewriteLines, List.mapM_cons, ih]
    generalize List.mapM (lineValue base) rest = m
    by_cases h1 : base.isPrefixOf line = true
    · cases m <;> simp [lineValue, h1, renderLine, List.append_assoc]
    · by_cases h2 : line.isPrefixOf base = true
      · cases m <;> simp [lineValue, h1, h2, renderLine]
      · simp [lineValue, h1, h2]

/-- a literal with an interior line that neither starts with the base indentation nor is a prefix
    of it is rejected (left byte for byte) -/
theorem rewriteLines_rejects (S : Settings) (ind cont : Nat) (base : Bytes) (lines : List Bytes)
    (h : ∃ l ∈ lines, lineValue base l = none) : rewriteLines S ind cont base lines = none := by
  rw [rewriteLines_spec]
  obtain ⟨l, hl, hv⟩ := h
  have : lines.mapM (lineValue base) = none := by
    induction lines with
    | nil => simp at hl
    | cons a r ih =>
      rw [List.mapM_cons]
      rcases List.mem_cons.1 hl with rfl | h'
      · simp [hv]
      · cases ha : lineValue base a with
        | none => simp
        | some v => simp [ih h']
  simp [this]

/-- text before the closing quotes on the last line: the literal is left alone -/
theorem mls_rejects_text_before_quotes (S : Settings) (content : Bytes) (ind cont : Nat)
    (h : ((lastLineOf content).take (countLeadingWs (lastLineOf content))).length
          ≠ (trimEndQuotes (lastLineOf content)).length) :
    mlsRewrite S content ind cont = none := by
  unfold mlsRewrite
  simp only
  rw [if_pos (by simpa using h)]

/-- with `format_multiline_strings = false`, ignored tokens, and non-literals the stage keeps the text -/
theorem mls_off (S : Settings) (t : FTok) (ind cont : Nat) : mlsTok S false t ind cont = t.tok.content := by
  unfold mlsTok; simp

theorem mls_ignored (S : Settings) (b : Bool) (t : FTok) (ind cont : Nat) (h : t.fmt.ignored = true) :
    mlsTok S b t ind cont = t.tok.content := by
  unfold mlsTok; simp [h]

theorem mls_other_kinds (S : Settings) (b : Bool) (t : FTok) (ind cont : Nat) (h : isMlsKind t.tok.kind = false) :
    mlsTok S b t ind cont = t.tok.content := by
  unfold mlsTok; simp [h]

/-- re-indentation changes blanks only: for a literal without a dangling `E3` byte (every well-formed
    UTF-8 text) the sequence of non-blank characters is unchanged, for the settings of every
    configuration and every pair of counters -/
theorem mls_only_blanks_change (cfg : Config) (content : Bytes) (ind cont : Nat) (c' : Bytes)
    (h : mlsRewrite cfg.settings content ind cont = some c') (hnd : nd content = true) :
    nd c' = true ∧ foldStrip c' = foldStrip content :=
  mlsRewrite_sim cfg.settings (settings_blank cfg) content ind cont c' h hnd

-- Tests (labelled as tests): a literal with LF/CR/CRLF interior endings, a short line and an
-- over-indented line, rewritten to indentation 1 x "  " + 1 x "    " with LF.
-- content = "'''\r\n    a  \n  \r      b\n    '''"
example : mlsRewrite { nlStr := [10], indStr := [32, 32], contStr := [32, 32, 32, 32] }
    [39,39,39,13,10, 32,32,32,32,97,32,32,10, 32,32,13, 32,32,32,32,32,32,98,10, 32,32,32,32,39,39,39] 1 1
    = some [39,39,39,10, 32,32,32,32,32,32,97,32,32,10, 10, 32,32,32,32,32,32,32,32,98,10, 32,32,32,32,32,32,39,39,39] := by
  decide +kernel

/-- the indentation the re-indenter writes in front of every non-empty interior line and of the closing quotes -/
def newIndent (S : Settings) (ind cont : Nat) : Bytes := replicateBytes ind S.indStr ++ replicateBytes cont S.contStr

/-- an interior line after re-indentation, without its terminator -/
def lineText (S : Settings) (ind cont : Nat) (v : Bytes) : Bytes := if v.isEmpty then [] else newIndent S ind cont ++ v

theorem renderLine_eq (S : Settings) (ind cont : Nat) (v : Bytes) :
    renderLine S ind cont v = S.nlStr ++ lineText S ind cont v := by
  unfold renderLine lineText newIndent
  split <;> simp

theorem isPrefixOf_self_append (a b : Bytes) : a.isPrefixOf (a ++ b) = true := by
  induction a with
  | nil => simp
  | cons x a ih => simp [ih]

theorem lineValue_lineText (S : Settings) (ind cont : Nat) (v : Bytes) :
    lineValue (newIndent S ind cont) (lineText S ind cont v) = some v := by
  unfold lineValue lineText
  by_cases hv : v.isEmpty = true
  · have : v = [] := by simpa using hv
    subst this
    simp only [List.isEmpty_nil, if_true]
    by_cases hb : (newIndent S ind cont).isPrefixOf [] = true
    · simp [hb]
    · simp [hb]
  · simp only [hv, Bool.false_eq_true, if_false, isPrefixOf_self_append, if_true]
    simp

/-- **the value survives.**  Reading the re-indented interior lines (and the closing-quote line)
    relative to the new indentation gives back exactly the values they had relative to the old one:
    nothing but the common indentation changed — trailing blanks, blank lines and over-indentation
    included. -/
theorem mls_values_preserved (S : Settings) (ind cont : Nat) (vs : List Bytes) :
    (vs.map (lineText S ind cont)).mapM (lineValue (newIndent S ind cont)) = some vs := by
  induction vs with
  | nil => rfl
  | cons v vs ih =>
    simp only [List.map_cons, List.mapM_cons, lineValue_lineText, ih]
    rfl

/-- **`lines_custom` splits at LF, CR and CR LF and at nothing else, and loses no byte of a line**: the model of the
    Rust code (a `split_inclusive` with a stateful closure, then `trim_matches(['\n','\r'])`) equals the reference
    definition by cases `refLines`, for every text that does not end in CR LF (a multi-line literal ends in a quote). -/
theorem lines_custom_splits_at_terminators (s : Bytes) (h : ¬ ∃ p, s = p ++ [0x0D, 0x0A]) :
    linesCustom s = refLines s :=
  linesCustom_eq_refLines s h

-- `a⏎b` with CR LF, `b` ended by a lone CR, `c` by LF, an empty line, `d` unterminated
example : refLines [0x61, 0x0D, 0x0A, 0x62, 0x0D, 0x63, 0x0A, 0x0A, 0x64] = [[0x61], [0x62], [0x63], [], [0x64]] := by decide
example : linesCustom [0x61, 0x0D, 0x0A, 0x62, 0x0D, 0x63, 0x0A, 0x0A, 0x64] = [[0x61], [0x62], [0x63], [], [0x64]] := by decide
-- the excluded case: a final CR LF yields one more (empty) line in the Rust code
example : linesCustom [0x61, 0x0D, 0x0A] = [[0x61], []] ∧ refLines [0x61, 0x0D, 0x0A] = [[0x61]] := by decide

/-! ### end to end from `mlsRewrite` (helpers in `Proofs/MlsMore.lean`)

Common hypothesis `content.getLast? = some 0x27`: the literal ends in a quote - true of every multi-line literal token
(the scanner ends it after the closing quotes); it excludes texts whose last line holds no closing quotes at all, for
which the model does other things (counterexamples below).  `MlsMore.SettingsOk S`: the line ending is LF or CR LF and
the indentation strings consist of blanks `≤ 0x20` other than CR/LF - true of `cfg.settings` for every `cfg`
(`MlsMore.settings_ok`). -/

theorem renderAll_eq (S : Settings) (ind cont : Nat) (vs : List Bytes) :
    MlsMore.renderAll S ind cont vs = (vs.map (renderLine S ind cont)).flatten := by
  rfl

/-- an interior line after re-indentation is empty or the new indentation followed by its (non-empty) value -/
theorem lineText_cases (S : Settings) (ind cont : Nat) (v : Bytes) :
    (v = [] ∧ lineText S ind cont v = []) ∨ (v ≠ [] ∧ lineText S ind cont v = newIndent S ind cont ++ v) := by
  unfold lineText
  cases v with
  | nil => simp
  | cons a r => simp

/-- **C12, "afterwards the closing quotes and all interior lines are indented exactly like the opening quotes' line"**,
    on the model's own structure, end to end from `mlsRewrite`, for every literal that ends in a quote, every pair of
    counters and every settings record.  If the rewriter changes the literal, then the literal consists of an opening
    line, interior lines and a closing line `base ++ q` (`base` = the blanks of the closing line, `q` = a non-empty run
    of quotes, nothing after it); every interior line has a value `v` with respect to `base`; and the new text is the
    unchanged opening line, then per interior line the configured line ending followed by nothing (empty value) or by
    exactly `ind` indentation strings, `cont` continuation strings and the value (`renderLine`), then the line ending,
    the same `ind`+`cont` strings and the same quotes `q`.  No piece contains a CR or LF of its own. -/
theorem mls_indent_exact (S : Settings) (content : Bytes) (ind cont : Nat) (c' : Bytes)
    (hq : content.getLast? = some 0x27) (h : mlsRewrite S content ind cont = some c') :
    ∃ (opening : Bytes) (interior : List Bytes) (base q : Bytes) (vs : List Bytes),
      linesCustom content = opening :: (interior ++ [base ++ q]) ∧
      countLeadingWs (base ++ q) = base.length ∧ q ≠ [] ∧ (∀ b ∈ q, b = 0x27) ∧
      interior.mapM (lineValue base) = some vs ∧
      c' = opening ++ (vs.map (renderLine S ind cont)).flatten ++ S.nlStr ++ newIndent S ind cont ++ q ∧
      NoNl opening ∧ (∀ v ∈ vs, NoNl v) := by
  obtain ⟨first, interior, base, q, vs, h1, _, h3, h4, h5, h6, _, h8, h9, h10, _⟩ :=
    MlsMore.mlsRewrite_anatomy S content ind cont c' hq h
  refine ⟨first, interior, base, q, vs, h1, h3, h4, h5, h6, ?_, h9, h10⟩
  rw [h8, MlsMore.renderAll_snoc, MlsMore.lineText_quotes S ind cont h4, renderAll_eq]
  simp [newIndent, MlsMore.newIndent]

/-- the same **on the bytes of the result**, for the settings of every configuration: split at its line breaks, the
    rewritten literal is the unchanged opening line, then for each interior value either an empty line or the new
    indentation followed by the value (`lineText_cases`), then the new indentation followed by the closing quotes. -/
theorem mls_indent_exact_lines (S : Settings) (hS : MlsMore.SettingsOk S) (content : Bytes) (ind cont : Nat) (c' : Bytes)
    (hq : content.getLast? = some 0x27) (h : mlsRewrite S content ind cont = some c') :
    ∃ (opening q : Bytes) (vs : List Bytes),
      (linesCustom content).head? = some opening ∧ MlsMore.literalValue content = some vs ∧
      q ≠ [] ∧ (∀ b ∈ q, b = 0x27) ∧
      linesCustom c' = opening :: (vs.map (lineText S ind cont) ++ [newIndent S ind cont ++ q]) := by
  obtain ⟨first, interior, base, q, vs, h1, _, _, h4, h5, _, h7, h8, h9, h10, _⟩ :=
    MlsMore.mlsRewrite_anatomy S content ind cont c' hq h
  refine ⟨first, q, vs, by rw [h1]; rfl, h7, h4, h5, ?_⟩
  rw [h8, linesCustom_eq_refLines _ (MlsMore.not_ends_crlf (MlsMore.rewritten_ends_quote S ind cont first vs q h4 h5))]
  exact MlsMore.rewritten_lines hS ind cont first vs q h9 h10 h4 h5

/-- **C03/C12: a second application changes nothing.**  If the rewriter turned the literal into `c'`, then applied to
    `c'` with the same counters and settings it reports "no change" (`none`; the model has no separate fast path - it
    recomputes the text and finds it equal), so the token text stays `c'`.  Excluded: texts that do not end in a quote,
    line endings other than LF / CR LF, indentation strings with non-blanks or line breaks (counterexamples below). -/
theorem mls_rewrite_idem (S : Settings) (hS : MlsMore.SettingsOk S) (content : Bytes) (ind cont : Nat) (c' : Bytes)
    (hq : content.getLast? = some 0x27) (h : mlsRewrite S content ind cont = some c') :
    mlsRewrite S c' ind cont = none :=
  MlsMore.mls_idem S hS content ind cont c' hq h

/-- **C12, first sentence, end to end: the value of the literal is unchanged.**  `MlsMore.literalValue` is defined
    without reference to the rewriter (lines split at CR LF / CR / LF; first and last line dropped; indentation = the
    blanks in front of the closing quotes; each interior line stripped of it, a line that is a prefix of it counting as
    empty).  Whenever the rewriter changes a literal that ends in a quote, the literal is well-formed and the new text
    has the same value - trailing blanks, blank lines and over-indentation included. -/
theorem mls_value_full (S : Settings) (hS : MlsMore.SettingsOk S) (content : Bytes) (ind cont : Nat) (c' : Bytes)
    (hq : content.getLast? = some 0x27) (h : mlsRewrite S content ind cont = some c') :
    ∃ vs, MlsMore.literalValue content = some vs ∧ MlsMore.literalValue c' = some vs := by
  obtain ⟨first, interior, base, q, vs, _, _, _, h4, h5, _, h7, h8, h9, h10, _⟩ :=
    MlsMore.mlsRewrite_anatomy S content ind cont c' hq h
  refine ⟨vs, h7, ?_⟩
  rw [h8]
  exact MlsMore.literalValue_rewritten hS ind cont first vs q h9 h10 h4 h5

/-- the same for the settings of every configuration, as an equation -/
theorem mls_value_full_cfg (cfg : Config) (content : Bytes) (ind cont : Nat) (c' : Bytes)
    (hq : content.getLast? = some 0x27) (h : mlsRewrite cfg.settings content ind cont = some c') :
    MlsMore.literalValue c' = MlsMore.literalValue content := by
  obtain ⟨vs, h1, h2⟩ := mls_value_full cfg.settings (MlsMore.settings_ok cfg) content ind cont c' hq h
  rw [h1, h2]

-- Tests (labelled as tests).  content = "'''\n    abc\n    '''", rewritten to 1 x "  " + 1 x "    " with LF
example : mlsRewrite { nlStr := [10], indStr := [32, 32], contStr := [32, 32, 32, 32] }
    [39,39,39,10, 32,32,32,32,97,98,99,10, 32,32,32,32,39,39,39] 1 1
    = some [39,39,39,10, 32,32,32,32,32,32,97,98,99,10, 32,32,32,32,32,32,39,39,39] := by decide +kernel
example : linesCustom [39,39,39,10, 32,32,32,32,32,32,97,98,99,10, 32,32,32,32,32,32,39,39,39]
    = [[39,39,39], [32,32,32,32,32,32,97,98,99], [32,32,32,32,32,32,39,39,39]] := by decide +kernel
example : mlsRewrite { nlStr := [10], indStr := [32, 32], contStr := [32, 32, 32, 32] }
    [39,39,39,10, 32,32,32,32,32,32,97,98,99,10, 32,32,32,32,32,32,39,39,39] 1 1 = none := by decide +kernel
example : MlsMore.literalValue [39,39,39,10, 32,32,32,32,97,98,99,10, 32,32,32,32,39,39,39] = some [[97,98,99]] := by
  decide +kernel
example : MlsMore.literalValue [39,39,39,10, 32,32,32,32,32,32,97,98,99,10, 32,32,32,32,32,32,39,39,39] = some [[97,98,99]] := by
  decide +kernel
-- the literal of the first test: CR LF / LF / CR endings, a short line, an over-indented line, trailing blanks
example : MlsMore.literalValue
    [39,39,39,13,10, 32,32,32,32,97,32,32,10, 32,32,13, 32,32,32,32,32,32,98,10, 32,32,32,32,39,39,39]
    = some [[97,32,32], [], [32,32,98]] := by decide +kernel
example : MlsMore.literalValue
    [39,39,39,10, 32,32,32,32,32,32,97,32,32,10, 10, 32,32,32,32,32,32,32,32,98,10, 32,32,32,32,32,32,39,39,39]
    = some [[97,32,32], [], [32,32,98]] := by decide +kernel
-- an interior line that does not start with the closing line's indentation: ill-formed
example : MlsMore.literalValue [39,39,39,10, 32,97,10, 32,32,39,39,39] = none := by decide +kernel

/-! #### the hypotheses are needed -/

/-- **Counterexample without "ends in a quote"**: `x⏎··␍··` (the last line of `str::lines()` is `··␍··`, all blank,
    no closing quotes) is rewritten to `x⏎⏎`, whose last piece is not "indentation + quotes", and a second and a third
    application change the text again (`x⏎`, then `x`): neither `mls_indent_exact` nor `mls_rewrite_idem` hold for it. -/
theorem mls_no_quote_counterexample :
    let S : Settings := { nlStr := [10], indStr := [32, 32], contStr := [32, 32] }
    mlsRewrite S [120, 10, 32, 32, 13, 32, 32] 1 0 = some [120, 10, 10] ∧
    mlsRewrite S [120, 10, 10] 1 0 = some [120, 10] ∧
    mlsRewrite S [120, 10] 1 0 = some [120] := by decide +kernel

/-- **Counterexample to value preservation without "ends in a quote"**: `⏎'⏎⏎` has no value (its last line is empty),
    the rewritten text `⏎··⇥'⏎` has the value "no interior lines". -/
theorem mls_value_no_quote_counterexample :
    let S : Settings := { nlStr := [10], indStr := [32, 32], contStr := [9] }
    mlsRewrite S [10, 39, 10, 10] 1 1 = some [10, 32, 32, 9, 39, 10] ∧
    MlsMore.literalValue [10, 39, 10, 10] = none ∧ MlsMore.literalValue [10, 32, 32, 9, 39, 10] = some [] := by
  decide +kernel

/-- **Counterexamples for the settings**: with the line ending `⏎⏎`, with the indentation string `⏎`, and with the
    indentation string `'`, the rewritten literal is changed again by a second application. -/
theorem mls_settings_counterexamples :
    (mlsRewrite { nlStr := [10, 10], indStr := [32, 32], contStr := [] } [39,39,39,10,97,10,39,39,39] 0 0
        = some [39,39,39,10,10,97,10,10,39,39,39] ∧
      mlsRewrite { nlStr := [10, 10], indStr := [32, 32], contStr := [] } [39,39,39,10,10,97,10,10,39,39,39] 0 0
        = some [39,39,39,10,10,10,10,97,10,10,10,10,39,39,39]) ∧
    (mlsRewrite { nlStr := [10], indStr := [10], contStr := [] } [39,39,39,10,32,39,39,39] 1 0
        = some [39,39,39,10,10,39,39,39] ∧
      mlsRewrite { nlStr := [10], indStr := [10], contStr := [] } [39,39,39,10,10,39,39,39] 1 0
        = some [39,39,39,10,10,10,39,39,39]) ∧
    (mlsRewrite { nlStr := [10], indStr := [39], contStr := [] } [39,39,39,10,32,39,39,39] 1 0
        = some [39,39,39,10,39,39,39,39] ∧
      mlsRewrite { nlStr := [10], indStr := [39], contStr := [] } [39,39,39,10,39,39,39,39] 1 0
        = some [39,39,39,10,39,39,39,39,39]) := by decide +kernel

/-- with a non-blank indentation string (`a`) the value is lost: the new closing line `a'''` has text before the quotes -/
theorem mls_value_settings_counterexample :
    let S : Settings := { nlStr := [10], indStr := [97], contStr := [] }
    mlsRewrite S [39,39,39,10,32,39,39,39] 1 0 = some [39,39,39,10,97,39,39,39] ∧
    MlsMore.literalValue [39,39,39,10,32,39,39,39] = some [] ∧ MlsMore.literalValue [39,39,39,10,97,39,39,39] = none := by
  decide +kernel

/-- **C12: the re-indented literal is still ONE multi-line string literal token.**  If the scanner's text-literal
    sub-lexer reads `content`, standing in front of any `rest`, as one multi-line literal (length `|content|`, kind
    `MultiLine`), and the re-indenter turns `content` into `c'`, then it reads `c'` in front of the same `rest` as one
    multi-line literal of length exactly `|c'|`: re-indentation creates no earlier run of closing quotes and keeps
    the opening and closing runs.  Nothing is assumed about `rest` (it may start with a quote).  Excluded: settings
    whose indentation strings contain non-blanks (counterexample below). -/
theorem mls_still_one_token (S : Settings) (hS : MlsMore.SettingsOk S) (content rest : Bytes) (ind cont : Nat) (c' : Bytes)
    (hscan : textLiteral (content ++ rest) = (content.length, .tMultiLine))
    (h : mlsRewrite S content ind cont = some c') :
    textLiteral (c' ++ rest) = (c'.length, .tMultiLine) :=
  MlsMore.mls_one_token S hS content rest ind cont c' hscan h

/-- the same for one step of the scanner (`whitespace_and_token`), in any scanner state, in and outside `asm` blocks:
    no leading blanks, a token of length `|c'|` and kind `TextLiteral(MultiLine)` -/
theorem mls_still_one_token_lexOne (cfg : Config) (content rest : Bytes) (ind cont : Nat) (c' : Bytes)
    (hscan : textLiteral (content ++ rest) = (content.length, .tMultiLine))
    (h : mlsRewrite cfg.settings content ind cont = some c') (simd : Bool) (st : LexState) :
    lexOne simd st (c' ++ rest) = some (some (0, c'.length, .rTextLiteral .tMultiLine,
      { isFirst := false, inAsm := st.inAsm, prevReal := some (.rTextLiteral .tMultiLine) })) :=
  MlsMore.mls_one_token_lexOne cfg.settings (MlsMore.settings_ok cfg) content rest ind cont c' hscan h simd st

-- Tests (labelled as tests): "'''\n    abc\n    '''" and its re-indented form, each followed by "';"
example : textLiteral ([39,39,39,10, 32,32,32,32,97,98,99,10, 32,32,32,32,39,39,39] ++ [39, 59])
    = (19, .tMultiLine) := by decide +kernel
example : textLiteral ([39,39,39,10, 32,32,32,32,32,32,97,98,99,10, 32,32,32,32,32,32,39,39,39] ++ [39, 59])
    = (23, .tMultiLine) := by decide +kernel

/-- **Counterexample for the settings**: with the indentation string `'` the literal `'''⏎·'''` (8 bytes) becomes
    `'''⏎''''` (8 bytes), of which the scanner reads only the first 7 as the literal. -/
theorem mls_one_token_settings_counterexample :
    textLiteral [39,39,39,10,32,39,39,39] = (8, .tMultiLine) ∧
    mlsRewrite { nlStr := [10], indStr := [39], contStr := [] } [39,39,39,10,32,39,39,39] 1 0
      = some [39,39,39,10,39,39,39,39] ∧
    textLiteral [39,39,39,10,39,39,39,39] = (7, .tMultiLine) := by decide +kernel

/-- the common hypothesis "the literal ends in a quote" holds for every text that the scanner reads as a multi-line
    literal (whatever follows it) -/
theorem mls_token_ends_quote (content rest : Bytes)
    (hscan : textLiteral (content ++ rest) = (content.length, .tMultiLine)) : content.getLast? = some 0x27 :=
  MlsMore.multi_ends_quote content rest hscan

end Pasfmt.C12
