/-
  C12 — Multi-line string literals keep their value.
  Theorems on the exact model of multiline_strings.rs (`Model/Mls.lean`).
-/
import PasfmtModel.Model.Mls
import PasfmtModel.Model.Contracts
import PasfmtModel.Proofs.MlsSim
import PasfmtModel.Proofs.LinesCustom

namespace Pasfmt.C12

/-- what the re-indenter makes of one interior line: `none` = the literal is rejected -/
def lineValue (base line : Bytes) : Option Bytes :=
  if base.isPrefixOf line then some (line.drop base.length)
  else if line.isPrefixOf base then some []
  else none

/-- rendering of one interior line with value `v` -/
def renderLine (S : Settings) (ind cont : Nat) (v : Bytes) : Bytes :=
  S.nlStr ++ (if v.isEmpty then [] else replicateBytes ind S.indStr ++ replicateBytes cont S.contStr ++ v)

/-- The rewriting loop succeeds exactly when every interior line starts with the closing line's
    indentation or is a prefix of it, and then the result is, line by line, the configured line
    terminator followed by (for non-empty values) exactly `ind` indentation strings, `cont`
    continuation strings and the line's value: the values are unchanged, trailing blanks included. -/
theorem rewriteLines_spec (S : Settings) (ind cont : Nat) (base : Bytes) (lines : List Bytes) :
    rewriteLines S ind cont base lines =
      (lines.mapM (lineValue base)).map (fun vs => (vs.map (renderLine S ind cont)).flatten) := by
  induction lines with
  | nil => rfl
  | cons line rest ih =>
    rw [rewriteLines, List.mapM_cons, ih]
    generalize List.mapM (lineValue base) rest = m
    by_cases h1 : base.isPrefixOf line = true
    · cases m <;> simp [lineValue, h1, renderLine, List.append_assoc]
    · by_cases h2 : line.isPrefixOf base = true
      · cases m <;> simp [lineValue, h1, h2, renderLine]
      · simp [lineValue, h1, h2]

/-- a literal with an interior line that neither starts with the base indentation nor is a prefix
    of it is rejected (left byte for byte) -/
theorem rewriteLines_rejects (S : Settings) (ind cont : Nat) (base : Bytes) (lines : List Bytes)
    (h : ∃ l ∈ lines, lineValue base l = none) : rewriteLines S ind cont base lines = none := by
  rw [rewriteLines_spec]
  obtain ⟨l, hl, hv⟩ := h
  have : lines.mapM (lineValue base) = none := by
    induction lines with
    | nil => simp at hl
    | cons a r ih =>
      rw [List.mapM_cons]
      rcases List.mem_cons.1 hl with rfl | h'
      · simp [hv]
      · cases ha : lineValue base a with
        | none => simp
        | some v => simp [ih h']
  simp [this]

/-- text before the closing quotes on the last line: the literal is left alone -/
theorem mls_rejects_text_before_quotes (S : Settings) (content : Bytes) (ind cont : Nat)
    (h : ((lastLineOf content).take (countLeadingWs (lastLineOf content))).length
          ≠ (trimEndQuotes (lastLineOf content)).length) :
    mlsRewrite S content ind cont = none := by
  unfold mlsRewrite
  simp only
  rw [if_pos (by simpa using h)]

/-- with `format_multiline_strings = false`, ignored tokens, and non-literals the stage keeps the text -/
theorem mls_off (S : Settings) (t : FTok) (ind cont : Nat) : mlsTok S false t ind cont = t.tok.content := by
  unfold mlsTok; simp

theorem mls_ignored (S : Settings) (b : Bool) (t : FTok) (ind cont : Nat) (h : t.fmt.ignored = true) :
    mlsTok S b t ind cont = t.tok.content := by
  unfold mlsTok; simp [h]

theorem mls_other_kinds (S : Settings) (b : Bool) (t : FTok) (ind cont : Nat) (h : isMlsKind t.tok.kind = false) :
    mlsTok S b t ind cont = t.tok.content := by
  unfold mlsTok; simp [h]

/-- re-indentation changes blanks only: for a literal without a dangling `E3` byte (every well-formed
    UTF-8 text) the sequence of non-blank characters is unchanged, for the settings of every
    configuration and every pair of counters -/
theorem mls_only_blanks_change (cfg : Config) (content : Bytes) (ind cont : Nat) (c' : Bytes)
    (h : mlsRewrite cfg.settings content ind cont = some c') (hnd : nd content = true) :
    nd c' = true ∧ foldStrip c' = foldStrip content :=
  mlsRewrite_sim cfg.settings (settings_blank cfg) content ind cont c' h hnd

-- Tests (labelled as tests): a literal with LF/CR/CRLF interior endings, a short line and an
-- over-indented line, rewritten to indentation 1 x "  " + 1 x "    " with LF.
-- content = "'''\r\n    a  \n  \r      b\n    '''"
example : mlsRewrite { nlStr := [10], indStr := [32, 32], contStr := [32, 32, 32, 32] }
    [39,39,39,13,10, 32,32,32,32,97,32,32,10, 32,32,13, 32,32,32,32,32,32,98,10, 32,32,32,32,39,39,39] 1 1
    = some [39,39,39,10, 32,32,32,32,32,32,97,32,32,10, 10, 32,32,32,32,32,32,32,32,98,10, 32,32,32,32,32,32,39,39,39] := by
  decide +kernel

/-- the indentation the re-indenter writes in front of every non-empty interior line and of the closing quotes -/
def newIndent (S : Settings) (ind cont : Nat) : Bytes := replicateBytes ind S.indStr ++ replicateBytes cont S.contStr

/-- an interior line after re-indentation, without its terminator -/
def lineText (S : Settings) (ind cont : Nat) (v : Bytes) : Bytes := if v.isEmpty then [] else newIndent S ind cont ++ v

theorem renderLine_eq (S : Settings) (ind cont : Nat) (v : Bytes) :
    renderLine S ind cont v = S.nlStr ++ lineText S ind cont v := by
  unfold renderLine lineText newIndent
  split <;> simp

theorem isPrefixOf_self_append (a b : Bytes) : a.isPrefixOf (a ++ b) = true := by
  induction a with
  | nil => simp
  | cons x a ih => simp [ih]

theorem lineValue_lineText (S : Settings) (ind cont : Nat) (v : Bytes) :
    lineValue (newIndent S ind cont) (lineText S ind cont v) = some v := by
  unfold lineValue lineText
  by_cases hv : v.isEmpty = true
  · have : v = [] := by simpa using hv
    subst this
    simp only [List.isEmpty_nil, if_true]
    by_cases hb : (newIndent S ind cont).isPrefixOf [] = true
    · simp [hb]
    · simp [hb]
  · simp only [hv, Bool.false_eq_true, if_false, isPrefixOf_self_append, if_true]
    simp

/-- **the value survives.**  Reading the re-indented interior lines (and the closing-quote line)
    relative to the new indentation gives back exactly the values they had relative to the old one:
    nothing but the common indentation changed — trailing blanks, blank lines and over-indentation
    included. -/
theorem mls_values_preserved (S : Settings) (ind cont : Nat) (vs : List Bytes) :
    (vs.map (lineText S ind cont)).mapM (lineValue (newIndent S ind cont)) = some vs := by
  induction vs with
  | nil => rfl
  | cons v vs ih =>
    simp only [List.map_cons, List.mapM_cons, lineValue_lineText, ih]
    rfl

/-- **`lines_custom` splits at LF, CR and CR LF and at nothing else, and loses no byte of a line**: the model of the
    Rust code (a `split_inclusive` with a stateful closure, then `trim_matches(['\n','\r'])`) equals the reference
    definition by cases `refLines`, for every text that does not end in CR LF (a multi-line literal ends in a quote). -/
theorem lines_custom_splits_at_terminators (s : Bytes) (h : ¬ ∃ p, s = p ++ [0x0D, 0x0A]) :
    linesCustom s = refLines s :=
  linesCustom_eq_refLines s h

-- `a⏎b` with CR LF, `b` ended by a lone CR, `c` by LF, an empty line, `d` unterminated
example : refLines [0x61, 0x0D, 0x0A, 0x62, 0x0D, 0x63, 0x0A, 0x0A, 0x64] = [[0x61], [0x62], [0x63], [], [0x64]] := by decide
example : linesCustom [0x61, 0x0D, 0x0A, 0x62, 0x0D, 0x63, 0x0A, 0x0A, 0x64] = [[0x61], [0x62], [0x63], [], [0x64]] := by decide
-- the excluded case: a final CR LF yields one more (empty) line in the Rust code
example : linesCustom [0x61, 0x0D, 0x0A] = [[0x61], []] ∧ refLines [0x61, 0x0D, 0x0A] = [[0x61]] := by decide

end Pasfmt.C12
