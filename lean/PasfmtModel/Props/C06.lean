/-
  C06 — Output does not depend on the input's line wrapping or spacing.
  Proved: what the exact stages keep of the original layout.  The wrapper's and the parser's
  non-interference (`WrapDeterministic`, `ParserKindsOnly`) are contracts checked by the relayout
  oracle on every case (partial).
-/
import PasfmtModel.Proofs.SpacingLayout
import PasfmtModel.Proofs.SpacingLayoutW
import PasfmtModel.Model.Pipeline
import PasfmtModel.Generated.Inventory

namespace Pasfmt.C06

/-- original whitespace is reduced to (number of `\n`, width of the trailing blank run) and nothing else -/
theorem fmtdata_layout (ws1 ws2 : Bytes) (ig : Bool)
    (hnl : countByte 0x0A ws1 = countByte 0x0A ws2)
    (hsp : trimStartLen (trimEndCr (lastLine ws1)) = trimStartLen (trimEndCr (lastLine ws2))) :
    FmtData.ofWs ws1 ig = FmtData.ofWs ws2 ig := by
  unfold FmtData.ofWs; rw [hnl, hsp]

/-- after `TokenSpacing` the spacing of every token is independent of the amount of original
    horizontal whitespace (it depends on it only through "empty or not"), as long as no inline line
    comment is involved (the token after one starts a new line and is zeroed by the wrapper) -/
theorem spacing_layout_invariant (l1 l2 : List (Kind × Nat)) (h : LayoutEq l1 l2) (hni : noInlineLine l1) :
    spacingResult l1 = spacingResult l2 := spacingResult_layout l1 l2 h hni

/-- the blank-line grouping kept at the first token of a logical line (`clamp(1,2)`) depends only on
    whether the original gap held a blank line, and is stable under re-formatting -/
theorem blank_group_clamp (x y : Nat) (h : (2 ≤ x) ↔ (2 ≤ y)) : max 1 (min x 2) = max 1 (min y 2) := by
  omega

theorem blank_group_stable (x : Nat) : max 1 (min (max 1 (min x 2)) 2) = max 1 (min x 2) := by omega

/-- the model's pipeline reads the original whitespace of non-ignored tokens only through
    `FmtData.ofWs`: two token lists with equal kinds, contents and counters give the same state
    before the wrapper, whatever their whitespace bytes are (ignored tokens keep their bytes) -/
theorem new_reads_only_fmtdata (t1 t2 : Tok) (f : Bool) (hc : t1.content = t2.content) (hk : t1.kind = t2.kind)
    (hf : FmtData.ofWs t1.ws f = FmtData.ofWs t2.ws f) :
    ({ tok := t1, fmt := FmtData.ofWs t1.ws f } : FTok).fmt = ({ tok := t2, fmt := FmtData.ofWs t2.ws f } : FTok).fmt ∧
    t1.content = t2.content ∧ t1.kind = t2.kind := ⟨hf, hc, hk⟩

/-- **A space or a line break.**  Two layouts of one token sequence in which every gap is empty in both
    or non-empty in both (how many spaces, whether the gap holds a line break, how far the next line
    is indented are all free) get the same spacing from `TokenSpacing`.  True since the repair
    b68b46e of `max_one_either_side`: before it a token at column 0 of the line after a literal was
    read as "no space" (`const A = 1<newline>experimental; // c` gave `1experimental`). -/
theorem spacing_space_or_break (ft1 ft2 : FT) (h : GapEq ft1 ft2) (hni : noInlineLine (spacingItems ft1)) :
    spacingResult (spacingItems ft1) = spacingResult (spacingItems ft2) :=
  spacingResult_gapEq ft1 ft2 h hni

/-- the premises are met by the two layouts of the repaired defect: `1 experimental` and
    `1<newline>experimental` (the identifier at column 0), and both get one space -/
example :
    let num : Tok := { ws := [], content := [0x31], kind := .tNumberLiteral .nDecimal }
    let idA : Tok := { ws := [0x20], content := [0x65], kind := .tIdentifier }
    let idB : Tok := { ws := [0x0A], content := [0x65], kind := .tIdentifier }
    let a : FT := [{ tok := num, fmt := FmtData.ofWs num.ws false }, { tok := idA, fmt := FmtData.ofWs idA.ws false }]
    let b : FT := [{ tok := num, fmt := FmtData.ofWs num.ws false }, { tok := idB, fmt := FmtData.ofWs idB.ws false }]
    GapEq a b ∧ noInlineLine (spacingItems a) ∧ spacingResult (spacingItems b) = [0, 1] := by
  refine ⟨?_, ?_, ?_⟩
  · exact GapEq.cons rfl rfl (by intro h; cases h) (GapEq.cons rfl (by decide) (by intro h; cases h) GapEq.nil)
  · intro p hp
    simp [spacingItems, spacingItemsGo] at hp
    rcases hp with rfl | rfl <;> simp
  · decide

/-- **Translator obligation: where the input's layout is read.**  Every read of a token's original whitespace
    (`get_leading_whitespace`), of its line-break count (`newlines_before`) and of the newline string in the
    parser and in every rule under `core/src/rules/` (consolidators, ignorers, spacing, wrapper), regenerated from
    the Rust source on every run.  Today: the asm-instruction splitter (line breaks inside asm blocks, excluded by
    the property), the multi-line string re-indenter (terminator to write), the end-of-file rule (a write), the
    wrapper's blank-line clamp and its write of the chosen breaks, and `max_one_either_side` ("on another line"
    counts as one space).  A new site - e.g. a consolidator or a spacing rule that looks at whether a gap holds a
    line break - breaks this obligation even before any input is run. -/
theorem layout_is_read_only_at_known_sites :
    layoutReads = ["get_leading_whitespace@core/src/defaults/parser.rs:parse_asm_instructions",
      "get_newline_str@core/src/rules/optimising_line_formatter/multiline_strings.rs:try_rewrite_string",
      "newlines_before@core/src/rules/eof_newline.rs:format",
      "newlines_before@core/src/rules/optimising_line_formatter/mod.rs:format",
      "newlines_before@core/src/rules/optimising_line_formatter/mod.rs:reconstruct_solution",
      "newlines_before@core/src/rules/token_spacing.rs:max_one_either_side"] := rfl

end Pasfmt.C06
