/-
  C06 — Output does not depend on the input's line wrapping or spacing.
  Proved: what the exact stages keep of the original layout.  The wrapper's and the parser's
  non-interference (`WrapDeterministic`, `ParserKindsOnly`) are contracts checked by the relayout
  oracle on every case (partial).
-/
import PasfmtModel.Proofs.SpacingLayout
import PasfmtModel.Model.Pipeline

namespace Pasfmt.C06

/-- original whitespace is reduced to (number of `\n`, width of the trailing blank run) and nothing else -/
theorem fmtdata_layout (ws1 ws2 : Bytes) (ig : Bool)
    (hnl : countByte 0x0A ws1 = countByte 0x0A ws2)
    (hsp : trimStartLen (trimEndCr (lastLine ws1)) = trimStartLen (trimEndCr (lastLine ws2))) :
    FmtData.ofWs ws1 ig = FmtData.ofWs ws2 ig := by
  unfold FmtData.ofWs; rw [hnl, hsp]

/-- after `TokenSpacing` the spacing of every token is independent of the amount of original
    horizontal whitespace (it depends on it only through "empty or not"), as long as no inline line
    comment is involved (the token after one starts a new line and is zeroed by the wrapper) -/
theorem spacing_layout_invariant (l1 l2 : List (Kind × Nat)) (h : LayoutEq l1 l2) (hni : noInlineLine l1) :
    spacingResult l1 = spacingResult l2 := spacingResult_layout l1 l2 h hni

/-- the blank-line grouping kept at the first token of a logical line (`clamp(1,2)`) depends only on
    whether the original gap held a blank line, and is stable under re-formatting -/
theorem blank_group_clamp (x y : Nat) (h : (2 ≤ x) ↔ (2 ≤ y)) : max 1 (min x 2) = max 1 (min y 2) := by
  omega

theorem blank_group_stable (x : Nat) : max 1 (min (max 1 (min x 2)) 2) = max 1 (min x 2) := by omega

/-- the model's pipeline reads the original whitespace of non-ignored tokens only through
    `FmtData.ofWs`: two token lists with equal kinds, contents and counters give the same state
    before the wrapper, whatever their whitespace bytes are (ignored tokens keep their bytes) -/
theorem new_reads_only_fmtdata (t1 t2 : Tok) (f : Bool) (hc : t1.content = t2.content) (hk : t1.kind = t2.kind)
    (hf : FmtData.ofWs t1.ws f = FmtData.ofWs t2.ws f) :
    ({ tok := t1, fmt := FmtData.ofWs t1.ws f } : FTok).fmt = ({ tok := t2, fmt := FmtData.ofWs t2.ws f } : FTok).fmt ∧
    t1.content = t2.content ∧ t1.kind = t2.kind := ⟨hf, hc, hk⟩

end Pasfmt.C06
