/-
  C06 — Output does not depend on the input's line wrapping or spacing.
  Proved: what the exact stages keep of the original layout.  The wrapper's and the parser's
  non-interference (`WrapDeterministic`, `ParserKindsOnly`) are contracts checked by the relayout
  oracle on every case (partial).
-/
import PasfmtModel.Proofs.SpacingLayout
import PasfmtModel.Proofs.SpacingLayoutW
import PasfmtModel.Model.Pipeline
import PasfmtModel.Generated.Inventory
import PasfmtModel.Proofs.LayoutFull
import PasfmtModel.Proofs.SearchMustBreak

namespace Pasfmt.C06

/-- original whitespace is reduced to (number of `\n`, width of the trailing blank run) and nothing else -/
theorem fmtdata_layout (ws1 ws2 : Bytes) (ig : Bool)
    (hnl : countByte 0x0A ws1 = countByte 0x0A ws2)
    (hsp : trimStartLen (trimEndCr (lastLine ws1)) = trimStartLen (trimEndCr (lastLine ws2))) :
    FmtData.ofWs ws1 ig = FmtData.ofWs ws2 ig := by
  unfold FmtData.ofWs; rw [hnl, hsp]

/-- after `TokenSpacing` the spacing of every token is independent of the amount of original
    horizontal whitespace (it depends on it only through "empty or not"), as long as no inline line
    comment is involved (the token after one starts a new line and is zeroed by the wrapper) -/
theorem spacing_layout_invariant (l1 l2 : List (Kind × Nat)) (h : LayoutEq l1 l2) (hni : noInlineLine l1) :
    spacingResult l1 = spacingResult l2 := spacingResult_layout l1 l2 h hni

/-- the blank-line grouping kept at the first token of a logical line (`clamp(1,2)`) depends only on
    whether the original gap held a blank line, and is stable under re-formatting -/
theorem blank_group_clamp (x y : Nat) (h : (2 ≤ x) ↔ (2 ≤ y)) : max 1 (min x 2) = max 1 (min y 2) := by
  omega

theorem blank_group_stable (x : Nat) : max 1 (min (max 1 (min x 2)) 2) = max 1 (min x 2) := by omega

/-- the model's pipeline reads the original whitespace of non-ignored tokens only through
    `FmtData.ofWs`: two token lists with equal kinds, contents and counters give the same state
    before the wrapper, whatever their whitespace bytes are (ignored tokens keep their bytes) -/
theorem new_reads_only_fmtdata (t1 t2 : Tok) (f : Bool) (hc : t1.content = t2.content) (hk : t1.kind = t2.kind)
    (hf : FmtData.ofWs t1.ws f = FmtData.ofWs t2.ws f) :
    ({ tok := t1, fmt := FmtData.ofWs t1.ws f } : FTok).fmt = ({ tok := t2, fmt := FmtData.ofWs t2.ws f } : FTok).fmt ∧
    t1.content = t2.content ∧ t1.kind = t2.kind := ⟨hf, hc, hk⟩

/-- **A space or a line break.**  Two layouts of one token sequence in which every gap is empty in both
    or non-empty in both (how many spaces, whether the gap holds a line break, how far the next line
    is indented are all free) get the same spacing from `TokenSpacing`.  True since the repair
    b68b46e of `max_one_either_side`: before it a token at column 0 of the line after a literal was
    read as "no space" (`const A = 1<newline>experimental; // c` gave `1experimental`). -/
theorem spacing_space_or_break (ft1 ft2 : FT) (h : GapEq ft1 ft2) (hni : noInlineLine (spacingItems ft1)) :
    spacingResult (spacingItems ft1) = spacingResult (spacingItems ft2) :=
  spacingResult_gapEq ft1 ft2 h hni

/-- the premises are met by the two layouts of the repaired defect: `1 experimental` and
    `1<newline>experimental` (the identifier at column 0), and both get one space -/
example :
    let num : Tok := { ws := [], content := [0x31], kind := .tNumberLiteral .nDecimal }
    let idA : Tok := { ws := [0x20], content := [0x65], kind := .tIdentifier }
    let idB : Tok := { ws := [0x0A], content := [0x65], kind := .tIdentifier }
    let a : FT := [{ tok := num, fmt := FmtData.ofWs num.ws false }, { tok := idA, fmt := FmtData.ofWs idA.ws false }]
    let b : FT := [{ tok := num, fmt := FmtData.ofWs num.ws false }, { tok := idB, fmt := FmtData.ofWs idB.ws false }]
    GapEq a b ∧ noInlineLine (spacingItems a) ∧ spacingResult (spacingItems b) = [0, 1] := by
  refine ⟨?_, ?_, ?_⟩
  · exact GapEq.cons rfl rfl (by intro h; cases h) (GapEq.cons rfl (by decide) (by intro h; cases h) GapEq.nil)
  · intro p hp
    simp [spacingItems, spacingItemsGo] at hp
    rcases hp with rfl | rfl <;> simp
  · decide

/-- **Translator obligation: where the input's layout is read.**  Every read of a token's original whitespace
    (`get_leading_whitespace`), of its line-break count (`newlines_before`) and of the newline string in the
    parser and in every rule under `core/src/rules/` (consolidators, ignorers, spacing, wrapper), regenerated from
    the Rust source on every run.  Today: the asm-instruction splitter (line breaks inside asm blocks, excluded by
    the property), the multi-line string re-indenter (terminator to write), the end-of-file rule (a write), the
    wrapper's blank-line clamp and its write of the chosen breaks, and `max_one_either_side` ("on another line"
    counts as one space).  The inventory is kept per file (a read moved into a helper of the same file is a refactoring: control R03).  A
    read in a file that has none today - e.g. a consolidator, a context of the wrapper or another rule that looks at
    whether a gap holds a line break - breaks this obligation even before any input is run; a new read inside one of
    the files listed is the business of the `pfull`, `wsearch`, `full` and `full2` correspondences. -/
theorem layout_is_read_only_at_known_sites :
    layoutReads = ["get_leading_whitespace@core/src/defaults/parser.rs",
      "get_newline_str@core/src/rules/optimising_line_formatter/multiline_strings.rs",
      "newlines_before@core/src/rules/eof_newline.rs",
      "newlines_before@core/src/rules/optimising_line_formatter/mod.rs",
      "newlines_before@core/src/rules/token_spacing.rs"] := rfl

/-- **The parse does not depend on where the lines break outside assembler code** — for the exact model of the
    parser (control flow included) and the three consolidators: the line-break flags are read by
    `parse_asm_instructions` only, which runs after an `asm` keyword, so two scans with the same token types that agree
    on the flags after the first `asm` keyword give the same logical lines and the same final token types.  (By
    construction of `parseFileMasked`; that the mask changes nothing is checked by the `pfull` and `full`
    correspondences on every case.) -/
theorem parse_layout_independent (raw1 raw2 : List RawTok)
    (hflags : maskFlags false (raw1.map fun t => (t.kind, wsHasBreak t.ws)) =
      maskFlags false (raw2.map fun t => (t.kind, wsHasBreak t.ws))) :
    parseAndConsolidate raw2 = parseAndConsolidate raw1 :=
  parseAndConsolidate_layout raw1 raw2 hflags

/-- in particular: a file without an `asm` keyword parses the same in every layout -/
theorem parse_layout_independent_no_asm (raw1 raw2 : List RawTok)
    (hk : raw1.map (·.kind) = raw2.map (·.kind)) (hno : ∀ t ∈ raw1, t.kind ≠ .rKeyword .kAsm) :
    parseAndConsolidate raw2 = parseAndConsolidate raw1 := by
  apply parseAndConsolidate_layout
  have key : ∀ (a b : List RawTok), a.map (·.kind) = b.map (·.kind) → (∀ t ∈ a, t.kind ≠ .rKeyword .kAsm) →
      maskFlags false (a.map fun t => (t.kind, wsHasBreak t.ws)) = maskFlags false (b.map fun t => (t.kind, wsHasBreak t.ws)) := by
    intro a
    induction a with
    | nil => intro b hb _; cases b with
      | nil => rfl
      | cons _ _ => simp at hb
    | cons x r ih =>
      intro b hb hn
      cases b with
      | nil => simp at hb
      | cons y r' =>
        simp only [List.map_cons, List.cons.injEq] at hb
        have hx : x.kind ≠ .rKeyword .kAsm := hn x (by simp)
        have hb1 : (x.kind == RawTokenType.rKeyword .kAsm) = false := by simpa using hx
        have hb2 : (y.kind == RawTokenType.rKeyword .kAsm) = false := by rw [← hb.1]; exact hb1
        simp only [List.map_cons, maskFlags, Bool.false_and, Bool.false_or, hb1, hb2, hb.1]
        rw [ih r' hb.2 (fun t ht => hn t (by simp [ht]))]
  exact key raw1 raw2 hk hno

/-- **The search of the line wrapper reads a token through its type and the length of its last line only, and the
    configuration through the width limit, the `begin` style and the two indentation widths only** — by construction
    of `searchSolve`/`searchInit` (`FTok.sview`, `Config.searchCfg`; tied to the code by the `wsearch` correspondence):
    two token states with the same views get the same solution for every line. -/
theorem search_reads_views_only (st : SearchState) (ft ft' : FT) (i : Nat) (h : ft.map FTok.sview = ft'.map FTok.sview) :
    searchSolve st ft i = searchSolve st ft' i := by
  unfold searchSolve; rw [h]

/-- **C06 for the closed model of the whole formatter** (`formatFull`: scanner, parser with its control flow,
    consolidators, ignore marks, token rules, wrapper stage with the search inside, reconstructor).  Let `s1` be
    formatted.  If `s2` scans to the same token types and texts in another layout — a blank line in front of a token in
    both or in neither, identical bytes in front of tokens kept verbatim, `GapEqW` for the gaps (`SameLayout`), and the
    same line-break flags after the first `asm` keyword (`hflags`) — then `s2` is formatted to the same bytes, provided
    that in the run on `s1`
    * every token is kept verbatim, or is the end-of-file token written by the end-of-file rule, or lies in a line for
      which the wrapper found a solution in its first phase (`hall`; it fails exactly where the wrapper reports "no
      solution" for a line, which keeps that line's original layout: known finding F34), and
    * every token that follows a line comment sharing its line with code, and whose own spacing rule could keep the
      input's spaces, starts a line in the result (`hfb`: `TokenSpacing` gives such a token no spacing, the wrapper must
      break before it; the premise says it did).
    Both are decidable and evaluated by the driver on every pair of the relayout stream.  No contract on parser or
    wrapper is assumed. -/
theorem C06_format_full (cfg : Config) (alnum : Bytes → Bool) (s1 s2 : Bytes) (raw1 raw2 : List RawTok)
    (po : ParserOut) (ftz : FT) (sols : List (Nat × Nat × Sol))
    (hl1 : lex s1 = some raw1) (hl2 : lex s2 = some raw2)
    (hpo : parseAndConsolidate raw1 = some po)
    (hflags : maskFlags false (raw1.map fun t => (t.kind, wsHasBreak t.ws)) =
      maskFlags false (raw2.map fun t => (t.kind, wsHasBreak t.ws)))
    (hsame : SameLayout po.kinds (preWrap (preO alnum po) raw1).1 raw1 raw2)
    (hw : wrapStageFull cfg (preWrap (preO alnum po) raw1).2.1 (preWrap (preO alnum po) raw1).2.2 = some (ftz, sols))
    (hall : allWritten (preWrap (preO alnum po) raw1).2.1
      (writtenBefore (preWrap (preO alnum po) raw1).2.1 (preWrap (preO alnum po) raw1).2.2)
      (preWrap (preO alnum po) raw1).2.2.length sols = true)
    (hfb : freeBrokenB (preWrap (preO alnum po) raw1).2.2 ftz = true) :
    ∃ out, formatFull cfg alnum s1 = some out ∧ formatFull cfg alnum s2 = some out := by
  obtain ⟨h1, h2⟩ := formatTokensFull_layout cfg alnum raw1 raw2 po ftz sols hpo hflags hsame hw hall hfb
  exact ⟨_, by unfold formatFull; rw [hl1]; exact h1, by unfold formatFull; rw [hl2]; exact h2⟩

/-- the wrapper stage alone, with the search inside: two states that agree up to the layout of the input (`RelW`)
    receive the same solutions, and once every token is written they are equal up to the leading whitespace of tokens
    that are not kept verbatim — which the reconstructor never emits -/
theorem wrapper_stage_layout_independent (cfg : Config) (lines : List Line) (F : Nat → Prop) (W0 : Nat → Bool)
    (ft ft' ftz : FT) (sols : List (Nat × Nat × Sol)) (h : RelW F (fun j => W0 j = true) ft ft') (hF : FreeOk F ft)
    (h1 : wrapStageFull cfg lines ft = some (ftz, sols)) (hall : allWritten lines W0 ft.length sols = true)
    (hfree : ∀ j t, ftz[j]? = some t → F j → t.fmt.nl > 0) :
    ∃ ftz', wrapStageFull cfg lines ft' = some (ftz', sols) ∧
      reconstruct cfg.settings ftz = reconstruct cfg.settings ftz' := by
  obtain ⟨ftz', hw, hr⟩ := wrapStageFull_layout cfg lines F W0 ft ft' ftz sols h hF h1 hall hfree
  exact ⟨ftz', hw, reconGo_relT _ _ _ _ hr⟩

/-- **C06 for the closed model, decided per pair.**  `layoutPremisesB cfg alnum s1 s2` (Model/LayoutCheck.lean) is the
    conjunction of the premises of `C06_format_full` as one executable Boolean — same token types and texts,
    `sameLayoutB` for the gaps, equal line-break flags after the first `asm` keyword, every token written in the first
    wrapping phase, every free token behind a trailing line comment broken.  Whenever it answers `true`, the two inputs are
    formatted to the same bytes.  The driver evaluates it on every pair of the relayout stream (`full2`, field
    `info_c06`: how often the premises hold, and which one fails first otherwise) next to the comparison of both model
    outputs with the real formatter's. -/
theorem C06_format_full_checked (cfg : Config) (alnum : Bytes → Bool) (s1 s2 : Bytes)
    (h : layoutPremisesB cfg alnum s1 s2 = true) :
    ∃ out, formatFull cfg alnum s1 = some out ∧ formatFull cfg alnum s2 = some out :=
  formatFull_layout_checked cfg alnum s1 s2 h

/-- **The search breaks where it must.**  Every solution `find_optimal_solution` returns for line `li` - at every depth
    of the recursion over child lines, whatever the cache holds as long as its entries have the property - satisfies
    `TreeMB O li`: wherever `get_formatting_invariant` answers `MustBreak` for a token of the line (e.g. the token
    follows a line comment), the decision for that token is a break; and the same holds for the solutions of the child
    lines hanging off its decisions, each for its own line (`treeMB_iff` spells the predicate out). -/
theorem search_breaks_where_it_must (O : Olf) (fuel : Nat) (cache : ChildLineCache) (ws : LineWhitespace) (li : Nat)
    (fd : FirstDecision) (hc : CacheMB O cache) :
    CacheMB O (O.findOptimalSolution fuel cache ws li fd).2 ∧
    ∀ sol, (O.findOptimalSolution fuel cache ws li fd).1 = .ok sol →
      ∀ i d, sol.decisions[i]? = some d →
        (O.getFormattingInvariant i (O.lines[li]!) = some .mustBreak → d.decision.toRaw = .brk) ∧
        ∀ x ∈ d.childSolutions, TreeMB O x.1 x.2 := by
  obtain ⟨h1, h2⟩ := findOptimalSolution_mb O fuel cache ws li fd hc
  exact ⟨h1, fun sol hs i d hd => (treeMB_iff O li sol).1 (h2 sol hs) i d hd⟩

/-- **The wrapper stage breaks behind a trailing line comment.**  In the result of the wrapper stage (search included),
    every token that follows a line comment sharing its line with code, whose own spacing rule could keep the input's
    spaces, and that is written by a solution the stage applies (in either phase, at any depth of child lines, at any
    position of its line) starts a line. -/
theorem wrapper_breaks_after_line_comment (cfg : Config) (lines : List Line) (ft ftz : FT)
    (sols : List (Nat × Nat × Sol)) (h : wrapStageFull cfg lines ft = some (ftz, sols)) (j : Nat)
    (hfree : freeAtB ft j = true) (hw : ∃ x ∈ sols, j ∈ solTokens lines x.2.2 x.2.1) :
    ∃ t, ftz[j]? = some t ∧ t.fmt.nl > 0 := by
  obtain ⟨f, hf, hpos⟩ := wrapStageFull_free_broken cfg lines ft ftz sols h j (freeK_of_freeAtB hfree).1 hw
  unfold fmtAt at hf
  cases ht : ftz[j]? with
  | none => rw [ht] at hf; cases hf
  | some t =>
    rw [ht] at hf
    simp only [Option.map_some, Option.some.injEq] at hf
    subst hf
    exact ⟨t, rfl, hpos⟩

/-- the premise `freeBrokenB` of `C06_format_full` follows from `allWritten` and `freeBeforeBrokenB`, the restriction of
    `freeBrokenB` to the tokens no solution of the search writes (verbatim tokens, the end-of-file token written by the
    end-of-file rule) -/
theorem free_tokens_broken (cfg : Config) (lines : List Line) (ft ftz : FT) (sols : List (Nat × Nat × Sol))
    (h : wrapStageFull cfg lines ft = some (ftz, sols))
    (hall : allWritten lines (writtenBefore lines ft) ft.length sols = true)
    (hnb : freeBeforeBrokenB lines ft ftz = true) : freeBrokenB ft ftz = true :=
  freeBrokenB_of_stage' cfg lines ft ftz sols h hall hnb

/-- **C06 for the closed model, decided per pair, without a premise about what the search decided.**
    `layoutPremisesB'` is `layoutPremisesB` with `freeBrokenB` ("every free token behind a trailing line comment starts
    a line in the result") replaced by `freeBeforeBrokenB`, its restriction to the tokens that no solution of the search
    writes (tokens kept verbatim and the end-of-file token written by the end-of-file rule; vacuous when no such token
    is free, `freeNotBeforeB`): that the wrapper breaks before every free token it writes is now proved from the search
    (`search_breaks_where_it_must`, `wrapper_breaks_after_line_comment`).  The two premise sets are equivalent
    (`layoutPremises_iff`), so the driver's verdicts carry over. -/
theorem C06_format_full_checked' (cfg : Config) (alnum : Bytes → Bool) (s1 s2 : Bytes)
    (h : layoutPremisesB' cfg alnum s1 s2 = true) :
    ∃ out, formatFull cfg alnum s1 = some out ∧ formatFull cfg alnum s2 = some out :=
  C06_format_full_checked cfg alnum s1 s2 (layoutPremisesB_of' cfg alnum s1 s2 h)

/-- the premise sets of `C06_format_full_checked` and `C06_format_full_checked'` hold for the same pairs -/
theorem layoutPremises_iff (cfg : Config) (alnum : Bytes → Bool) (s1 s2 : Bytes) :
    layoutPremisesB' cfg alnum s1 s2 = true ↔ layoutPremisesB cfg alnum s1 s2 = true :=
  ⟨layoutPremisesB_of' cfg alnum s1 s2, layoutPremisesB'_of cfg alnum s1 s2⟩

end Pasfmt.C06
