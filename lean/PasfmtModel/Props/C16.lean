/-
  C16 — The three CLI modes agree and only files mode writes.
  Theorems on the mode logic (`Model/IO.lean`); file system and codecs are parameters.  The model is
  tied to the built binary by `tools/iocheck.py` (file bytes, stdout, exit status on temp trees).
-/
import PasfmtModel.Proofs.IOProofs

namespace Pasfmt.C16
open Pasfmt.IO

/-- `seek(0); write(bs); set_len(|bs|)` leaves exactly `bs`, whatever the previous length -/
theorem write_truncates (old bs : Bytes) (pos : Nat) :
    ((({ data := old, pos := pos } : FileSt).seekStart.write bs).setLen bs.length).data = bs :=
  IO.write_truncates old bs pos

variable {T : Type} [DecidableEq T]

theorem files_eq_stdout (C : Codec T) (fmt : T → T) (u8 : T → Bytes) (cfgEnc : Enc) (hdr content out : Bytes)
    (hout : runStdin C fmt cfgEnc content = some out)
    (hrt : ∀ d, decodeFile C cfgEnc content = some d → fmt d.text = d.text → writeBytes C d d.text = some content) :
    (runFile C fmt u8 cfgEnc .files hdr content).file = out ∧
    (runFile C fmt u8 cfgEnc .files hdr content).failed = false :=
  files_eq_stdin_stdout C fmt u8 cfgEnc hdr content out hout hrt

theorem check_exit_iff (C : Codec T) (fmt : T → T) (u8 : T → Bytes) (cfgEnc : Enc) (hdr content : Bytes) :
    (runFile C fmt u8 cfgEnc .check hdr content).failed = checkStdin C fmt cfgEnc content :=
  IO.check_exit_iff C fmt u8 cfgEnc hdr content

theorem readonly_modes_no_write (C : Codec T) (fmt : T → T) (u8 : T → Bytes) (cfgEnc : Enc) (mode : Mode)
    (hdr content : Bytes) (hm : mode ≠ .files) :
    (runFile C fmt u8 cfgEnc mode hdr content).file = content ∧
    (runFile C fmt u8 cfgEnc mode hdr content).wrote = false :=
  IO.readonly_modes_no_write C fmt u8 cfgEnc mode hdr content hm

theorem undecodable_untouched (C : Codec T) (fmt : T → T) (u8 : T → Bytes) (cfgEnc : Enc) (mode : Mode)
    (hdr content : Bytes) (h : decodeFile C cfgEnc content = none) :
    runFile C fmt u8 cfgEnc mode hdr content = { file := content, wrote := false, stdout := [], failed := true } :=
  IO.undecodable_untouched C fmt u8 cfgEnc mode hdr content h

theorem mode_defaults :
    effectiveMode none true = some .stdout ∧ effectiveMode none false = some .files ∧
    effectiveMode (some .files) true = none ∧ effectiveMode (some .check) true = some .check ∧
    effectiveMode (some .stdout) false = some .stdout := IO.mode_defaults

end Pasfmt.C16
