/-
  C04 — Formatting always terminates without aborting, on any input.

  Every function of the model is total (structural recursion or explicit fuel), so for the exactly
  modelled stages termination of the code follows from the correspondence; "never aborts" is
  modelled by `Option`: `none` = the Rust code panics (slice out of range, unsigned underflow,
  `unwrap` on `None`).  The parser's control flow and the wrapper's search are not modelled; for them
  the check is a monitor (watchdog, `catch_unwind`, deterministic work counters), named as such.
-/
import PasfmtModel.Proofs.MachineCover
import PasfmtModel.Proofs.Tree
import PasfmtModel.Proofs.LexShape
import PasfmtModel.Model.Cursor
import PasfmtModel.Proofs.LexTotal
import PasfmtModel.Proofs.LexBoundaries

namespace Pasfmt.C04

theorem passesGo_length (f n : Nat) (t : DTree) : (passesGo f n t).length ≤ n := by
  induction n generalizing t with
  | zero => simp [passesGo]
  | succ k ih =>
    unfold passesGo
    simp only
    split
    · simp
    · simp only [List.length_cons]; exact Nat.succ_le_succ (ih _)

/-- the number of conditional-directive passes is linear in the number of tokens: sequences and
    nestings of conditional blocks do not multiply the work (the model's passes are compared with
    the real `PassIter` on every case, so an exponential `PassIter` would break the correspondence) -/
theorem passes_linear (kinds : List RawKind) : (passes kinds).length ≤ kinds.length + 2 := by
  unfold passes; exact passesGo_length _ _ _

/-- the scanner terminates with a token list on every input: the directive scanner's fuel suffices,
    every token consumes at least one byte (an unterminated comment is never empty because the
    trailing blanks it drops never reach its first byte) and stays inside the text -/
theorem lex_never_fails (simd : Bool) (s : Bytes) : ∃ toks, lexWith simd s = some toks := lexWith_total simd s

/-- no scanner slice is off a character boundary (a `&str` slice elsewhere panics): on well-formed
    UTF-8 every token's blanks and content are well-formed UTF-8 -/
theorem lex_slices_on_char_boundaries (simd : Bool) (s : Bytes) (toks : List RawTok) (hv : ValidUtf8 s)
    (h : lexWith simd s = some toks) : ∀ t ∈ toks, ValidUtf8 t.ws ∧ ValidUtf8 t.content :=
  lexWith_char_boundaries simd s toks hv h

/-- a pass never contains more tokens than the file -/
theorem lex_token_count (s : Bytes) (toks : List RawTok) (h : lex s = some toks) :
    (toks.map (fun t => t.ws.length + t.content.length)).sum = s.length := by
  have := lex_lossless_with false s toks h
  rw [← this]
  unfold flatText
  induction toks with
  | nil => rfl
  | cons t r ih =>
    simp only [List.map_cons, List.sum_cons, List.flatMap_cons, List.length_append, RawTok.text]
    have hr : (List.flatMap RawTok.text r).length = (r.map (fun t => t.ws.length + t.content.length)).sum := by
      clear ih this h
      induction r with
      | nil => rfl
      | cons a b ihb => simp [List.flatMap_cons, RawTok.text, ihb]; omega
    omega

/-- every primitive of the line builder either succeeds or is one of the explicit `none` cases
    (`popLine`/`popLast` on a one-element stack, `finish` on a missing line); in particular pushing
    tokens, skipping and finishing never index out of range on valid references -/
theorem machine_refs_stay_valid (kinds : List RawKind) (pass : List Nat) (s s' : MState) (op : POp)
    (hv : RefsValid s) (hstep : s.step kinds pass op = some s') : RefsValid s' :=
  (step_cover kinds pass s s' op (List.range s.passIdx) hv
    (by intro j tok hj _; right; exact List.mem_range.2 hj) hstep).1

end Pasfmt.C04
