/-
  C04 — Formatting always terminates without aborting, on any input.

  Every function of the model is total (structural recursion or explicit fuel), so for the exactly
  modelled stages termination of the code follows from the correspondence; "never aborts" is
  modelled by `Option`: `none` = the Rust code panics (slice out of range, unsigned underflow,
  `unwrap` on `None`).  The parser's control flow and the wrapper's search are not modelled; for them
  the check is a monitor (watchdog, `catch_unwind`, deterministic work counters), named as such.

  The wrapper stage of the closed model (`wrapStageFull`, search included) is proved never to abort on well-formed
  lines (`LinesOk`: token indices in range, parents are earlier lines): `wrapper_stage_never_aborts` below.

  The whole closed model `formatFull` answers exactly when its parser stage answers
  (`formatFull_answers_iff_parser_answers`, `formatFull_none_iff`): the scanner always answers, the lines the parser
  model hands on are well formed (`parse_lines_ok`), voiding keeps them so (`voidLines_ok`), the token rules keep
  one entry per token (`preWrap_length`), hence the wrapper stage answers.  What stays open is the parser model
  itself: that `parseFileMasked` never returns `none` (panic sites of the real parser, fuel) is not proved.
-/
import PasfmtModel.Proofs.MachineCover
import PasfmtModel.Proofs.Tree
import PasfmtModel.Proofs.LexShape
import PasfmtModel.Model.Cursor
import PasfmtModel.Proofs.LexTotal
import PasfmtModel.Proofs.LexBoundaries
import PasfmtModel.Proofs.StageTotalSearch
import PasfmtModel.Proofs.PipelineTotal

namespace Pasfmt.C04

theorem passesGo_length (f n : Nat) (t : DTree) : (passesGo f n t).length ≤ n := by
  induction n generalizing t with
  | zero => simp [passesGo]
  | succ k ih =>
    unfold passesGo
    simp only
    split
    · simp
    · simp only [List.length_cons]; exact Nat.succ_le_succ (ih _)

/-- the number of conditional-directive passes is linear in the number of tokens: sequences and
    nestings of conditional blocks do not multiply the work (the model's passes are compared with
    the real `PassIter` on every case, so an exponential `PassIter` would break the correspondence) -/
theorem passes_linear (kinds : List RawKind) : (passes kinds).length ≤ kinds.length + 2 := by
  unfold passes; exact passesGo_length _ _ _

/-- the scanner terminates with a token list on every input: the directive scanner's fuel suffices,
    every token consumes at least one byte (an unterminated comment is never empty because the
    trailing blanks it drops never reach its first byte) and stays inside the text -/
theorem lex_never_fails (simd : Bool) (s : Bytes) : ∃ toks, lexWith simd s = some toks := lexWith_total simd s

/-- no scanner slice is off a character boundary (a `&str` slice elsewhere panics): on well-formed
    UTF-8 every token's blanks and content are well-formed UTF-8 -/
theorem lex_slices_on_char_boundaries (simd : Bool) (s : Bytes) (toks : List RawTok) (hv : ValidUtf8 s)
    (h : lexWith simd s = some toks) : ∀ t ∈ toks, ValidUtf8 t.ws ∧ ValidUtf8 t.content :=
  lexWith_char_boundaries simd s toks hv h

/-- a pass never contains more tokens than the file -/
theorem lex_token_count (s : Bytes) (toks : List RawTok) (h : lex s = some toks) :
    (toks.map (fun t => t.ws.length + t.content.length)).sum = s.length := by
  have := lex_lossless_with false s toks h
  rw [← this]
  unfold flatText
  induction toks with
  | nil => rfl
  | cons t r ih =>
    simp only [List.map_cons, List.sum_cons, List.flatMap_cons, List.length_append, RawTok.text]
    have hr : (List.flatMap RawTok.text r).length = (r.map (fun t => t.ws.length + t.content.length)).sum := by
      clear ih this h
      induction r with
      | nil => rfl
      | cons a b ihb => simp [List.flatMap_cons, RawTok.text, ihb]; omega
    omega

/-- every primitive of the line builder either succeeds or is one of the explicit `none` cases
    (`popLine`/`popLast` on a one-element stack, `finish` on a missing line); in particular pushing
    tokens, skipping and finishing never index out of range on valid references -/
theorem machine_refs_stay_valid (kinds : List RawKind) (pass : List Nat) (s s' : MState) (op : POp)
    (hv : RefsValid s) (hstep : s.step kinds pass op = some s') : RefsValid s' :=
  (step_cover kinds pass s s' op (List.range s.passIdx) hv
    (by intro j tok hj _; right; exact List.mem_range.2 hj) hstep).1

/-! ### the wrapper stage (closed model) never aborts -/

/-- the walk from a line to its top-level ancestor (`while let Some(parent) = line.get_parent()`) ends without an
    index out of range and without running forever, when every parent is an earlier line -/
theorem top_parent_walk_ends (lines : List Line) (n : Nat) (h : LinesOk lines n) (i : Nat) (hi : i < lines.length) :
    topParent lines (lines.length + 1) i ≠ none := topParent_total lines n h i hi

/-- the string pass over one line never meets a token index without formatting data when all the line's token
    indices are in range; it keeps the number of tokens -/
theorem mls_line_never_aborts (S : Settings) (toks : List Nat) (ft : FT) (h : ∀ t ∈ toks, t < ft.length) :
    ∃ ft1 ch, mlsLine S toks ft = some (ft1, ch) ∧ ft1.length = ft.length := mlsLine_total S toks ft h

/-- the first string pass (with the walks to the top-level parents) answers on well-formed lines -/
theorem mls_pass1_never_aborts (S : Settings) (lines : List Line) (ft : FT) (h : LinesOk lines ft.length) :
    ∃ ft1 out, mlsPass1 S lines lines.zipIdx ft [] = some (ft1, out) ∧ ft1.length = ft.length :=
  mlsPass1_total S lines ft.length h lines.zipIdx ft [] (fun _ hx => hx) rfl

/-- the second string pass answers on well-formed lines -/
theorem mls_pass2_never_aborts (S : Settings) (lines : List Line) (ft : FT) (h : LinesOk lines ft.length) :
    ∃ ft1, mlsPass2 S lines ft = some ft1 ∧ ft1.length = ft.length :=
  mlsPass2_total S ft.length lines ft h.all_tokens rfl

/-- applying a solution whose shape fits the lines (`SolFits`: the line exists, at most as many decisions as the line
    has tokens, token indices in range, child solutions fit their lines) never panics: no decision without a token,
    no missing child line, no token without formatting data; the number of tokens is kept -/
theorem apply_solution_never_aborts (lines : List Line) (ft : FT) (s : Sol) (i : Nat)
    (h : SolFits lines ft.length s i) : ∃ ft1, applySol lines ft s i = some ft1 ∧ ft1.length = ft.length :=
  applySol_total lines ft.length ft s i h rfl

/-- on well-formed lines, the solution the search returns for a line fits the lines: the line exists, the solution has
    at most as many decisions as the line has tokens, and every child solution, at every depth, is the solution of an
    existing line and fits it -/
theorem search_returns_fitting_solutions (cfg : Config) (lines : List Line) (ft : FT) (hL : LinesOk lines ft.length)
    (i : Nat) (s : Sol) (st' : SearchState) (h : searchSolve (searchInit cfg lines ft) ft i = (some s, st')) :
    SolFits lines ft.length s i := searchSolve_fits cfg lines ft hL i s st' h

/-- the wrapper stage answers whenever every solution the search returns fits the lines (the part that does not look
    inside the search; `P` is any invariant of the search state) -/
theorem wrapper_stage_never_aborts_of_fits (cfg : Config) (lines : List Line) (ft : FT) (P : SearchState → Prop)
    (hL : LinesOk lines ft.length) (h0 : P (searchInit cfg lines ft)) (hS : SearchFits lines ft.length P) :
    ∃ r, wrapStageFull cfg lines ft = some r := wrapStageFull_total_of_fits cfg lines ft P hL h0 hS

/-- **The wrapper stage never aborts** (closed model, search included): for every configuration, on lines that are
    well formed for the tokens (every token index of every line is a token with formatting data; the parent of a
    line is an earlier line) the stage returns a result.  `none` stands for the panics of the real stage: a decision
    without a token, a child line that does not exist, a token index without formatting data (applying a solution and
    the two string passes), a parent index out of range or a parent cycle (the walk to the top-level parent). -/
theorem wrapper_stage_never_aborts (cfg : Config) (lines : List Line) (ft : FT) (hL : LinesOk lines ft.length) :
    ∃ r, wrapStageFull cfg lines ft = some r := wrapStageFull_total cfg lines ft hL

/-- the well-formedness of the lines is a check that can be run (`decide`): here two lines over three tokens, the
    second hanging off token 1 of the first -/
example : LinesOk [⟨none, 0, [0, 1], .lEof⟩, ⟨some ⟨0, 1⟩, 1, [2], .lEof⟩] 3 := by decide

/-! ### the whole closed model: only the parser stage can fail to answer -/

/-- **Whenever the parser model answers, the lines it hands on (after the three consolidators) are well formed for the
    scanned tokens**: every token index of every line is the index of a scanned token, and the parent of a line is an
    earlier line. -/
theorem parse_lines_ok (raw : List RawTok) (po : ParserOut) (h : parseAndConsolidate raw = some po) :
    LinesOk po.lines raw.length := Pasfmt.parse_lines_ok raw po h

/-- **Voiding keeps the lines well formed**: the void step empties the token list of a line whose tokens are all
    ignored; it keeps the number of lines and every parent. -/
theorem voidLines_ok (marks : List Bool) (lines : List Line) (n : Nat) (h : LinesOk lines n) :
    LinesOk (voidLines marks lines) n := Pasfmt.voidLines_ok marks lines n h

/-- **The state handed to the wrapper stage has one entry of formatting data per scanned token**, whatever the parser
    component returns. -/
theorem preWrap_length (O : Oracles) (raw : List RawTok) : (preWrap O raw).2.2.length = raw.length :=
  Pasfmt.preWrap_length O raw

/-- **The closed model of the whole formatter answers exactly when its parser stage answers**: for every
    configuration, every `alnum` and every input, `formatFull` returns an output if and only if the parser model
    (with the three consolidators) returns lines for the scanned tokens.  The scanner always answers; ignore marks,
    voiding, token rules and the reconstructor are total functions; the wrapper stage (search included) answers
    because the parser's lines are well formed.  So the only `none` of `formatFull` is the parser model's `none`
    (a panic site of the real parser, or the model's fuel running out; never observed on any generated input). -/
theorem formatFull_answers_iff_parser_answers (cfg : Config) (alnum : Bytes → Bool) (s : Bytes) :
    (∃ out, formatFull cfg alnum s = some out) ↔
      ∃ raw po, lex s = some raw ∧ parseAndConsolidate raw = some po :=
  Pasfmt.formatFull_answers_iff_parser_answers cfg alnum s

/-- **The closed model gives no answer exactly when the parser model gives none on the scanned tokens** (the scanner
    itself always returns tokens). -/
theorem formatFull_none_iff (cfg : Config) (alnum : Bytes → Bool) (s : Bytes) :
    formatFull cfg alnum s = none ↔ ∃ raw, lex s = some raw ∧ parseAndConsolidate raw = none :=
  Pasfmt.formatFull_none_iff cfg alnum s

/-- non-vacuity of the right-hand side: on `a:=b;` the scanner and the parser model answer (checked by evaluation of
    these two stages only), hence, for every configuration, so does the whole closed model -/
example (cfg : Config) (alnum : Bytes → Bool) : ∃ out, formatFull cfg alnum "a:=b;".toUTF8.toList = some out := by
  rw [formatFull_answers_iff_parser_answers]
  have h : ((lex "a:=b;".toUTF8.toList).bind parseAndConsolidate).isSome = true := by decide +kernel
  cases hl : lex "a:=b;".toUTF8.toList with
  | none => rw [hl] at h; cases h
  | some raw =>
    rw [hl] at h
    cases hp : parseAndConsolidate raw with
    | none => simp [hp] at h
    | some po => exact ⟨raw, po, rfl, hp⟩

end Pasfmt.C04
