/-
  C13 — Scanning is lossless and follows the Delphi lexical rules at any length.

  Property theorems only (helper lemmas live in `Proofs/`).  `lex` is the exact model of
  `DelphiLexer::lex` (`Model/Lexer.lean`), tied to the code by the `lex` correspondence stream.
-/
import PasfmtModel.Proofs.LexShape
import PasfmtModel.Proofs.Simd
import PasfmtModel.Proofs.Keywords
import PasfmtModel.Proofs.LexTotal
import PasfmtModel.Proofs.LexBoundaries
import PasfmtModel.Proofs.LexLocal6

namespace Pasfmt.C13

/-- scanning is total: for every byte string (so for every UTF-8 text) a token list is returned; no
    sub-lexer runs out of fuel, no token is empty (the loop always makes progress) and no slice
    leaves the text, with either identifier routine.  (Slices on character boundaries: see
    `lex_char_boundaries`.) -/
theorem lex_total (simd : Bool) (s : Bytes) : ∃ toks, lexWith simd s = some toks := lexWith_total simd s

/-- all boundaries fall on character boundaries: for well-formed UTF-8 input the leading blanks and the
    content of every token are well-formed UTF-8 (every offset at which the Rust scanner slices the
    `&str` is a character boundary), with either identifier routine -/
theorem lex_char_boundaries (simd : Bool) (s : Bytes) (toks : List RawTok) (hv : ValidUtf8 s)
    (h : lexWith simd s = some toks) : ∀ t ∈ toks, ValidUtf8 t.ws ∧ ValidUtf8 t.content :=
  lexWith_char_boundaries simd s toks hv h

/-- leading blanks and contents of the tokens concatenate back to exactly the input -/
theorem lex_lossless (s : Bytes) (toks : List RawTok) (h : lex s = some toks) :
    toks.flatMap (fun t => t.ws ++ t.content) = s :=
  lex_lossless_with false s toks h

/-- exactly one end-of-file token, last, with empty content -/
theorem lex_single_eof_last (s : Bytes) (toks : List RawTok) (h : lex s = some toks) :
    ∃ pre e, toks = pre ++ [e] ∧ e.kind = .rEof ∧ e.content = [] ∧ ∀ t ∈ pre, t.kind ≠ .rEof := by
  obtain ⟨pre, e, hp, he, hall⟩ := lexFuel_shape false _ _ _ _ h
  exact ⟨pre, e, hp, he.kind_eq, he.content_nil, fun t ht => (hall t ht).kind_ne⟩

/-- the leading whitespace of every token consists of blanks only (bytes ≤ 0x20 and U+3000), and
    is absorbed by blank-stripping whatever follows it -/
theorem lex_ws_blank (s : Bytes) (toks : List RawTok) (h : lex s = some toks) :
    ∀ t ∈ toks, BlankOnly t.ws ∧ Gap t.ws := by
  obtain ⟨pre, e, hp, he, hall⟩ := lexFuel_shape false _ _ _ _ h
  intro t ht
  rw [hp] at ht
  rcases List.mem_append.1 ht with h1 | h1
  · exact ⟨(hall t h1).ws_gap.blankOnly, (hall t h1).ws_gap⟩
  · simp at h1; subst h1; exact ⟨he.ws_gap.blankOnly, he.ws_gap⟩

/-- every token but the last has non-empty content starting at a non-blank character -/
theorem lex_nonempty_nonblank_start (s : Bytes) (toks : List RawTok) (h : lex s = some toks) :
    ∀ t ∈ toks, t.kind ≠ .rEof →
      ∃ b r, t.content = b :: r ∧ ¬ b ≤ 0x20 ∧ ¬ ([0xE3, 0x80, 0x80] <+: t.content) := by
  obtain ⟨pre, e, hp, he, hall⟩ := lexFuel_shape false _ _ _ _ h
  intro t ht hk
  rw [hp] at ht
  rcases List.mem_append.1 ht with h1 | h1
  · exact (hall t h1).nonblank
  · simp at h1; subst h1; exact absurd he.kind_eq hk

/-- the AVX2 identifier routine (lane-wise model with signed compares, 32-byte chunks, non-ASCII
    bail-out, `trailing_ones`, scalar tail) returns the same offset as the generic routine for
    every byte string and every chunk budget -/
theorem ident_simd_eq_scalar (fuel : Nat) (l : Bytes) : identLenSimd fuel l = identLen l :=
  identLenSimd_eq fuel l

/-- hence the whole token stream does not depend on the CPU-specific routine selected at run time -/
theorem lex_simd_eq_scalar (s : Bytes) : lexWith true s = lex s := lexWith_simd s

/-- keyword recognition (perfect hash + case-insensitive compare) is exactly "the table entry
    spelled like the lower-cased word, else identifier", for words of every length and letter case -/
theorem keyword_lookup_spec (w : Bytes) : wordKind w = keywordSpec w := wordKind_eq_spec w

/-- the perfect-hash table the Rust const evaluation builds exists (no collision, all in range) -/
theorem keyword_table_builds : (mkLookupTable keywords).isSome = true := by decide +kernel

/-- the translator found the gperf shape of `hash_keyword` and the table size expression unchanged -/
theorem hash_shape_unchanged : hashShapeOk = true ∧ lookupTableSizeIsAsso0 = true := by decide

-- Non-vacuity of the `ValidUtf8` hypothesis: the sample below (with `é`) is well-formed.
example : validUtf8 [66, 101, 103, 105, 110, 32, 123, 99, 125, 32, 195, 169, 32, 227, 128, 128, 101, 110, 100] = true := by
  decide +kernel

-- Non-vacuity: a concrete input with a comment, a directive, a keyword in mixed case, a
-- multi-line string and non-ASCII text is accepted by the model and yields 10 tokens.
example : (lex [66, 101, 103, 105, 110, 32, 123, 99, 125, 32, 120, 32, 58, 61, 32, 39, 39, 39, 10, 32, 97, 10, 32, 39, 39, 39, 59, 123, 36, 82, 43, 125, 32, 195, 169, 32, 101, 110, 100]).map List.length = some 10 := by
  decide +kernel

/-- **Token boundaries and kinds do not depend on the position in the text or on what follows.**
    What the scanner finds at the head of `p ++ s` (blanks, end, kind, next state) it finds at the
    head of `p ++ s'` for every other continuation `s'`, as soon as the token ends three bytes (one
    character of lookahead) before the end of `p`.  Since the scanner only ever looks at the text from
    the current offset on (`lexFuel` passes `inp.drop e`), what precedes a token matters only through
    the three-field state.  Holds for every token class and every length. -/
theorem scan_is_position_independent (st : LexState) (p s s' : Bytes) (ws e : Nat) (k : RawKind) (st' : LexState)
    (ht : countTrailingWs (p ++ s) ≤ s.length)
    (h : lexOne false st (p ++ s) = some (some (ws, e, k, st'))) (he : e + 3 ≤ p.length) :
    lexOne false st (p ++ s') = some (some (ws, e, k, st')) :=
  lexOne_local st p s s' ws e k st' ht h he

end Pasfmt.C13
