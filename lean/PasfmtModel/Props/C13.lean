/-
  C13 — Scanning is lossless and follows the Delphi lexical rules at any length.

  Property theorems only (helper lemmas live in `Proofs/`).  `lex` is the exact model of
  `DelphiLexer::lex` (`Model/Lexer.lean`), tied to the code by the `lex` correspondence stream.
-/
import PasfmtModel.Proofs.LexShape
import PasfmtModel.Proofs.Simd
import PasfmtModel.Proofs.Keywords
import PasfmtModel.Proofs.LexTotal
import PasfmtModel.Proofs.LexBoundaries
import PasfmtModel.Proofs.LexLocal6
import PasfmtModel.Proofs.LexSpecs

namespace Pasfmt.C13

/-- scanning is total: for every byte string (so for every UTF-8 text) a token list is returned; no
    sub-lexer runs out of fuel, no token is empty (the loop always makes progress) and no slice
    leaves the text, with either identifier routine.  (Slices on character boundaries: see
    `lex_char_boundaries`.) -/
theorem lex_total (simd : Bool) (s : Bytes) : ∃ toks, lexWith simd s = some toks := lexWith_total simd s

/-- all boundaries fall on character boundaries: for well-formed UTF-8 input the leading blanks and the
    content of every token are well-formed UTF-8 (every offset at which the Rust scanner slices the
    `&str` is a character boundary), with either identifier routine -/
theorem lex_char_boundaries (simd : Bool) (s : Bytes) (toks : List RawTok) (hv : ValidUtf8 s)
    (h : lexWith simd s = some toks) : ∀ t ∈ toks, ValidUtf8 t.ws ∧ ValidUtf8 t.content :=
  lexWith_char_boundaries simd s toks hv h

/-- leading blanks and contents of the tokens concatenate back to exactly the input -/
theorem lex_lossless (s : Bytes) (toks : List RawTok) (h : lex s = some toks) :
    toks.flatMap (fun t => t.ws ++ t.content) = s :=
  lex_lossless_with false s toks h

/-- exactly one end-of-file token, last, with empty content -/
theorem lex_single_eof_last (s : Bytes) (toks : List RawTok) (h : lex s = some toks) :
    ∃ pre e, toks = pre ++ [e] ∧ e.kind = .rEof ∧ e.content = [] ∧ ∀ t ∈ pre, t.kind ≠ .rEof := by
  obtain ⟨pre, e, hp, he, hall⟩ := lexFuel_shape false _ _ _ _ h
  exact ⟨pre, e, hp, he.kind_eq, he.content_nil, fun t ht => (hall t ht).kind_ne⟩

/-- the leading whitespace of every token consists of blanks only (bytes ≤ 0x20 and U+3000), and
    is absorbed by blank-stripping whatever follows it -/
theorem lex_ws_blank (s : Bytes) (toks : List RawTok) (h : lex s = some toks) :
    ∀ t ∈ toks, BlankOnly t.ws ∧ Gap t.ws := by
  obtain ⟨pre, e, hp, he, hall⟩ := lexFuel_shape false _ _ _ _ h
  intro t ht
  rw [hp] at ht
  rcases List.mem_append.1 ht with h1 | h1
  · exact ⟨(hall t h1).ws_gap.blankOnly, (hall t h1).ws_gap⟩
  · simp at h1; subst h1; exact ⟨he.ws_gap.blankOnly, he.ws_gap⟩

/-- every token but the last has non-empty content starting at a non-blank character -/
theorem lex_nonempty_nonblank_start (s : Bytes) (toks : List RawTok) (h : lex s = some toks) :
    ∀ t ∈ toks, t.kind ≠ .rEof →
      ∃ b r, t.content = b :: r ∧ ¬ b ≤ 0x20 ∧ ¬ ([0xE3, 0x80, 0x80] <+: t.content) := by
  obtain ⟨pre, e, hp, he, hall⟩ := lexFuel_shape false _ _ _ _ h
  intro t ht hk
  rw [hp] at ht
  rcases List.mem_append.1 ht with h1 | h1
  · exact (hall t h1).nonblank
  · simp at h1; subst h1; exact absurd he.kind_eq hk

/-- the AVX2 identifier routine (lane-wise model with signed compares, 32-byte chunks, non-ASCII
    bail-out, `trailing_ones`, scalar tail) returns the same offset as the generic routine for
    every byte string and every chunk budget -/
theorem ident_simd_eq_scalar (fuel : Nat) (l : Bytes) : identLenSimd fuel l = identLen l :=
  identLenSimd_eq fuel l

/-- hence the whole token stream does not depend on the CPU-specific routine selected at run time -/
theorem lex_simd_eq_scalar (s : Bytes) : lexWith true s = lex s := lexWith_simd s

/-- keyword recognition (perfect hash + case-insensitive compare) is exactly "the table entry
    spelled like the lower-cased word, else identifier", for words of every length and letter case -/
theorem keyword_lookup_spec (w : Bytes) : wordKind w = keywordSpec w := wordKind_eq_spec w

/-- the perfect-hash table the Rust const evaluation builds exists (no collision, all in range) -/
theorem keyword_table_builds : (mkLookupTable keywords).isSome = true := by decide +kernel

/-- the translator found the gperf shape of `hash_keyword` and the table size expression unchanged -/
theorem hash_shape_unchanged : hashShapeOk = true ∧ lookupTableSizeIsAsso0 = true := by decide

-- Non-vacuity of the `ValidUtf8` hypothesis: the sample below (with `é`) is well-formed.
example : validUtf8 [66, 101, 103, 105, 110, 32, 123, 99, 125, 32, 195, 169, 32, 227, 128, 128, 101, 110, 100] = true := by
  decide +kernel

-- Non-vacuity: a concrete input with a comment, a directive, a keyword in mixed case, a
-- multi-line string and non-ASCII text is accepted by the model and yields 10 tokens.
example : (lex [66, 101, 103, 105, 110, 32, 123, 99, 125, 32, 120, 32, 58, 61, 32, 39, 39, 39, 10, 32, 97, 10, 32, 39, 39, 39, 59, 123, 36, 82, 43, 125, 32, 195, 169, 32, 101, 110, 100]).map List.length = some 10 := by
  decide +kernel

/-- **Token boundaries and kinds do not depend on the position in the text or on what follows.**
    What the scanner finds at the head of `p ++ s` (blanks, end, kind, next state) it finds at the
    head of `p ++ s'` for every other continuation `s'`, as soon as the token ends three bytes (one
    character of lookahead) before the end of `p`.  Since the scanner only ever looks at the text from
    the current offset on (`lexFuel` passes `inp.drop e`), what precedes a token matters only through
    the three-field state.  Holds for every token class and every length. -/
theorem scan_is_position_independent (st : LexState) (p s s' : Bytes) (ws e : Nat) (k : RawKind) (st' : LexState)
    (ht : countTrailingWs (p ++ s) ≤ s.length)
    (h : lexOne false st (p ++ s) = some (some (ws, e, k, st'))) (he : e + 3 ≤ p.length) :
    lexOne false st (p ++ s') = some (some (ws, e, k, st')) :=
  lexOne_local st p s s' ws e k st' ht h he

/-! ### Declarative specifications of the sub-lexers

  Each statement is about the model's own sub-lexer function (`identLen`, `lineCommentEnd`,
  `blockComment`, `decNumberRest`, `countHex`, `countBinary`, `textLiteral`, `wordKind`) and holds
  for every byte string, of any length.  The specifications (`Proofs/LexSpecs.lean`) are phrased
  with "longest prefix in a language" (`LongestPrefixIn`), "first occurrence" (`FirstOcc`) and small
  grammars; the `*_token_spec` theorems at the end connect the sub-lexers to the tokens via the
  dispatch tables. -/

/-- **Identifiers are maximal munch.**  Identifier bytes are ASCII letters, digits, `_` and every
    byte `≥ 0x80` (all bytes of non-ASCII characters).  A length `n` is an *identifier prefix* of
    the text (its first `n` bytes are identifier bytes and U+3000 = `E3 80 80`, the ideographic
    space, starts at none of these `n` positions) exactly when `n ≤ identLen l`: the scanner returns
    the greatest such length.  It stops at the end of the text, at a byte that is not an identifier
    byte, or right before U+3000 — whatever the length of the identifier. -/
theorem ident_maximal_munch (l : Bytes) :
    (∀ n, IdentPrefix l n ↔ n ≤ identLen l) ∧
    (identLen l = l.length ∨ (∃ b, l[identLen l]? = some b ∧ isIdentByte b = false) ∨
      OccursAt u3000 l (identLen l)) :=
  ⟨identPrefix_iff l, identLen_stop l⟩

/-- the identifier byte class in plain terms -/
theorem ident_byte_class (b : UInt8) : isIdentByte b = true ↔
    (0x41 ≤ b ∧ b ≤ 0x5A) ∨ (0x61 ≤ b ∧ b ≤ 0x7A) ∨ (0x30 ≤ b ∧ b ≤ 0x39) ∨ b = 0x5F ∨ 0x80 ≤ b :=
  isIdentByte_iff b

/-- closed form of the identifier scan: the run of identifier bytes (`takeWhile`), cut at the first
    occurrence of U+3000 in the text -/
theorem ident_closed_form (l : Bytes) :
    identLen l = min (l.takeWhile isIdentByte).length ((findSub u3000 l).getD l.length) :=
  identLen_eq_spec l

-- `ab_1é` is scanned as one identifier (6 bytes) and stops before U+3000
example : identLen [97, 98, 95, 49, 195, 169, 227, 128, 128, 120] = 6 := by decide

/-- **A `//` comment extends exactly up to (not including) the first CR or LF, or to the end of the
    text**: its body is the longest prefix of the bytes after `//` without CR and LF, i.e.
    `takeWhile (≠ CR, ≠ LF)`; the scan stops at the end of the text or on a CR / LF byte. -/
theorem line_comment_spec (l : Bytes) :
    LongestPrefixIn NoLineBreak l (lineCommentEnd l) ∧
    l.take (lineCommentEnd l) = l.takeWhile (fun b => !(b == 0x0A || b == 0x0D)) ∧
    (lineCommentEnd l = l.length ∨ l[lineCommentEnd l]? = some 0x0A ∨ l[lineCommentEnd l]? = some 0x0D) :=
  ⟨lineCommentEnd_longest l, take_lineCommentEnd l, lineCommentEnd_stop l⟩

-- ` a` CR LF `b`: the comment body is ` a`
example : lineCommentEnd [32, 97, 13, 10, 98] = 2 := by decide

/-- **Block comments.**  For the text `l` after the opener (`{` or `(*`), the result
    `(token length, kind)` of the block-comment scanner is the unique pair allowed by
    `BlockCommentSpec`:
    * if the closer (`}` resp. `*)`) occurs in `l`, the token ends right after its *first* occurrence,
      and the kind is multi-line block if the token text contains a line feed (a lone CR does not
      count), otherwise individual block if the comment is the first token on its line
      (`nlBefore`), otherwise inline block;
    * if the closer does not occur, the token runs to the end of the text minus the trailing blanks
      (`tokLen - trim`) and is always classified multi-line block. -/
theorem block_comment_spec (trim : Nat) (kind : BlockCommentKind) (openLen tokLen : Nat) (nlBefore : Bool)
    (l : Bytes) (x : Nat × CommentKind) :
    BlockCommentSpec kind trim openLen tokLen nlBefore l x ↔ x = blockComment trim kind openLen tokLen nlBefore l :=
  ⟨fun h => BlockCommentSpec.unique h (blockComment_sat trim kind openLen tokLen nlBefore l),
   fun h => h ▸ blockComment_sat trim kind openLen tokLen nlBefore l⟩

/-- the search used by comments and directives returns the offset just after the first occurrence
    of the closer, and fails exactly when there is none -/
theorem block_comment_end_spec (k : BlockCommentKind) (l : Bytes) :
    (∀ e, findBlockCommentEnd k l = some e ↔ ∃ i, e = i + (closer k).length ∧ FirstOcc (closer k) l i) ∧
    (findBlockCommentEnd k l = none ↔ ∀ j, ¬ OccursAt (closer k) l j) :=
  ⟨findBlockCommentEnd_some_iff k l, findBlockCommentEnd_none_iff k l⟩

-- `{a}b} `: ends after the first `}`; inline.   `{a` LF `b}`: multi-line.   `{a` CR `b}` on its own line: individual.
example : blockComment 0 .brace 1 6 false [97, 125, 98, 125, 32] = (3, .cInlineBlock) := by decide
example : blockComment 0 .brace 1 5 false [97, 10, 98, 125] = (5, .cMultilineBlock) := by decide
example : blockComment 0 .brace 1 5 true [97, 13, 98, 125] = (5, .cIndividualBlock) := by decide
-- `(* a *  ` unterminated (9 bytes from the opener, 2 trailing blanks): 7 bytes, multi-line
example : blockComment 2 .parenStar 2 9 true [32, 97, 32, 42, 32, 32] = (7, .cMultilineBlock) := by decide

/-- **Decimal literals are maximal munch over the grammar**
    `digit (digit|_)* ( '.' digit (digit|_)* )? ( (e|E) (+|-)? (digit (digit|_)*)? )?`:
    what the scanner consumes after the first digit is the longest prefix of the remaining text in
    the language `DecTail` (the grammar without its first digit).  Consequences: the fraction is
    taken only if a digit follows the `.` (so `1..2` and `1.e3` stop after `1`, and `1._5` too); an
    `e`/`E` is consumed even if no digit follows (`1e`, `1e+` are whole tokens), but the exponent
    digits must not start with `_`. -/
theorem decimal_number_spec (r : Bytes) : LongestPrefixIn DecTail r (decNumberRest r) :=
  decNumberRest_longest r

/-- **Hexadecimal literals**: after `$`, the longest run of hex digits and underscores -/
theorem hex_number_spec (r : Bytes) :
    LongestPrefixIn (AllBytes isHexByte) r (countHex r) ∧ r.take (countHex r) = r.takeWhile isHexByte ∧
    ∀ b, isHexByte b = true ↔ (0x30 ≤ b ∧ b ≤ 0x39) ∨ (0x61 ≤ b ∧ b ≤ 0x66) ∨ (0x41 ≤ b ∧ b ≤ 0x46) ∨ b = 0x5F :=
  ⟨countWhile_longest isHexByte r, take_countWhile isHexByte r, isHexByte_iff⟩

/-- **Binary literals**: after `%`, the longest run of `0`, `1` and underscores -/
theorem binary_number_spec (r : Bytes) :
    LongestPrefixIn (AllBytes isBinaryByte) r (countBinary r) ∧
    r.take (countBinary r) = r.takeWhile isBinaryByte ∧
    ∀ b, isBinaryByte b = true ↔ b = 0x30 ∨ b = 0x31 ∨ b = 0x5F :=
  ⟨countWhile_longest isBinaryByte r, take_countWhile isBinaryByte r, isBinaryByte_iff⟩

-- after the first digit: `..2` → nothing (range operator);  `_0.5_e-3_x` → `_0.5_e-3_`;  `e+` → `e+`;
-- `._5` → nothing;  `E5.3` → `E5`
example : decNumberRest [46, 46, 50] = 0 := by decide
example : decNumberRest [95, 48, 46, 53, 95, 101, 45, 51, 95, 120] = 9 := by decide
example : decNumberRest [101, 43] = 2 := by decide
example : decNumberRest [46, 95, 53] = 0 := by decide
example : decNumberRest [69, 53, 46, 51] = 2 := by decide
example : countHex [70, 102, 95, 48, 71] = 4 ∧ countBinary [49, 95, 48, 50] = 3 := by decide

/-- **Text literals.**  The result `(length, kind)` of `text_literal` on a text that starts with `'`
    or `#` is the unique pair allowed by `TextLiteralSpec`:
    * an odd number (≥ 3) of quotes directly followed by CR/LF opens a multi-line literal; it ends
      right after the first later occurrence of a run of as many quotes (plain substring search: a
      longer run of quotes closes it too, after its first quotes); without one it is unterminated
      and takes the whole rest of the text (trailing blanks included);
    * otherwise the literal is a maximal sequence of items (`TextItems`): quoted segments `'…'`
      without quote/CR/LF inside (so `''` inside a string is the end of one segment and the start of
      the next), and character codes `#` + digits/underscores (the first may be `_`), `#$` + hex
      digits, `#%` + binary digits, the digit runs being maximal.  It ends, single-line, where the
      next byte is neither `'` nor `#`; it ends, unterminated, at the first malformed item: a quoted
      segment cut by CR, LF or the end of the text (kept up to there), a `#` with no code (the `#`
      is kept), `#$`/`#%` with no digit (two bytes kept). -/
theorem string_literal_spec (l : Bytes) (x : Nat × TextLiteralKind) :
    TextLiteralSpec l x ↔ x = textLiteral l :=
  ⟨textLiteral_only l x, fun h => h ▸ textLiteral_sat l⟩

/-- the single-line part alone: the model's loop (with the fuel it is given) computes the unique
    result allowed by the item grammar -/
theorem string_items_spec (l : Bytes) (x : Nat × TextLiteralKind) :
    TextItems l x ↔ x = textLiteralLoop (l.length + 1) l :=
  ⟨tl_only l x, fun h => h ▸ tl_sat l⟩

-- `'a''b'#13#$0A'c' x` → 16 bytes, single-line;  `'abc` LF … → 4 bytes, unterminated;
-- three quotes, LF, ` a`, LF, ` `, five quotes, `x` → multi-line, closed by the first three of the five quotes (11 bytes)
example : textLiteral [39, 97, 39, 39, 98, 39, 35, 49, 51, 35, 36, 48, 65, 39, 99, 39, 32, 120] = (16, .tSingleLine) := by
  decide
example : textLiteral [39, 97, 98, 99, 10, 100, 39] = (4, .tUnterminated) := by decide
example : textLiteral [39, 39, 39, 10, 32, 97, 10, 32, 39, 39, 39, 39, 39, 120] = (11, .tMultiLine) := by decide
example : textLiteral [35, 36, 32, 120] = (2, .tUnterminated) := by decide

/-- **Keywords are recognised in any letter case**: the kind of a word is the kind of its lower-cased
    and of its upper-cased spelling, and two words that differ only in ASCII letter case have the
    same kind (corollary of `keyword_lookup_spec`) -/
theorem keyword_case_insensitive (w : Bytes) :
    wordKind w = wordKind (asciiLower w) ∧ wordKind w = wordKind (asciiUpper w) ∧
    ∀ v, eqIgnoreCase w v = true → wordKind w = wordKind v :=
  ⟨(wordKind_lower w).symm, (wordKind_upper w).symm, fun v h => wordKind_of_eqIgnoreCase w v h⟩

-- `BeGiN`
example : wordKind [66, 101, 71, 105, 78] = .rKeyword .kBegin := by decide +kernel

/-! ### from the sub-lexers to the tokens

  `lexOne` is one step of the scanner (`whitespace_and_token`).  For a text whose first non-blank
  byte is `b`, the dispatch tables select the sub-lexer, so the token's end and kind are given by
  the functions specified above.  `stepState` is the scanner state after the token, `nlBeforeOf`
  says whether the token is the first on its line. -/

/-- a token starting with a letter (outside `asm` blocks) is the letter plus the identifier run
    after it; it is an identifier right after a `.`, otherwise what the keyword table says -/
theorem word_token_spec (simd : Bool) (st : LexState) (inp : Bytes) (b : UInt8) (r : Bytes)
    (hasm : st.inAsm = false) (hd : inp.drop (countLeadingWs inp) = b :: r) (hb : isAlpha b = true) :
    let k : RawKind := if st.prevReal == some (.rOp .oDot) then .rIdentifier
      else wordKind ((b :: r).take (1 + identLen r))
    lexOne simd st inp =
      some (some (countLeadingWs inp, countLeadingWs inp + (1 + identLen r), k,
        stepState st k (k == .rKeyword .kAsm))) :=
  lexOne_word simd st inp b r hasm hd hb

/-- a token starting with `_` is an identifier: `_` plus the identifier run after it -/
theorem underscore_token_spec (simd : Bool) (st : LexState) (inp : Bytes) (r : Bytes)
    (hd : inp.drop (countLeadingWs inp) = 0x5F :: r) :
    lexOne simd st inp =
      some (some (countLeadingWs inp, countLeadingWs inp + (1 + identLen r), .rIdentifier,
        stepState st .rIdentifier st.inAsm)) :=
  lexOne_underscore simd st inp r hd

/-- a token starting with a digit (outside `asm` blocks) is a decimal literal: the digit plus
    `decNumberRest` -/
theorem decimal_token_spec (simd : Bool) (st : LexState) (inp : Bytes) (b : UInt8) (r : Bytes)
    (hasm : st.inAsm = false) (hd : inp.drop (countLeadingWs inp) = b :: r) (hb : isDigit b = true) :
    lexOne simd st inp =
      some (some (countLeadingWs inp, countLeadingWs inp + (1 + decNumberRest r), .rNumberLiteral .nDecimal,
        stepState st (.rNumberLiteral .nDecimal) false)) :=
  lexOne_decimal simd st inp b r hasm hd hb

/-- tokens starting with `$` / `%` are hex / binary literals (in every scanner state) -/
theorem hex_binary_token_spec (simd : Bool) (st : LexState) (inp : Bytes) (r : Bytes) :
    (inp.drop (countLeadingWs inp) = 0x24 :: r →
      lexOne simd st inp =
        some (some (countLeadingWs inp, countLeadingWs inp + (1 + countHex r), .rNumberLiteral .nHex,
          stepState st (.rNumberLiteral .nHex) st.inAsm))) ∧
    (inp.drop (countLeadingWs inp) = 0x25 :: r →
      lexOne simd st inp =
        some (some (countLeadingWs inp, countLeadingWs inp + (1 + countBinary r), .rNumberLiteral .nBinary,
          stepState st (.rNumberLiteral .nBinary) st.inAsm))) :=
  ⟨lexOne_hex simd st inp r, lexOne_binary simd st inp r⟩

/-- a token starting with `'` or `#` is a text literal with the length and kind of `textLiteral`
    (in every scanner state) -/
theorem text_token_spec (simd : Bool) (st : LexState) (inp : Bytes) (b : UInt8) (r : Bytes)
    (hd : inp.drop (countLeadingWs inp) = b :: r) (hb : b = 0x27 ∨ b = 0x23) :
    lexOne simd st inp =
      some (some (countLeadingWs inp, countLeadingWs inp + (textLiteral (b :: r)).1,
        .rTextLiteral (textLiteral (b :: r)).2, stepState st (.rTextLiteral (textLiteral (b :: r)).2) st.inAsm)) :=
  lexOne_text simd st inp b r hd hb

/-- a token starting with `//` is a line comment up to `lineCommentEnd`; individual if it is the
    first token on its line, otherwise inline (in every scanner state) -/
theorem line_comment_token_spec (simd : Bool) (st : LexState) (inp : Bytes) (r : Bytes)
    (hd : inp.drop (countLeadingWs inp) = 0x2F :: 0x2F :: r) :
    let k : RawKind := .rComment (if nlBeforeOf st inp then .cIndividualLine else .cInlineLine)
    lexOne simd st inp =
      some (some (countLeadingWs inp, countLeadingWs inp + (2 + lineCommentEnd r), k, stepState st k st.inAsm)) :=
  lexOne_lineComment simd st inp r hd

/-- a token starting with `{` resp. `(*`, not followed by `$`, is a block comment with the length and
    kind of `blockComment`, where `trim` is the length of the blank run at the end of the whole
    remaining text and `tokLen` the number of bytes from the opener to the end of the text -/
theorem block_comment_token_spec (simd : Bool) (st : LexState) (inp : Bytes) (r : Bytes) (hnd : ∀ t, r ≠ 0x24 :: t) :
    (inp.drop (countLeadingWs inp) = 0x7B :: r →
      let res := blockComment (countTrailingWs inp) .brace 1 (r.length + 1) (nlBeforeOf st inp) r
      lexOne simd st inp =
        some (some (countLeadingWs inp, countLeadingWs inp + res.1, .rComment res.2,
          stepState st (.rComment res.2) st.inAsm))) ∧
    (inp.drop (countLeadingWs inp) = 0x28 :: 0x2A :: r →
      let res := blockComment (countTrailingWs inp) .parenStar 2 (r.length + 2) (nlBeforeOf st inp) r
      lexOne simd st inp =
        some (some (countLeadingWs inp, countLeadingWs inp + res.1, .rComment res.2,
          stepState st (.rComment res.2) st.inAsm))) :=
  ⟨fun hd => lexOne_braceComment simd st inp r hd hnd, fun hd => lexOne_parenComment simd st inp r hd hnd⟩

end Pasfmt.C13
