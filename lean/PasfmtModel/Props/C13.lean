/-
  C13 — Scanning is lossless and follows the Delphi lexical rules at any length.

  Property theorems only (helper lemmas live in `Proofs/`).  `lex` is the exact model of
  `DelphiLexer::lex` (`Model/Lexer.lean`), tied to the code by the `lex` correspondence stream.
-/
import PasfmtModel.Proofs.LexShape
import PasfmtModel.Proofs.Simd
import PasfmtModel.Proofs.Keywords
import PasfmtModel.Proofs.LexTotal
import PasfmtModel.Proofs.LexBoundaries
import PasfmtModel.Proofs.LexLocal6
import PasfmtModel.Proofs.LexSpecs
import PasfmtModel.Proofs.LexSpecs2

namespace Pasfmt.C13

/-- scanning is total: for every byte string (so for every UTF-8 text) a token list is returned; no
    sub-lexer runs out of fuel, no token is empty (the loop always makes progress) and no slice
    leaves the text, with either identifier routine.  (Slices on character boundaries: see
    `lex_char_boundaries`.) -/
theorem lex_total (simd : Bool) (s : Bytes) : ∃ toks, lexWith simd s = some toks := lexWith_total simd s

/-- all boundaries fall on character boundaries: for well-formed UTF-8 input the leading blanks and the
    content of every token are well-formed UTF-8 (every offset at which the Rust scanner slices the
    `&str` is a character boundary), with either identifier routine -/
theorem lex_char_boundaries (simd : Bool) (s : Bytes) (toks : List RawTok) (hv : ValidUtf8 s)
    (h : lexWith simd s = some toks) : ∀ t ∈ toks, ValidUtf8 t.ws ∧ ValidUtf8 t.content :=
  lexWith_char_boundaries simd s toks hv h

/-- leading blanks and contents of the tokens concatenate back to exactly the input -/
theorem lex_lossless (s : Bytes) (toks : List RawTok) (h : lex s = some toks) :
    toks.flatMap (fun t => t.ws ++ t.content) = s :=
  lex_lossless_with false s toks h

/-- exactly one end-of-file token, last, with empty content -/
theorem lex_single_eof_last (s : Bytes) (toks : List RawTok) (h : lex s = some toks) :
    ∃ pre e, toks = pre ++ [e] ∧ e.kind = .rEof ∧ e.content = [] ∧ ∀ t ∈ pre, t.kind ≠ .rEof := by
  obtain ⟨pre, e, hp, he, hall⟩ := lexFuel_shape false _ _ _ _ h
  exact ⟨pre, e, hp, he.kind_eq, he.content_nil, fun t ht => (hall t ht).kind_ne⟩

/-- the leading whitespace of every token consists of blanks only (bytes ≤ 0x20 and U+3000), and
    is absorbed by blank-stripping whatever follows it -/
theorem lex_ws_blank (s : Bytes) (toks : List RawTok) (h : lex s = some toks) :
    ∀ t ∈ toks, BlankOnly t.ws ∧ Gap t.ws := by
  obtain ⟨pre, e, hp, he, hall⟩ := lexFuel_shape false _ _ _ _ h
  intro t ht
  rw [hp] at ht
  rcases List.mem_append.1 ht with h1 | h1
  · exact ⟨(hall t h1).ws_gap.blankOnly, (hall t h1).ws_gap⟩
  · simp at h1; subst h1; exact ⟨he.ws_gap.blankOnly, he.ws_gap⟩

/-- every token but the last has non-empty content starting at a non-blank character -/
theorem lex_nonempty_nonblank_start (s : Bytes) (toks : List RawTok) (h : lex s = some toks) :
    ∀ t ∈ toks, t.kind ≠ .rEof →
      ∃ b r, t.content = b :: r ∧ ¬ b ≤ 0x20 ∧ ¬ ([0xE3, 0x80, 0x80] <+: t.content) := by
  obtain ⟨pre, e, hp, he, hall⟩ := lexFuel_shape false _ _ _ _ h
  intro t ht hk
  rw [hp] at ht
  rcases List.mem_append.1 ht with h1 | h1
  · exact (hall t h1).nonblank
  · simp at h1; subst h1; exact absurd he.kind_eq hk

/-- the AVX2 identifier routine (lane-wise model with signed compares, 32-byte chunks, non-ASCII
    bail-out, `trailing_ones`, scalar tail) returns the same offset as the generic routine for
    every byte string and every chunk budget -/
theorem ident_simd_eq_scalar (fuel : Nat) (l : Bytes) : identLenSimd fuel l = identLen l :=
  identLenSimd_eq fuel l

/-- hence the whole token stream does not depend on the CPU-specific routine selected at run time -/
theorem lex_simd_eq_scalar (s : Bytes) : lexWith true s = lex s := lexWith_simd s

/-- keyword recognition (perfect hash + case-insensitive compare) is exactly "the table entry
    spelled like the lower-cased word, else identifier", for words of every length and letter case -/
theorem keyword_lookup_spec (w : Bytes) : wordKind w = keywordSpec w := wordKind_eq_spec w

/-- the perfect-hash table the Rust const evaluation builds exists (no collision, all in range) -/
theorem keyword_table_builds : (mkLookupTable keywords).isSome = true := by decide +kernel

/-- the translator found the gperf shape of `hash_keyword` and the table size expression unchanged -/
theorem hash_shape_unchanged : hashShapeOk = true ∧ lookupTableSizeIsAsso0 = true := by decide

-- Non-vacuity of the `ValidUtf8` hypothesis: the sample below (with `é`) is well-formed.
example : validUtf8 [66, 101, 103, 105, 110, 32, 123, 99, 125, 32, 195, 169, 32, 227, 128, 128, 101, 110, 100] = true := by
  decide +kernel

-- Non-vacuity: a concrete input with a comment, a directive, a keyword in mixed case, a
-- multi-line string and non-ASCII text is accepted by the model and yields 10 tokens.
example : (lex [66, 101, 103, 105, 110, 32, 123, 99, 125, 32, 120, 32, 58, 61, 32, 39, 39, 39, 10, 32, 97, 10, 32, 39, 39, 39, 59, 123, 36, 82, 43, 125, 32, 195, 169, 32, 101, 110, 100]).map List.length = some 10 := by
  decide +kernel

/-- **Token boundaries and kinds do not depend on the position in the text or on what follows.**
    What the scanner finds at the head of `p ++ s` (blanks, end, kind, next state) it finds at the
    head of `p ++ s'` for every other continuation `s'`, as soon as the token ends three bytes (one
    character of lookahead) before the end of `p`.  Since the scanner only ever looks at the text from
    the current offset on (`lexFuel` passes `inp.drop e`), what precedes a token matters only through
    the three-field state.  Holds for every token class and every length. -/
theorem scan_is_position_independent (st : LexState) (p s s' : Bytes) (ws e : Nat) (k : RawKind) (st' : LexState)
    (ht : countTrailingWs (p ++ s) ≤ s.length)
    (h : lexOne false st (p ++ s) = some (some (ws, e, k, st'))) (he : e + 3 ≤ p.length) :
    lexOne false st (p ++ s') = some (some (ws, e, k, st')) :=
  lexOne_local st p s s' ws e k st' ht h he

/-! ### Declarative specifications of the sub-lexers

  Each statement is about the model's own sub-lexer function (`identLen`, `lineCommentEnd`,
  `blockComment`, `decNumberRest`, `countHex`, `countBinary`, `textLiteral`, `wordKind`) and holds
  for every byte string, of any length.  The specifications (`Proofs/LexSpecs.lean`) are phrased
  with "longest prefix in a language" (`LongestPrefixIn`), "first occurrence" (`FirstOcc`) and small
  grammars; the `*_token_spec` theorems at the end connect the sub-lexers to the tokens via the
  dispatch tables. -/

/-- **Identifiers are maximal munch.**  Identifier bytes are ASCII letters, digits, `_` and every
    byte `≥ 0x80` (all bytes of non-ASCII characters).  A length `n` is an *identifier prefix* of
    the text (its first `n` bytes are identifier bytes and U+3000 = `E3 80 80`, the ideographic
    space, starts at none of these `n` positions) exactly when `n ≤ identLen l`: the scanner returns
    the greatest such length.  It stops at the end of the text, at a byte that is not an identifier
    byte, or right before U+3000 — whatever the length of the identifier. -/
theorem ident_maximal_munch (l : Bytes) :
    (∀ n, IdentPrefix l n ↔ n ≤ identLen l) ∧
    (identLen l = l.length ∨ (∃ b, l[identLen l]? = some b ∧ isIdentByte b = false) ∨
      OccursAt u3000 l (identLen l)) :=
  ⟨identPrefix_iff l, identLen_stop l⟩

/-- the identifier byte class in plain terms -/
theorem ident_byte_class (b : UInt8) : isIdentByte b = true ↔
    (0x41 ≤ b ∧ b ≤ 0x5A) ∨ (0x61 ≤ b ∧ b ≤ 0x7A) ∨ (0x30 ≤ b ∧ b ≤ 0x39) ∨ b = 0x5F ∨ 0x80 ≤ b :=
  isIdentByte_iff b

/-- closed form of the identifier scan: the run of identifier bytes (`takeWhile`), cut at the first
    occurrence of U+3000 in the text -/
theorem ident_closed_form (l : Bytes) :
    identLen l = min (l.takeWhile isIdentByte).length ((findSub u3000 l).getD l.length) :=
  identLen_eq_spec l

-- `ab_1é` is scanned as one identifier (6 bytes) and stops before U+3000
example : identLen [97, 98, 95, 49, 195, 169, 227, 128, 128, 120] = 6 := by decide

/-- **A `//` comment extends exactly up to (not including) the first CR or LF, or to the end of the
    text**: its body is the longest prefix of the bytes after `//` without CR and LF, i.e.
    `takeWhile (≠ CR, ≠ LF)`; the scan stops at the end of the text or on a CR / LF byte. -/
theorem line_comment_spec (l : Bytes) :
    LongestPrefixIn NoLineBreak l (lineCommentEnd l) ∧
    l.take (lineCommentEnd l) = l.takeWhile (fun b => !(b == 0x0A || b == 0x0D)) ∧
    (lineCommentEnd l = l.length ∨ l[lineCommentEnd l]? = some 0x0A ∨ l[lineCommentEnd l]? = some 0x0D) :=
  ⟨lineCommentEnd_longest l, take_lineCommentEnd l, lineCommentEnd_stop l⟩

-- ` a` CR LF `b`: the comment body is ` a`
example : lineCommentEnd [32, 97, 13, 10, 98] = 2 := by decide

/-- **Block comments.**  For the text `l` after the opener (`{` or `(*`), the result
    `(token length, kind)` of the block-comment scanner is the unique pair allowed by
    `BlockCommentSpec`:
    * if the closer (`}` resp. `*)`) occurs in `l`, the token ends right after its *first* occurrence,
      and the kind is multi-line block if the token text contains a line feed (a lone CR does not
      count), otherwise individual block if the comment is the first token on its line
      (`nlBefore`), otherwise inline block;
    * if the closer does not occur, the token runs to the end of the text minus the trailing blanks
      (`tokLen - trim`) and is always classified multi-line block. -/
theorem block_comment_spec (trim : Nat) (kind : BlockCommentKind) (openLen tokLen : Nat) (nlBefore : Bool)
    (l : Bytes) (x : Nat × CommentKind) :
    BlockCommentSpec kind trim openLen tokLen nlBefore l x ↔ x = blockComment trim kind openLen tokLen nlBefore l :=
  ⟨fun h => BlockCommentSpec.unique h (blockComment_sat trim kind openLen tokLen nlBefore l),
   fun h => h ▸ blockComment_sat trim kind openLen tokLen nlBefore l⟩

/-- the search used by comments and directives returns the offset just after the first occurrence
    of the closer, and fails exactly when there is none -/
theorem block_comment_end_spec (k : BlockCommentKind) (l : Bytes) :
    (∀ e, findBlockCommentEnd k l = some e ↔ ∃ i, e = i + (closer k).length ∧ FirstOcc (closer k) l i) ∧
    (findBlockCommentEnd k l = none ↔ ∀ j, ¬ OccursAt (closer k) l j) :=
  ⟨findBlockCommentEnd_some_iff k l, findBlockCommentEnd_none_iff k l⟩

-- `{a}b} `: ends after the first `}`; inline.   `{a` LF `b}`: multi-line.   `{a` CR `b}` on its own line: individual.
example : blockComment 0 .brace 1 6 false [97, 125, 98, 125, 32] = (3, .cInlineBlock) := by decide
example : blockComment 0 .brace 1 5 false [97, 10, 98, 125] = (5, .cMultilineBlock) := by decide
example : blockComment 0 .brace 1 5 true [97, 13, 98, 125] = (5, .cIndividualBlock) := by decide
-- `(* a *  ` unterminated (9 bytes from the opener, 2 trailing blanks): 7 bytes, multi-line
example : blockComment 2 .parenStar 2 9 true [32, 97, 32, 42, 32, 32] = (7, .cMultilineBlock) := by decide

/-- **Decimal literals are maximal munch over the grammar**
    `digit (digit|_)* ( '.' digit (digit|_)* )? ( (e|E) (+|-)? (digit (digit|_)*)? )?`:
    what the scanner consumes after the first digit is the longest prefix of the remaining text in
    the language `DecTail` (the grammar without its first digit).  Consequences: the fraction is
    taken only if a digit follows the `.` (so `1..2` and `1.e3` stop after `1`, and `1._5` too); an
    `e`/`E` is consumed even if no digit follows (`1e`, `1e+` are whole tokens), but the exponent
    digits must not start with `_`. -/
theorem decimal_number_spec (r : Bytes) : LongestPrefixIn DecTail r (decNumberRest r) :=
  decNumberRest_longest r

/-- **Hexadecimal literals**: after `$`, the longest run of hex digits and underscores -/
theorem hex_number_spec (r : Bytes) :
    LongestPrefixIn (AllBytes isHexByte) r (countHex r) ∧ r.take (countHex r) = r.takeWhile isHexByte ∧
    ∀ b, isHexByte b = true ↔ (0x30 ≤ b ∧ b ≤ 0x39) ∨ (0x61 ≤ b ∧ b ≤ 0x66) ∨ (0x41 ≤ b ∧ b ≤ 0x46) ∨ b = 0x5F :=
  ⟨countWhile_longest isHexByte r, take_countWhile isHexByte r, isHexByte_iff⟩

/-- **Binary literals**: after `%`, the longest run of `0`, `1` and underscores -/
theorem binary_number_spec (r : Bytes) :
    LongestPrefixIn (AllBytes isBinaryByte) r (countBinary r) ∧
    r.take (countBinary r) = r.takeWhile isBinaryByte ∧
    ∀ b, isBinaryByte b = true ↔ b = 0x30 ∨ b = 0x31 ∨ b = 0x5F :=
  ⟨countWhile_longest isBinaryByte r, take_countWhile isBinaryByte r, isBinaryByte_iff⟩

-- after the first digit: `..2` → nothing (range operator);  `_0.5_e-3_x` → `_0.5_e-3_`;  `e+` → `e+`;
-- `._5` → nothing;  `E5.3` → `E5`
example : decNumberRest [46, 46, 50] = 0 := by decide
example : decNumberRest [95, 48, 46, 53, 95, 101, 45, 51, 95, 120] = 9 := by decide
example : decNumberRest [101, 43] = 2 := by decide
example : decNumberRest [46, 95, 53] = 0 := by decide
example : decNumberRest [69, 53, 46, 51] = 2 := by decide
example : countHex [70, 102, 95, 48, 71] = 4 ∧ countBinary [49, 95, 48, 50] = 3 := by decide

/-- **Text literals.**  The result `(length, kind)` of `text_literal` on a text that starts with `'`
    or `#` is the unique pair allowed by `TextLiteralSpec`:
    * an odd number (≥ 3) of quotes directly followed by CR/LF opens a multi-line literal; it ends
      right after the first later occurrence of a run of as many quotes (plain substring search: a
      longer run of quotes closes it too, after its first quotes); without one it is unterminated
      and takes the whole rest of the text (trailing blanks included);
    * otherwise the literal is a maximal sequence of items (`TextItems`): quoted segments `'…'`
      without quote/CR/LF inside (so `''` inside a string is the end of one segment and the start of
      the next), and character codes `#` + digits/underscores (the first may be `_`), `#$` + hex
      digits, `#%` + binary digits, the digit runs being maximal.  It ends, single-line, where the
      next byte is neither `'` nor `#`; it ends, unterminated, at the first malformed item: a quoted
      segment cut by CR, LF or the end of the text (kept up to there), a `#` with no code (the `#`
      is kept), `#$`/`#%` with no digit (two bytes kept). -/
theorem string_literal_spec (l : Bytes) (x : Nat × TextLiteralKind) :
    TextLiteralSpec l x ↔ x = textLiteral l :=
  ⟨textLiteral_only l x, fun h => h ▸ textLiteral_sat l⟩

/-- the single-line part alone: the model's loop (with the fuel it is given) computes the unique
    result allowed by the item grammar -/
theorem string_items_spec (l : Bytes) (x : Nat × TextLiteralKind) :
    TextItems l x ↔ x = textLiteralLoop (l.length + 1) l :=
  ⟨tl_only l x, fun h => h ▸ tl_sat l⟩

-- `'a''b'#13#$0A'c' x` → 16 bytes, single-line;  `'abc` LF … → 4 bytes, unterminated;
-- three quotes, LF, ` a`, LF, ` `, five quotes, `x` → multi-line, closed by the first three of the five quotes (11 bytes)
example : textLiteral [39, 97, 39, 39, 98, 39, 35, 49, 51, 35, 36, 48, 65, 39, 99, 39, 32, 120] = (16, .tSingleLine) := by
  decide
example : textLiteral [39, 97, 98, 99, 10, 100, 39] = (4, .tUnterminated) := by decide
example : textLiteral [39, 39, 39, 10, 32, 97, 10, 32, 39, 39, 39, 39, 39, 120] = (11, .tMultiLine) := by decide
example : textLiteral [35, 36, 32, 120] = (2, .tUnterminated) := by decide

/-- **Keywords are recognised in any letter case**: the kind of a word is the kind of its lower-cased
    and of its upper-cased spelling, and two words that differ only in ASCII letter case have the
    same kind (corollary of `keyword_lookup_spec`) -/
theorem keyword_case_insensitive (w : Bytes) :
    wordKind w = wordKind (asciiLower w) ∧ wordKind w = wordKind (asciiUpper w) ∧
    ∀ v, eqIgnoreCase w v = true → wordKind w = wordKind v :=
  ⟨(wordKind_lower w).symm, (wordKind_upper w).symm, fun v h => wordKind_of_eqIgnoreCase w v h⟩

-- `BeGiN`
example : wordKind [66, 101, 71, 105, 78] = .rKeyword .kBegin := by decide +kernel

/-! ### from the sub-lexers to the tokens

  `lexOne` is one step of the scanner (`whitespace_and_token`).  For a text whose first non-blank
  byte is `b`, the dispatch tables select the sub-lexer, so the token's end and kind are given by
  the functions specified above.  `stepState` is the scanner state after the token, `nlBeforeOf`
  says whether the token is the first on its line. -/

/-- a token starting with a letter (outside `asm` blocks) is the letter plus the identifier run
    after it; it is an identifier right after a `.`, otherwise what the keyword table says -/
theorem word_token_spec (simd : Bool) (st : LexState) (inp : Bytes) (b : UInt8) (r : Bytes)
    (hasm : st.inAsm = false) (hd : inp.drop (countLeadingWs inp) = b :: r) (hb : isAlpha b = true) :
    let k : RawKind := if st.prevReal == some (.rOp .oDot) then .rIdentifier
      else wordKind ((b :: r).take (1 + identLen r))
    lexOne simd st inp =
      some (some (countLeadingWs inp, countLeadingWs inp + (1 + identLen r), k,
        stepState st k (k == .rKeyword .kAsm))) :=
  lexOne_word simd st inp b r hasm hd hb

/-- a token starting with `_` is an identifier: `_` plus the identifier run after it -/
theorem underscore_token_spec (simd : Bool) (st : LexState) (inp : Bytes) (r : Bytes)
    (hd : inp.drop (countLeadingWs inp) = 0x5F :: r) :
    lexOne simd st inp =
      some (some (countLeadingWs inp, countLeadingWs inp + (1 + identLen r), .rIdentifier,
        stepState st .rIdentifier st.inAsm)) :=
  lexOne_underscore simd st inp r hd

/-- a token starting with a digit (outside `asm` blocks) is a decimal literal: the digit plus
    `decNumberRest` -/
theorem decimal_token_spec (simd : Bool) (st : LexState) (inp : Bytes) (b : UInt8) (r : Bytes)
    (hasm : st.inAsm = false) (hd : inp.drop (countLeadingWs inp) = b :: r) (hb : isDigit b = true) :
    lexOne simd st inp =
      some (some (countLeadingWs inp, countLeadingWs inp + (1 + decNumberRest r), .rNumberLiteral .nDecimal,
        stepState st (.rNumberLiteral .nDecimal) false)) :=
  lexOne_decimal simd st inp b r hasm hd hb

/-- tokens starting with `$` / `%` are hex / binary literals (in every scanner state) -/
theorem hex_binary_token_spec (simd : Bool) (st : LexState) (inp : Bytes) (r : Bytes) :
    (inp.drop (countLeadingWs inp) = 0x24 :: r →
      lexOne simd st inp =
        some (some (countLeadingWs inp, countLeadingWs inp + (1 + countHex r), .rNumberLiteral .nHex,
          stepState st (.rNumberLiteral .nHex) st.inAsm))) ∧
    (inp.drop (countLeadingWs inp) = 0x25 :: r →
      lexOne simd st inp =
        some (some (countLeadingWs inp, countLeadingWs inp + (1 + countBinary r), .rNumberLiteral .nBinary,
          stepState st (.rNumberLiteral .nBinary) st.inAsm))) :=
  ⟨lexOne_hex simd st inp r, lexOne_binary simd st inp r⟩

/-- a token starting with `'` or `#` is a text literal with the length and kind of `textLiteral`
    (in every scanner state) -/
theorem text_token_spec (simd : Bool) (st : LexState) (inp : Bytes) (b : UInt8) (r : Bytes)
    (hd : inp.drop (countLeadingWs inp) = b :: r) (hb : b = 0x27 ∨ b = 0x23) :
    lexOne simd st inp =
      some (some (countLeadingWs inp, countLeadingWs inp + (textLiteral (b :: r)).1,
        .rTextLiteral (textLiteral (b :: r)).2, stepState st (.rTextLiteral (textLiteral (b :: r)).2) st.inAsm)) :=
  lexOne_text simd st inp b r hd hb

/-- a token starting with `//` is a line comment up to `lineCommentEnd`; individual if it is the
    first token on its line, otherwise inline (in every scanner state) -/
theorem line_comment_token_spec (simd : Bool) (st : LexState) (inp : Bytes) (r : Bytes)
    (hd : inp.drop (countLeadingWs inp) = 0x2F :: 0x2F :: r) :
    let k : RawKind := .rComment (if nlBeforeOf st inp then .cIndividualLine else .cInlineLine)
    lexOne simd st inp =
      some (some (countLeadingWs inp, countLeadingWs inp + (2 + lineCommentEnd r), k, stepState st k st.inAsm)) :=
  lexOne_lineComment simd st inp r hd

/-- a token starting with `{` resp. `(*`, not followed by `$`, is a block comment with the length and
    kind of `blockComment`, where `trim` is the length of the blank run at the end of the whole
    remaining text and `tokLen` the number of bytes from the opener to the end of the text -/
theorem block_comment_token_spec (simd : Bool) (st : LexState) (inp : Bytes) (r : Bytes) (hnd : ∀ t, r ≠ 0x24 :: t) :
    (inp.drop (countLeadingWs inp) = 0x7B :: r →
      let res := blockComment (countTrailingWs inp) .brace 1 (r.length + 1) (nlBeforeOf st inp) r
      lexOne simd st inp =
        some (some (countLeadingWs inp, countLeadingWs inp + res.1, .rComment res.2,
          stepState st (.rComment res.2) st.inAsm))) ∧
    (inp.drop (countLeadingWs inp) = 0x28 :: 0x2A :: r →
      let res := blockComment (countTrailingWs inp) .parenStar 2 (r.length + 2) (nlBeforeOf st inp) r
      lexOne simd st inp =
        some (some (countLeadingWs inp, countLeadingWs inp + res.1, .rComment res.2,
          stepState st (.rComment res.2) st.inAsm))) :=
  ⟨fun hd => lexOne_braceComment simd st inp r hd hnd, fun hd => lexOne_parenComment simd st inp r hd hnd⟩

/-! ### Compiler directives, ampersand tokens, assembler mode (`Proofs/LexSpecs2.lean`)

  As above, every statement is about the model's own function and holds for every byte string.
  Where the model (= the Rust code) departs from the naive lexical rule, the doc comment says so. -/

/-- **Directive names.**  The name of a directive is the maximal run of name bytes after `{$` / `(*$`;
    a name byte is an ASCII letter, a digit or `_` (so digits and `_` belong to the name: `{$if1}` and
    `{$if_}` are *not* `$if` directives; a non-ASCII byte ends the name). -/
theorem directive_name_spec (l : Bytes) :
    LongestPrefixIn (AllBytes isDirectiveNameByte) l (conditionalDirectiveType l).1 ∧
    l.take (conditionalDirectiveType l).1 = directiveName l ∧
    ∀ b, isDirectiveNameByte b = true ↔
      (0x41 ≤ b ∧ b ≤ 0x5A) ∨ (0x61 ≤ b ∧ b ≤ 0x7A) ∨ (0x30 ≤ b ∧ b ≤ 0x39) ∨ b = 0x5F :=
  ⟨countWhile_longest isDirectiveNameByte l, take_countWhile isDirectiveNameByte l, isDirectiveNameByte_iff⟩

/-- **Which directives are conditional directives, and of which kind.**  The kind is looked up in
    `conditionalDirectiveTable` (`if`, `ifdef`, `ifndef`, `ifopt`, `elseif`, `else`, `ifend`, `endif`)
    with the lower-cased name: it is `some k` exactly when the name is, in any ASCII letter case, the
    spelling of the table entry of `k`; every other name (`{$R+}`, `{$region}`, `{$define X}`, the
    empty name of `{$}` …) gives `none`, i.e. a plain compiler-directive token (`dirKind`). -/
theorem directive_kind_spec (l : Bytes) :
    (conditionalDirectiveType l).2 = directiveKindSpec (directiveName l) ∧
    (∀ name k, directiveKindSpec name = some k ↔
      ∃ w, (w, k) ∈ conditionalDirectiveTable ∧ eqIgnoreCase name w = true) ∧
    (∀ name, directiveKindSpec (asciiLower name) = directiveKindSpec name ∧
      directiveKindSpec (asciiUpper name) = directiveKindSpec name) ∧
    (∀ k, dirKind (some k) = .rConditionalDirective k) ∧ dirKind none = .rCompilerDirective :=
  ⟨conditionalDirectiveType_snd l, directiveKindSpec_some_iff, directiveKindSpec_case, fun _ => rfl, rfl⟩

-- `IfDef X} y` → name `IfDef` (5 bytes), kind ifdef;  `if1 X}` / `if_}` → no conditional directive
example : conditionalDirectiveType [73, 102, 68, 101, 102, 32, 88, 125, 32, 121] = (5, some .dIfdef) := by decide +kernel
example : conditionalDirectiveType [105, 102, 49, 32, 88, 125] = (3, none) := by decide +kernel
example : conditionalDirectiveType [105, 102, 95, 125] = (3, none) := by decide +kernel

/-- **Plain directives** (every name except `if` / `elseif`, which are recognised by
    `isExprName`): the token ends right after the *first* closer (`}` resp. `*)`) in the text after
    `{$` / `(*$` — nothing is nested, a `}` inside a string or a `//` comment closes the directive —
    and if there is none it runs to the end of the text minus the trailing blanks (`tokLen - trim`);
    the kind is the one of `directive_kind_spec`.  `l` = text after the opener, `openLen` = 2 / 3. -/
theorem plain_directive_spec (trim : Nat) (kind : BlockCommentKind) (openLen tokLen : Nat) (l : Bytes)
    (hx : isExprName (directiveName l) = false) (x : Nat × Option ConditionalDirectiveKind) :
    compilerDirective trim kind openLen tokLen l = some x ↔ PlainDirectiveSpec kind trim openLen tokLen l x :=
  compilerDirective_plain_iff trim kind openLen tokLen l hx x

/-- the names with an expression body are exactly `if` and `elseif`, in any letter case -/
theorem expr_directive_names (name : Bytes) : isExprName name = true ↔
    eqIgnoreCase name [0x69, 0x66] = true ∨ eqIgnoreCase name [0x65, 0x6C, 0x73, 0x65, 0x69, 0x66] = true :=
  isExprName_iff name

-- `{$ifdef X {a} b}  `: ends after the first `}` (12 + 2 bytes);  `{$ifdef X {a  ` (2 trailing blanks): 14 bytes
example : compilerDirective 0 .brace 2 18 [105, 102, 100, 101, 102, 32, 88, 32, 123, 97, 125, 32, 98, 125, 32, 32] =
    some (13, some .dIfdef) := by decide +kernel
example : compilerDirective 2 .brace 2 16 [105, 102, 100, 101, 102, 32, 88, 32, 123, 97, 32, 32] =
    some (14, some .dIfdef) := by decide +kernel

/-- **The expression scanner of `{$if …}` / `{$elseif …}`** (`find_directive_expr_end`) computes
    exactly the relation `DirEnd … true` (given more fuel than bytes, which `compiler_directive`
    always supplies: `directiveFuel l = 2·len + 2`).  Reading of `DirEnd trim kind true l res`, `l` =
    the text after the directive name, `res` = offset just after the closer or `none`:
    the text is consumed from left to right;
    * at the closer of the directive's *own* bracket kind (`}` for `{$if`, `*)` for `(*$if`) it ends —
      the other kind's closer is an ordinary byte;
    * a nested directive `{$…}` or `(*$…*)` (either bracket kind, any name) is skipped up to its own
      end, found by the same rules: recursively with this relation for a nested `$if`/`$elseif` (any
      depth), at its first closer otherwise; an unterminated nested directive makes the whole
      directive unterminated;
    * a block comment `{…}` / `(*…*)` is skipped up to its first closer; if it is unterminated, the
      scan jumps to the start of the trailing blanks of the text (and then finds nothing);
    * a string that starts with `'` is skipped as the whole text literal `text_literal` finds there
      (further segments, `#` codes, multi-line literals); an *unterminated* string is skipped up to
      the end of its line, so a `}` after a stray quote on the same line does not close the directive;
      a `#` code outside a string is not special;
    * a `//` comment is skipped up to the end of the line (so `{$if X // }` does not end at that `}`);
    * any other byte is skipped;
    * at the end of the text the directive is unterminated (`none`).
    The relation is deterministic and total (consequence of the equivalence). -/
theorem directive_expr_end_spec (trim fuel : Nat) (kind : BlockCommentKind) (l : Bytes) (res : Option Nat)
    (hf : l.length < fuel) :
    findDirectiveExprEnd trim fuel kind l = some res ↔ DirEnd trim kind true l res :=
  dirEnd_iff trim fuel kind true l res hf

/-- the same for the end of any directive body (`expr = false`: first closer) -/
theorem directive_end_spec (trim fuel : Nat) (kind : BlockCommentKind) (expr : Bool) (l : Bytes) (res : Option Nat)
    (hf : l.length < fuel) :
    (if expr then findDirectiveExprEnd trim fuel kind l else some (findBlockCommentEnd kind l)) = some res ↔
      DirEnd trim kind expr l res :=
  dirEnd_iff trim fuel kind expr l res hf

/-- a terminated directive always ends right after a closer of its own bracket kind -/
theorem directive_ends_with_closer (trim : Nat) (kind : BlockCommentKind) (expr : Bool) (l : Bytes) (e : Nat)
    (h : DirEnd trim kind expr l (some e)) : ∃ i, e = i + (closer kind).length ∧ OccursAt (closer kind) l i :=
  dirEnd_ends_with_closer trim kind expr l _ h e rfl

/-- **The whole directive token**: `compiler_directive` returns exactly the pair allowed by
    `DirectiveSpec` (name, kind from the table, end from `DirEnd` on the text after the name, or the
    end of the text minus the trailing blanks when unterminated); such a pair always exists. -/
theorem directive_spec (trim : Nat) (kind : BlockCommentKind) (openLen tokLen : Nat) (l : Bytes) :
    (∀ x, compilerDirective trim kind openLen tokLen l = some x ↔ DirectiveSpec kind trim openLen tokLen l x) ∧
    ∃ x, DirectiveSpec kind trim openLen tokLen l x :=
  ⟨compilerDirective_iff trim kind openLen tokLen l, directiveSpec_total trim kind openLen tokLen l⟩

/-- a token starting with `{$` resp. `(*$` is the directive token of `DirectiveSpec` (in every scanner
    state; it never changes the assembler mode) -/
theorem directive_token_spec (simd : Bool) (st : LexState) (inp : Bytes) (r : Bytes)
    (x : Nat × Option ConditionalDirectiveKind) :
    (inp.drop (countLeadingWs inp) = 0x7B :: 0x24 :: r →
      DirectiveSpec .brace (countTrailingWs inp) 2 (r.length + 2) r x →
      lexOne simd st inp =
        some (some (countLeadingWs inp, countLeadingWs inp + x.1, dirKind x.2, stepState st (dirKind x.2) st.inAsm))) ∧
    (inp.drop (countLeadingWs inp) = 0x28 :: 0x2A :: 0x24 :: r →
      DirectiveSpec .parenStar (countTrailingWs inp) 3 (r.length + 3) r x →
      lexOne simd st inp =
        some (some (countLeadingWs inp, countLeadingWs inp + x.1, dirKind x.2, stepState st (dirKind x.2) st.inAsm))) :=
  ⟨lexOne_braceDirective simd st inp r x, lexOne_parenDirective simd st inp r x⟩

-- `{$if X {a} 'b}' // c}` LF ` {$ifdef D}{$if E {}}{$endif} } z`: the comment, the string, the line
-- comment and the three nested directives (one of them a nested `$if` with a comment) are skipped;
-- the directive is closed by the last `}` (53 bytes)
example : compilerDirective 0 .brace 2 55 [105, 102, 32, 88, 32, 123, 97, 125, 32, 39, 98, 125, 39, 32, 47, 47, 32,
    99, 125, 10, 32, 123, 36, 105, 102, 100, 101, 102, 32, 68, 125, 123, 36, 105, 102, 32, 69, 32, 123, 125, 125, 123,
    36, 101, 110, 100, 105, 102, 125, 32, 125, 32, 122] = some (53, some .dIf) := by decide +kernel
example : DirEnd 0 .brace true [32, 88, 32, 123, 97, 125, 32, 39, 98, 125, 39, 32, 47, 47, 32,
    99, 125, 10, 32, 123, 36, 105, 102, 100, 101, 102, 32, 68, 125, 123, 36, 105, 102, 32, 69, 32, 123, 125, 125, 123,
    36, 101, 110, 100, 105, 102, 125, 32, 125, 32, 122] (some 49) :=
  (directive_expr_end_spec 0 60 .brace _ _ (by decide)).1 (by decide +kernel)
-- `(*$IF a} (*)*) *) b`: `}` is an ordinary byte, `(*)*)` is a nested comment, then `*)` closes (17 bytes)
example : compilerDirective 0 .parenStar 3 19 [73, 70, 32, 97, 125, 32, 40, 42, 41, 42, 41, 32, 42, 41, 32, 98] =
    some (17, some .dIf) := by decide +kernel
-- ` X 'a} ` LF `} z`: the unterminated string hides the first `}`;  ` X {$ifdef D z`: unterminated nested directive
example : findDirectiveExprEnd 0 20 .brace [32, 88, 32, 39, 97, 125, 32, 10, 125, 32, 122] = some (some 9) := by
  decide +kernel
example : findDirectiveExprEnd 0 20 .brace [32, 88, 32, 123, 36, 105, 102, 100, 101, 102, 32, 68, 32, 122] = some none := by
  decide +kernel

/-- **Ampersand tokens.**  For a token that starts with `&` (`r` = the text after it) the result
    `(token length, kind)` is the unique pair allowed by `AmpersandSpec`: *all* directly following
    ampersands belong to the token (`&&&x` is one token), and then
    * `$` + hex digits/`_` → hex literal;  `%` + binary digits/`_` → binary literal;  a digit + the
      decimal tail (fraction, exponent) → decimal literal;
    * an ASCII letter or `_` + the identifier run → identifier — never a keyword (`&begin`, `&asm`,
      `&end` are identifiers);
    * a non-ASCII byte that does not start U+3000 + the continuation bytes after it + the identifier
      run → identifier;
    * anything else (end of text, blank, U+3000, operator, quote, `{`, …) → the ampersands alone form
      an "unknown" token. -/
theorem ampersand_spec (r : Bytes) (x : Nat × RawKind) : AmpersandSpec r x ↔ x = ampersandTok r :=
  ⟨ampersandTok_only r x, fun h => h ▸ ampersandTok_sat r⟩

/-- the follower classes alone -/
theorem ampersand_follower_spec (l : Bytes) (x : Nat × RawKind) : AmpFollower l x ↔ x = ampFollow l :=
  ⟨ampFollow_only l x, fun h => h ▸ ampFollow_sat l⟩

/-- a token starting with `&` has the length and kind of `ampersandTok` (in every scanner state, with
    either identifier routine; the assembler mode is neither entered nor left) -/
theorem ampersand_token_spec (simd : Bool) (st : LexState) (inp : Bytes) (r : Bytes)
    (hd : inp.drop (countLeadingWs inp) = 0x26 :: r) :
    lexOne simd st inp =
      some (some (countLeadingWs inp, countLeadingWs inp + (ampersandTok r).1, (ampersandTok r).2,
        stepState st (ampersandTok r).2 st.inAsm)) :=
  lexOne_ampersand simd st inp r hd

-- `&&begin x` → identifier, 7 bytes;  `&1.5e3+` → decimal, 6;  `&$1Fg` → hex, 4;  `&& +` → unknown, 2;
-- `&é x` → identifier, 3;  `&` U+3000 → unknown, 1
example : ampersandTok [38, 98, 101, 103, 105, 110, 32, 120] = (7, .rIdentifier) := by decide +kernel
example : ampersandTok [49, 46, 53, 101, 51, 43] = (6, .rNumberLiteral .nDecimal) := by decide +kernel
example : ampersandTok [36, 49, 70, 103] = (4, .rNumberLiteral .nHex) := by decide +kernel
example : ampersandTok [38, 32, 43] = (2, .rUnknown) := by decide +kernel
example : ampersandTok [195, 169, 32, 120] = (3, .rIdentifier) := by decide +kernel
example : ampersandTok [227, 128, 128] = (1, .rUnknown) := by decide +kernel

/-- **Assembler mode** is a function of the previous mode and the kind of the token just scanned: it
    is entered exactly by a token of kind keyword `asm` and left exactly by a token of kind keyword
    `end`.  Outside assembler mode such an `asm` token is a word (ASCII letter + identifier run)
    spelled `asm` in any letter case that does not directly follow a `.` (so `x.asm` and `&asm` do not
    enter it).  Inside, an `end` token is a word spelled `end` in any letter case — the preceding
    token is *not* consulted (`.end` leaves assembler mode; `&end`, `@end` do not). -/
theorem asm_mode_spec (simd : Bool) (st : LexState) (inp : Bytes) (ws e : Nat) (k : RawKind) (st' : LexState)
    (h : lexOne simd st inp = some (some (ws, e, k, st'))) :
    st'.inAsm = (if st.inAsm then k != .rKeyword .kEnd else k == .rKeyword .kAsm) ∧
    (st.inAsm = false →
      (st'.inAsm = true ↔
        ∃ b r, inp.drop (countLeadingWs inp) = b :: r ∧ isAlpha b = true ∧ st.prevReal ≠ some (.rOp .oDot) ∧
          eqIgnoreCase ((b :: r).take (1 + identLen r)) asmWord = true)) ∧
    (st.inAsm = true →
      (st'.inAsm = false ↔
        ∃ b r, inp.drop (countLeadingWs inp) = b :: r ∧ isAlpha b = true ∧
          eqIgnoreCase ((b :: r).take (1 + identLen r)) endWord = true)) :=
  ⟨lexOne_mode simd st inp ws e k st' h,
   fun hasm => lexOne_enters_asm simd st inp ws e k st' hasm h,
   fun hasm => lexOne_leaves_asm simd st inp ws e k st' hasm h⟩

/-- the initial state is outside assembler mode -/
theorem asm_mode_initial : LexState.init.inAsm = false := rfl

/-- **Words in assembler mode**: a token that starts with an ASCII letter is the letter plus the
    identifier run; it is the keyword `end` or `asm` if spelled so (any letter case), otherwise an
    identifier — no other keyword exists in assembler mode (`mov`, `begin`, `and` are identifiers) -/
theorem asm_word_token_spec (simd : Bool) (st : LexState) (inp : Bytes) (b : UInt8) (r : Bytes)
    (hasm : st.inAsm = true) (hd : inp.drop (countLeadingWs inp) = b :: r) (hb : isAlpha b = true) :
    let w := (b :: r).take (1 + identLen r)
    lexOne simd st inp =
      some (some (countLeadingWs inp, countLeadingWs inp + (1 + identLen r), asmWordKind w,
        stepState st (asmWordKind w) (!eqIgnoreCase w endWord))) :=
  lexOne_asmWord simd st inp b r hasm hd hb

/-- **Assembler labels**: in assembler mode a token that starts with `@` is `@` plus the longest run
    of ASCII letters, digits, `_` and `@` (`@@1`, `@loop`); non-ASCII bytes do not belong to it
    (unlike identifiers); kind identifier -/
theorem asm_label_spec (simd : Bool) (st : LexState) (inp : Bytes) (r : Bytes)
    (hasm : st.inAsm = true) (hd : inp.drop (countLeadingWs inp) = 0x40 :: r) :
    lexOne simd st inp =
      some (some (countLeadingWs inp, countLeadingWs inp + (1 + countWhile isAsmLabelByte r), .rIdentifier,
        stepState st .rIdentifier true)) ∧
    LongestPrefixIn (AllBytes isAsmLabelByte) r (countWhile isAsmLabelByte r) ∧
    ∀ b, isAsmLabelByte b = true ↔
      (0x41 ≤ b ∧ b ≤ 0x5A) ∨ (0x61 ≤ b ∧ b ≤ 0x7A) ∨ (0x30 ≤ b ∧ b ≤ 0x39) ∨ b = 0x5F ∨ b = 0x40 :=
  ⟨lexOne_asmLabel simd st inp r hasm hd, countWhile_longest isAsmLabelByte r, isAsmLabelByte_iff⟩

/-- **Assembler numbers**: after the first digit comes the longest run of hex digits and `_`
    (whatever the base; no fraction, no exponent: `1e5` is one decimal token, `1.5` stops after `1`);
    a directly following `o`/`O` resp. `h`/`H` is consumed and makes the literal octal resp.
    hexadecimal; otherwise the literal is binary if the last byte of the run is `b`/`B`, else
    decimal.  The result is the unique pair allowed by `AsmNumberSpec`. -/
theorem asm_number_spec (first : UInt8) (r : Bytes) (x : Nat × NumberLiteralKind) :
    AsmNumberSpec first r x ↔ x = asmNumberRest first r :=
  ⟨fun h => AsmNumberSpec.unique h (asmNumberRest_sat first r), fun h => h ▸ asmNumberRest_sat first r⟩

/-- in assembler mode a token that starts with a digit is such a number -/
theorem asm_number_token_spec (simd : Bool) (st : LexState) (inp : Bytes) (b : UInt8) (r : Bytes)
    (hasm : st.inAsm = true) (hd : inp.drop (countLeadingWs inp) = b :: r) (hb : isDigit b = true) :
    lexOne simd st inp =
      some (some (countLeadingWs inp, countLeadingWs inp + (1 + (asmNumberRest b r).1),
        .rNumberLiteral (asmNumberRest b r).2, stepState st (.rNumberLiteral (asmNumberRest b r).2) true)) :=
  lexOne_asmNumber simd st inp b r hasm hd hb

/-- **Assembler text literals `"…"`**: the body is a sequence of escape pairs (`\` + any byte — also
    `"`, CR or LF, so an escaped line break does not end the literal) and of bytes other than `\`, `"`,
    CR, LF (`AsmStrBody`); the literal is closed by the first `"` outside an escape pair (kind asm);
    it is unterminated if CR/LF (not consumed) or the end of the text comes first, or if the text
    ends with a lone `\` (consumed).  The result is the unique pair allowed by `AsmTextSpec`. -/
theorem asm_text_literal_spec (r : Bytes) (x : Nat × TextLiteralKind) :
    AsmTextSpec r x ↔ x = asmTextLiteralRest r :=
  ⟨asmTextLiteralRest_only r x, fun h => h ▸ asmTextLiteralRest_sat r⟩

/-- in assembler mode a token that starts with `"` is such a literal (`'…'` and `#…` literals, `$…`
    numbers, comments and directives are scanned as outside assembler mode: `text_token_spec`,
    `hex_binary_token_spec`, … hold in every scanner state) -/
theorem asm_text_token_spec (simd : Bool) (st : LexState) (inp : Bytes) (r : Bytes)
    (hasm : st.inAsm = true) (hd : inp.drop (countLeadingWs inp) = 0x22 :: r) :
    lexOne simd st inp =
      some (some (countLeadingWs inp, countLeadingWs inp + (1 + (asmTextLiteralRest r).1),
        .rTextLiteral (asmTextLiteralRest r).2, stepState st (.rTextLiteral (asmTextLiteralRest r).2) true)) :=
  lexOne_asmText simd st inp r hasm hd

-- `x.asm asm mov @@1: 0FFh 12 101b 17o 1e5 "a\"b" &end .end end`: `.asm` does not enter assembler
-- mode, `asm` does; labels, numbers and the `"…"` literal; `&end` does not leave it, `.end` does; the
-- last `end` is scanned outside assembler mode
example : (lex [120, 46, 97, 115, 109, 32, 97, 115, 109, 32, 109, 111, 118, 32, 64, 64, 49, 58, 32, 48, 70, 70, 104,
    32, 49, 50, 32, 49, 48, 49, 98, 32, 49, 55, 111, 32, 49, 101, 53, 32, 34, 97, 92, 34, 98, 34, 32, 38, 101, 110,
    100, 32, 46, 101, 110, 100, 32, 101, 110, 100]).map (·.map (fun t => (t.content.length, t.kind))) =
    some [(1, .rIdentifier), (1, .rOp .oDot), (3, .rIdentifier), (3, .rKeyword .kAsm), (3, .rIdentifier),
      (3, .rIdentifier), (1, .rOp .oColon), (4, .rNumberLiteral .nHex), (2, .rNumberLiteral .nDecimal),
      (4, .rNumberLiteral .nBinary), (3, .rNumberLiteral .nOctal), (3, .rNumberLiteral .nDecimal),
      (6, .rTextLiteral .tAsm), (4, .rIdentifier), (1, .rOp .oDot), (3, .rKeyword .kEnd), (3, .rKeyword .kEnd),
      (0, .rEof)] := by decide +kernel
-- after the first digit: `FFh ` → 3, hex;  `01b ` → 3, binary;  `7o+` → 2, octal;  `2_ ` → 2, decimal;  `.5` → 0, decimal
example : asmNumberRest 0x30 [70, 70, 104, 32] = (3, .nHex) ∧ asmNumberRest 0x31 [48, 49, 98, 32] = (3, .nBinary) ∧
    asmNumberRest 0x31 [55, 111, 43] = (2, .nOctal) ∧ asmNumberRest 0x31 [50, 95, 32] = (2, .nDecimal) ∧
    asmNumberRest 0x31 [46, 53] = (0, .nDecimal) := by decide
-- after the opening quote: `a\"b" x` → 5, closed;  `a\` LF `b" x` → 5, closed (escaped line feed);
-- `ab` LF `"` → 2, unterminated;  `ab\` → 3, unterminated
example : asmTextLiteralRest [97, 92, 34, 98, 34, 32, 120] = (5, .tAsm) ∧
    asmTextLiteralRest [97, 92, 10, 98, 34, 32, 120] = (5, .tAsm) ∧
    asmTextLiteralRest [97, 98, 10, 34] = (2, .tUnterminated) ∧
    asmTextLiteralRest [97, 98, 92] = (3, .tUnterminated) := by decide

end Pasfmt.C13
