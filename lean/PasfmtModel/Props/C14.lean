/-
  C14 — Parsing yields well-formed logical lines that cover every token.

  The parser's control flow (which primitive is called when) is a universally quantified operation
  trace; the primitives themselves, the conditional-directive passes, the consolidation of passes
  and the directive lines are exact models (`Model/Parser.lean`), replayed against the real parser's
  hook trace on every case.
-/
import PasfmtModel.Proofs.MachineCover
import PasfmtModel.Proofs.Tree
import PasfmtModel.Proofs.TreeSorted
import PasfmtModel.Proofs.PassCover
import PasfmtModel.Proofs.ConsolidatorsCdc
import PasfmtModel.Proofs.ConsolidatorsGen
import PasfmtModel.Proofs.ParserFullSound
import PasfmtModel.Proofs.ParserParentsMutual

namespace Pasfmt.C14

/-- For **every** operation trace the machine accepts (i.e. for every control flow), in every state:
    each line lists tokens of the consumed pass prefix in strictly increasing order, and no token
    occurs in two lines (or twice in one) of the same pass. -/
theorem machine_lines_wellformed (kinds : List RawKind) (pass : List Nat) (hs : pass.Pairwise (· < ·))
    (ops : List POp) (s : MState) (h : MState.init.run kinds pass ops = some s) :
    (∀ l ∈ s.lines, l.tokens.Pairwise (· < ·)) ∧
    (∀ l ∈ s.lines, ∀ t ∈ l.tokens, t ∈ pass) ∧
    (s.lines.flatMap (·.tokens)).Nodup := by
  have hinv := run_inv kinds pass hs ops MState.init s (init_inv pass) h
  unfold MInv at hinv
  refine ⟨?_, ?_, ?_⟩
  · intro l hl
    exact hinv.sorted l.tokens (by unfold toksOf; exact List.mem_map_of_mem hl)
  · intro l hl t ht
    have : t ∈ (toksOf s.lines).flatten := by
      unfold toksOf; exact List.mem_flatten.2 ⟨l.tokens, List.mem_map_of_mem hl, ht⟩
    obtain ⟨j, _, hj⟩ := hinv.below t this
    exact List.mem_of_getElem? hj
  · have := hinv.nodup
    unfold toksOf at this
    rwa [← List.flatMap_def] at this

/-- For every accepted trace that consumes the whole pass, every token of the pass is in some line
    or was explicitly skipped by `skip_token`: no code is dropped by the line builder. -/
theorem machine_covers_pass (kinds : List RawKind) (pass : List Nat) (ops : List POp) (s : MState)
    (h : MState.init.run kinds pass ops = some s) (hdone : pass.length ≤ s.passIdx) :
    ∀ j tok, pass[j]? = some tok →
      (∃ l ∈ s.lines, tok ∈ l.tokens) ∨ j ∈ skippedRun kinds pass MState.init ops := by
  have hc := run_cover kinds pass ops MState.init s [] init_refs
    (by intro j tok hj; simp [MState.init] at hj) h
  intro j tok hj
  have hjl : j < pass.length := by
    rcases Nat.lt_or_ge j pass.length with h1 | h1
    · exact h1
    · rw [List.getElem?_eq_none h1] at hj; simp at hj
  rcases hc j tok (by omega) hj with h1 | h1
  · left
    unfold toksOf at h1
    rw [List.mem_flatten] at h1
    obtain ⟨m, hm, ht⟩ := h1
    rw [List.mem_map] at hm
    obtain ⟨l, hl, rfl⟩ := hm
    exact ⟨l, hl, ht⟩
  · right; simpa using h1

/-- consolidation keeps only non-empty lines -/
theorem consolidate_nonempty (acc : List PLine) (mapped : List Nat) (ls out : List PLine)
    (hacc : ∀ l ∈ acc, l.tokens ≠ []) (h : consolidateGo acc mapped ls = some out) :
    ∀ l ∈ out, l.tokens ≠ [] := by
  induction ls generalizing acc mapped with
  | nil => simp [consolidateGo] at h; subst h; exact hacc
  | cons line rest ih =>
    unfold consolidateGo at h
    split at h
    · exact ih _ _ hacc h
    · rename_i hne
      simp only at h
      split at h
      · simp at h
      · rename_i parent _
        split at h
        · exact ih _ _ hacc h
        · apply ih _ _ _ h
          intro l hl
          rcases List.mem_append.1 hl with h1 | h1
          · exact hacc l h1
          · simp at h1; subst h1
            simpa using hne

/-- consolidation never loses the tokens of a non-empty line of a pass -/
theorem consolidate_keeps_tokens (acc : List PLine) (mapped : List Nat) (ls out : List PLine)
    (h : consolidateGo acc mapped ls = some out) :
    (∀ l ∈ acc, ∃ l' ∈ out, l'.tokens = l.tokens) ∧
    (∀ l ∈ ls, l.tokens ≠ [] → ∃ l' ∈ out, l'.tokens = l.tokens) := by
  induction ls generalizing acc mapped with
  | nil =>
    simp [consolidateGo] at h; subst h
    exact ⟨fun l hl => ⟨l, hl, rfl⟩, by intro l hl; simp at hl⟩
  | cons line rest ih =>
    unfold consolidateGo at h
    split at h
    · rename_i hemp
      have := ih _ _ h
      refine ⟨this.1, ?_⟩
      intro l hl hne
      rcases List.mem_cons.1 hl with rfl | h1
      · simp at hemp; exact absurd hemp hne
      · exact this.2 l h1 hne
    · simp only at h
      split at h
      · simp at h
      · rename_i parent _
        split at h
        · rename_i i hi
          have := ih _ _ h
          refine ⟨this.1, ?_⟩
          intro l hl hne
          rcases List.mem_cons.1 hl with rfl | h1
          · -- the equal line found in acc has the same tokens
            have hfound := List.findIdx?_eq_some_iff_getElem.1 hi
            obtain ⟨hlt, hp, _⟩ := hfound
            have heq : acc[i] = { l with parent := parent } := by simpa using hp
            obtain ⟨l', hl', ht⟩ := this.1 acc[i] (List.getElem_mem hlt)
            exact ⟨l', hl', by rw [ht, heq]⟩
          · exact this.2 l h1 hne
        · have := ih _ _ h
          refine ⟨fun l hl => this.1 l (List.mem_append_left _ hl), ?_⟩
          intro l hl hne
          rcases List.mem_cons.1 hl with rfl | h1
          · obtain ⟨l', hl', ht⟩ := this.1 { l with parent := parent } (by simp)
            exact ⟨l', hl', by rw [ht]⟩
          · exact this.2 l h1 hne

/-- every directive line holds exactly one token -/
theorem directive_lines_single (attributed : List Nat) (level : Nat) (toks : List (RawKind × Nat)) :
    ∀ l ∈ directiveLinesGo attributed level toks, ∃ i, l.tokens = [i] := by
  induction toks generalizing level with
  | nil => intro l hl; simp [directiveLinesGo] at hl
  | cons x r ih =>
    obtain ⟨k, idx⟩ := x
    intro l hl
    unfold directiveLinesGo at hl
    split at hl
    · exact ih _ l hl
    · split at hl
      · rcases List.mem_cons.1 hl with rfl | h1
        · exact ⟨idx, rfl⟩
        · exact ih _ l h1
      · split at hl
        · rcases List.mem_cons.1 hl with rfl | h1
          · exact ⟨idx, rfl⟩
          · exact ih _ l h1
        · split at hl
          · rcases List.mem_cons.1 hl with rfl | h1
            · exact ⟨idx, rfl⟩
            · exact ih _ l h1
          · split at hl
            · rcases List.mem_cons.1 hl with rfl | h1
              · exact ⟨idx, rfl⟩
              · exact ih _ l h1
            · exact ih _ l hl
      · exact ih _ l hl

/-- every conditional directive, and every compiler directive no pass attributed to a line,
    gets its own directive line -/
theorem directive_lines_cover (attributed : List Nat) (level : Nat) (toks : List (RawKind × Nat))
    (k : RawKind) (idx : Nat) (hmem : (k, idx) ∈ toks) (hna : idx ∉ attributed)
    (hk : k = .rCompilerDirective ∨ ∃ c, k = .rConditionalDirective c) :
    ∃ l ∈ directiveLinesGo attributed level toks, l.tokens = [idx] := by
  induction toks generalizing level with
  | nil => simp at hmem
  | cons x r ih =>
    obtain ⟨k', idx'⟩ := x
    rcases List.mem_cons.1 hmem with heq | hr
    · simp at heq
      obtain ⟨rfl, rfl⟩ := heq
      unfold directiveLinesGo
      have : attributed.contains idx = false := by simpa using hna
      simp only [this]
      rcases hk with rfl | ⟨c, rfl⟩
      · exact ⟨_, List.mem_cons_self, rfl⟩
      · simp only
        have hcases : c.isIf = true ∨ c.isEnd = true ∨ c.isElse = true := by
          cases c <;> simp [ConditionalDirectiveKind.isIf, ConditionalDirectiveKind.isEnd, ConditionalDirectiveKind.isElse]
        by_cases h1 : c.isIf = true
        · simp only [h1, if_true]; exact ⟨_, List.mem_cons_self, rfl⟩
        · by_cases h2 : c.isEnd = true
          · simp only [h1, h2, if_true, if_false]; exact ⟨_, List.mem_cons_self, rfl⟩
          · have h3 : c.isElse = true := by
              rcases hcases with h | h | h
              · exact absurd h h1
              · exact absurd h h2
              · exact h
            simp only [h1, h2, h3, if_true, if_false]; exact ⟨_, List.mem_cons_self, rfl⟩
    · unfold directiveLinesGo
      split
      · exact ih _ hr
      · split
        · obtain ⟨l, hl, ht⟩ := ih level hr
          exact ⟨l, List.mem_cons_of_mem _ hl, ht⟩
        · split
          · obtain ⟨l, hl, ht⟩ := ih (level + 1) hr
            exact ⟨l, List.mem_cons_of_mem _ hl, ht⟩
          · split
            · obtain ⟨l, hl, ht⟩ := ih (level - 1) hr
              exact ⟨l, List.mem_cons_of_mem _ hl, ht⟩
            · split
              · obtain ⟨l, hl, ht⟩ := ih level hr
                exact ⟨l, List.mem_cons_of_mem _ hl, ht⟩
              · exact ih _ hr
        · exact ih _ hr

end Pasfmt.C14

namespace Pasfmt.C14

/-- when the file has no conditional directives there is exactly one pass, the whole file in order
    (so, with `machine_lines_wellformed`, no token can be in two lines) -/
theorem single_pass_without_conditionals (kinds : List RawKind) (h : ∀ k ∈ kinds, condKind? k = none) :
    passes kinds = [List.range kinds.length] := passes_noCond kinds h

/-- every conditional-directive pass of every file lists token positions in strictly increasing
    order, all below the number of tokens (the directive tree lays its sections out in token order) -/
theorem passes_sorted_in_range (kinds : List RawKind) :
    ∀ p ∈ passes kinds, p.Pairwise (· < ·) ∧ ∀ i ∈ p, i < kinds.length :=
  fun p hp => ⟨passes_sorted kinds p hp, passes_in_range kinds p hp⟩

/-- every token that is not a conditional directive is contained in some pass (so, with
    `machine_covers_pass`, `consolidate_keeps_tokens` and `directive_lines_cover`, no token of the file
    can be left out by the passes: what remains is the parser's control flow consuming each pass).
    Proof: a pass marks the flat sections it visits as explored; while one is unexplored the next
    pass explores at least one more; the iteration stops only when all are explored; the number of
    passes needed is at most the number of tokens plus one; the model's depth fuel is adequate. -/
theorem every_token_in_some_pass (kinds : List RawKind) (i : Nat) (hi : i < kinds.length)
    (hnc : condKind? kinds[i] = none) : ∃ p ∈ passes kinds, i ∈ p :=
  passes_cover kinds i hi hnc

/-- hence the well-formedness of the line builder's output holds for every pass of every file and
    every control flow of the parser, without a side condition on the pass -/
theorem file_lines_wellformed (kinds : List RawKind) (pass : List Nat) (hp : pass ∈ passes kinds)
    (ops : List POp) (s : MState) (h : MState.init.run kinds pass ops = some s) :
    (∀ l ∈ s.lines, l.tokens.Pairwise (· < ·)) ∧
    (∀ l ∈ s.lines, ∀ t ∈ l.tokens, t < kinds.length) ∧
    (s.lines.flatMap (·.tokens)).Nodup := by
  obtain ⟨h1, h2, h3⟩ := machine_lines_wellformed kinds pass (passes_sorted kinds pass hp) ops s h
  exact ⟨h1, fun l hl t ht => passes_in_range kinds pass hp t (h2 l hl t ht), h3⟩

end Pasfmt.C14

/-! ### the lines that line-based formatting sees: after the three post-parse consolidators

The formatter does not work on the parser's lines directly: `DistinguishGenericTypeParamsConsolidator`,
`ConditionalDirectiveConsolidator` and `DeindentPackageDirectives` run first (exact models in
`Model/Consolidators.lean`, compared with the real stages on every case: fields `ck`, `cl`). -/

namespace Pasfmt.C14

/-- The conditional-directive consolidator keeps the lines well formed and loses no token: the number of lines
    (hence every parent reference), parents and levels are unchanged; every line is still strictly increasing
    and within the same bound; every token that was in some line is still in some line.  The hypotheses are
    what the theorems above establish for the parser's lines: strictly increasing token lists, and
    conditional-directive lines holding exactly their directive. -/
theorem consolidator_keeps_lines_wellformed (kinds : List Kind) (lines : List Line)
    (hs : ∀ l ∈ lines, l.tokens.Pairwise (· < ·))
    (hc : ∀ l ∈ lines, l.ltype = .lConditionalDirective → ∃ t, l.tokens = [t]) :
    let out := cdcConsolidate kinds lines
    out.length = lines.length ∧
    (∀ i (h1 : i < out.length) (h2 : i < lines.length), out[i].parent = lines[i].parent ∧ out[i].level = lines[i].level ∧
        (out[i].ltype = lines[i].ltype ∨ out[i].ltype = .lVoided)) ∧
    (∀ l ∈ out, l.tokens.Pairwise (· < ·)) ∧
    (∀ n, (∀ l ∈ lines, ∀ t ∈ l.tokens, t < n) → ∀ l ∈ out, ∀ t ∈ l.tokens, t < n) ∧
    (∀ t, (∃ l ∈ lines, t ∈ l.tokens) → ∃ l ∈ out, t ∈ l.tokens) :=
  cdcConsolidate_wellformed kinds lines hs hc

/-- a line the consolidator rewrites becomes the full range from its first to its last token (the merged
    directives lie strictly inside) -/
theorem expanded_line_is_a_range {kinds : Array Kind} {toks new dirs : List Nat} (hs : toks.Pairwise (· < ·))
    (h : cdcExpand kinds toks = some (new, dirs)) :
    ∃ first last, toks.head? = some first ∧ toks.getLast? = some last ∧ new = rangeIncl first last ∧
      (∀ d ∈ dirs, first < d ∧ d < last) ∧ dirs ≠ [] :=
  cdcExpand_range hs h

/-- the generics consolidator keeps the token count and only retypes `<`/`>` as generic chevrons -/
theorem generics_only_retypes_chevrons (kinds : List Kind) :
    (genericsConsolidate kinds).length = kinds.length ∧
    ∀ i (h1 : i < kinds.length) (h2 : i < (genericsConsolidate kinds).length),
      ChevRel kinds[i] (genericsConsolidate kinds)[i] :=
  genericsConsolidate_frame kinds

/-- the package rule changes levels only -/
theorem package_rule_changes_levels_only (kinds : List Kind) (lines : List Line) :
    (deindentPackage kinds lines).length = lines.length ∧
    ∀ i (h1 : i < (deindentPackage kinds lines).length) (h2 : i < lines.length),
      (deindentPackage kinds lines)[i].tokens = lines[i].tokens ∧
      (deindentPackage kinds lines)[i].parent = lines[i].parent ∧
      (deindentPackage kinds lines)[i].ltype = lines[i].ltype :=
  deindentPackage_frame kinds lines

/-- non-vacuity: `Foo({$ifdef A} 1 {$else} 2 {$endif});` — the line 0 1 3 7 8 (the pass that takes the first
    branch) is expanded to 0..8 and the three directive lines are voided -/
example :
    let kinds : List Kind := [.tIdentifier, .tOp .oLParen, .tConditionalDirective .dIfdef, .tNumberLiteral .nDecimal,
      .tConditionalDirective .dElse, .tNumberLiteral .nDecimal, .tConditionalDirective .dEndif, .tOp .oRParen, .tOp .oSemicolon]
    let lines : List Line := [
      { parent := none, level := 0, tokens := [0, 1, 3, 7, 8], ltype := .lUnknown },
      { parent := none, level := 0, tokens := [2], ltype := .lConditionalDirective },
      { parent := none, level := 0, tokens := [4], ltype := .lConditionalDirective },
      { parent := none, level := 0, tokens := [6], ltype := .lConditionalDirective }]
    (cdcConsolidate kinds lines).map (·.tokens) = [[0, 1, 2, 3, 4, 5, 6, 7, 8], [], [], []] := by
  decide

end Pasfmt.C14

/-! ### the whole parser as a model: no hypothesis on the control flow

`Model/ParserFull.lean` (+ `ParserBase`, `ParserLeaf`) is an exact model of the parser's control flow (every
function of `impl InternalDelphiLogicalLineParser`, translated arm by arm; total, fuel-bounded), compared with the
real parser on every case (`pfull` stream: final token kinds and lines).  Its line builder state can only be changed
by the primitives of the machine (`Traced`: the state is carried with the trace that produced it), so the theorems
above, which hold for every trace, apply to it outright. -/

namespace Pasfmt.C14

theorem all2_mem_left {α β : Type} {R : α → β → Prop} {as : List α} {bs : List β} (h : All2 R as bs) :
    ∀ a ∈ as, ∃ b ∈ bs, R a b := by
  induction h with
  | nil => intro a ha; cases ha
  | cons hab _ ih =>
    intro a ha
    rcases List.mem_cons.1 ha with rfl | ha'
    · exact ⟨_, List.mem_cons_self, hab⟩
    · obtain ⟨b, hb, hr⟩ := ih a ha'
      exact ⟨b, List.mem_cons_of_mem _ hb, hr⟩

/-- **For every input on which the parser model answers, the lines of every pass are well formed**: strictly
    increasing token positions, all within the file, and no token in two lines of the pass (or twice in one). -/
theorem parser_model_lines_wellformed (toks : List (RawKind × Bool)) (o : ParseFullOut)
    (h : parseFileFull toks = some o) :
    ∀ ls ∈ o.passLines,
      (∀ l ∈ ls, l.tokens.Pairwise (· < ·)) ∧ (∀ l ∈ ls, ∀ t ∈ l.tokens, t < toks.length) ∧
      (ls.flatMap (·.tokens)).Nodup := by
  obtain ⟨hall, hpasses⟩ := parseFileFull_passes toks o h
  intro ls hls
  obtain ⟨pt, hpt, hok⟩ := all2_mem_left hall ls hls
  unfold PassOK at hok
  obtain ⟨s, hrun, hlines, _, _⟩ := hok
  have hp : pt.1 ∈ passes (toks.map (·.1)) := by
    rw [← hpasses]; exact List.mem_map_of_mem hpt
  obtain ⟨w1, w2, w3⟩ := file_lines_wellformed _ _ hp _ _ hrun
  rw [← hlines]
  refine ⟨w1, ?_, w3⟩
  intro l hl t ht
  have := w2 l hl t ht
  rwa [List.length_map] at this

/-- and every token of a pass that the control flow consumed is in a line of that pass or was skipped as a
    directive: `machine_covers_pass` applies to the model's own traces -/
theorem parser_model_passes_are_machine_runs (toks : List (RawKind × Bool)) (o : ParseFullOut)
    (h : parseFileFull toks = some o) :
    All2 (PassOK (toks.map (·.1))) o.passLines o.traces ∧ o.traces.map (·.1) = passes (toks.map (·.1)) :=
  parseFileFull_passes toks o h

end Pasfmt.C14

namespace Pasfmt.C14

theorem all2_mem_right {α β : Type} {R : α → β → Prop} {as : List α} {bs : List β} (h : All2 R as bs) :
    ∀ b ∈ bs, ∃ a ∈ as, R a b := by
  induction h with
  | nil => intro b hb; cases hb
  | cons hab _ ih =>
    intro b hb
    rcases List.mem_cons.1 hb with rfl | hb'
    · exact ⟨_, List.mem_cons_self, hab⟩
    · obtain ⟨a, ha, hr⟩ := ih b hb'
      exact ⟨a, List.mem_cons_of_mem _ ha, hr⟩

theorem consolidateAll_keeps (acc : List PLine) (pls : List (List PLine)) (out : List PLine)
    (h : consolidateAll acc pls = some out) :
    (∀ l ∈ acc, ∃ l' ∈ out, l'.tokens = l.tokens) ∧
    (∀ ls ∈ pls, ∀ l ∈ ls, l.tokens ≠ [] → ∃ l' ∈ out, l'.tokens = l.tokens) := by
  induction pls generalizing acc with
  | nil =>
    simp [consolidateAll] at h; subst h
    exact ⟨fun l hl => ⟨l, hl, rfl⟩, by intro ls hls; cases hls⟩
  | cons ls rest ih =>
    unfold consolidateAll at h
    split at h
    · simp at h
    · rename_i acc' hacc
      obtain ⟨k1, k2⟩ := consolidate_keeps_tokens acc [] ls acc' hacc
      obtain ⟨r1, r2⟩ := ih acc' h
      refine ⟨?_, ?_⟩
      · intro l hl
        obtain ⟨l1, hl1, e1⟩ := k1 l hl
        obtain ⟨l2, hl2, e2⟩ := r1 l1 hl1
        exact ⟨l2, hl2, e2.trans e1⟩
      · intro ls' hls' l hl hne
        rcases List.mem_cons.1 hls' with rfl | hr
        · obtain ⟨l1, hl1, e1⟩ := k2 l hl hne
          obtain ⟨l2, hl2, e2⟩ := r1 l1 hl1
          exact ⟨l2, hl2, e2.trans e1⟩
        · exact r2 ls' hr l hl hne

theorem dirKindsKept_spec : ∀ (a b : List RawKind), dirKindsKept a b = true →
    a.length = b.length ∧ ∀ (i : Nat), (∀ x : RawKind, a[i]? = some x → isDirectiveRaw x = true → b[i]? = some x) ∧
      (∀ y : RawKind, b[i]? = some y → isDirectiveRaw y = true → a[i]? = some y)
  | [], [], _ => ⟨rfl, fun i => ⟨by intro x hx; simp at hx, by intro y hy; simp at hy⟩⟩
  | [], _ :: _, h => by simp [dirKindsKept] at h
  | _ :: _, [], h => by simp [dirKindsKept] at h
  | x :: as, y :: bs, h => by
    simp only [dirKindsKept, Bool.and_eq_true, Bool.or_eq_true, Bool.not_eq_true', beq_iff_eq] at h
    obtain ⟨hxy, hrest⟩ := h
    obtain ⟨hl, hi⟩ := dirKindsKept_spec as bs hrest
    refine ⟨by simp [hl], ?_⟩
    intro i
    cases i with
    | zero =>
      constructor
      · intro x' hx' hd
        simp at hx'; subst hx'
        rcases hxy with ⟨h1, _⟩ | h1
        · rw [h1] at hd; cases hd
        · simp [h1]
      · intro y' hy' hd
        simp at hy'; subst hy'
        rcases hxy with ⟨_, h2⟩ | h1
        · rw [h2] at hd; cases hd
        · simp [h1]
    | succ j => simpa using hi j

theorem mem_attributedOf {kf : List RawKind} {pls : List (List PLine)} {t : Nat} :
    t ∈ attributedOf kf pls ↔ (∃ ls ∈ pls, ∃ l ∈ ls, t ∈ l.tokens) ∧ (kf.getD t .rEof == .rCompilerDirective) = true := by
  unfold attributedOf
  simp only [List.mem_filter, List.mem_flatMap]

/-- **Every token of the file is in a logical line of the parser model** (C14, coverage): a token that is not a
    conditional directive is in some pass; the control flow consumed the whole pass, so the token is in a line of the
    pass or was skipped; a skipped token is a compiler directive, which gets a directive line unless a line of some
    pass holds it; conditional directives get directive lines; consolidation keeps the tokens of every non-empty
    line.  No hypothesis on control flow: it is the exact model's own. -/
theorem parser_model_covers_every_token (toks : List (RawKind × Bool)) (o : ParseFullOut)
    (h : parseFileFull toks = some o) : ∀ i, i < toks.length → ∃ l ∈ o.lines, i ∈ l.tokens := by
  intro i hi
  obtain ⟨kinds, acc, _, hacc, hkept, _, hfinal⟩ := parseFileFull_spec toks o h
  obtain ⟨hall, hpasses⟩ := parseFileFull_passes toks o h
  obtain ⟨hlen, hk⟩ := dirKindsKept_spec _ _ hkept
  have hi0 : i < (toks.map (·.1)).length := by simpa using hi
  have hif : i < kinds.toList.length := by rw [← hlen]; exact hi0
  obtain ⟨a1, a2⟩ := consolidateAll_keeps [] o.passLines acc hacc
  obtain ⟨f1, f2⟩ := consolidate_keeps_tokens acc [] _ o.lines hfinal
  -- a line of a pass that holds i survives both consolidations
  have from_pass : (∃ ls ∈ o.passLines, ∃ l ∈ ls, i ∈ l.tokens) → ∃ l ∈ o.lines, i ∈ l.tokens := by
    rintro ⟨ls, hls, l, hl, hil⟩
    have hne : l.tokens ≠ [] := by intro e; rw [e] at hil; cases hil
    obtain ⟨l1, hl1, e1⟩ := a2 ls hls l hl hne
    obtain ⟨l2, hl2, e2⟩ := f1 l1 hl1
    exact ⟨l2, hl2, by rw [e2, e1]; exact hil⟩
  -- a directive that no pass line holds gets a directive line, which survives the last consolidation
  have from_directive : ∀ k, kinds.toList[i]? = some k →
      (k = .rCompilerDirective ∨ ∃ c, k = .rConditionalDirective c) →
      i ∉ attributedOf kinds.toList o.passLines → ∃ l ∈ o.lines, i ∈ l.tokens := by
    intro k hk' hkind hna
    have hmem : (k, i) ∈ kinds.toList.zipIdx := by
      rw [List.mem_zipIdx_iff_getElem?]; simpa using hk'
    obtain ⟨l, hl, ht⟩ := directive_lines_cover _ 0 _ k i hmem hna hkind
    obtain ⟨l2, hl2, e2⟩ := f2 l hl (by rw [ht]; simp)
    exact ⟨l2, hl2, by rw [e2, ht]; simp⟩
  cases hc : condKind? (toks.map (·.1))[i] with
  | some c =>
    -- a conditional directive: its kind is kept, it is never attributed, it gets a directive line
    have hk0 : (toks.map (·.1))[i] = .rConditionalDirective c := by
      unfold condKind? at hc
      split at hc
      · rename_i c' heq; simp at hc; subst hc; exact heq
      · simp at hc
    have hkf : kinds.toList[i]? = some (.rConditionalDirective c) :=
      (hk i).1 _ (by rw [List.getElem?_eq_getElem hi0, hk0]) rfl
    apply from_directive _ hkf (Or.inr ⟨c, rfl⟩)
    intro hatt
    have := (mem_attributedOf.1 hatt).2
    rw [List.getD_eq_getElem?_getD, hkf] at this
    simp at this
  | none =>
    obtain ⟨p, hp, hip⟩ := every_token_in_some_pass _ i hi0 hc
    -- the pass, its trace and its final machine state
    rw [← hpasses] at hp
    obtain ⟨pt, hpt, rfl⟩ := List.mem_map.1 hp
    have : ∃ ls ∈ o.passLines, PassOK (toks.map (·.1)) ls pt := all2_mem_right hall pt hpt
    obtain ⟨ls, hls, s, hrun, hlines, hdone, hskip⟩ := this
    obtain ⟨j, hj⟩ := List.getElem?_of_mem hip
    rcases machine_covers_pass _ _ _ s hrun hdone j i hj with ⟨l, hl, hil⟩ | hsk
    · exact from_pass ⟨ls, hls, l, by rw [← hlines]; exact hl, hil⟩
    · obtain ⟨tok, htok, hkind⟩ := hskip j hsk
      rw [hj] at htok
      cases htok
      have hkf : kinds.toList[i]? = some .rCompilerDirective := (hk i).1 _ hkind rfl
      by_cases hatt : i ∈ attributedOf kinds.toList o.passLines
      · exact from_pass (mem_attributedOf.1 hatt).1
      · exact from_directive _ hkf (Or.inl rfl) hatt

end Pasfmt.C14

namespace Pasfmt.C14

/-- consolidation invents no line: the tokens of every resulting line are those of a line it was given -/
theorem consolidate_lines_from (acc : List PLine) (mapped : List Nat) (ls out : List PLine)
    (h : consolidateGo acc mapped ls = some out) :
    ∀ l' ∈ out, (∃ l ∈ acc, l'.tokens = l.tokens) ∨ (∃ l ∈ ls, l'.tokens = l.tokens) := by
  induction ls generalizing acc mapped with
  | nil => simp [consolidateGo] at h; subst h; intro l' hl'; exact Or.inl ⟨l', hl', rfl⟩
  | cons line rest ih =>
    unfold consolidateGo at h
    split at h
    · intro l' hl'
      rcases ih _ _ h l' hl' with h1 | ⟨l, hl, e⟩
      · exact Or.inl h1
      · exact Or.inr ⟨l, List.mem_cons_of_mem _ hl, e⟩
    · simp only at h
      split at h
      · simp at h
      · split at h
        · intro l' hl'
          rcases ih _ _ h l' hl' with h1 | ⟨l, hl, e⟩
          · exact Or.inl h1
          · exact Or.inr ⟨l, List.mem_cons_of_mem _ hl, e⟩
        · intro l' hl'
          rcases ih _ _ h l' hl' with ⟨l, hl, e⟩ | ⟨l, hl, e⟩
          · rcases List.mem_append.1 hl with h1 | h1
            · exact Or.inl ⟨l, h1, e⟩
            · simp at h1; subst h1
              exact Or.inr ⟨line, List.mem_cons_self, e⟩
          · exact Or.inr ⟨l, List.mem_cons_of_mem _ hl, e⟩

theorem consolidateAll_lines_from (acc : List PLine) (pls : List (List PLine)) (out : List PLine)
    (h : consolidateAll acc pls = some out) :
    ∀ l' ∈ out, (∃ l ∈ acc, l'.tokens = l.tokens) ∨ (∃ ls ∈ pls, ∃ l ∈ ls, l'.tokens = l.tokens) := by
  induction pls generalizing acc with
  | nil => simp [consolidateAll] at h; subst h; intro l' hl'; exact Or.inl ⟨l', hl', rfl⟩
  | cons ls rest ih =>
    unfold consolidateAll at h
    split at h
    · simp at h
    · rename_i acc' hacc
      intro l' hl'
      rcases ih acc' h l' hl' with ⟨l, hl, e⟩ | ⟨ls', hls', l, hl, e⟩
      · rcases consolidate_lines_from acc [] ls acc' hacc l hl with ⟨l0, hl0, e0⟩ | ⟨l0, hl0, e0⟩
        · exact Or.inl ⟨l0, hl0, e.trans e0⟩
        · exact Or.inr ⟨ls, List.mem_cons_self, l0, hl0, e.trans e0⟩
      · exact Or.inr ⟨ls', List.mem_cons_of_mem _ hls', l, hl, e⟩

/-- the token of a directive line is one of the tokens the directive lines were made from -/
theorem directive_lines_index (attributed : List Nat) (level : Nat) (toks : List (RawKind × Nat)) :
    ∀ l ∈ directiveLinesGo attributed level toks, ∀ t ∈ l.tokens, ∃ k, (k, t) ∈ toks := by
  induction toks generalizing level with
  | nil => intro l hl; simp [directiveLinesGo] at hl
  | cons x r ih =>
    obtain ⟨k, idx⟩ := x
    intro l hl t ht
    have lift : (∃ k', (k', t) ∈ r) → ∃ k', (k', t) ∈ (k, idx) :: r := fun ⟨k', h'⟩ => ⟨k', List.mem_cons_of_mem _ h'⟩
    have here : ∀ lv ty, l = ({ parent := none, level := lv, tokens := [idx], ltype := ty } : PLine) → ∃ k', (k', t) ∈ (k, idx) :: r := by
      intro lv ty e
      rw [e] at ht; simp at ht; subst ht
      exact ⟨k, List.mem_cons_self⟩
    unfold directiveLinesGo at hl
    split at hl
    · exact lift (ih _ l hl t ht)
    · split at hl
      · rcases List.mem_cons.1 hl with e | h1
        · exact here _ _ e
        · exact lift (ih _ l h1 t ht)
      · split at hl
        · rcases List.mem_cons.1 hl with e | h1
          · exact here _ _ e
          · exact lift (ih _ l h1 t ht)
        · split at hl
          · rcases List.mem_cons.1 hl with e | h1
            · exact here _ _ e
            · exact lift (ih _ l h1 t ht)
          · split at hl
            · rcases List.mem_cons.1 hl with e | h1
              · exact here _ _ e
              · exact lift (ih _ l h1 t ht)
            · exact lift (ih _ l hl t ht)
      · exact lift (ih _ l hl t ht)

/-- **Every logical line of the parser model is non-empty, lists token positions of the file in strictly
    increasing order** (C14, first clause) - for every input on which the model answers, with no hypothesis on
    control flow. -/
theorem parser_model_final_lines_wellformed (toks : List (RawKind × Bool)) (o : ParseFullOut)
    (h : parseFileFull toks = some o) :
    ∀ l ∈ o.lines, l.tokens ≠ [] ∧ l.tokens.Pairwise (· < ·) ∧ ∀ t ∈ l.tokens, t < toks.length := by
  obtain ⟨kinds, acc, _, hacc, hkept, _, hfinal⟩ := parseFileFull_spec toks o h
  obtain ⟨hlen, _⟩ := dirKindsKept_spec _ _ hkept
  have hpl := parser_model_lines_wellformed toks o h
  have hne : ∀ l ∈ o.lines, l.tokens ≠ [] := by
    have hacc_ne : ∀ l ∈ acc, l.tokens ≠ [] := by
      -- every consolidated line is non-empty
      have : ∀ (a : List PLine) (pls : List (List PLine)) (out : List PLine), (∀ l ∈ a, l.tokens ≠ []) →
          consolidateAll a pls = some out → ∀ l ∈ out, l.tokens ≠ [] := by
        intro a pls
        induction pls generalizing a with
        | nil => intro out ha h; simp [consolidateAll] at h; subst h; exact ha
        | cons ls rest ih =>
          intro out ha h
          unfold consolidateAll at h
          split at h
          · simp at h
          · rename_i a' ha'
            exact ih a' out (consolidate_nonempty a [] ls a' ha ha') h
      exact this [] o.passLines acc (by intro l hl; cases hl) hacc
    exact consolidate_nonempty acc [] _ o.lines hacc_ne hfinal
  intro l hl
  refine ⟨hne l hl, ?_⟩
  rcases consolidate_lines_from acc [] _ o.lines hfinal l hl with ⟨l0, hl0, e0⟩ | ⟨l0, hl0, e0⟩
  · -- from a pass
    rcases consolidateAll_lines_from [] o.passLines acc hacc l0 hl0 with ⟨l1, hl1, _⟩ | ⟨ls, hls, l1, hl1, e1⟩
    · cases hl1
    · obtain ⟨w1, w2, _⟩ := hpl ls hls
      rw [e0, e1]
      exact ⟨w1 l1 hl1, w2 l1 hl1⟩
  · -- a directive line: exactly one token, a position of the file
    obtain ⟨i, hi⟩ := directive_lines_single _ 0 _ l0 hl0
    rw [e0, hi]
    refine ⟨List.pairwise_singleton _ _, ?_⟩
    intro t ht
    simp at ht; subst ht
    -- the token of a directive line is a position of `kinds.toList.zipIdx`
    obtain ⟨k, hk⟩ := directive_lines_index _ 0 _ l0 hl0 t (by rw [hi]; simp)
    have : t < kinds.toList.length := by
      rw [List.mem_zipIdx_iff_getElem?] at hk
      simp at hk
      rcases Nat.lt_or_ge t kinds.size with h1 | h1
      · simpa using h1
      · rw [Array.getElem?_eq_none h1] at hk; cases hk
    rw [← hlen] at this
    simpa using this

end Pasfmt.C14

/-! ### exactly one line per token, parent references, the end-of-file line

Proofs: `Proofs/ParserParents.lean` (consolidation of passes), `Proofs/ParserParentsFlow.lean` and
`Proofs/ParserParentsMutual.lean` (an invariant of the control flow of the parser model, proved for every function
of `Model/ParserFull.lean`). -/

namespace Pasfmt.C14

open Pasfmt.Parents

/-- the kinds of `begin a; end.` -/
def exBeginEnd : List (RawKind × Bool) :=
  [(.rKeyword .kBegin, false), (.rIdentifier, false), (.rOp .oSemicolon, false), (.rKeyword .kEnd, false),
   (.rOp .oDot, false), (.rEof, false)]

/-- the kinds of `begin if a then b; end.` -/
def exIfThen : List (RawKind × Bool) :=
  [(.rKeyword .kBegin, false), (.rKeyword .kIf, false), (.rIdentifier, false), (.rKeyword .kThen, false),
   (.rIdentifier, false), (.rOp .oSemicolon, false), (.rKeyword .kEnd, false), (.rOp .oDot, false), (.rEof, false)]

/-- the kinds of `begin {$ifdef A} if a then {$else} if b then {$endif} c; end.` -/
def exTwoPasses : List (RawKind × Bool) :=
  [(.rKeyword .kBegin, false), (.rConditionalDirective .dIfdef, false), (.rKeyword .kIf, false), (.rIdentifier, false),
   (.rKeyword .kThen, false), (.rConditionalDirective .dElse, false), (.rKeyword .kIf, false), (.rIdentifier, false),
   (.rKeyword .kThen, false), (.rConditionalDirective .dEndif, false), (.rIdentifier, false), (.rOp .oSemicolon, false),
   (.rKeyword .kEnd, false), (.rOp .oDot, false), (.rEof, false)]

/-- the kinds of the ill-formed `if then record case` -/
def exIllFormedIf : List (RawKind × Bool) :=
  [(.rKeyword .kIf, false), (.rKeyword .kThen, false), (.rKeyword .kRecord, false), (.rKeyword .kCase, false),
   (.rEof, false)]

/-- the kinds of the ill-formed `x := function begin` -/
def exIllFormedEof : List (RawKind × Bool) :=
  [(.rIdentifier, false), (.rOp .oAssign, false), (.rKeyword .kFunction, false), (.rKeyword .kBegin, false),
   (.rEof, false)]

/-- **When the file has no conditional directives, every token is in exactly one logical line** (C14, "exactly one"),
    for every input on which the parser model answers.  First part: the token lists of the final lines, read one after
    the other, have no repetition (so no token is in two lines, nor twice in one).  Second part, with
    `parser_model_covers_every_token`: every token position has exactly one line position that holds it.
    The hypothesis excludes files with `{$if..}`/`{$else}`/`{$endif}`: there a token behind the directives is parsed
    once per pass and may end up in several lines (`token_in_two_lines_with_conditionals`). -/
theorem parser_model_exactly_one_without_conditionals (toks : List (RawKind × Bool)) (o : ParseFullOut)
    (h : parseFileFull toks = some o) (hnc : ∀ k ∈ toks.map (·.1), condKind? k = none) :
    (o.lines.flatMap (·.tokens)).Nodup ∧
    ∀ i, i < toks.length →
      ∃ j, (∃ l, o.lines[j]? = some l ∧ i ∈ l.tokens) ∧
        ∀ (j' : Nat) (l' : PLine), o.lines[j']? = some l' → i ∈ l'.tokens → j' = j := by
  have hnd := final_lines_nodup_without_conditionals toks o h hnc
  refine ⟨hnd, ?_⟩
  intro i hi
  obtain ⟨l, hl, hil⟩ := parser_model_covers_every_token toks o h i hi
  obtain ⟨j, hj⟩ := List.getElem?_of_mem hl
  exact ⟨j, ⟨l, hj, hil⟩, fun j' l' hj' hil' => nodup_flat_index hnd hj' hj hil' hil⟩

/-- non-vacuity: `begin a; end.` has no conditional directive, the model answers, and its lines are
    `begin` / `a ;` / `end .` / end of file -/
example : (∀ k ∈ exBeginEnd.map (·.1), condKind? k = none) ∧
    (parseFileFull exBeginEnd).map (·.lines.map (·.tokens)) = some [[0], [1, 2], [3, 4], [5]] := by
  decide +kernel

/-- the hypothesis of `parser_model_exactly_one_without_conditionals` is needed: in
    `begin {$ifdef A} if a then {$else} if b then {$endif} c; end.` the tokens `c ;` (10, 11) are in two final lines,
    one per pass (the two lines differ in their parent) -/
theorem token_in_two_lines_with_conditionals :
    (parseFileFull exTwoPasses).map (fun o => o.lines.filter (fun l => l.tokens.contains 10)) =
      some [{ parent := some ⟨1, 4⟩, level := 1, tokens := [10, 11], ltype := .lUnknown },
            { parent := some ⟨5, 8⟩, level := 1, tokens := [10, 11], ltype := .lUnknown }] := by
  decide +kernel

/-- **In the lines of every pass, every parent reference points at a line of the pass that holds the parent token** -
    for every input on which the parser model answers, ill-formed input included.  This is a fact about the control
    flow: a parent reference is taken from the current line and the current token
    (`get_line_parent_of_current_token`) and `next_token` puts that token onto that line before the reference is used;
    lines never lose tokens.  (For an arbitrary trace of the line builder nothing of the kind holds: the references
    are arguments of the primitives `pushLine` and `finish`.)  `parentsOk` is the decidable check
    `Parents.passParentsOk` on every pass. -/
theorem parser_model_pass_parents_contain_token (toks : List (RawKind × Bool)) (o : ParseFullOut)
    (h : parseFileFull toks = some o) : parentsOk o = true :=
  parentsOk_holds toks o h

/-- **A child line's parent line precedes it and contains the parent token** (C14, parent clause) - in the final lines,
    for every input on which the parser model answers.  No well-formedness hypothesis is needed for the final lines,
    because consolidation drops a parent reference that does not point at an earlier line of its pass (see
    `pass_line_can_be_its_own_parent`), remaps the others, and merges equal lines without moving any. -/
theorem parser_model_parent_contains_token (toks : List (RawKind × Bool)) (o : ParseFullOut)
    (h : parseFileFull toks = some o) :
    ∀ (i : Nat) (l : PLine) (p : LineParent), o.lines[i]? = some l → l.parent = some p →
      p.lineIndex < i ∧ ∃ pl, o.lines[p.lineIndex]? = some pl ∧ p.tokenIndex ∈ pl.tokens :=
  final_parents toks o h

/-- the same from the check alone (what consolidation does to parent references): if `parentsOk` holds for the lines
    of the passes then the parent clause holds for the final lines -/
theorem parent_clause_of_parentsOk (toks : List (RawKind × Bool)) (o : ParseFullOut)
    (h : parseFileFull toks = some o) (hg : parentsOk o = true) :
    ∀ (i : Nat) (l : PLine) (p : LineParent), o.lines[i]? = some l → l.parent = some p →
      p.lineIndex < i ∧ ∃ pl, o.lines[p.lineIndex]? = some pl ∧ p.tokenIndex ∈ pl.tokens :=
  final_parents_contain_token toks o h hg

/-- non-vacuity: in `begin if a then b; end.` the line `b ;` (final line 2) has the parent line 1 (`if a then`) and
    the parent token 3 (`then`) -/
example : (parseFileFull exIfThen).map (fun o => o.lines.map (fun l => (l.parent, l.tokens))) =
    some [(none, [0]), (none, [1, 2, 3]), (some ⟨1, 3⟩, [4, 5]), (none, [6, 7]), (none, [8])] := by
  decide +kernel

/-- the quirk on ill-formed input: for `if then record case` the line builder ends the pass with line 0 (`if then`)
    as its own parent, so "the parent line precedes the child line" is false for the lines of a pass; consolidation
    drops that reference (the final line 0 has no parent) -/
theorem pass_line_can_be_its_own_parent :
    (parseFileFull exIllFormedIf).map (fun o => (o.passLines.map (fun ls => ls.head?), o.lines.head?)) =
      some ([some { parent := some ⟨0, 1⟩, level := 1, tokens := [0, 1], ltype := .lUnknown }],
            some { parent := none, level := 1, tokens := [0, 1], ltype := .lUnknown }) := by
  decide +kernel

/-- **In the lines of every pass at most one line is typed `Eof`** - for every input on which the parser model answers.
    A fact about the control flow: only the last `set_logical_line_type` of `parse` makes an `Eof` line, out of the line
    that is current then; every other function leaves the line types other than `Eof`. -/
theorem parser_model_at_most_one_eof_line_per_pass (toks : List (RawKind × Bool)) (o : ParseFullOut)
    (h : parseFileFull toks = some o) :
    ∀ ls ∈ o.passLines, ∀ (i j : Nat) (li lj : PLine), ls[i]? = some li → ls[j]? = some lj →
      li.ltype = .lEof → lj.ltype = .lEof → i = j := by
  intro ls hls i j li lj hi hj hti htj
  obtain ⟨_, top, htop⟩ := passLines_ok toks o h ls hls
  have a := htop i li hi hti
  have b := htop j lj hj htj
  rw [← b] at a
  exact Option.some.inj a

/-- **Without conditional directives at most one final line is typed `Eof`** - for every input on which the parser
    model answers (ill-formed input included: there may be none, see `eof_token_can_be_swallowed`). -/
theorem parser_model_at_most_one_eof_line_without_conditionals (toks : List (RawKind × Bool)) (o : ParseFullOut)
    (h : parseFileFull toks = some o) (hnc : ∀ k ∈ toks.map (·.1), condKind? k = none) :
    ∀ (i j : Nat) (li lj : PLine), o.lines[i]? = some li → o.lines[j]? = some lj →
      li.ltype = .lEof → lj.ltype = .lEof → i = j := by
  obtain ⟨kinds, acc, _, hacc, _, _, hfinal⟩ := parseFileFull_spec toks o h
  obtain ⟨ls, hpl⟩ := single_pass toks o h hnc
  rw [hpl] at hacc
  have hacc' := consolidateAll_single ls acc hacc
  have hone := parser_model_at_most_one_eof_line_per_pass toks o h ls (by rw [hpl]; simp)
  -- a final line typed `Eof` has the tokens of a line of the pass typed `Eof`
  have src : ∀ l ∈ o.lines, l.ltype = .lEof → ∃ l0 ∈ ls, l.tokens = l0.tokens ∧ l0.ltype = .lEof := by
    intro l hl ht
    rcases Parents.consolidateGo_lines_from acc [] _ o.lines hfinal l hl with h1 | ⟨d, hd, _, e2, _, _⟩
    · rcases Parents.consolidateGo_lines_from [] [] ls acc hacc' l h1 with h2 | ⟨l0, hl0, e1, e2, _, _⟩
      · cases h2
      · exact ⟨l0, hl0, e1, by rw [← e2]; exact ht⟩
    · exfalso
      obtain ⟨_, hty, _⟩ := directiveLines_mem _ 0 _ d hd
      rw [ht] at e2
      rcases hty with b | b <;> rw [b] at e2 <;> cases e2
  intro i j li lj hi hj hti htj
  obtain ⟨a, ha, ea, ta⟩ := src li (List.mem_of_getElem? hi) hti
  obtain ⟨b, hb, eb, tb⟩ := src lj (List.mem_of_getElem? hj) htj
  obtain ⟨ia, hia⟩ := List.getElem?_of_mem ha
  obtain ⟨ib, hib⟩ := List.getElem?_of_mem hb
  have hab := hone ia ib a b hia hib ta tb
  subst hab
  rw [hia] at hib
  have hab : a = b := Option.some.inj hib
  subst hab
  -- the two final lines share a token, and no token is in two final lines
  obtain ⟨hne, _, _⟩ := parser_model_final_lines_wellformed toks o h li (List.mem_of_getElem? hi)
  obtain ⟨t, ht⟩ := List.exists_mem_of_ne_nil _ hne
  exact nodup_flat_index (final_lines_nodup_without_conditionals toks o h hnc) hi hj ht (by rw [eb, ← ea]; exact ht)

/-- **Exactly one end-of-file line, holding only the end-of-file token** (C14, last clause), under two decidable
    hypotheses: the file ends with the end-of-file token (true of every scanner output), and `eofLineInEveryPass`:
    the lines of every pass include the line `Eof, level 0, no parent, [last token]`.  Conclusion: the final lines hold
    that line at exactly one position `j`, and every final line that has type `Eof` or holds the end-of-file token is
    at position `j`.  What the hypothesis excludes: the control flow consuming the end-of-file token before the last
    `next_token` of `parse` (then the token sits in an ordinary line and no line has type `Eof`:
    `eof_token_can_be_swallowed`), or contexts still open at the end of `parse` (then level or parent of the line
    differ).  That no pass has a second `Eof` line need not be assumed
    (`parser_model_at_most_one_eof_line_per_pass`). -/
theorem parser_model_single_eof_line (toks : List (RawKind × Bool)) (o : ParseFullOut)
    (h : parseFileFull toks = some o) (hlast : (toks.map (·.1)).getLast? = some .rEof)
    (hg : eofLineInEveryPass o = true) :
    ∃ j, o.lines[j]? = some (eofLine toks.length) ∧
      ∀ (j' : Nat) (l : PLine), o.lines[j']? = some l → (l.ltype = .lEof ∨ (toks.length - 1) ∈ l.tokens) → j' = j :=
  final_single_eof_line' toks o h hlast hg

/-- the hypothesis can equally be put as `eofOk`: in the lines of every pass, the lines typed `Eof` are exactly
    `[Eof, level 0, no parent, [last token]]` -/
theorem eof_hypotheses_equivalent (toks : List (RawKind × Bool)) (o : ParseFullOut)
    (h : parseFileFull toks = some o) : eofOk o = true ↔ eofLineInEveryPass o = true :=
  eofOk_iff toks o h

/-- non-vacuity: `begin a; end.` satisfies the hypotheses of `parser_model_single_eof_line` -/
example : (exBeginEnd.map (·.1)).getLast? = some .rEof ∧
    (parseFileFull exBeginEnd).map eofLineInEveryPass = some true := by
  decide +kernel

/-- non-vacuity with two passes: `begin {$ifdef A} if a then {$else} if b then {$endif} c; end.` satisfies the
    hypotheses too, and the two end-of-file lines of its two passes are one final line -/
example : (exTwoPasses.map (·.1)).getLast? = some .rEof ∧
    (parseFileFull exTwoPasses).map (fun o => (eofLineInEveryPass o, o.passLines.length,
      (o.lines.filter (fun l => l.ltype == .lEof)).map (·.tokens))) = some (true, 2, [[14]]) := by
  decide +kernel

/-- the hypothesis is needed: for the ill-formed `x := function begin` the model (like the parser) answers one line of
    type `Assignment` holding all five tokens, the end-of-file token included; no line has type `Eof` -/
theorem eof_token_can_be_swallowed :
    (parseFileFull exIllFormedEof).map (fun o => (eofLineInEveryPass o, o.lines)) =
      some (false, [{ parent := none, level := 0, tokens := [0, 1, 2, 3, 4], ltype := .lAssignment }]) := by
  decide +kernel

end Pasfmt.C14
