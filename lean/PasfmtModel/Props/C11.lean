/-
  C11 — wrap_column is a limit, not a style switch.
  Proved for the *idealised optimiser*: the first minimum of `base + overflow(W)` over any finite
  candidate list with a `W`-independent order.  That `find_optimal_solution` (best-first search with
  pruning and an iteration limit that read `max_line_length`) is such an optimiser is NOT a
  theorem; the width-pair oracle checks the implementation on every well-formed case
  (level "other", partial: the search heuristics are named as the gap).
-/
import PasfmtModel.Generated.Inventory
import PasfmtModel.Model.Bytes

namespace Pasfmt.C11

/-- first element of the list that minimises `f` (ties: the earlier one) -/
def argminGo {C : Type} (f : C → Nat) (best : C) : List C → C
  | [] => best
  | c :: r => if f c < f best then argminGo f c r else argminGo f best r

def argmin {C : Type} (f : C → Nat) : List C → Option C
  | [] => none
  | c :: r => some (argminGo f c r)

theorem argminGo_le {C : Type} (f : C → Nat) (best : C) (l : List C) :
    f (argminGo f best l) ≤ f best ∧ ∀ c ∈ l, f (argminGo f best l) ≤ f c := by
  induction l generalizing best with
  | nil => exact ⟨Nat.le_refl _, by intro c hc; simp at hc⟩
  | cons a r ih =>
    unfold argminGo
    split
    · rename_i hlt
      have := ih a
      refine ⟨by omega, ?_⟩
      intro c hc
      rcases List.mem_cons.1 hc with rfl | h
      · exact this.1
      · exact this.2 c h
    · rename_i hge
      have := ih best
      refine ⟨this.1, ?_⟩
      intro c hc
      rcases List.mem_cons.1 hc with rfl | h
      · omega
      · exact this.2 c h

/-- `m` is the first minimiser of `f` in `l` -/
def IsFirstMin {C : Type} (f : C → Nat) (l : List C) (m : C) : Prop :=
  ∃ pre post, l = pre ++ m :: post ∧ (∀ c ∈ pre, f m < f c) ∧ (∀ c ∈ post, f m ≤ f c)

theorem argminGo_spec {C : Type} (f : C → Nat) (pre : List C) (best : C) (mid r : List C)
    (hpre : ∀ c ∈ pre, f best < f c) (hmid : ∀ c ∈ mid, f best ≤ f c) :
    IsFirstMin f (pre ++ best :: mid ++ r) (argminGo f best r) := by
  induction r generalizing pre best mid with
  | nil => exact ⟨pre, mid, by simp [argminGo], by simpa [argminGo] using hpre, by simpa [argminGo] using hmid⟩
  | cons a t ih =>
    unfold argminGo
    split
    · rename_i hlt
      -- a becomes the running best: everything seen so far is strictly larger
      have := ih (pre ++ best :: mid) a []
        (by
          intro c hc
          rcases List.mem_append.1 hc with h | h
          · exact Nat.lt_trans hlt (hpre c h)
          · rcases List.mem_cons.1 h with rfl | h'
            · exact hlt
            · exact Nat.lt_of_lt_of_le hlt (hmid c h'))
        (by intro c hc; simp at hc)
      simpa [List.append_assoc] using this
    · rename_i hge
      have := ih pre best (mid ++ [a]) hpre
        (by
          intro c hc
          rcases List.mem_append.1 hc with h | h
          · exact hmid c h
          · simp at h; subst h; omega)
      simpa [List.append_assoc] using this

/-- `argmin` returns the first minimiser -/
theorem argmin_spec {C : Type} (f : C → Nat) (l : List C) (m : C) (h : argmin f l = some m) : IsFirstMin f l m := by
  cases l with
  | nil => simp [argmin] at h
  | cons c r =>
    simp only [argmin, Option.some.injEq] at h
    rw [← h]
    have := argminGo_spec f [] c [] r (by intro x hx; simp at hx) (by intro x hx; simp at hx)
    simpa using this

/-- the first minimiser is unique -/
theorem firstMin_unique {C : Type} (f : C → Nat) (l : List C) (m1 m2 : C)
    (h1 : IsFirstMin f l m1) (h2 : IsFirstMin f l m2) : f m1 = f m2 := by
  obtain ⟨p1, q1, e1, hp1, hq1⟩ := h1
  obtain ⟨p2, q2, e2, hp2, hq2⟩ := h2
  have hm1 : m1 ∈ l := by rw [e1]; simp
  have hm2 : m2 ∈ l := by rw [e2]; simp
  have a : f m1 ≤ f m2 := by
    rw [e1] at hm2
    rcases List.mem_append.1 hm2 with h | h
    · exact Nat.le_of_lt (hp1 m2 h)
    · rcases List.mem_cons.1 h with rfl | h'
      · exact Nat.le_refl _
      · exact hq1 m2 h'
  have b : f m2 ≤ f m1 := by
    rw [e2] at hm1
    rcases List.mem_append.1 hm1 with h | h
    · exact Nat.le_of_lt (hp2 m1 h)
    · rcases List.mem_cons.1 h with rfl | h'
      · exact Nat.le_refl _
      · exact hq2 m1 h'
  omega

/-- **Shrinking the limit.** Let `costWide ≤ costNarrow` pointwise (a narrower limit can only add
    overflow penalty).  If the optimum for the wide limit costs the same under the narrow limit
    (it already fits), it is also the optimum for the narrow limit — with the same tie-breaking. -/
theorem argmin_shrink {C : Type} (costWide costNarrow : C → Nat) (l : List C) (m : C)
    (hle : ∀ c, costWide c ≤ costNarrow c)
    (hm : IsFirstMin costWide l m) (hfit : costNarrow m = costWide m) :
    IsFirstMin costNarrow l m := by
  obtain ⟨pre, post, e, hpre, hpost⟩ := hm
  refine ⟨pre, post, e, ?_, ?_⟩
  · intro c hc; have := hpre c hc; have := hle c; omega
  · intro c hc; have := hpost c hc; have := hle c; omega

/-- The penalty shape of `get_decision_penalty`: `base + Σ (2^20 + 3·excess)` over tokens ending
    beyond the limit.  It is antitone in the limit and is `base` exactly when everything fits. -/
def overflowPenalty (limit : Nat) (ends : List Nat) : Nat :=
  (ends.map fun e => if e > limit then 1048576 + 3 * (e - limit) else 0).sum

theorem overflow_antitone (w1 w2 : Nat) (h : w1 ≤ w2) (ends : List Nat) :
    overflowPenalty w2 ends ≤ overflowPenalty w1 ends := by
  unfold overflowPenalty
  induction ends with
  | nil => simp
  | cons e r ih =>
    simp only [List.map_cons, List.sum_cons]
    have : (if e > w2 then 1048576 + 3 * (e - w2) else 0) ≤ (if e > w1 then 1048576 + 3 * (e - w1) else 0) := by
      split <;> split <;> omega
    omega

theorem overflow_zero_iff_fits (w : Nat) (ends : List Nat) :
    overflowPenalty w ends = 0 ↔ ∀ e ∈ ends, e ≤ w := by
  unfold overflowPenalty
  induction ends with
  | nil => simp
  | cons e r ih =>
    simp only [List.map_cons, List.sum_cons, List.mem_cons, forall_eq_or_imp]
    constructor
    · intro h
      have h1 : (if e > w then 1048576 + 3 * (e - w) else 0) = 0 := by omega
      have h2 : (List.map (fun e => if e > w then 1048576 + 3 * (e - w) else 0) r).sum = 0 := by omega
      refine ⟨?_, ih.1 h2⟩
      split at h1 <;> omega
    · intro ⟨h1, h2⟩
      have := ih.2 h2
      rw [this]
      have : ¬ e > w := by omega
      simp [this]

/-- if every line fits at some limit it fits at any larger one (on renderings) -/
theorem lines_fit_mono (w1 w2 : Nat) (h : w1 ≤ w2) (ends : List Nat) (hf : ∀ e ∈ ends, e ≤ w1) :
    ∀ e ∈ ends, e ≤ w2 := fun e he => Nat.le_trans (hf e he) h

/-- **The width limit is read only as a limit.**  The translator lists every place of the wrapper's
    source (`optimising_line_formatter/*.rs`) that reads `max_line_length`, with the number of reads:
    the "last line is too long" test of `find_optimal_solution` (comparison and its trace message) and
    the overflow penalty of `get_decision_penalty` (comparison and excess).  Both enter the search only
    through "does the line exceed the limit, and by how much" — the shape the theorems above assume.
    A new read anywhere else (a threshold such as `max_line_length / 2`, a style chosen by width)
    changes this list and breaks this obligation: it has to be reviewed against `argmin_shrink`. -/
theorem width_is_read_only_as_a_limit :
    widthReads = ["mod.rs:find_optimal_solution#2", "mod.rs:get_decision_penalty#2"] := rfl

end Pasfmt.C11
