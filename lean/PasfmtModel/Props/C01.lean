/-
  C01 — Formatting preserves every non-blank character, in order (ignoring ASCII letter case).
-/
import PasfmtModel.Proofs.PipelineC01
import PasfmtModel.Model.Contracts
import PasfmtModel.Proofs.LexBoundaries
import PasfmtModel.Proofs.MlsSim
import PasfmtModel.Proofs.CaseConfined
import PasfmtModel.Proofs.WrapStageProps
import PasfmtModel.Proofs.PipelineFullProps
import PasfmtModel.Proofs.Utf8Pipeline

namespace Pasfmt.C01

/-
  `C01_format` below is the full statement; `C01_format_partial` is the same statement with
  `ValidUtf8 s` replaced by its consequence "no token content has a dangling E3 byte" (`hnd`), kept
  because it also covers byte strings that are not UTF-8.
-/
theorem C01_format_partial (cfg : Config) (O : Oracles) (s out : Bytes)
    (h : format cfg O s = some out)
    (hW : WrapFrame O)
    (hnd : ∀ toks, lex s = some toks → ∀ t ∈ toks, nd t.content = true) :
    foldStrip out = foldStrip s := by
  unfold format at h
  cases hl : lex s with
  | none => rw [hl] at h; simp at h
  | some toks =>
    rw [hl] at h
    simp only [Option.map_some, Option.some.injEq] at h
    rw [← h]
    have hloss := lex_lossless_with false s toks hl
    obtain ⟨pre, e, hp, he, hall⟩ := lexFuel_shape false _ _ _ _ hl
    have hraw : ∀ r ∈ toks, Gap r.ws ∧ nd r.content = true := by
      intro r hr
      refine ⟨?_, hnd toks hl r hr⟩
      rw [hp] at hr
      rcases List.mem_append.1 hr with h1 | h1
      · exact (hall r h1).ws_gap
      · simp at h1; subst h1; exact he.ws_gap
    rw [formatTokens_foldStrip cfg O toks hW hraw, hloss]

/-- **C01.**  For every well-formed UTF-8 input, every configuration, every parser behaviour and every
    wrapper behaviour that satisfies the frame contract, the formatter returns an output (the
    scanner never fails) and the output has the same non-blank characters in the same order as the
    input, up to ASCII letter case. -/
theorem C01_format (cfg : Config) (O : Oracles) (s : Bytes) (hv : ValidUtf8 s) (hW : WrapFrame O) :
    ∃ out, format cfg O s = some out ∧ foldStrip out = foldStrip s := by
  obtain ⟨toks, hl⟩ := lex_total s
  have hnd : ∀ toks', lex s = some toks' → ∀ t ∈ toks', nd t.content = true := by
    intro toks' hl' t ht
    exact valid_nd _ (lexWith_char_boundaries false s toks' hv hl' t ht).2
  have hfmt : ∃ out, format cfg O s = some out := by
    unfold format; rw [hl]; exact ⟨_, rfl⟩
  obtain ⟨out, ho⟩ := hfmt
  exact ⟨out, ho, C01_format_partial cfg O s out ho hW hnd⟩

/-- **C01 under the exact wrapper contract.**  `WrapExact` is what the correspondence compares on every
    case (`wc`): leading whitespace kept or dropped, kinds and ignored flags kept, contents changed
    exactly as the model of the string re-indenter does with the final counters.  The frame used by
    `C01_format` is a consequence (`mlsRewrite_sim`: the re-indenter only changes blanks). -/
theorem C01_format_exact (cfg : Config) (O : Oracles) (s : Bytes) (hv : ValidUtf8 s) (hW : WrapExact O) :
    ∃ out, format cfg O s = some out ∧ foldStrip out = foldStrip s :=
  C01_format cfg O s hv hW.frame

/-- **C01 for every search of the line wrapper.**  The wrapper stage is the exact model of
    `OptimisingLineFormatter::format` around an arbitrary search (`Model/WrapStage.lean`: applying solutions, the
    string passes, which lines are re-wrapped, the removal of spaces at line starts; compared with the real stage on
    every case, fields `wp`, `wcn`).  Whatever solutions the search returns, for every parser behaviour: the output
    has the input's non-blank characters, in order, up to ASCII case.  No wrapper contract is assumed. -/
theorem C01_format_any_search (cfg : Config) (O : Oracles) (solve : Nat → Nat → Option Sol) (s : Bytes) (hv : ValidUtf8 s) :
    ∃ out, format cfg (O.withSolver solve) s = some out ∧ foldStrip out = foldStrip s :=
  C01_format cfg (O.withSolver solve) s hv (wrapFrame_of_solver O solve)

/-- **C01 for the closed model of the whole formatter** (`formatFull`: scanner, parser with its control flow,
    consolidators, ignorers, token rules, the wrapper stage with the search inside, reconstructor - no component is a
    parameter except `char::is_alphanumeric` on non-ASCII characters; compared byte for byte with
    `make_formatter().format()` on every case of the `full` stream).  Whenever the model answers, its output has the
    input's non-blank characters, in order, up to ASCII case. -/
theorem C01_format_full (cfg : Config) (alnum : Bytes → Bool) (s : Bytes) (hv : ValidUtf8 s) (out : Bytes)
    (h : formatFull cfg alnum s = some out) : foldStrip out = foldStrip s := by
  unfold formatFull at h
  split at h
  · simp at h
  · rename_i raw hl
    obtain ⟨po, _, hft⟩ := formatTokensFull_eq cfg alnum raw out h
    obtain ⟨out', ho, hfold⟩ := C01_format cfg (fullOracles alnum po) s hv (wrapFrame_full alnum po)
    have : out' = out := by
      unfold format at ho
      rw [hl] at ho
      simp at ho
      rw [← ho, hft]
    rw [← this]; exact hfold

/-- the reconstructor emits every token's content exactly once, in order, separated by blank-only
    gaps — for **every** assignment of whitespace counters and every ignored-set -/
theorem reconstruct_contents_in_order (cfg : Config) (ft : FT)
    (h : ∀ t ∈ ft, Gap t.tok.ws ∧ nd t.tok.content = true) :
    stripBlank (reconstruct cfg.settings ft) = ft.flatMap (fun t => stripBlank t.tok.content) :=
  reconGo_strip _ (settings_gap cfg) ft false h

/-- each content rule only changes blanks / ASCII letter case (on text without dangling `E3`) -/
theorem lowercase_fold (c : Bytes) : Sim c (asciiLower c) := sim_lower c
theorem directive_fold (c c' : Bytes) (h : formatCompilerDirective c = some c') :
    asciiLower c' = asciiLower c ∧ Sim c c' := by
  refine ⟨?_, sim_formatCompilerDirective c c' h⟩
  have := sim_formatCompilerDirective c c' h
  -- case-equality is how the Sim is obtained; restate it directly
  unfold formatCompilerDirective at h
  simp only at h
  split at h
  · simp at h
  · rename_i pre stripped hs
    split at h
    · simp at h
    · rename_i n _
      split at h
      · simp only [Option.some.injEq] at h
        rw [← h]
        have hc : c = pre ++ stripped := by
          split at hs
          · simp at hs; rw [← hs.1, ← hs.2]; rfl
          · simp at hs; rw [← hs.1, ← hs.2]; rfl
          · simp at hs
        rw [hc, asciiLower_append, asciiLower_append, asciiLower_upper, asciiLower_append]
        rw [List.append_assoc, ← asciiLower_append (List.take n stripped), List.take_append_drop]
      · simp at h
theorem line_comment_blank_only (U : Bytes → Bool) (c c' : Bytes) (h : formatLineComment U c = some c') :
    Sim c c' := sim_formatLineComment U c c' h

/-- the executable frame check used by the correspondence implies the hypothesis `WrapFrame` -/
theorem wrapFrameB_sound (ft ft' : FT) (h : wrapFrameB ft ft' = true) : All2 WrapRel ft ft' := by
  unfold wrapFrameB at h
  induction ft generalizing ft' with
  | nil =>
    cases ft' with
    | nil => exact .nil
    | cons _ _ => simp [all2B] at h
  | cons t r ih =>
    cases ft' with
    | nil => simp [all2B] at h
    | cons t' r' =>
      simp only [all2B, Bool.and_eq_true] at h
      refine .cons ?_ (ih r' h.2)
      have h1 := h.1
      unfold wrapRelB at h1
      simp only [Bool.and_eq_true, Bool.or_eq_true, beq_iff_eq, Bool.not_eq_true'] at h1
      constructor
      · intro hg
        rcases h1.1 with e | e
        · rw [e]; exact hg
        · rw [e]; exact Gap.nil
      · intro hn
        rcases h1.2 with e | e
        · rw [e]; exact ⟨hn, rfl⟩
        · rcases e with e | e
          · rw [hn] at e; simp at e
          · exact e

-- Non-vacuity: the identity wrapper satisfies `WrapFrame`.
example : WrapFrame { parser := fun raw => { kinds := raw.map (·.kind.toTokenType), lines := [] },
                      wrap := fun _ _ ft => ft, alnum := fun _ => false } := by
  intro cfg lines ft
  induction ft with
  | nil => exact .nil
  | cons t r ih => exact .cons ⟨id, Sim.refl _⟩ ih

/-- **C01, second clause: where case may change.**  For every parser behaviour, every token that
    reaches the wrapper stage relates to the scanned token it came from in one of three ways: its
    content differs in blanks only (exactly — not up to case; this is what the line-comment rule
    does, and "no change" is a special case); or the parser typed it as a keyword and it is that text
    lower-cased; or it is a compiler directive `{$name…}` / `(*$name…*)` whose name — the run of letters,
    digits, `_`, `+`, `-`, `,` directly after the `$` — is upper-cased while the opener and everything
    after the name are kept byte for byte.  (The wrapper stage itself changes contents of multi-line
    strings only, as the re-indenter does: contract `wrapContentB`, evaluated per case.) -/
theorem case_changes_confined (O : Oracles) (raw : List RawTok) :
    All2 (fun (r : RawTok) (t : FTok) => CaseRel t.tok.kind r.content t.tok.content) raw (preWrap O raw).2.2 :=
  preWrap_caseRel O raw

/-- the directive clause is met by `{$ifdef foo}`: the name `ifdef` is upper-cased, ` foo}` is kept -/
example : formatCompilerDirective "{$ifdef foo}".toUTF8.toList = some "{$IFDEF foo}".toUTF8.toList := by
  decide +kernel

/-- **The output of the closed model of the whole formatter is well-formed UTF-8 whenever the input is**, for
    every configuration and every behaviour of `char::is_alphanumeric`: the scanner cuts at character boundaries,
    every token rule and the string re-indenter keep each piece well-formed (`C15.formatFull_pieces_valid`), and the
    reconstructor joins the pieces with ASCII gaps (`C15.output_valid_utf8`).  So C01's "same non-blank characters"
    is a statement about characters of the output, not only about its bytes. -/
theorem formatFull_output_valid_utf8 (cfg : Config) (alnum : Bytes → Bool) (s out : Bytes) (hv : ValidUtf8 s)
    (h : formatFull cfg alnum s = some out) : ValidUtf8 out :=
  Utf8Pipeline.formatFull_output_valid_utf8 cfg alnum s out hv h

end Pasfmt.C01
