/-
  C17 — Files are written back in the encoding and with the BOM they were read in.
-/
import PasfmtModel.Proofs.IOProofs

namespace Pasfmt.C17
open Pasfmt.IO

/-- BOM sniffing: EF BB BF / FF FE / FE FF (in that order of precedence) -/
theorem bom_sniff_spec (rest : Bytes) :
    sniffBom (0xEF :: 0xBB :: 0xBF :: rest) = some (.utf8, 3) ∧
    sniffBom (0xFF :: 0xFE :: rest) = some (.utf16le, 2) ∧
    sniffBom (0xFE :: 0xFF :: rest) = some (.utf16be, 2) := ⟨rfl, rfl, rfl⟩

theorem bom_overrides_config {T : Type} (C : Codec T) (e1 e2 : Enc) (bs : Bytes) (h : (sniffBom bs).isSome = true) :
    (decodeFile C e1 bs).map (·.enc) = (decodeFile C e2 bs).map (·.enc) ∧
    (decodeFile C e1 bs).map (·.bom) = (decodeFile C e2 bs).map (·.bom) :=
  IO.bom_overrides_config C e1 e2 bs h

/-- the hand-written UTF-16 encoders round-trip every text (surrogate pairs included), both byte orders -/
theorem utf16_roundtrip (be : Bool) (s : List Nat) (hs : ∀ c ∈ s, isScalar c = true) :
    decode16 be (encode16 be s) = some s := IO.utf16_roundtrip be s hs

/-- bytes written = BOM ++ encode(selected encoding, formatted text), the BOM being the one read -/
theorem written_bytes_spec {T : Type} (C : Codec T) (cfgEnc : Enc) (content : Bytes) (d : Decoded T) (out : T) (bs : Bytes)
    (hd : decodeFile C cfgEnc content = some d) (hw : writeBytes C d out = some bs) :
    ∃ e, C.enc d.enc out = some e ∧ bs = d.bom ++ e ∧
      d.bom = content.take (match sniffBom content with | some (_, n) => n | none => 0) := by
  unfold writeBytes at hw
  cases he : C.enc d.enc out with
  | none => rw [he] at hw; simp at hw
  | some e =>
    rw [he] at hw; simp at hw
    refine ⟨e, rfl, hw.symm, ?_⟩
    unfold decodeFile at hd
    cases hs : sniffBom content with
    | none =>
      rw [hs] at hd; simp only at hd
      split at hd
      · simp at hd; rw [← hd]; simp
      · simp at hd
    | some p =>
      obtain ⟨en, n⟩ := p
      rw [hs] at hd; simp only at hd
      split at hd
      · simp at hd; rw [← hd]
      · simp at hd

/-- malformed input is rejected and never rewritten, in every mode -/
theorem malformed_never_written {T : Type} [DecidableEq T] (C : Codec T) (fmt : T → T) (u8 : T → Bytes)
    (cfgEnc : Enc) (mode : Mode) (hdr content : Bytes) (h : decodeFile C cfgEnc content = none) :
    (runFile C fmt u8 cfgEnc mode hdr content).file = content ∧
    (runFile C fmt u8 cfgEnc mode hdr content).failed = true := by
  rw [IO.undecodable_untouched C fmt u8 cfgEnc mode hdr content h]; exact ⟨rfl, rfl⟩

-- Non-vacuity / test: U+1F600 encodes to the surrogate pair D83D DE00 in both byte orders.
example : encode16 false [0x1F600] = [0x3D, 0xD8, 0x00, 0xDE] := by decide
example : encode16 true [0x41, 0x1F600] = [0x00, 0x41, 0xD8, 0x3D, 0xDE, 0x00] := by decide

end Pasfmt.C17
