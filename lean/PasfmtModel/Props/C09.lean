/-
  C09 — The configured line ending is used everywhere and input endings do not matter.
-/
import PasfmtModel.Proofs.ReconProps
import PasfmtModel.Proofs.MlsBreaks

namespace Pasfmt.C09

/-- With the same counters, the crlf rendering is exactly the lf rendering with every terminator
    substituted, for every token list whose verbatim-emitted parts contain no line break
    (the property's proviso: no line-spanning token kept verbatim). -/
theorem recon_crlf_subst (c : Config) (ft : FT) (h : ∀ t ∈ ft, noNlTok t = true) :
    reconstruct ({ c with crlf := true }).settings ft
      = crlfOf (reconstruct ({ c with crlf := false }).settings ft) := by
  unfold reconstruct Config.settings
  simp only
  split
  · exact reconGo_crlf _ _ (replicate_noNl _ _ (by decide)) (replicate_noNl _ _ (by decide)) ft false h
  · exact reconGo_crlf _ _ (replicate_noNl _ _ (by decide)) (replicate_noNl _ _ (by decide)) ft false h

/-- every break emitted in front of a non-ignored token is the configured newline string:
    the gap is `nl^k ++ indentation ++ spaces` and contains no other `\n` or `\r` -/
theorem emitted_breaks_are_nl (c : Config) (t : FTok) (mb : Bool) (h : t.fmt.ignored = false) :
    ∃ k rest, gapOf c.settings t mb = replicateBytes k c.settings.nlStr ++ rest ∧
      containsByte 0x0A rest = false ∧ containsByte 0x0D rest = false := by
  unfold gapOf
  simp only [h]
  refine ⟨_, _, by rw [List.append_assoc, List.append_assoc]; rfl, ?_, ?_⟩
  · have hs := settings_indent_noBreak c 0x0A (Or.inl rfl)
    rw [containsByte_append, containsByte_append, replicateBytes_noByte _ _ _ hs.1,
        replicateBytes_noByte _ _ _ hs.2, replicate_noByte _ _ _ (by decide)]; rfl
  · have hs := settings_indent_noBreak c 0x0D (Or.inr rfl)
    rw [containsByte_append, containsByte_append, replicateBytes_noByte _ _ _ hs.1,
        replicateBytes_noByte _ _ _ hs.2, replicate_noByte _ _ _ (by decide)]; rfl

/-- the whitespace counters do not depend on whether the input's breaks are LF or CRLF -/
theorem fmtdata_crlf (ws : Bytes) (ig : Bool) : (FmtData.ofWs (crlfOf ws) ig).nl = (FmtData.ofWs ws ig).nl := by
  unfold FmtData.ofWs; simp only; rw [ofWs_nl_crlf]

/-- every line break inside a re-indented multi-line string is the configured line ending: the
    rewritten literal is its first line followed by segments, each introduced by `nlStr` and free of
    `\n` / `\r` itself (for the settings of every configuration) -/
theorem mls_breaks_are_configured (cfg : Config) (content : Bytes) (ind cont : Nat) (c' : Bytes)
    (h : mlsRewrite cfg.settings content ind cont = some c') :
    ∃ (first : Bytes) (segs : List Bytes),
      c' = first ++ (segs.map (cfg.settings.nlStr ++ ·)).flatten ∧ NoNl first ∧ ∀ s ∈ segs, NoNl s :=
  mlsRewrite_breaks cfg.settings (settings_noNl cfg).1 (settings_noNl cfg).2 content ind cont c' h

end Pasfmt.C09
