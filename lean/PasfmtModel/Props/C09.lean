/-
  C09 — The configured line ending is used everywhere and input endings do not matter.
-/
import PasfmtModel.Proofs.ReconProps
import PasfmtModel.Proofs.MlsBreaks
import PasfmtModel.Proofs.CrlfFull
import PasfmtModel.Proofs.CrlfPremise
import PasfmtModel.Proofs.LayoutFull

namespace Pasfmt.C09

/-- With the same counters, the crlf rendering is exactly the lf rendering with every terminator
    substituted, for every token list whose verbatim-emitted parts contain no line break
    (the property's proviso: no line-spanning token kept verbatim). -/
theorem recon_crlf_subst (c : Config) (ft : FT) (h : ∀ t ∈ ft, noNlTok t = true) :
    reconstruct ({ c with crlf := true }).settings ft
      = crlfOf (reconstruct ({ c with crlf := false }).settings ft) := by
  unfold reconstruct Config.settings
  simp only
  split
  · exact reconGo_crlf _ _ (replicate_noNl _ _ (by decide)) (replicate_noNl _ _ (by decide)) ft false h
  · exact reconGo_crlf _ _ (replicate_noNl _ _ (by decide)) (replicate_noNl _ _ (by decide)) ft false h

/-- every break emitted in front of a non-ignored token is the configured newline string:
    the gap is `nl^k ++ indentation ++ spaces` and contains no other `\n` or `\r` -/
theorem emitted_breaks_are_nl (c : Config) (t : FTok) (mb : Bool) (h : t.fmt.ignored = false) :
    ∃ k rest, gapOf c.settings t mb = replicateBytes k c.settings.nlStr ++ rest ∧
      containsByte 0x0A rest = false ∧ containsByte 0x0D rest = false := by
  unfold gapOf
  simp only [h]
  refine ⟨_, _, by rw [List.append_assoc, List.append_assoc]; rfl, ?_, ?_⟩
  · have hs := settings_indent_noBreak c 0x0A (Or.inl rfl)
    rw [containsByte_append, containsByte_append, replicateBytes_noByte _ _ _ hs.1,
        replicateBytes_noByte _ _ _ hs.2, replicate_noByte _ _ _ (by decide)]; rfl
  · have hs := settings_indent_noBreak c 0x0D (Or.inr rfl)
    rw [containsByte_append, containsByte_append, replicateBytes_noByte _ _ _ hs.1,
        replicateBytes_noByte _ _ _ hs.2, replicate_noByte _ _ _ (by decide)]; rfl

/-- the whitespace counters do not depend on whether the input's breaks are LF or CRLF -/
theorem fmtdata_crlf (ws : Bytes) (ig : Bool) : (FmtData.ofWs (crlfOf ws) ig).nl = (FmtData.ofWs ws ig).nl := by
  unfold FmtData.ofWs; simp only; rw [ofWs_nl_crlf]

/-- every line break inside a re-indented multi-line string is the configured line ending: the
    rewritten literal is its first line followed by segments, each introduced by `nlStr` and free of
    `\n` / `\r` itself (for the settings of every configuration) -/
theorem mls_breaks_are_configured (cfg : Config) (content : Bytes) (ind cont : Nat) (c' : Bytes)
    (h : mlsRewrite cfg.settings content ind cont = some c') :
    ∃ (first : Bytes) (segs : List Bytes),
      c' = first ++ (segs.map (cfg.settings.nlStr ++ ·)).flatten ∧ NoNl first ∧ ∀ s ∈ segs, NoNl s :=
  mlsRewrite_breaks cfg.settings (settings_noNl cfg).1 (settings_noNl cfg).2 content ind cont c' h

/-! ### second clause for the closed model of the whole formatter (`formatFull`)

  The two runs (`crlf := false` / `crlf := true`) are followed token by token (`Proofs/CrlfFull.lean`).  Everything
  before the wrapper stage does not take the configuration; the search reads it through `Config.searchCfg` (no line
  ending) and reads live tokens through `FTok.sview` (type, length of the last line).  The texts of one token in the
  two runs are identical (the text the stage started with) or the two renderings `first ++ (LF ++ seg)*` /
  `first ++ (CRLF ++ seg)*` of the same lines (`CrlfFull.Joined`), which the search cannot tell apart. -/

open CrlfFull

/-- **One literal, two terminators.**  For a literal that ends in a quote and any counters: either the re-indenter
    leaves it alone under both line endings, or the text after the crlf run's string pass is the text after the lf
    run's string pass with every `\n` replaced by `\r\n` ("after the pass" = the new text if the pass changed it, the
    old text otherwise).  In particular if both runs rewrite it, the crlf result is the substituted lf result. -/
theorem mls_rewrite_crlf (cfg : Config) (c : Bytes) (hq : c.getLast? = some 0x27) (ind cont : Nat) :
    (mlsRewrite ({ cfg with crlf := false }).settings c ind cont = none ∧
      mlsRewrite ({ cfg with crlf := true }).settings c ind cont = none) ∨
    (mlsRewrite ({ cfg with crlf := true }).settings c ind cont).getD c =
      crlfOf ((mlsRewrite ({ cfg with crlf := false }).settings c ind cont).getD c) := by
  rcases (mlsRewrite_pair (lfCrlf_settings cfg) c c (Or.inl rfl) hq hq ind cont).1 with h | h
  · exact Or.inl h
  · exact Or.inr h.crlfOf

/-- both runs rewrite: the crlf text is the lf text with each terminator substituted -/
theorem mls_rewrite_crlf_some (cfg : Config) (c a b : Bytes) (hq : c.getLast? = some 0x27) (ind cont : Nat)
    (ha : mlsRewrite ({ cfg with crlf := false }).settings c ind cont = some a)
    (hb : mlsRewrite ({ cfg with crlf := true }).settings c ind cont = some b) : b = crlfOf a := by
  rcases mls_rewrite_crlf cfg c hq ind cont with h | h
  · rw [ha] at h; cases h.1
  · rw [ha, hb] at h; exact h

/-- the two rewritten texts look the same to the line-wrapping search: same length of the last line as
    `str::lines()` sees it (it strips the `\r`) -/
theorem search_view_crlf (cfg : Config) (k : Kind) (c a b : Bytes) (hq : c.getLast? = some 0x27) (ind cont : Nat)
    (ha : mlsRewrite ({ cfg with crlf := false }).settings c ind cont = some a)
    (hb : mlsRewrite ({ cfg with crlf := true }).settings c ind cont = some b) :
    lastLineLen k a = lastLineLen k b := by
  rcases (mlsRewrite_pair (lfCrlf_settings cfg) c c (Or.inl rfl) hq hq ind cont).1 with h | h
  · rw [ha] at h; cases h.1
  · rw [ha, hb] at h; exact lastLineLen_joined k h

/-- the literal `''' LF sp x LF sp '''` with one indentation (two spaces): the lf run writes
    `''' LF sp sp x LF sp sp '''`, the crlf run the same with `\r\n` -/
example :
    let c : Bytes := [0x27,0x27,0x27,0x0A,0x20,0x78,0x0A,0x20,0x27,0x27,0x27]
    let a : Bytes := [0x27,0x27,0x27,0x0A,0x20,0x20,0x78,0x0A,0x20,0x20,0x27,0x27,0x27]
    mlsRewrite ({ Config.default with crlf := false }).settings c 1 0 = some a ∧
    mlsRewrite ({ Config.default with crlf := true }).settings c 1 0 = some (crlfOf a) := by decide

/-- **Counterexample to "both runs rewrite the same literals".**  A literal that is already in lf form at the right
    indentation is left alone by the lf run (`none`: nothing to change) and rewritten by the crlf run.  Its text
    after the pass is still the substituted one (`mls_rewrite_crlf`), but the crlf run marks its line as changed and
    wraps it a second time, the lf run does not: the runs differ in which lines go through the search again.  On the
    lf-formatted input `begin / a := / ''' / x / '''; / end.` (one item per line) the crlf run applies the solutions
    of lines 0, 1, 2 and then of line 1 again, the lf run only those of lines 0, 1, 2; the outputs still agree
    (`#eval`), but proving that in general needs "a second search of an unchanged line finds the same solution",
    a theorem about the search and its cache.  Hence hypothesis (2) of `crlfStageOk`. -/
theorem mls_rewrite_disagree_example :
    let c : Bytes := [0x27,0x27,0x27,0x0A,0x20,0x20,0x78,0x0A,0x20,0x20,0x27,0x27,0x27]
    mlsRewrite ({ Config.default with crlf := false }).settings c 1 0 = none ∧
    mlsRewrite ({ Config.default with crlf := true }).settings c 1 0 = some (crlfOf c) := by decide

/-- **Why the literal has to end in a quote.**  `lines_custom` gives a text that ends in `\r\n` one (empty) line more
    than the same text ending in `\n`: for a "literal" ending in a line break the two runs would re-indent different
    lines.  The scanner's multi-line literals end in three quotes; hypothesis (1) of `crlfStageOk`. -/
theorem lines_custom_trailing_break_example :
    linesCustom [0x61, 0x0A] = [[0x61]] ∧ linesCustom [0x61, 0x0D, 0x0A] = [[0x61], []] := by decide

/-- **Why line-spanning verbatim tokens are excluded.**  A block comment `{ LF }` is emitted as it is under both line
    endings, so the crlf output is not the substituted lf output; hypothesis (3) of `crlfStageOk` (`safeTok`). -/
theorem verbatim_break_example :
    let t : FTok := { tok := { ws := [], content := [0x7B, 0x0A, 0x7D], kind := .tComment .cMultilineBlock },
                      fmt := { ignored := false, nl := 0, ind := 0, cont := 0, sp := 0 } }
    reconstruct ({ Config.default with crlf := true }).settings [t] = [0x7B, 0x0A, 0x7D] ∧
    crlfOf (reconstruct ({ Config.default with crlf := false }).settings [t]) = [0x7B, 0x0D, 0x0A, 0x7D] := by decide

/-- **The wrapper stage with the search inside and the reconstructor, in the two runs.**  `lines`, `ft0`: the state the
    stage starts from.  If the lf run answers and the decidable side conditions `crlfStageOk cfg lines ft0` hold -
    (1) every non-ignored multi-line literal of `ft0` ends in a quote, (2) with string formatting on, for every token
    of the lf run's state at the start of the first string pass the two runs agree on whether the re-indenter
    changes it (`agreeTok`; excludes literals already in final lf or crlf form, see `mls_rewrite_disagree_example`),
    (3) every token of the lf run's final state is `safeTok`: an ignored token has no `\n` in whitespace or text, any
    other token has no `\n` in its text unless the stage changed the text (excludes multi-line comments, line breaks
    inside verbatim regions and multi-line literals the re-indenter rejects) - then the crlf run answers, applies the
    same solutions in the same order, and its output is the lf output with every `\n` replaced by `\r\n`. -/
theorem C09_wrap_stage_crlf_config (cfg : Config) (lines : List Line) (ft0 ftz : FT) (sols : List (Nat × Nat × Sol))
    (h : wrapStageFull { cfg with crlf := false } lines ft0 = some (ftz, sols))
    (hok : crlfStageOk cfg lines ft0 = true) :
    ∃ ftz', wrapStageFull { cfg with crlf := true } lines ft0 = some (ftz', sols) ∧
      reconstruct ({ cfg with crlf := true }).settings ftz' =
        crlfOf (reconstruct ({ cfg with crlf := false }).settings ftz) :=
  wrapStageFull_crlf_output cfg lines ft0 ftz sols h hok

/-- the same with the three side conditions spelled out instead of the Boolean check; the final state of the crlf run
    is related to that of the lf run token by token (`CrlfFull.RelC`: same type, same counters, ignored tokens
    identical, texts identical and unchanged by the stage or the two renderings of the same lines) -/
theorem C09_wrap_stage_crlf_config_rel (cfg : Config) (lines : List Line) (ft0 ftz : FT) (sols : List (Nat × Nat × Sol))
    (h : wrapStageFull { cfg with crlf := false } lines ft0 = some (ftz, sols))
    (hq : ∀ t ∈ ft0, mlsLive t = true → t.tok.content.getLast? = some 0x27)
    (hagree : cfg.fmtMls = true → ∀ ft1, phase0 { cfg with crlf := false } lines ft0 = some ft1 →
      ∀ t ∈ ft1, agreeTok ({ cfg with crlf := false }).settings ({ cfg with crlf := true }).settings t = true) :
    ∃ ftz', wrapStageFull { cfg with crlf := true } lines ft0 = some (ftz', sols) ∧
      RelC (fun _ => True) (origContent ft0) ftz ftz' :=
  wrapStageFull_crlf cfg lines ft0 ftz sols h hq hagree

/-- **C09, second clause, for the closed model of the whole formatter.**  If `formatFull` with `crlf := false` answers
    `outL` and the side conditions `crlfOk cfg alnum s` hold (`crlfStageOk` at the state the wrapper stage starts
    from, which does not depend on the configuration; all three are computed from the lf run), then `formatFull` with
    `crlf := true` answers `outL` with every `\n` replaced by `\r\n`.  No contract, no oracle: scanner, parser,
    consolidators, rules, the search, the string passes and the reconstructor are the model's own. -/
theorem C09_format_full_crlf_config (cfg : Config) (alnum : Bytes → Bool) (s outL : Bytes)
    (hok : crlfOk cfg alnum s = true)
    (h : formatFull { cfg with crlf := false } alnum s = some outL) :
    formatFull { cfg with crlf := true } alnum s = some (crlfOf outL) :=
  formatFull_crlf_config cfg alnum s outL hok h

/-- the first side condition of `C09_format_full_crlf_config` is a theorem: at the state the wrapper stage starts from,
    every multi-line literal was scanned as one (parser and consolidators make no text literal, the token rules keep
    every kind: `Proofs/ParserLiteralsConv.lean`), has its scanned text, and so ends in a quote
    (`C12.scanned_mls_ends_quote`).  `crlfOk23` = `crlfOk` without that conjunct. -/
theorem C09_crlfOk_of_23 (cfg : Config) (alnum : Bytes → Bool) (s : Bytes) (h : crlfOk23 cfg alnum s = true) :
    crlfOk cfg alnum s = true :=
  crlfOk_of_23 cfg alnum s h

/-- **C09, second clause, for the closed model of the whole formatter, with two side conditions.**  As
    `C09_format_full_crlf_config`, with `crlfOk23 cfg alnum s` for `crlfOk cfg alnum s`: only (2) if strings are
    re-indented, the two runs agree on which literals the first string pass changes, and (3) every token of the lf
    run's final state is safe to emit under the substitution - both computed from the lf run, at the state the wrapper
    stage starts from.  No contract, no oracle. -/
theorem C09_format_full_crlf_config23 (cfg : Config) (alnum : Bytes → Bool) (s outL : Bytes)
    (hok : crlfOk23 cfg alnum s = true)
    (h : formatFull { cfg with crlf := false } alnum s = some outL) :
    formatFull { cfg with crlf := true } alnum s = some (crlfOf outL) :=
  formatFull_crlf_config23 cfg alnum s outL hok h

/-! Tests (labelled as tests: evaluated by the compiler with `#guard`, not theorems - the kernel cannot run the search).
    `agree s`: the crlf output is the substituted lf output; `ok s`: the side conditions of
    `C09_format_full_crlf_config` hold. -/
section Tests
private def agree (s : String) : Bool :=
  (formatFull { Config.default with crlf := false } (fun _ => false) s.toUTF8.toList).map crlfOf ==
    formatFull { Config.default with crlf := true } (fun _ => false) s.toUTF8.toList
private def ok (s : String) : Bool := crlfOk Config.default (fun _ => false) s.toUTF8.toList

-- no line-spanning token
#guard ok "begin a := 1; end." && agree "begin a := 1; end."
-- a literal that both runs re-indent (lf, crlf and mixed interior breaks)
#guard ok "begin\n a := '''\n   x\n   y\n   ''';\nend." && agree "begin\n a := '''\n   x\n   y\n   ''';\nend."
#guard ok "begin\n a := '''\r\n   x\n   y\r\n   ''';\nend." && agree "begin\n a := '''\r\n   x\n   y\r\n   ''';\nend."
-- already in final lf form: side condition (2) fails (`mls_rewrite_disagree_example`), the outputs still agree
#guard !ok "begin\n  a :=\n      '''\n      x\n      y\n      ''';\nend.\n" &&
  agree "begin\n  a :=\n      '''\n      x\n      y\n      ''';\nend.\n"
-- a literal the re-indenter rejects (a line indented less than the closing quotes), a block comment over two lines,
-- a verbatim region over several lines: side condition (3) fails and the outputs do differ
#guard !ok "begin\n  a :=\n      '''\n   x\n      ''';\nend.\n" && !agree "begin\n  a :=\n      '''\n   x\n      ''';\nend.\n"
#guard !ok "begin\n  a := 1; { x\n y }\nend.\n" && !agree "begin\n  a := 1; { x\n y }\nend.\n"
#guard !ok "begin\n  // pasfmt off\n  a   :=  1;\n  // pasfmt on\nend.\n" &&
  !agree "begin\n  // pasfmt off\n  a   :=  1;\n  // pasfmt on\nend.\n"
end Tests

/-- **Third clause, for the closed model of the whole formatter, decided per pair**: the same text with LF and with
    CRLF line breaks are two layouts of the same tokens (the counters `FormattedTokens` derives from the whitespace
    ignore CR: `fmtdata_crlf`), so whenever the premise of the layout theorem holds for the pair
    (`layoutPremisesB cfg alnum sLf sCrlf`: in particular no token contains a line break - the scanner would give it
    another text - and no verbatim token has one before it), both are formatted to the same bytes.  This is
    `C06.C06_format_full_checked` at the pair; the `input_endings` stream evaluates the premise on every LF/CRLF pair
    (`info_c06`) and compares both model outputs with the real formatter's. -/
theorem C09_input_endings_full_checked (cfg : Config) (alnum : Bytes → Bool) (sLf sCrlf : Bytes)
    (h : layoutPremisesB cfg alnum sLf sCrlf = true) :
    ∃ out, formatFull cfg alnum sLf = some out ∧ formatFull cfg alnum sCrlf = some out :=
  formatFull_layout_checked cfg alnum sLf sCrlf h

end Pasfmt.C09
