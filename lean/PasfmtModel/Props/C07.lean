/-
  C07 — Regions with formatting disabled and asm bodies are kept byte for byte.
-/
import PasfmtModel.Proofs.ReconProps
import PasfmtModel.Proofs.PipelineC01
import PasfmtModel.Proofs.PipelineC07
import PasfmtModel.Model.Contracts
import PasfmtModel.Proofs.WrapStageProps
import PasfmtModel.Proofs.PipelineFullProps

namespace Pasfmt.C07

/-- Reconstruction: every run of ignored tokens is emitted exactly as scanned (each token's
    original leading whitespace and text), contiguously, for **every** assignment of whitespace
    counters of any token, provided the safety-net line break is not inserted inside the run. -/
theorem verbatim_emitted (S : Settings) (pre run post : FT)
    (hi : ∀ t ∈ run, t.fmt.ignored = true) (hs : safeRun (mbAfter false pre) run = true) :
    reconstruct S (pre ++ run ++ post) =
      reconGo S false pre ++ verbatimText run ++ reconGo S (mbAfter (mbAfter false pre) run) post :=
  reconstruct_verbatim_run S pre run post hi hs

/-- No safety net inside a run whose single-line comments are each followed by a token whose
    whitespace contains `\n` (or by the end-of-file token): decidable, evaluated per case; the
    remaining case (comment ended by a lone `\r`) is known finding F4. -/
theorem safeRun_of_breaks (mb : Bool) (run : FT)
    (h0 : mb = false ∨ ∀ t, run.head? = some t → containsByte 0x0A t.tok.ws = true ∨ t.tok.kind = .tEof)
    (h : ∀ a b, [a, b] <:+: run → isSingleLineComment a.tok.kind = true →
        containsByte 0x0A b.tok.ws = true ∨ b.tok.kind = .tEof) :
    safeRun mb run = true := by
  induction run generalizing mb with
  | nil => rfl
  | cons t r ih =>
    simp only [safeRun, Bool.and_eq_true]
    constructor
    · unfold noSafetyNet
      rcases h0 with h0 | h0
      · simp [h0]
      · rcases h0 t rfl with h1 | h1
        · simp [h1]
        · simp [h1]
    · apply ih
      · by_cases hc : isSingleLineComment t.tok.kind = true
        · right
          intro b hb
          cases r with
          | nil => simp at hb
          | cons b' r' =>
            simp at hb; subst hb
            exact h t b' ⟨[], r', by simp⟩ hc
        · left; simpa using hc
      · intro a b hab hc
        obtain ⟨p, q, hpq⟩ := hab
        exact h a b ⟨t :: p, q, by simp [← hpq]⟩ hc

/-- no rule can change the text or the original whitespace of an ignored token: the only
    content-writing function of the model refuses ignored tokens -/
theorem ignored_content_frozen (t : FTok) (c : Bytes) (h : t.fmt.ignored = true) :
    (t.setContent c).tok = t.tok := by rw [setContent_ignored t c h]

theorem lowercase_keeps_ignored (t : FTok) (h : t.fmt.ignored = true) : lowercaseTok t = t := by
  unfold lowercaseTok; split
  · exact setContent_ignored _ _ h
  · rfl

theorem commentFormat_keeps_ignored (U : Bytes → Bool) (t : FTok) (h : t.fmt.ignored = true) :
    commentFormatTok U t = t := by
  unfold commentFormatTok
  split <;> (try split) <;> first | exact setContent_ignored _ _ h | rfl

/-- the executable per-case check (part of the `wc` field) implies the wrapper hypothesis of `C07_format` -/
theorem wrapIgnoredB_sound (ft ft' : FT) (h : wrapIgnoredB ft ft' = true) :
    All2 (fun (t t' : FTok) => t'.fmt.ignored = t.fmt.ignored ∧
      (t.fmt.ignored = true → t'.tok.ws = t.tok.ws ∧ t'.tok.content = t.tok.content)) ft ft' := by
  unfold wrapIgnoredB at h
  induction ft generalizing ft' with
  | nil =>
    cases ft' with
    | nil => exact .nil
    | cons _ _ => simp [all2B] at h
  | cons t r ih =>
    cases ft' with
    | nil => simp [all2B] at h
    | cons t' r' =>
      simp only [all2B, Bool.and_eq_true, Bool.or_eq_true, beq_iff_eq, Bool.not_eq_true'] at h
      refine .cons ⟨h.1.1, ?_⟩ (ih r' h.2)
      intro hig
      rcases h.1.2 with e | e
      · rw [hig] at e; simp at e
      · exact e

/-- **C07 for the whole pipeline**: for every input, every configuration, every parser behaviour and
    every wrapper behaviour that keeps ignored tokens, a run `[a, b)` of tokens that are all marked by
    the ignorers (between `pasfmt off` and `pasfmt on`, or an asm instruction line) is found in the
    output, contiguously, with exactly its scanned whitespace and text — provided the safety-net
    line break does not fire inside the run (`safeRun`, decidable; `safeRun_of_breaks`; the
    exception is known finding F4). -/
theorem C07_format (cfg : Config) (O : Oracles) (hK : WrapKeepsIgnored O) (s : Bytes) (raw : List RawTok)
    (hl : lex s = some raw) (a b : Nat) (hab : a ≤ b) (hb : b ≤ raw.length)
    (hmark : ∀ i, a ≤ i → i < b → (preWrap O raw).1.getD i false = true)
    (hsafe : safeRun (mbAfter false ((O.wrap cfg (preWrap O raw).2.1 (preWrap O raw).2.2).take a))
      (((O.wrap cfg (preWrap O raw).2.1 (preWrap O raw).2.2).take b).drop a) = true) :
    ∃ (out before after : Bytes), format cfg O s = some out ∧
      out = before ++ ((raw.take b).drop a).flatMap (fun r => r.ws ++ r.content) ++ after := by
  obtain ⟨before, after, h⟩ := formatTokens_verbatim cfg O hK raw a b hab hb hmark hsafe
  exact ⟨formatTokens cfg O raw, before, after, by unfold format; rw [hl]; rfl, h⟩

/-- **C07 for every search of the line wrapper**: with the exact model of the wrapper stage around an arbitrary
    search (`Model/WrapStage.lean`) the hypothesis `WrapKeepsIgnored` is a theorem (`wrapKeepsIgnored_of_solver`):
    applying solutions writes counters only, and the string passes skip ignored tokens. -/
theorem C07_format_any_search (cfg : Config) (O : Oracles) (solve : Nat → Nat → Option Sol) (s : Bytes) (raw : List RawTok)
    (hl : lex s = some raw) (a b : Nat) (hab : a ≤ b) (hb : b ≤ raw.length)
    (hmark : ∀ i, a ≤ i → i < b → (preWrap (O.withSolver solve) raw).1.getD i false = true)
    (hsafe : safeRun (mbAfter false (((O.withSolver solve).wrap cfg (preWrap (O.withSolver solve) raw).2.1 (preWrap (O.withSolver solve) raw).2.2).take a))
      ((((O.withSolver solve).wrap cfg (preWrap (O.withSolver solve) raw).2.1 (preWrap (O.withSolver solve) raw).2.2).take b).drop a) = true) :
    ∃ (out before after : Bytes), format cfg (O.withSolver solve) s = some out ∧
      out = before ++ ((raw.take b).drop a).flatMap (fun r => r.ws ++ r.content) ++ after :=
  C07_format cfg (O.withSolver solve) (wrapKeepsIgnored_of_solver O solve) s raw hl a b hab hb hmark hsafe

/-- **C07 for the closed model of the whole formatter**: the stage with the search inside keeps ignored tokens
    (`wrapKeepsIgnored_full`), so for the model's own parser result `po` a run of marked tokens is found in the output,
    contiguously, with its scanned whitespace and text (same side condition on the safety net). -/
theorem C07_format_full (cfg : Config) (alnum : Bytes → Bool) (po : ParserOut) (s : Bytes) (raw : List RawTok)
    (hl : lex s = some raw) (a b : Nat) (hab : a ≤ b) (hb : b ≤ raw.length)
    (hmark : ∀ i, a ≤ i → i < b → (preWrap (fullOracles alnum po) raw).1.getD i false = true)
    (hsafe : safeRun (mbAfter false (((fullOracles alnum po).wrap cfg (preWrap (fullOracles alnum po) raw).2.1 (preWrap (fullOracles alnum po) raw).2.2).take a))
      ((((fullOracles alnum po).wrap cfg (preWrap (fullOracles alnum po) raw).2.1 (preWrap (fullOracles alnum po) raw).2.2).take b).drop a) = true) :
    ∃ (out before after : Bytes), format cfg (fullOracles alnum po) s = some out ∧
      out = before ++ ((raw.take b).drop a).flatMap (fun r => r.ws ++ r.content) ++ after :=
  C07_format cfg (fullOracles alnum po) (wrapKeepsIgnored_full alnum po) s raw hl a b hab hb hmark hsafe

-- Tests (labelled as tests, not the unbounded claim): toggle spellings.
-- '// pasfmt off'
example : parseToggle [47, 47, 32, 112, 97, 115, 102, 109, 116, 32, 111, 102, 102] = some .off := by decide +kernel
-- '{PASFMT ON}'
example : parseToggle [123, 80, 65, 83, 70, 77, 84, 32, 79, 78, 125] = some .on := by decide +kernel
-- '(*  pasfmt  Off *)'
example : parseToggle [40, 42, 32, 32, 112, 97, 115, 102, 109, 116, 32, 32, 79, 102, 102, 32, 42, 41] = some .off := by decide +kernel
-- '// pasfmt offf'
example : parseToggle [47, 47, 32, 112, 97, 115, 102, 109, 116, 32, 111, 102, 102, 102] = none := by decide +kernel
-- '// pasfmtoff'
example : parseToggle [47, 47, 32, 112, 97, 115, 102, 109, 116, 111, 102, 102] = none := by decide +kernel
-- '/ pasfmt off'
example : parseToggle [47, 32, 112, 97, 115, 102, 109, 116, 32, 111, 102, 102] = none := by decide +kernel
-- '{$pasfmt off}'
example : parseToggle [123, 36, 112, 97, 115, 102, 109, 116, 32, 111, 102, 102, 125] = none := by decide +kernel

end Pasfmt.C07
