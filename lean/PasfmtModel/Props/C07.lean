/-
  C07 — Regions with formatting disabled and asm bodies are kept byte for byte.
-/
import PasfmtModel.Proofs.ReconProps
import PasfmtModel.Proofs.PipelineC01
import PasfmtModel.Proofs.PipelineC07
import PasfmtModel.Model.Contracts
import PasfmtModel.Proofs.WrapStageProps
import PasfmtModel.Proofs.PipelineFullProps
import PasfmtModel.Proofs.ToggleSpec

namespace Pasfmt.C07

/-- Reconstruction: every run of ignored tokens is emitted exactly as scanned (each token's
    original leading whitespace and text), contiguously, for **every** assignment of whitespace
    counters of any token, provided the safety-net line break is not inserted inside the run. -/
theorem verbatim_emitted (S : Settings) (pre run post : FT)
    (hi : ∀ t ∈ run, t.fmt.ignored = true) (hs : safeRun (mbAfter false pre) run = true) :
    reconstruct S (pre ++ run ++ post) =
      reconGo S false pre ++ verbatimText run ++ reconGo S (mbAfter (mbAfter false pre) run) post :=
  reconstruct_verbatim_run S pre run post hi hs

/-- No safety net inside a run whose single-line comments are each followed by a token whose
    whitespace contains `\n` (or by the end-of-file token): decidable, evaluated per case; the
    remaining case (comment ended by a lone `\r`) is known finding F4. -/
theorem safeRun_of_breaks (mb : Bool) (run : FT)
    (h0 : mb = false ∨ ∀ t, run.head? = some t → containsByte 0x0A t.tok.ws = true ∨ t.tok.kind = .tEof)
    (h : ∀ a b, [a, b] <:+: run → isSingleLineComment a.tok.kind = true →
        containsByte 0x0A b.tok.ws = true ∨ b.tok.kind = .tEof) :
    safeRun mb run = true := by
  induction run generalizing mb with
  | nil => rfl
  | cons t r ih =>
    simp only [safeRun, Bool.and_eq_true]
    constructor
    · unfold noSafetyNet
      rcases h0 with h0 | h0
      · simp [h0]
      · rcases h0 t rfl with h1 | h1
        · simp [h1]
        · simp [h1]
    · apply ih
      · by_cases hc : isSingleLineComment t.tok.kind = true
        · right
          intro b hb
          cases r with
          | nil => simp at hb
          | cons b' r' =>
            simp at hb; subst hb
            exact h t b' ⟨[], r', by simp⟩ hc
        · left; simpa using hc
      · intro a b hab hc
        obtain ⟨p, q, hpq⟩ := hab
        exact h a b ⟨t :: p, q, by simp [← hpq]⟩ hc

/-- no rule can change the text or the original whitespace of an ignored token: the only
    content-writing function of the model refuses ignored tokens -/
theorem ignored_content_frozen (t : FTok) (c : Bytes) (h : t.fmt.ignored = true) :
    (t.setContent c).tok = t.tok := by rw [setContent_ignored t c h]

theorem lowercase_keeps_ignored (t : FTok) (h : t.fmt.ignored = true) : lowercaseTok t = t := by
  unfold lowercaseTok; split
  · exact setContent_ignored _ _ h
  · rfl

theorem commentFormat_keeps_ignored (U : Bytes → Bool) (t : FTok) (h : t.fmt.ignored = true) :
    commentFormatTok U t = t := by
  unfold commentFormatTok
  split <;> (try split) <;> first | exact setContent_ignored _ _ h | rfl

/-- the executable per-case check (part of the `wc` field) implies the wrapper hypothesis of `C07_format` -/
theorem wrapIgnoredB_sound (ft ft' : FT) (h : wrapIgnoredB ft ft' = true) :
    All2 (fun (t t' : FTok) => t'.fmt.ignored = t.fmt.ignored ∧
      (t.fmt.ignored = true → t'.tok.ws = t.tok.ws ∧ t'.tok.content = t.tok.content)) ft ft' := by
  unfold wrapIgnoredB at h
  induction ft generalizing ft' with
  | nil =>
    cases ft' with
    | nil => exact .nil
    | cons _ _ => simp [all2B] at h
  | cons t r ih =>
    cases ft' with
    | nil => simp [all2B] at h
    | cons t' r' =>
      simp only [all2B, Bool.and_eq_true, Bool.or_eq_true, beq_iff_eq, Bool.not_eq_true'] at h
      refine .cons ⟨h.1.1, ?_⟩ (ih r' h.2)
      intro hig
      rcases h.1.2 with e | e
      · rw [hig] at e; simp at e
      · exact e

/-- **C07 for the whole pipeline**: for every input, every configuration, every parser behaviour and
    every wrapper behaviour that keeps ignored tokens, a run `[a, b)` of tokens that are all marked by
    the ignorers (between `pasfmt off` and `pasfmt on`, or an asm instruction line) is found in the
    output, contiguously, with exactly its scanned whitespace and text — provided the safety-net
    line break does not fire inside the run (`safeRun`, decidable; `safeRun_of_breaks`; the
    exception is known finding F4). -/
theorem C07_format (cfg : Config) (O : Oracles) (hK : WrapKeepsIgnored O) (s : Bytes) (raw : List RawTok)
    (hl : lex s = some raw) (a b : Nat) (hab : a ≤ b) (hb : b ≤ raw.length)
    (hmark : ∀ i, a ≤ i → i < b → (preWrap O raw).1.getD i false = true)
    (hsafe : safeRun (mbAfter false ((O.wrap cfg (preWrap O raw).2.1 (preWrap O raw).2.2).take a))
      (((O.wrap cfg (preWrap O raw).2.1 (preWrap O raw).2.2).take b).drop a) = true) :
    ∃ (out before after : Bytes), format cfg O s = some out ∧
      out = before ++ ((raw.take b).drop a).flatMap (fun r => r.ws ++ r.content) ++ after := by
  obtain ⟨before, after, h⟩ := formatTokens_verbatim cfg O hK raw a b hab hb hmark hsafe
  exact ⟨formatTokens cfg O raw, before, after, by unfold format; rw [hl]; rfl, h⟩

/-- **C07 for every search of the line wrapper**: with the exact model of the wrapper stage around an arbitrary
    search (`Model/WrapStage.lean`) the hypothesis `WrapKeepsIgnored` is a theorem (`wrapKeepsIgnored_of_solver`):
    applying solutions writes counters only, and the string passes skip ignored tokens. -/
theorem C07_format_any_search (cfg : Config) (O : Oracles) (solve : Nat → Nat → Option Sol) (s : Bytes) (raw : List RawTok)
    (hl : lex s = some raw) (a b : Nat) (hab : a ≤ b) (hb : b ≤ raw.length)
    (hmark : ∀ i, a ≤ i → i < b → (preWrap (O.withSolver solve) raw).1.getD i false = true)
    (hsafe : safeRun (mbAfter false (((O.withSolver solve).wrap cfg (preWrap (O.withSolver solve) raw).2.1 (preWrap (O.withSolver solve) raw).2.2).take a))
      ((((O.withSolver solve).wrap cfg (preWrap (O.withSolver solve) raw).2.1 (preWrap (O.withSolver solve) raw).2.2).take b).drop a) = true) :
    ∃ (out before after : Bytes), format cfg (O.withSolver solve) s = some out ∧
      out = before ++ ((raw.take b).drop a).flatMap (fun r => r.ws ++ r.content) ++ after :=
  C07_format cfg (O.withSolver solve) (wrapKeepsIgnored_of_solver O solve) s raw hl a b hab hb hmark hsafe

/-- **C07 for the closed model of the whole formatter**: the stage with the search inside keeps ignored tokens
    (`wrapKeepsIgnored_full`), so for the model's own parser result `po` a run of marked tokens is found in the output,
    contiguously, with its scanned whitespace and text (same side condition on the safety net). -/
theorem C07_format_full (cfg : Config) (alnum : Bytes → Bool) (po : ParserOut) (s : Bytes) (raw : List RawTok)
    (hl : lex s = some raw) (a b : Nat) (hab : a ≤ b) (hb : b ≤ raw.length)
    (hmark : ∀ i, a ≤ i → i < b → (preWrap (fullOracles alnum po) raw).1.getD i false = true)
    (hsafe : safeRun (mbAfter false (((fullOracles alnum po).wrap cfg (preWrap (fullOracles alnum po) raw).2.1 (preWrap (fullOracles alnum po) raw).2.2).take a))
      ((((fullOracles alnum po).wrap cfg (preWrap (fullOracles alnum po) raw).2.1 (preWrap (fullOracles alnum po) raw).2.2).take b).drop a) = true) :
    ∃ (out before after : Bytes), format cfg (fullOracles alnum po) s = some out ∧
      out = before ++ ((raw.take b).drop a).flatMap (fun r => r.ws ++ r.content) ++ after :=
  C07_format cfg (fullOracles alnum po) (wrapKeepsIgnored_full alnum po) s raw hl a b hab hb hmark hsafe

-- Tests (labelled as tests, not the unbounded claim): toggle spellings.
-- '// pasfmt off'
example : parseToggle [47, 47, 32, 112, 97, 115, 102, 109, 116, 32, 111, 102, 102] = some .off := by decide +kernel
-- '{PASFMT ON}'
example : parseToggle [123, 80, 65, 83, 70, 77, 84, 32, 79, 78, 125] = some .on := by decide +kernel
-- '(*  pasfmt  Off *)'
example : parseToggle [40, 42, 32, 32, 112, 97, 115, 102, 109, 116, 32, 32, 79, 102, 102, 32, 42, 41] = some .off := by decide +kernel
-- '// pasfmt offf'
example : parseToggle [47, 47, 32, 112, 97, 115, 102, 109, 116, 32, 111, 102, 102, 102] = none := by decide +kernel
-- '// pasfmtoff'
example : parseToggle [47, 47, 32, 112, 97, 115, 102, 109, 116, 111, 102, 102] = none := by decide +kernel
-- '/ pasfmt off'
example : parseToggle [47, 32, 112, 97, 115, 102, 109, 116, 32, 111, 102, 102] = none := by decide +kernel
-- '{$pasfmt off}'
example : parseToggle [123, 36, 112, 97, 115, 102, 109, 116, 32, 111, 102, 102, 125] = none := by decide +kernel

/-! ## Which tokens are marked: declarative characterisations of the two ignorers

Proofs in `Proofs/ToggleSpec.lean`; every statement holds for every input (induction on the text / the token list).
The `example`s are tests on concrete inputs (byte strings are written out; the text is in the comment above each). -/

/-- **The toggle is recognised in `//`, `{ }` and `(* *)` comments, case-insensitively, only for the exact words.**
    `parseToggle c = some tg` iff `c` is: an opener `//`, `(*` or `{`; any ASCII blanks; `pasfmt` in any letter case;
    at least one ASCII blank; then `on` / `off` in any letter case as the *whole* run of ASCII letters and digits at
    that place (see `IsToggle` for the definition and for what happens at the edges: `///` and `{$` are not accepted,
    `on1`/`ONx`/`offf` are not, `on.`/`on_`/`on)` are). -/
theorem toggle_spec (c : Bytes) (tg : Toggle) : parseToggle c = some tg ↔ IsToggle c tg :=
  Pasfmt.toggle_spec c tg

example : IsToggle [47, 47, 32, 112, 97, 115, 102, 109, 116, 32, 111, 102, 102] /- // pasfmt off -/ .off := (toggle_spec _ _).mp (by decide +kernel)
example : IsToggle [123, 32, 80, 65, 83, 70, 77, 84, 32, 32, 32, 79, 110, 32, 125] /- { PASFMT   On } -/ .on := (toggle_spec _ _).mp (by decide +kernel)
example : IsToggle [40, 42, 112, 97, 115, 102, 109, 116, 32, 111, 102, 102, 42, 41] /- (*pasfmt off*) -/ .off := (toggle_spec _ _).mp (by decide +kernel)
example : ¬ IsToggle [47, 47, 32, 112, 97, 115, 102, 109, 116, 32, 111, 102, 102, 105, 99, 101] /- // pasfmt office -/ .off := fun h => absurd ((toggle_spec _ _).mpr h) (by decide +kernel)
-- the decomposition given by hand: '(*' ++ ' ' ++ 'PasFmt' ++ '\t ' ++ 'oFF' ++ '*)'
example : IsToggle ([40, 42] /- (* -/ ++ [32] /-   -/ ++ [80, 97, 115, 70, 109, 116] /- PasFmt -/ ++ [9, 32] /- \t  -/ ++ [111, 70, 70] /- oFF -/ ++ [42, 41] /- *) -/) .off :=
  ⟨[40, 42] /- (* -/, [32] /-   -/, [80, 97, 115, 70, 109, 116] /- PasFmt -/, [9, 32] /- \t  -/, [111, 70, 70] /- oFF -/, [42, 41] /- *) -/, rfl, by decide, by decide, by decide, by decide,
    by decide, by decide, fun _ _ h => by cases h; rfl, by decide⟩
-- what the model does at the edges (the model is the ground truth; see the doc comment of `IsToggle`)
example : parseToggle [47, 47, 47, 32, 112, 97, 115, 102, 109, 116, 32, 111, 102, 102] /- /// pasfmt off -/ = none := by decide +kernel
example : parseToggle [40, 42, 36, 112, 97, 115, 102, 109, 116, 32, 111, 102, 102, 42, 41] /- (*$pasfmt off*) -/ = none := by decide +kernel
example : parseToggle [123, 36, 112, 97, 115, 102, 109, 116, 32, 111, 102, 102, 125] /- {$pasfmt off} -/ = none := by decide +kernel
example : parseToggle [47, 47, 32, 112, 97, 115, 102, 109, 116, 32, 79, 78, 120] /- // pasfmt ONx -/ = none := by decide +kernel
example : parseToggle [47, 47, 32, 112, 97, 115, 102, 109, 116, 32, 111, 110, 49] /- // pasfmt on1 -/ = none := by decide +kernel
example : parseToggle [47, 47, 32, 112, 97, 115, 102, 109, 116, 32, 111, 110, 46] /- // pasfmt on. -/ = some .on := by decide +kernel
example : parseToggle [47, 47, 32, 112, 97, 115, 102, 109, 116, 32, 111, 110, 95] /- // pasfmt on_ -/ = some .on := by decide +kernel
example : parseToggle [123, 32, 112, 97, 115, 102, 109, 116, 32, 111, 110, 125] /- { pasfmt on} -/ = some .on := by decide +kernel
example : parseToggle [40, 42, 112, 97, 115, 102, 109, 116, 32, 111, 110, 42, 41] /- (*pasfmt on*) -/ = some .on := by decide +kernel
example : parseToggle [47, 47, 32, 112, 97, 115, 102, 109, 116, 32, 111, 110, 195, 169] /- // pasfmt oné -/ = some .on := by decide +kernel
example : parseToggle [47, 47, 32, 112, 97, 115, 102, 109, 116, 11, 111, 110] /- // pasfmt\x0bon -/ = none := by decide +kernel
example : parseToggle [123, 10, 32, 32, 112, 97, 115, 102, 109, 116, 13, 10, 32, 32, 111, 102, 102, 10, 125] /- {\n  pasfmt\r\n  off\n} -/ = some .off := by decide +kernel

/-- **Case-insensitively**: two comments that differ only in the case of ASCII letters (of `pasfmt`, of `on`/`off`,
    or anywhere else) get the same answer. -/
theorem toggle_case_insensitive (c c' : Bytes) (h : asciiLower c' = asciiLower c) : parseToggle c' = parseToggle c :=
  Pasfmt.toggle_case_insensitive c c' h

example : parseToggle [47, 47, 32, 80, 97, 83, 102, 77, 116, 32, 79, 102, 70] /- // PaSfMt OfF -/ = parseToggle [47, 47, 32, 112, 97, 115, 102, 109, 116, 32, 111, 102, 102] /- // pasfmt off -/ :=
  toggle_case_insensitive _ _ (by decide +kernel)

/-- **Only for the exact words**: with opener, blanks, `pasfmt` and the whole blank run `w2` in place, let `word` be the
    whole run of ASCII letters and digits that follows; if it spells neither `on` nor `off` the comment is not a toggle
    (`pasfmt only`, `pasfmt offf`, `pasfmt o`, `pasfmt on1`, …). -/
theorem toggle_exact_words (p w1 kw w2 word rest : Bytes)
    (hp : IsCommentOpener p) (hw1 : AllBytes isAsciiWs w1) (hkw : SpellsIC kw kwPasfmt)
    (hw2 : AllBytes isAsciiWs w2) (hne : w2 ≠ []) (hmax : ∀ b t, word ++ rest = b :: t → isAsciiWs b = false)
    (hword : AllBytes isAlnum word) (hrest : ∀ b t, rest = b :: t → isAlnum b = false)
    (hon : ¬ SpellsIC word (toggleWord .on)) (hoff : ¬ SpellsIC word (toggleWord .off)) :
    parseToggle (p ++ w1 ++ kw ++ w2 ++ word ++ rest) = none :=
  Pasfmt.toggle_exact_words p w1 kw w2 word rest hp hw1 hkw hw2 hne hmax hword hrest hon hoff

/-- the same as an equivalence: such a comment is an `on` (`off`) toggle exactly when `word` spells `on` (`off`) -/
theorem toggle_word_iff (p w1 kw w2 word rest : Bytes) (tg : Toggle)
    (hp : IsCommentOpener p) (hw1 : AllBytes isAsciiWs w1) (hkw : SpellsIC kw kwPasfmt)
    (hw2 : AllBytes isAsciiWs w2) (hne : w2 ≠ []) (hmax : ∀ b t, word ++ rest = b :: t → isAsciiWs b = false)
    (hword : AllBytes isAlnum word) (hrest : ∀ b t, rest = b :: t → isAlnum b = false) :
    parseToggle (p ++ w1 ++ kw ++ w2 ++ word ++ rest) = some tg ↔ SpellsIC word (toggleWord tg) :=
  Pasfmt.toggle_word_iff p w1 kw w2 word rest tg hp hw1 hkw hw2 hne hmax hword hrest

example : parseToggle [47, 47, 32, 112, 97, 115, 102, 109, 116, 32, 111, 110, 108, 121] /- // pasfmt only -/ = none := by decide +kernel
example : parseToggle [47, 47, 32, 112, 97, 115, 102, 109, 116, 32, 111, 102, 102, 102] /- // pasfmt offf -/ = none := by decide +kernel
example : parseToggle [47, 47, 32, 112, 97, 115, 102, 109, 116, 32, 111] /- // pasfmt o -/ = none := by decide +kernel

/-- **In `//`, `{ }` and `(* *)` comments**: the text after each of the three openers is read by the same rule … -/
theorem toggle_three_comment_forms (body : Bytes) :
    parseToggle ([0x2F, 0x2F] ++ body) = parseToggle ([0x7B] ++ body) ∧
    parseToggle ([0x28, 0x2A] ++ body) = parseToggle ([0x7B] ++ body) :=
  Pasfmt.toggle_three_comment_forms body

/-- … and nothing that starts otherwise is a toggle. -/
theorem toggle_only_comment_forms (c : Bytes) (tg : Toggle) (h : parseToggle c = some tg) :
    ∃ p body, IsCommentOpener p ∧ c = p ++ body :=
  Pasfmt.toggle_only_comment_forms c tg h

example : parseToggle [47, 47, 112, 97, 115, 102, 109, 116, 32, 111, 102, 102] /- //pasfmt off -/ = some .off ∧ parseToggle [123, 112, 97, 115, 102, 109, 116, 32, 111, 102, 102] /- {pasfmt off -/ = some .off ∧
    parseToggle [40, 42, 112, 97, 115, 102, 109, 116, 32, 111, 102, 102] /- (*pasfmt off -/ = some .off ∧ parseToggle [112, 97, 115, 102, 109, 116, 32, 111, 102, 102] /- pasfmt off -/ = none ∧
    parseToggle [39, 112, 97, 115, 102, 109, 116, 32, 111, 102, 102, 39] /- 'pasfmt off' -/ = none := by decide +kernel

/-- **From a `pasfmt off` comment up to and including the next `pasfmt on` comment, or the end of the file.**
    For every token list: position `i` is marked by the toggler iff it holds a token and either that token is itself a
    toggle comment (a comment token whose text `IsToggle`; `on` or `off`), or there is an `off` toggle comment at some
    `j < i` with no toggle comment strictly between `j` and `i`.  So: the `off` comment, everything after it, and the
    closing `on` comment are marked; a lone `on` comment is marked itself and marks nothing after it
    (`toggler_lone_on`); a second `off` inside a region changes nothing (`toggler_off_region`); a region that is not
    closed includes the last token of the file, the end-of-file token (`toggler_region_to_eof`). -/
theorem toggler_regions (toks : List Tok) (i : Nat) :
    (togglerMarks toks)[i]? = some true ↔
      ∃ t, toks[i]? = some t ∧ ((∃ tg, IsToggleTok t tg) ∨
        ∃ j tj, j < i ∧ toks[j]? = some tj ∧ IsToggleTok tj .off ∧
          ∀ k t, j < k → k < i → toks[k]? = some t → ∀ tg, ¬ IsToggleTok t tg) :=
  Pasfmt.toggler_regions toks i

/-- one mark per token -/
theorem togglerMarks_length (toks : List Tok) : (togglerMarks toks).length = toks.length :=
  Pasfmt.togglerMarks_length toks

/-- from an `off` comment at `j` every token up to `i` is marked if no `on` comment lies strictly between (the `off`
    comment itself: `i = j`; further `off` comments in between do not matter) -/
theorem toggler_off_region (toks : List Tok) (j i : Nat) (tj : Tok) (hj : toks[j]? = some tj)
    (hoff : IsToggleTok tj .off) (hji : j ≤ i) (hi : i < toks.length)
    (hnoon : ∀ k t, j < k → k < i → toks[k]? = some t → ¬ IsToggleTok t .on) :
    (togglerMarks toks)[i]? = some true :=
  Pasfmt.toggler_off_region toks j i tj hj hoff hji hi hnoon

/-- an `off` comment with no `on` comment after it: everything from it to the end is marked, the last token included -/
theorem toggler_region_to_eof (toks : List Tok) (j : Nat) (tj : Tok) (hj : toks[j]? = some tj)
    (hoff : IsToggleTok tj .off) (hnoon : ∀ k t, j < k → toks[k]? = some t → ¬ IsToggleTok t .on) :
    (∀ i, j ≤ i → i < toks.length → (togglerMarks toks)[i]? = some true) ∧
    (togglerMarks toks)[toks.length - 1]? = some true :=
  Pasfmt.toggler_region_to_eof toks j tj hj hoff hnoon

/-- after an `on` comment at `j`, a token at `i > j` that is not a toggle comment is not marked if no `off` comment
    lies between: code after the region is formatted again -/
theorem toggler_on_region (toks : List Tok) (j i : Nat) (tj ti : Tok) (hj : toks[j]? = some tj)
    (hon : IsToggleTok tj .on) (hji : j < i) (hi : toks[i]? = some ti) (hti : ∀ tg, ¬ IsToggleTok ti tg)
    (hnooff : ∀ k t, j < k → k < i → toks[k]? = some t → ¬ IsToggleTok t .off) :
    (togglerMarks toks)[i]? = some false :=
  Pasfmt.toggler_on_region toks j i tj ti hj hon hji hi hti hnooff

/-- up to the first toggle comment nothing is marked -/
theorem toggler_before_first (toks : List Tok) (i : Nat) (hi : i < toks.length)
    (hnone : ∀ k t, k ≤ i → toks[k]? = some t → ∀ tg, ¬ IsToggleTok t tg) :
    (togglerMarks toks)[i]? = some false :=
  Pasfmt.toggler_before_first toks i hi hnone

/-- a lone `on` comment (the only toggle comment of the file) is marked itself and marks nothing else -/
theorem toggler_lone_on (toks : List Tok) (j : Nat) (tj : Tok) (hj : toks[j]? = some tj) (hon : IsToggleTok tj .on)
    (honly : ∀ k t, k ≠ j → toks[k]? = some t → ∀ tg, ¬ IsToggleTok t tg) (i : Nat) (hi : i < toks.length) :
    (togglerMarks toks)[i]? = some true ↔ i = j :=
  Pasfmt.toggler_lone_on toks j tj hj hon honly i hi

/-- test tokens: an identifier, a line comment, a block comment, a directive, the end-of-file token -/
private def tId (s : Bytes) : Tok := { ws := [], content := s, kind := .tIdentifier }
private def tLc (s : Bytes) : Tok := { ws := [], content := s, kind := .tComment .cIndividualLine }
private def tBc (s : Bytes) : Tok := { ws := [], content := s, kind := .tComment .cInlineBlock }
private def tDir (s : Bytes) : Tok := { ws := [], content := s, kind := .tCompilerDirective }
private def tEnd : Tok := { ws := [], content := [], kind := .tEof }

-- a  // pasfmt off  b  { PASFMT   On }  c  <eof>
example : togglerMarks [tId [97] /- a -/, tLc [47, 47, 32, 112, 97, 115, 102, 109, 116, 32, 111, 102, 102] /- // pasfmt off -/, tId [98] /- b -/, tBc [123, 32, 80, 65, 83, 70, 77, 84, 32, 32, 32, 79, 110, 32, 125] /- { PASFMT   On } -/, tId [99] /- c -/, tEnd]
    = [false, true, true, true, false, false] := by decide +kernel
-- a  (*pasfmt off*)  b  <eof>       (the region runs to the end of the file and includes the end-of-file token)
example : togglerMarks [tId [97] /- a -/, tBc [40, 42, 112, 97, 115, 102, 109, 116, 32, 111, 102, 102, 42, 41] /- (*pasfmt off*) -/, tId [98] /- b -/, tEnd] = [false, true, true, true] := by
  decide +kernel
-- a  // pasfmt on  b  <eof>         (a lone `on` is marked itself, nothing else)
example : togglerMarks [tId [97] /- a -/, tLc [47, 47, 32, 112, 97, 115, 102, 109, 116, 32, 111, 110] /- // pasfmt on -/, tId [98] /- b -/, tEnd] = [false, true, false, false] := by
  decide +kernel
-- // pasfmt off  a  // pasfmt off  b  // pasfmt on  c  // pasfmt office  <eof>
example : togglerMarks [tLc [47, 47, 32, 112, 97, 115, 102, 109, 116, 32, 111, 102, 102] /- // pasfmt off -/, tId [97] /- a -/, tLc [47, 47, 32, 112, 97, 115, 102, 109, 116, 32, 111, 102, 102] /- // pasfmt off -/, tId [98] /- b -/, tLc [47, 47, 32, 112, 97, 115, 102, 109, 116, 32, 111, 110] /- // pasfmt on -/,
    tId [99] /- c -/, tLc [47, 47, 32, 112, 97, 115, 102, 109, 116, 32, 111, 102, 102, 105, 99, 101] /- // pasfmt office -/, tEnd] = [true, true, true, true, true, false, false, false] := by decide +kernel
-- a token that is not a comment is never a toggle, whatever its text: {pasfmt off} typed as a directive
example : togglerMarks [tDir [123, 112, 97, 115, 102, 109, 116, 32, 111, 102, 102, 125] /- {pasfmt off} -/, tId [97] /- a -/, tEnd] = [false, false, false] := by decide +kernel

/-- **The instruction lines of `asm ... end` blocks**: the asm ignorer marks exactly the token indices listed in the
    lines that the parser typed `AsmInstruction`. -/
theorem asm_marks_spec (lines : List Line) (i : Nat) :
    i ∈ asmMarked lines ↔ ∃ l ∈ lines, l.ltype = .lAsmInstruction ∧ i ∈ l.tokens :=
  Pasfmt.asm_marks_spec lines i

example : asmMarked [⟨none, 0, [0, 1], .lUnknown⟩, ⟨none, 1, [2, 3, 4], .lAsmInstruction⟩, ⟨none, 0, [5], .lEof⟩] = [2, 3, 4] := by
  decide

/-- **Both ignorers together** (the marks `C07_format` speaks about): there is one mark per token, and position `i` is
    marked iff it holds a token that is a toggle comment, or whose nearest earlier toggle comment is an `off`
    (`AfterOff`), or that belongs to an `AsmInstruction` line. -/
theorem ignoredMarks_spec (toks : List Tok) (lines : List Line) (i : Nat) :
    (ignoredMarks toks lines).length = toks.length ∧
    ((ignoredMarks toks lines)[i]? = some true ↔
      ∃ t, toks[i]? = some t ∧ ((∃ tg, IsToggleTok t tg) ∨ AfterOff toks i ∨
        ∃ l ∈ lines, l.ltype = .lAsmInstruction ∧ i ∈ l.tokens)) :=
  ⟨Pasfmt.ignoredMarks_length toks lines, Pasfmt.ignoredMarks_spec toks lines i⟩

/-- the marks of the pipeline (`(preWrap O raw).1`, the hypothesis `hmark` of `C07_format`) are these marks, for the
    token kinds and lines of the parser -/
theorem preWrap_marks_spec (O : Oracles) (raw : List RawTok) (i : Nat) :
    (preWrap O raw).1.getD i false = true ↔
      ∃ t, (retype raw (O.parser raw).kinds)[i]? = some t ∧ ((∃ tg, IsToggleTok t tg) ∨
        AfterOff (retype raw (O.parser raw).kinds) i ∨
        ∃ l ∈ (O.parser raw).lines, l.ltype = .lAsmInstruction ∧ i ∈ l.tokens) := by
  rw [getD_false_eq_true_iff]
  exact Pasfmt.ignoredMarks_spec _ _ i

-- a  // pasfmt off  b  // pasfmt on  c  d  <eof>, the line of `c d` typed as an asm instruction;
-- an index beyond the tokens is dropped
example : ignoredMarks [tId [97] /- a -/, tLc [47, 47, 32, 112, 97, 115, 102, 109, 116, 32, 111, 102, 102] /- // pasfmt off -/, tId [98] /- b -/, tLc [47, 47, 32, 112, 97, 115, 102, 109, 116, 32, 111, 110] /- // pasfmt on -/, tId [99] /- c -/, tId [100] /- d -/, tEnd]
    [⟨none, 0, [4, 5, 9], .lAsmInstruction⟩] = [false, true, true, true, true, true, false] := by decide +kernel

/-- **Code outside these regions is still formatted** (on the model): a token whose mark is `false` enters the rules
    with `ignored = false`, so nothing protects it — `set_content` is accepted and the spacing, wrapping and
    reconstruction rules treat it as any token (the `ignored` flag is the only thing the later stages look at). -/
theorem unmarked_still_formatted (toks : List Tok) (marks : List Bool) (i : Nat) (ft : FTok)
    (h : (FT.new toks (fun i => marks.getD i false))[i]? = some ft) (hm : marks[i]? = some false) :
    ft.fmt.ignored = false :=
  Pasfmt.unmarked_still_formatted toks marks i ft h hm

/-- in general the flag is the mark, and the token is the scanned token -/
theorem new_ignored_eq_mark (toks : List Tok) (marks : List Bool) (i : Nat) (ft : FTok)
    (h : (FT.new toks (fun i => marks.getD i false))[i]? = some ft) :
    ft.fmt.ignored = marks.getD i false ∧ toks[i]? = some ft.tok :=
  Pasfmt.FT_new_ignored toks marks i ft h

example : (FT.new [tId [97] /- a -/, tLc [47, 47, 32, 112, 97, 115, 102, 109, 116, 32, 111, 102, 102] /- // pasfmt off -/, tId [98] /- b -/] (fun i => [false, true, true].getD i false)).map (·.fmt.ignored)
    = [false, true, true] := by decide +kernel

/-- **The void step**: a line is voided (type `Voided`, token list emptied, so that no line formatter touches it)
    exactly when at least one token of the file is marked and every token of the line is marked (`Voided`) — in
    particular a line without tokens is voided as soon as anything in the file is marked; every other line is passed on
    unchanged, and the number of lines does not change. -/
theorem voidLines_spec (marks : List Bool) (lines : List Line) (n : Nat) (l : Line) (hl : lines[n]? = some l) :
    (voidLines marks lines).length = lines.length ∧
    (Voided marks l → (voidLines marks lines)[n]? = some { l with ltype := .lVoided, tokens := [] }) ∧
    (¬ Voided marks l → (voidLines marks lines)[n]? = some l) :=
  ⟨Pasfmt.voidLines_length marks lines, Pasfmt.voidLines_spec marks lines n l hl⟩

example : voidLines [false, true, true, false]
      [⟨none, 0, [0, 1], .lUnknown⟩, ⟨none, 0, [1, 2], .lUnknown⟩, ⟨none, 0, [], .lUnknown⟩, ⟨none, 0, [3], .lEof⟩]
    = [⟨none, 0, [0, 1], .lUnknown⟩, ⟨none, 0, [], .lVoided⟩, ⟨none, 0, [], .lVoided⟩, ⟨none, 0, [3], .lEof⟩] := by decide
example : voidLines [false, false] [⟨none, 0, [], .lUnknown⟩, ⟨none, 0, [0, 1], .lUnknown⟩]
    = [⟨none, 0, [], .lUnknown⟩, ⟨none, 0, [0, 1], .lUnknown⟩] := by decide

end Pasfmt.C07
