/-
  C07 — Regions with formatting disabled and asm bodies are kept byte for byte.
-/
import PasfmtModel.Proofs.ReconProps
import PasfmtModel.Proofs.PipelineC01

namespace Pasfmt.C07

/-- Reconstruction: every run of ignored tokens is emitted exactly as scanned (each token's
    original leading whitespace and text), contiguously, for **every** assignment of whitespace
    counters of any token, provided the safety-net line break is not inserted inside the run. -/
theorem verbatim_emitted (S : Settings) (pre run post : FT)
    (hi : ∀ t ∈ run, t.fmt.ignored = true) (hs : safeRun (mbAfter false pre) run = true) :
    reconstruct S (pre ++ run ++ post) =
      reconGo S false pre ++ verbatimText run ++ reconGo S (mbAfter (mbAfter false pre) run) post :=
  reconstruct_verbatim_run S pre run post hi hs

/-- No safety net inside a run whose single-line comments are each followed by a token whose
    whitespace contains `\n` (or by the end-of-file token): decidable, evaluated per case; the
    remaining case (comment ended by a lone `\r`) is known finding F4. -/
theorem safeRun_of_breaks (mb : Bool) (run : FT)
    (h0 : mb = false ∨ ∀ t, run.head? = some t → containsByte 0x0A t.tok.ws = true ∨ t.tok.kind = .tEof)
    (h : ∀ a b, [a, b] <:+: run → isSingleLineComment a.tok.kind = true →
        containsByte 0x0A b.tok.ws = true ∨ b.tok.kind = .tEof) :
    safeRun mb run = true := by
  induction run generalizing mb with
  | nil => rfl
  | cons t r ih =>
    simp only [safeRun, Bool.and_eq_true]
    constructor
    · unfold noSafetyNet
      rcases h0 with h0 | h0
      · simp [h0]
      · rcases h0 t rfl with h1 | h1
        · simp [h1]
        · simp [h1]
    · apply ih
      · by_cases hc : isSingleLineComment t.tok.kind = true
        · right
          intro b hb
          cases r with
          | nil => simp at hb
          | cons b' r' =>
            simp at hb; subst hb
            exact h t b' ⟨[], r', by simp⟩ hc
        · left; simpa using hc
      · intro a b hab hc
        obtain ⟨p, q, hpq⟩ := hab
        exact h a b ⟨t :: p, q, by simp [← hpq]⟩ hc

/-- no rule can change the text or the original whitespace of an ignored token: the only
    content-writing function of the model refuses ignored tokens -/
theorem ignored_content_frozen (t : FTok) (c : Bytes) (h : t.fmt.ignored = true) :
    (t.setContent c).tok = t.tok := by rw [setContent_ignored t c h]

theorem lowercase_keeps_ignored (t : FTok) (h : t.fmt.ignored = true) : lowercaseTok t = t := by
  unfold lowercaseTok; split
  · exact setContent_ignored _ _ h
  · rfl

theorem commentFormat_keeps_ignored (U : Bytes → Bool) (t : FTok) (h : t.fmt.ignored = true) :
    commentFormatTok U t = t := by
  unfold commentFormatTok
  split <;> (try split) <;> first | exact setContent_ignored _ _ h | rfl

-- Tests (labelled as tests, not the unbounded claim): toggle spellings.
-- '// pasfmt off'
example : parseToggle [47, 47, 32, 112, 97, 115, 102, 109, 116, 32, 111, 102, 102] = some .off := by decide +kernel
-- '{PASFMT ON}'
example : parseToggle [123, 80, 65, 83, 70, 77, 84, 32, 79, 78, 125] = some .on := by decide +kernel
-- '(*  pasfmt  Off *)'
example : parseToggle [40, 42, 32, 32, 112, 97, 115, 102, 109, 116, 32, 32, 79, 102, 102, 32, 42, 41] = some .off := by decide +kernel
-- '// pasfmt offf'
example : parseToggle [47, 47, 32, 112, 97, 115, 102, 109, 116, 32, 111, 102, 102, 102] = none := by decide +kernel
-- '// pasfmtoff'
example : parseToggle [47, 47, 32, 112, 97, 115, 102, 109, 116, 111, 102, 102] = none := by decide +kernel
-- '/ pasfmt off'
example : parseToggle [47, 32, 112, 97, 115, 102, 109, 116, 32, 111, 102, 102] = none := by decide +kernel
-- '{$pasfmt off}'
example : parseToggle [123, 36, 112, 97, 115, 102, 109, 116, 32, 111, 102, 102, 125] = none := by decide +kernel

end Pasfmt.C07
