/-
  C02 — Well-formed code re-scans to the same tokens after formatting.
  Proved here: the unconditional safety net (a line break always follows a single-line comment),
  that each content rule is exactly the documented normalisation, that the scanner is *local*
  (`scanner_is_local`: a token is decided by its own bytes and at most three bytes of lookahead) and,
  from that, `C02_relex` / `C02_format`: when every emitted token is scanned back in its three-byte
  window — the decidable contract `relexB`, evaluated by the driver on every well-formed case (field
  `rx`) — scanning the whole output yields exactly the emitted token vector.  That the formatter's
  spacing decisions always satisfy the contract is grammar knowledge and stays with the contract.
-/
import PasfmtModel.Proofs.ReconProps
import PasfmtModel.Proofs.RulesSim
import PasfmtModel.Proofs.LexLocal7
import PasfmtModel.Model.Pipeline

namespace Pasfmt.C02

/-- Whatever the whitespace counters are (also for ignored tokens), what is emitted in front of the
    token that follows a single-line comment contains a line break, unless that token is the
    end-of-file token: no code is ever absorbed into a line comment. -/
theorem line_comment_then_break (S : Settings) (hnl : containsByte 0x0A S.nlStr = true) (t : FTok)
    (hk : (t.tok.kind == .tEof) = false) : containsByte 0x0A (gapOf S t true) = true := by
  unfold gapOf
  simp only [hk, Bool.not_false, Bool.and_true, Bool.true_and]
  split
  · by_cases hws : containsByte 0x0A t.tok.ws = true
    · simp [hws, containsByte_append]
    · have : containsByte 0x0A t.tok.ws = false := by simpa using hws
      simp [this, containsByte_append, hnl]
  · by_cases hz : (t.fmt.nl == 0) = true
    · simp only [hz, if_true]
      rw [containsByte_append, containsByte_append, containsByte_append]
      have : containsByte 0x0A (replicateBytes 1 S.nlStr) = true := by
        simp [replicateBytes, hnl]
      simp [this]
    · have hz' : (t.fmt.nl == 0) = false := by simpa using hz
      simp only [hz', Bool.false_eq_true, if_false]
      rw [containsByte_append, containsByte_append, containsByte_append]
      have hpos : t.fmt.nl ≠ 0 := by simpa using hz'
      have : containsByte 0x0A (replicateBytes t.fmt.nl S.nlStr) = true := by
        obtain ⟨k, hk'⟩ := Nat.exists_eq_succ_of_ne_zero hpos
        rw [hk']
        unfold replicateBytes
        rw [List.replicate_succ, List.flatten_cons, containsByte_append, hnl]; rfl
      simp [this]

/-- and this is what the reconstructor does after every single-line comment -/
theorem recon_after_line_comment (S : Settings) (c t : FTok) (rest : FT) (mb : Bool)
    (hc : isSingleLineComment c.tok.kind = true) :
    reconGo S mb (c :: t :: rest) =
      gapOf S c mb ++ c.tok.content ++ (gapOf S t true ++ t.tok.content ++ reconGo S (isSingleLineComment t.tok.kind) rest) := by
  rw [reconGo, reconGo, hc]

/-- documented normalisation 1: keywords are lower-cased, nothing else of the text changes -/
theorem keyword_normalisation (t : FTok) :
    (lowercaseTok t).tok.content = t.tok.content ∨
    (isKeywordKind t.tok.kind = true ∧ (lowercaseTok t).tok.content = asciiLower t.tok.content) := by
  unfold lowercaseTok
  split
  · rename_i h
    unfold FTok.setContent
    split
    · left; rfl
    · right; simp only [Bool.and_eq_true] at h; exact ⟨h.1, rfl⟩
  · left; rfl

/-- documented normalisation 2: a directive differs from the original only in ASCII letter case -/
theorem directive_normalisation (c c' : Bytes) (h : formatCompilerDirective c = some c') :
    asciiLower c' = asciiLower c ∧ c'.length = c.length := by
  have hcase : asciiLower c' = asciiLower c := by
    unfold formatCompilerDirective at h
    simp only at h
    split at h
    · simp at h
    · rename_i pre stripped hs
      split at h
      · simp at h
      · rename_i n _
        split at h
        · simp only [Option.some.injEq] at h
          rw [← h]
          have hc : c = pre ++ stripped := by
            split at hs
            · simp at hs; rw [← hs.1, ← hs.2]; rfl
            · simp at hs; rw [← hs.1, ← hs.2]; rfl
            · simp at hs
          rw [hc, asciiLower_append, asciiLower_append, asciiLower_upper, asciiLower_append]
          rw [List.append_assoc, ← asciiLower_append (List.take n stripped), List.take_append_drop]
        · simp at h
  refine ⟨hcase, ?_⟩
  have := congrArg List.length hcase
  simpa [asciiLower] using this

/-- documented normalisation 3: a line comment changes only in blanks (a space after the slashes,
    trailing ASCII whitespace) -/
theorem line_comment_normalisation (U : Bytes → Bool) (c c' : Bytes) (h : formatLineComment U c = some c')
    (hnd : nd c = true) : stripBlank c' = stripBlank c := by
  have := (sim_formatLineComment U c c' h hnd).2
  -- foldStrip equality is asciiLower of stripBlank; the rule never changes letter case:
  -- derive the stronger statement directly from the construction
  unfold formatLineComment at h
  cases hparts : lineCommentParts c with
  | none => rw [hparts] at h; simp at h
  | some pc =>
    obtain ⟨pre, comment⟩ := pc
    rw [hparts] at h
    obtain ⟨hc, hpre⟩ := lineCommentParts_spec _ _ _ hparts
    have hp := nd_ascii pre hpre
    have hstrip1 : ∀ x, (lineCommentSpaced U pre comment).getD c = x → stripBlank x = stripBlank c ∧ nd x = true := by
      intro x hx
      unfold lineCommentSpaced at hx
      split at hx
      · split at hx
        · simp only [Option.getD_some] at hx
          rw [← hx, hc]
          rw [hc, nd_append _ _ hp] at hnd
          refine ⟨?_, ?_⟩
          · rw [List.append_assoc, nd_closed _ hp, nd_closed _ hp]; rfl
          · rw [List.append_assoc, nd_append _ _ hp]; simpa [nd_cons_ne] using hnd
        · simp at hx; rw [← hx]; exact ⟨rfl, hnd⟩
      · simp at hx; rw [← hx]; exact ⟨rfl, hnd⟩
    simp only at h
    split at h
    · simp only [Option.some.injEq] at h
      obtain ⟨h1, h2⟩ := hstrip1 _ rfl
      rw [← h]
      -- trimming ASCII whitespace at the end
      obtain ⟨tail, hdec, htail⟩ := trimAsciiEnd_decomp ((lineCommentSpaced U pre comment).getD c)
      have hascii : AllAscii tail := fun b hb => (isAsciiWs_class b (htail b hb)).2
      have hle : AllLe20 tail := fun b hb => (isAsciiWs_class b (htail b hb)).1
      have hnd' := nd_of_append_ascii _ tail hascii (by rw [← hdec]; exact h2)
      have := nd_closed _ hnd' tail
      rw [← hdec] at this
      rw [← h1, this, (Gap.of_allLe20 hle).blankOnly]; simp
    · have := (hstrip1 c' (by rw [h]; rfl)).1
      exact this

/-- **The scanner is local.**  The token at the head of `p ++ s` — leading blanks, end, kind and the
    scanner state after it — is found unchanged at the head of `p ++ s'` for every `s'`, provided
    the token ends at least three bytes (one character, U+3000) before the end of `p` and the blank
    tail of the text lies inside `s`: nothing beyond three bytes of lookahead is ever consulted, for
    any token class (identifiers, numbers, text literals incl. multi-line, comments, compiler
    directives with nested expressions, assembler tokens), any state, any length. -/
theorem scanner_is_local (st : LexState) (p s s' : Bytes) (ws e : Nat) (k : RawKind) (st' : LexState)
    (ht : countTrailingWs (p ++ s) ≤ s.length)
    (h : lexOne false st (p ++ s) = some (some (ws, e, k, st'))) (he : e + 3 ≤ p.length) :
    lexOne false st (p ++ s') = some (some (ws, e, k, st')) :=
  lexOne_local st p s s' ws e k st' ht h he

/-- the hypothesis is met, e.g., by `x := 1;` cut after `x := ` — and the token is found again before
    any other continuation -/
example : lexOne false LexState.init ("x := ".toUTF8.toList ++ "1;".toUTF8.toList) =
    some (some (0, 1, .rIdentifier, { isFirst := false, inAsm := false, prevReal := some .rIdentifier })) ∧
    1 + 3 ≤ "x := ".toUTF8.toList.length ∧ countTrailingWs ("x := ".toUTF8.toList ++ "1;".toUTF8.toList) ≤ 2 := by
  decide +kernel

/-- **C02, re-scan.**  If every token of the final token vector is scanned back from its window
    (`relexFT` succeeds, finding kinds `ks`), then scanning the whole reconstructed output yields
    exactly these tokens: the emitted gaps as leading blanks, the emitted contents, the kinds `ks`,
    and one end-of-file token.  No token is glued to its neighbour, split, or absorbed. -/
theorem C02_relex (S : Settings) (ft : FT) (ks : List RawKind)
    (h : relexFT S LexState.init false ft = some ks) :
    lex (reconstruct S ft) = some (relexToks S false ft ks) := by
  unfold lex lexWith reconstruct
  exact relexFT_sound S ft LexState.init false ks _ h (by omega)

/-- **C02 for the pipeline.**  With the contract `relexB` (what the driver evaluates: the windowed
    re-scan succeeds and finds the input's kinds up to the first-on-line status of comments), the
    output of `formatTokens` scans to the formatter's final token vector, one token per input token. -/
theorem C02_format (cfg : Config) (O : Oracles) (raw : List RawTok)
    (h : relexB cfg.settings raw (O.wrap cfg (preWrap O raw).2.1 (preWrap O raw).2.2) = true) :
    ∃ ks, lex (formatTokens cfg O raw) =
        some (relexToks cfg.settings false (O.wrap cfg (preWrap O raw).2.1 (preWrap O raw).2.2) ks) ∧
      ks.length + 1 = raw.length ∧
      (raw.zip ks).all (fun p => sameKindModPos p.1.kind p.2) = true := by
  unfold relexB at h
  split at h
  · rename_i ks hks
    simp only [Bool.and_eq_true, beq_iff_eq] at h
    refine ⟨ks, ?_, h.1, h.2⟩
    unfold formatTokens
    exact C02_relex cfg.settings _ ks hks
  · simp at h

end Pasfmt.C02
