/-
  C05 — Block structure is rendered: one statement per line at its nesting depth.
  Proved: how counters are rendered (exact reconstructor) and how the line builder assigns levels; and the link from a
  line's level to the counters of its first token THROUGH THE SEARCH of the optimising line formatter (for every input:
  Proofs/SearchFirstToken.lean): the solution `format_line` returns starts with "`level` indentations, no
  continuation" and a first decision "break, no continuation", so the first token of every top-level line the wrapper
  stage finds a solution for is rendered first on its own line after exactly `level` indentation units.  For child
  lines (Proofs/SearchChildLines.lean): every child solution, at every depth, computed or taken from the
  `child_line_cache`, starts with the whitespace derived from its parent solution's starting whitespace, its own line's
  level and the `ChildLineOption` chosen for it (`TreeOk`).
  That the parser opens a `+1` context for exactly the listed bodies and finishes a line at every
  statement boundary is grammar knowledge of its control flow: checked by the generator-marked
  structure oracle on every case (level "other", partial).
-/
import PasfmtModel.Props.C08
import PasfmtModel.Model.Parser
import PasfmtModel.Proofs.SearchFirstToken
import PasfmtModel.Proofs.SearchChildLines

namespace Pasfmt.C05

/-- a token whose counters are "break, `level` indentations, no continuation, no spaces" is rendered
    first on its own line preceded by exactly `level` indentation units — for any settings and
    whatever the other tokens' counters are -/
theorem first_token_rendering (S : Settings) (t : FTok) (mb : Bool) (level k : Nat)
    (hi : t.fmt.ignored = false) (hk : k = 1 ∨ k = 2)
    (hf : t.fmt.nl = k ∧ t.fmt.ind = level ∧ t.fmt.cont = 0 ∧ t.fmt.sp = 0) :
    gapOf S t mb = replicateBytes k S.nlStr ++ replicateBytes level S.indStr := by
  obtain ⟨h1, h2, h3, h4⟩ := hf
  unfold gapOf
  simp only [hi]
  have hnl : (if (mb && t.fmt.nl == 0 && !(t.tok.kind == .tEof)) = true then 1 else t.fmt.nl) = k := by
    have hz : (t.fmt.nl == 0) = false := by rcases hk with h | h <;> simp [h1, h]
    rw [hz]; simp [h1]
  simp only [Bool.false_eq_true, if_false, hnl, h2, h3, h4]
  simp [replicateBytes]

/-- `format_line` (the model of the best-first search, every input): whatever the search explores - heap order, caches,
    child lines - the solution it returns carries the starting whitespace it was started with: `level` indentations of
    the line and no continuation -/
theorem format_line_starting_ws (O : Olf) (cache cache' : ChildLineCache) (lineIdx : Nat) (line : LineA)
    (sol : FormattingSolution) (hl : O.lines[lineIdx]? = some line)
    (h : O.formatLine cache lineIdx = (some sol, cache')) :
    sol.startingWs = { indentations := line.level, continuations := 0 } :=
  Pasfmt.format_line_starting_ws O cache cache' lineIdx line sol hl h

/-- `format_line`: the first decision of the returned solution is a break with no continuation - except for a line that
    must not be broken off the token before it (`get_formatting_invariant` says "must not break" at its first token),
    where it is "continue" -/
theorem format_line_first_decision (O : Olf) (cache cache' : ChildLineCache) (lineIdx : Nat) (line : LineA)
    (sol : FormattingSolution) (t0 : Nat) (hl : O.lines[lineIdx]? = some line) (ht : line.tokens[0]? = some t0)
    (h : O.formatLine cache lineIdx = (some sol, cache')) :
    (sol.decisions.head?).map (·.decision) =
      some (if O.getFormattingInvariant 0 line = some .mustNotBreak then Dec.cont else Dec.brk 0) :=
  Pasfmt.format_line_first_decision O cache cache' lineIdx line sol t0 hl ht h

/-- which lines those are: the line starting with token 0 of the file, a line whose first token has no token before
    it in the token list (never for the tokens of a file), and a line starting with a comment that shares its line
    with code -/
theorem must_not_break_at_line_start (O : Olf) (line : LineA) (t0 : Nat) (ht : line.tokens[0]? = some t0) :
    O.getFormattingInvariant 0 line = some .mustNotBreak ↔
      (t0 = 0 ∨ O.formattedTokens[t0 - 1]? = none ∨
        ∃ t, O.formattedTokens[t0]? = some t ∧ (t.kind = .tComment .cInlineLine ∨ t.kind = .tComment .cInlineBlock)) :=
  invariant_zero_mustNotBreak_iff O line t0 ht

/-- one line, search and reconstruction: when the search finds a solution for top-level line `i` and the solution is
    applied, the first token `t0` of the line (not token 0 of the file, not a comment sharing its line with code)
    gets one line break (two if a blank line preceded it), `level` indentations and no continuation; side condition:
    no child line of the solution writes `t0` again -/
theorem searchSolve_first_token (lines : List Line) (st st' : SearchState) (ft ft1 : FT) (i : Nat) (s : Sol)
    (l : Line) (t0 : Nat)
    (hst : st.lines = (lines.map Line.toA).toArray)
    (hl : lines[i]? = some l) (ht : l.tokens[0]? = some t0) (h0 : t0 ≠ 0)
    (hs : searchSolve st ft i = (some s, st'))
    (ha : applySol lines ft s i = some ft1)
    (hone : (solTokens lines s i).count t0 = 1) :
    ∃ t, ft[t0]? = some t ∧
      (¬ startsWithInlineComment t.tok.kind →
        ft1[t0]? = some { t with fmt := { t.fmt with nl := nlc t.fmt.nl, ind := l.level, cont := 0 } }) :=
  Pasfmt.searchSolve_first_token lines st st' ft ft1 i s l t0 hst hl ht h0 hs ha hone

/-- the whole wrapper stage with the search inside (first wrapping, string pass, re-wrapping, second string pass,
    removal of spaces at line starts): the first token of every top-level line the stage applied a solution for
    leaves the stage with "one or two line breaks, `level` indentations, no continuation, no spaces" -/
theorem wrapStageFull_first_token (cfg : Config) (lines : List Line) (ft ftz : FT) (sols : List (Nat × Nat × Sol))
    (i : Nat) (l : Line) (t0 : Nat)
    (h : wrapStageFull cfg lines ft = some (ftz, sols))
    (hl : lines[i]? = some l) (ht : l.tokens[0]? = some t0) (h0 : t0 ≠ 0)
    (hk : ∀ k, kindAt ft t0 = some k → ¬ startsWithInlineComment k)
    (hsolved : ∃ x ∈ sols, x.2.1 = i)
    (hW : WrittenOnlyAsFirst lines i t0 sols) :
    ∃ t, ftz[t0]? = some t ∧ LineStart l.level t.fmt ∧ t.fmt.sp = 0 :=
  Pasfmt.wrapStageFull_first_token cfg lines ft ftz sols i l t0 h hl ht h0 hk hsolved hW

/-- C05 for top-level logical lines, from the parser's level to the output bytes: the first token of every top-level
    line the wrapper stage (search included) applied a solution for is emitted first on its own line, preceded by one
    or two line endings and exactly `level` indentation units (for a token that is not kept verbatim) -/
theorem line_start_rendering (cfg : Config) (S : Settings) (lines : List Line) (ft ftz : FT)
    (sols : List (Nat × Nat × Sol)) (i : Nat) (l : Line) (t0 : Nat) (mb : Bool)
    (h : wrapStageFull cfg lines ft = some (ftz, sols))
    (hl : lines[i]? = some l) (ht : l.tokens[0]? = some t0) (h0 : t0 ≠ 0)
    (hk : ∀ k, kindAt ft t0 = some k → ¬ startsWithInlineComment k)
    (hsolved : ∃ x ∈ sols, x.2.1 = i)
    (hW : WrittenOnlyAsFirst lines i t0 sols) :
    ∃ t, ftz[t0]? = some t ∧ (t.fmt.ignored = false →
      ∃ k, (k = 1 ∨ k = 2) ∧ gapOf S t mb = replicateBytes k S.nlStr ++ replicateBytes l.level S.indStr) := by
  obtain ⟨t, h1, ⟨hn, hi, hc⟩, hs⟩ := wrapStageFull_first_token cfg lines ft ftz sols i l t0 h hl ht h0 hk hsolved hW
  exact ⟨t, h1, fun hig => ⟨t.fmt.nl, hn, first_token_rendering S t mb l.level t.fmt.nl hig hn ⟨rfl, hi, hc, hs⟩⟩⟩

/-- `format_line`, child lines: started with a well-formed `child_line_cache` (`CacheOk`; the empty cache is), it leaves
    a well-formed cache, and in the tree of the solution it returns every child solution is well placed (`TreeOk`, read
    with `TreeOk.child` and `child_starting_ws`): the `p`-th child solution hanging off a decision belongs to one
    `ChildLineOption` whose whitespace comes from the parent solution's starting whitespace `W` - none at all for
    `ContinueAll`; otherwise `W`'s indentations, at least `W`'s continuations, de-indented by at most one level - and
    starts with that whitespace plus its own line's level; its first decision is "break, no continuation" (unless the
    line must not be broken off its predecessor) for `BreakAll` and for all but the first child of `ContinueThenBreak`,
    "continue" otherwise -/
theorem format_line_children (O : Olf) (cache : ChildLineCache) (lineIdx : Nat) (hc : CacheOk O cache) :
    CacheOk O (O.formatLine cache lineIdx).2 ∧ ∀ sol, (O.formatLine cache lineIdx).1 = some sol → TreeOk O sol :=
  Pasfmt.format_line_children O cache lineIdx hc

/-- the whole wrapper stage: every solution it applies (first wrapping and re-wrapping; the cache lives as long as the
    stage) is the image of a search solution that starts with its line's level and no continuation and whose child
    solutions are all well placed -/
theorem wrapStageFull_children (cfg : Config) (lines : List Line) (ft ftz : FT) (sols : List (Nat × Nat × Sol))
    (h : wrapStageFull cfg lines ft = some (ftz, sols)) :
    ∀ x ∈ sols, SolOk (stageOlf (searchInit cfg lines ft) ft) x :=
  Pasfmt.wrapStageFull_children cfg lines ft ftz sols h

/-- `begin_style = always_wrap`, at the point where the search decides it (partial: see
    `Pasfmt.begin_always_wrap_partial`): for child lines hanging off `else`, `then`, `do` or the colon of a case arm
    whose first line starts with `begin`, all child solutions the search considers break before `begin` and put it at
    the parent line's indentation -/
theorem begin_always_wrap_partial (O : Olf) (solve : Solver) (hK : SolverKey O solve) (hT : SolverOk O solve)
    (cache : ChildLineCache) (line : Nat × LineA) (nli : Nat) (W : LineWhitespace) (decision : DecisionRef)
    (stack : SpecificContextStack) (node : FormattingNode) (tll pc : Nat) (hc : CacheOk O cache)
    (hbb : O.breakBeforeBegin = true) (lineChildren : LineChildren)
    (hlc : O.lineChildren.get? (line.1, line.2.tokens[nli]!) = some lineChildren)
    (hpt : O.getTokenType lineChildren.parentToken = some (.tKeyword .kElse) ∨
      O.getTokenType lineChildren.parentToken = some (.tKeyword .kThen) ∨
      O.getTokenType lineChildren.parentToken = some (.tKeyword .kDo) ∨
      O.getTokenType lineChildren.parentToken = some (.tOp .oColon))
    (hfirst : firstChildTokenType O lineChildren = some (.tKeyword .kBegin)) :
    ∀ sols ∈ (O.findOptimalChildLinesSolution solve cache line nli W decision stack node tll pc).1.toList,
      ChildListOk O (.breakAll { whitespace := W, deindent := 1 }) sols ∧
      ∀ x, sols[0]? = some x →
        x.2.startingWs = { indentations := W.indentations + (O.lines[x.1]!).level - 1,
                           continuations := W.continuations } ∧
        ((O.lines[x.1]!).tokens[0]?.isSome →
          (x.2.decisions.head?).map (·.decision) = some (rootDec O (O.lines[x.1]!) .brk)) :=
  Pasfmt.begin_always_wrap_partial O solve hK hT cache line nli W decision stack node tll pc hc hbb lineChildren hlc
    hpt hfirst

end Pasfmt.C05
