/-
  C05 — Block structure is rendered: one statement per line at its nesting depth.
  Proved: how counters are rendered (exact reconstructor) and how the line builder assigns levels; and the link from a
  line's level to the counters of its first token THROUGH THE SEARCH of the optimising line formatter (for every input:
  Proofs/SearchFirstToken.lean): the solution `format_line` returns starts with "`level` indentations, no
  continuation" and a first decision "break, no continuation", so the first token of every top-level line the wrapper
  stage finds a solution for is rendered first on its own line after exactly `level` indentation units.  For child
  lines (Proofs/SearchChildLines.lean): every child solution, at every depth, computed or taken from the
  `child_line_cache`, starts with the whitespace derived from its parent solution's starting whitespace, its own line's
  level and the `ChildLineOption` chosen for it (`TreeOk`).  Counter level for child lines
  (Proofs/SearchChildTokens.lean): when such a solution is applied, the first token of every child line, at every
  depth, placed after a break gets 1-2 line breaks, the parent solution's indentations plus its own level minus the
  option's de-indentation (at most one), and the option's continuations (`child_line_first_token`); siblings of one
  option are aligned and one level more is one indentation more (`sibling_children_same_indent`).
  `begin_style = always_wrap` (Proofs/SearchBeginWrap.lean): carried from the decision point to every solution the search
  returns, at every depth, with a strengthened invariant (`TreeOk'`: each decision knows the `lineChildren` record its
  child solutions belong to) - `begin_always_wrap`, and down to the counters of the `begin` token:
  `begin_always_wrap_counters`.
  That the parser opens a `+1` context for exactly the listed bodies and finishes a line at every
  statement boundary is grammar knowledge of its control flow: checked by the generator-marked
  structure oracle on every case (level "other", partial).
-/
import PasfmtModel.Props.C08
import PasfmtModel.Model.Parser
import PasfmtModel.Proofs.SearchFirstToken
import PasfmtModel.Proofs.SearchChildLines
import PasfmtModel.Proofs.SearchChildTokens
import PasfmtModel.Proofs.SearchBeginWrap

namespace Pasfmt.C05

/-- a token whose counters are "break, `level` indentations, no continuation, no spaces" is rendered
    first on its own line preceded by exactly `level` indentation units — for any settings and
    whatever the other tokens' counters are -/
theorem first_token_rendering (S : Settings) (t : FTok) (mb : Bool) (level k : Nat)
    (hi : t.fmt.ignored = false) (hk : k = 1 ∨ k = 2)
    (hf : t.fmt.nl = k ∧ t.fmt.ind = level ∧ t.fmt.cont = 0 ∧ t.fmt.sp = 0) :
    gapOf S t mb = replicateBytes k S.nlStr ++ replicateBytes level S.indStr := by
  obtain ⟨h1, h2, h3, h4⟩ := hf
  unfold gapOf
  simp only [hi]
  have hnl : (if (mb && t.fmt.nl == 0 && !(t.tok.kind == .tEof)) = true then 1 else t.fmt.nl) = k := by
    have hz : (t.fmt.nl == 0) = false := by rcases hk with h | h <;> simp [h1, h]
    rw [hz]; simp [h1]
  simp only [Bool.false_eq_true, if_false, hnl, h2, h3, h4]
  simp [replicateBytes]

/-- `format_line` (the model of the best-first search, every input): whatever the search explores - heap order, caches,
    child lines - the solution it returns carries the starting whitespace it was started with: `level` indentations of
    the line and no continuation -/
theorem format_line_starting_ws (O : Olf) (cache cache' : ChildLineCache) (lineIdx : Nat) (line : LineA)
    (sol : FormattingSolution) (hl : O.lines[lineIdx]? = some line)
    (h : O.formatLine cache lineIdx = (some sol, cache')) :
    sol.startingWs = { indentations := line.level, continuations := 0 } :=
  Pasfmt.format_line_starting_ws O cache cache' lineIdx line sol hl h

/-- `format_line`: the first decision of the returned solution is a break with no continuation - except for a line that
    must not be broken off the token before it (`get_formatting_invariant` says "must not break" at its first token),
    where it is "continue" -/
theorem format_line_first_decision (O : Olf) (cache cache' : ChildLineCache) (lineIdx : Nat) (line : LineA)
    (sol : FormattingSolution) (t0 : Nat) (hl : O.lines[lineIdx]? = some line) (ht : line.tokens[0]? = some t0)
    (h : O.formatLine cache lineIdx = (some sol, cache')) :
    (sol.decisions.head?).map (·.decision) =
      some (if O.getFormattingInvariant 0 line = some .mustNotBreak then Dec.cont else Dec.brk 0) :=
  Pasfmt.format_line_first_decision O cache cache' lineIdx line sol t0 hl ht h

/-- which lines those are: the line starting with token 0 of the file, a line whose first token has no token before
    it in the token list (never for the tokens of a file), and a line starting with a comment that shares its line
    with code -/
theorem must_not_break_at_line_start (O : Olf) (line : LineA) (t0 : Nat) (ht : line.tokens[0]? = some t0) :
    O.getFormattingInvariant 0 line = some .mustNotBreak ↔
      (t0 = 0 ∨ O.formattedTokens[t0 - 1]? = none ∨
        ∃ t, O.formattedTokens[t0]? = some t ∧ (t.kind = .tComment .cInlineLine ∨ t.kind = .tComment .cInlineBlock)) :=
  invariant_zero_mustNotBreak_iff O line t0 ht

/-- one line, search and reconstruction: when the search finds a solution for top-level line `i` and the solution is
    applied, the first token `t0` of the line (not token 0 of the file, not a comment sharing its line with code)
    gets one line break (two if a blank line preceded it), `level` indentations and no continuation; side condition:
    no child line of the solution writes `t0` again -/
theorem searchSolve_first_token (lines : List Line) (st st' : SearchState) (ft ft1 : FT) (i : Nat) (s : Sol)
    (l : Line) (t0 : Nat)
    (hst : st.lines = (lines.map Line.toA).toArray)
    (hl : lines[i]? = some l) (ht : l.tokens[0]? = some t0) (h0 : t0 ≠ 0)
    (hs : searchSolve st ft i = (some s, st'))
    (ha : applySol lines ft s i = some ft1)
    (hone : (solTokens lines s i).count t0 = 1) :
    ∃ t, ft[t0]? = some t ∧
      (¬ startsWithInlineComment t.tok.kind →
        ft1[t0]? = some { t with fmt := { t.fmt with nl := nlc t.fmt.nl, ind := l.level, cont := 0 } }) :=
  Pasfmt.searchSolve_first_token lines st st' ft ft1 i s l t0 hst hl ht h0 hs ha hone

/-- the whole wrapper stage with the search inside (first wrapping, string pass, re-wrapping, second string pass,
    removal of spaces at line starts): the first token of every top-level line the stage applied a solution for
    leaves the stage with "one or two line breaks, `level` indentations, no continuation, no spaces" -/
theorem wrapStageFull_first_token (cfg : Config) (lines : List Line) (ft ftz : FT) (sols : List (Nat × Nat × Sol))
    (i : Nat) (l : Line) (t0 : Nat)
    (h : wrapStageFull cfg lines ft = some (ftz, sols))
    (hl : lines[i]? = some l) (ht : l.tokens[0]? = some t0) (h0 : t0 ≠ 0)
    (hk : ∀ k, kindAt ft t0 = some k → ¬ startsWithInlineComment k)
    (hsolved : ∃ x ∈ sols, x.2.1 = i)
    (hW : WrittenOnlyAsFirst lines i t0 sols) :
    ∃ t, ftz[t0]? = some t ∧ LineStart l.level t.fmt ∧ t.fmt.sp = 0 :=
  Pasfmt.wrapStageFull_first_token cfg lines ft ftz sols i l t0 h hl ht h0 hk hsolved hW

/-- C05 for top-level logical lines, from the parser's level to the output bytes: the first token of every top-level
    line the wrapper stage (search included) applied a solution for is emitted first on its own line, preceded by one
    or two line endings and exactly `level` indentation units (for a token that is not kept verbatim) -/
theorem line_start_rendering (cfg : Config) (S : Settings) (lines : List Line) (ft ftz : FT)
    (sols : List (Nat × Nat × Sol)) (i : Nat) (l : Line) (t0 : Nat) (mb : Bool)
    (h : wrapStageFull cfg lines ft = some (ftz, sols))
    (hl : lines[i]? = some l) (ht : l.tokens[0]? = some t0) (h0 : t0 ≠ 0)
    (hk : ∀ k, kindAt ft t0 = some k → ¬ startsWithInlineComment k)
    (hsolved : ∃ x ∈ sols, x.2.1 = i)
    (hW : WrittenOnlyAsFirst lines i t0 sols) :
    ∃ t, ftz[t0]? = some t ∧ (t.fmt.ignored = false →
      ∃ k, (k = 1 ∨ k = 2) ∧ gapOf S t mb = replicateBytes k S.nlStr ++ replicateBytes l.level S.indStr) := by
  obtain ⟨t, h1, ⟨hn, hi, hc⟩, hs⟩ := wrapStageFull_first_token cfg lines ft ftz sols i l t0 h hl ht h0 hk hsolved hW
  exact ⟨t, h1, fun hig => ⟨t.fmt.nl, hn, first_token_rendering S t mb l.level t.fmt.nl hig hn ⟨rfl, hi, hc, hs⟩⟩⟩

/-- `format_line`, child lines: started with a well-formed `child_line_cache` (`CacheOk`; the empty cache is), it leaves
    a well-formed cache, and in the tree of the solution it returns every child solution is well placed (`TreeOk`, read
    with `TreeOk.child` and `child_starting_ws`): the `p`-th child solution hanging off a decision belongs to one
    `ChildLineOption` whose whitespace comes from the parent solution's starting whitespace `W` - none at all for
    `ContinueAll`; otherwise `W`'s indentations, at least `W`'s continuations, de-indented by at most one level - and
    starts with that whitespace plus its own line's level; its first decision is "break, no continuation" (unless the
    line must not be broken off its predecessor) for `BreakAll` and for all but the first child of `ContinueThenBreak`,
    "continue" otherwise -/
theorem format_line_children (O : Olf) (cache : ChildLineCache) (lineIdx : Nat) (hc : CacheOk O cache) :
    CacheOk O (O.formatLine cache lineIdx).2 ∧ ∀ sol, (O.formatLine cache lineIdx).1 = some sol → TreeOk O sol :=
  Pasfmt.format_line_children O cache lineIdx hc

/-- the whole wrapper stage: every solution it applies (first wrapping and re-wrapping; the cache lives as long as the
    stage) is the image of a search solution that starts with its line's level and no continuation and whose child
    solutions are all well placed -/
theorem wrapStageFull_children (cfg : Config) (lines : List Line) (ft ftz : FT) (sols : List (Nat × Nat × Sol))
    (h : wrapStageFull cfg lines ft = some (ftz, sols)) :
    ∀ x ∈ sols, SolOk (stageOlf (searchInit cfg lines ft) ft) x :=
  Pasfmt.wrapStageFull_children cfg lines ft ftz sols h

/-- `begin_style = always_wrap`, at the point where the search decides it (partial: see
    `Pasfmt.begin_always_wrap_partial`): for child lines hanging off `else`, `then`, `do` or the colon of a case arm
    whose first line starts with `begin`, all child solutions the search considers break before `begin` and put it at
    the parent line's indentation -/
theorem begin_always_wrap_partial (O : Olf) (solve : Solver) (hK : SolverKey O solve) (hT : SolverOk O solve)
    (cache : ChildLineCache) (line : Nat × LineA) (nli : Nat) (W : LineWhitespace) (decision : DecisionRef)
    (stack : SpecificContextStack) (node : FormattingNode) (tll pc : Nat) (hc : CacheOk O cache)
    (hbb : O.breakBeforeBegin = true) (lineChildren : LineChildren)
    (hlc : O.lineChildren.get? (line.1, line.2.tokens[nli]!) = some lineChildren)
    (hpt : O.getTokenType lineChildren.parentToken = some (.tKeyword .kElse) ∨
      O.getTokenType lineChildren.parentToken = some (.tKeyword .kThen) ∨
      O.getTokenType lineChildren.parentToken = some (.tKeyword .kDo) ∨
      O.getTokenType lineChildren.parentToken = some (.tOp .oColon))
    (hfirst : firstChildTokenType O lineChildren = some (.tKeyword .kBegin)) :
    ∀ sols ∈ (O.findOptimalChildLinesSolution solve cache line nli W decision stack node tll pc).1.toList,
      ChildListOk O (.breakAll { whitespace := W, deindent := 1 }) sols ∧
      ∀ x, sols[0]? = some x →
        x.2.startingWs = { indentations := W.indentations + (O.lines[x.1]!).level - 1,
                           continuations := W.continuations } ∧
        ((O.lines[x.1]!).tokens[0]?.isSome →
          (x.2.decisions.head?).map (·.decision) = some (rootDec O (O.lines[x.1]!) .brk)) :=
  Pasfmt.begin_always_wrap_partial O solve hK hT cache line nli W decision stack node tll pc hc hbb lineChildren hlc
    hpt hfirst

/-- CHILD LINES, COUNTER LEVEL.  `root` is a solution of the search whose child solutions are well placed (`TreeOk`:
    every solution `format_line` returns, `format_line_children`), applied by `reconstruct_solution` in the form
    `toSol` with enough fuel for the depth looked at; `par` is any solution in its tree (`FDesc k`: `root` itself for
    `k = 0`, a child solution for `k = 1`, and so on) with starting whitespace `W`.  For every decision (token) of `par`
    there is one `ChildLineOption` for all child lines hanging off it, derived from `W`, such that the first token `c0`
    of the `p`-th child line `cl` (written once by the whole tree) ends up: for `BreakAll` and all but the first child
    of `ContinueThenBreak` (when the line may be broken off its predecessor) with one line break (two where a blank line
    was), `W.indentations + cl.level - deindent` indentations, `deindent ≤ 1` the option's, and the option's
    continuations (at least `W`'s) - a statement in an anonymous routine body or a `begin…end` child block starts its
    own line, indented relative to its parent line by its level; otherwise (`ContinueAll`, first child of
    `ContinueThenBreak`) with no line break and no whitespace -/
theorem child_line_first_token (O : Olf) (lines : List Line) (ft ft1 : FT) (root par : FormattingSolution)
    (k m li pli : Nat) (hroot : TreeOk O root) (hdesc : FDesc k root li par pli)
    (d : TokenDecision) (hd : d ∈ par.decisions)
    (ha : applySol lines ft (root.toSol (k + 2 + m)) li = some ft1) :
    ∃ option : ChildLineOption, OptionFrom par.startingWs option ∧
      ∀ (p : Nat) (x : Nat × FormattingSolution) (cl : Line) (c0 : Nat), d.childSolutions[p]? = some x →
        lines[x.1]? = some cl → O.lines[x.1]! = cl.toA → cl.tokens[0]? = some c0 →
        (solTokens lines (root.toSol (k + 2 + m)) li).count c0 = 1 →
        ChildSolOk O option p x ∧
        ∃ t, ft[c0]? = some t ∧
          ((option.breaksAt p = true ∧ O.getFormattingInvariant 0 cl.toA ≠ some .mustNotBreak) →
            option.startingWs.deindent ≤ 1 ∧
            par.startingWs.continuations ≤ option.startingWs.whitespace.continuations ∧
            ft1[c0]? = some { t with fmt :=
              { t.fmt with nl := nlc t.fmt.nl,
                           ind := par.startingWs.indentations + cl.level - option.startingWs.deindent,
                           cont := option.startingWs.whitespace.continuations } }) ∧
          ((option.breaksAt p = false ∨ O.getFormattingInvariant 0 cl.toA = some .mustNotBreak) →
            ft1[c0]? = some { t with fmt := contFmt t.fmt }) :=
  Pasfmt.child_line_first_token O lines ft ft1 root par k m li pli hroot hdesc d hd ha

/-- the generic fact behind it, about `reconstruct_solution` alone: when a solution tree is applied, the first token of
    the line of ANY solution in the tree (`SubSol`, any depth) gets the first decision of that solution applied with
    that solution's starting whitespace - provided the whole tree writes the token once -/
theorem subSol_first_token (lines : List Line) (s : Sol) (li : Nat) (s' : Sol) (li' : Nat) (hsub : SubSol s li s' li')
    (ft ft1 : FT) (ind cont : Nat) (d : Dec) (ch : List (Nat × Sol)) (rest : List (Dec × List (Nat × Sol)))
    (l : Line) (t0 : Nat) (hs : s' = .mk ind cont ((d, ch) :: rest)) (hl : lines[li']? = some l)
    (ht : l.tokens[0]? = some t0) (ha : applySol lines ft s li = some ft1)
    (hone : (solTokens lines s li).count t0 = 1) :
    ∃ t, ft[t0]? = some t ∧ ft1[t0]? = some { t with fmt := applyDec t.fmt true ind cont d } :=
  Pasfmt.subSol_first_token lines hsub ft ft1 ind cont d ch rest l t0 hs hl ht ha hone

/-- SIBLINGS ARE ALIGNED.  Two child lines `clp`, `clq` hanging off the same token of a solution `par` (any depth in an
    applied solution tree), both placed after a break: there are `e ≤ 1` (the option's de-indentation) and
    `c ≥ W.continuations` such that both first tokens start their line (1 or 2 line breaks) with
    `W.indentations + level - e` indentations and `c` continuations.  So the statements of one list with the same level
    get the same indentation and continuation, and a line one level deeper than a sibling gets exactly one indentation
    more (as long as `1 ≤ W.indentations + clp.level`: at indentation 0, level 0 and `e = 1` the subtraction stops at
    0 for both) -/
theorem sibling_children_same_indent (O : Olf) (lines : List Line) (ft ft1 : FT) (root par : FormattingSolution)
    (k m li pli : Nat) (hroot : TreeOk O root) (hdesc : FDesc k root li par pli)
    (d : TokenDecision) (hd : d ∈ par.decisions)
    (ha : applySol lines ft (root.toSol (k + 2 + m)) li = some ft1) :
    ∃ (option : ChildLineOption) (e c : Nat), OptionFrom par.startingWs option ∧ e ≤ 1 ∧
      par.startingWs.continuations ≤ c ∧
      ∀ (p q : Nat) (x y : Nat × FormattingSolution) (clp clq : Line) (cp cq : Nat),
        d.childSolutions[p]? = some x → d.childSolutions[q]? = some y →
        lines[x.1]? = some clp → O.lines[x.1]! = clp.toA → clp.tokens[0]? = some cp →
        lines[y.1]? = some clq → O.lines[y.1]! = clq.toA → clq.tokens[0]? = some cq →
        (solTokens lines (root.toSol (k + 2 + m)) li).count cp = 1 →
        (solTokens lines (root.toSol (k + 2 + m)) li).count cq = 1 →
        option.breaksAt p = true → option.breaksAt q = true →
        O.getFormattingInvariant 0 clp.toA ≠ some .mustNotBreak →
        O.getFormattingInvariant 0 clq.toA ≠ some .mustNotBreak →
        ∃ fp fq, fmtAt ft1 cp = some fp ∧ fmtAt ft1 cq = some fq ∧
          StartsLine (par.startingWs.indentations + clp.level - e) c fp ∧
          StartsLine (par.startingWs.indentations + clq.level - e) c fq ∧
          fp.cont = fq.cont ∧
          (clp.level = clq.level → fp.ind = fq.ind) ∧
          (clq.level = clp.level + 1 → 1 ≤ par.startingWs.indentations + clp.level → fq.ind = fp.ind + 1) :=
  Pasfmt.sibling_children_same_indent O lines ft ft1 root par k m li pli hroot hdesc d hd ha

/-- the wrapper stage, child lines of a top-level line: for every solution `x = (phase, i, s)` the stage applied
    (first wrapping or re-wrapping), at the moment it is applied (`ft` to `ft1`): for every token of line `i` (level
    `L`) there are an option, `e ≤ 1` and `c` such that every child line `cl` hanging off that token and placed after a
    break, whose first token `c0` the solution writes once, starts its own line: 1 or 2 line breaks,
    `L + cl.level - e` indentations, `c` continuations -/
theorem wrapStageFull_child_first_token (cfg : Config) (lines : List Line) (ft0 ftz : FT)
    (sols : List (Nat × Nat × Sol)) (h : wrapStageFull cfg lines ft0 = some (ftz, sols))
    (x : Nat × Nat × Sol) (hx : x ∈ sols) (ft ft1 : FT) (ha : applySol lines ft x.2.2 x.2.1 = some ft1) :
    let O := stageOlf (searchInit cfg lines ft0) ft0
    ∃ sol : FormattingSolution, x.2.2 = sol.toSol (O.lines.size + 1) ∧ TreeOk O sol ∧
      sol.startingWs = { indentations := (O.lines[x.2.1]!).level, continuations := 0 } ∧
      ∀ d ∈ sol.decisions, ∃ (option : ChildLineOption) (e c : Nat), OptionFrom sol.startingWs option ∧ e ≤ 1 ∧
        ∀ (p : Nat) (y : Nat × FormattingSolution) (cl : Line) (c0 : Nat), d.childSolutions[p]? = some y →
          lines[y.1]? = some cl → cl.tokens[0]? = some c0 → (solTokens lines x.2.2 x.2.1).count c0 = 1 →
          option.breaksAt p = true → O.getFormattingInvariant 0 cl.toA ≠ some .mustNotBreak →
          ∃ f, fmtAt ft1 c0 = some f ∧ StartsLine ((O.lines[x.2.1]!).level + cl.level - e) c f :=
  Pasfmt.applied_child_first_token _ lines rfl ft ft1 x (Pasfmt.wrapStageFull_children cfg lines ft0 ftz sols h x hx) ha

/-- from the moment a solution is applied to the end of the wrapper stage ("the last writer wins"): `R` is any property
    of the counters of token `j` that does not look at the spaces (for a child line: "1 or 2 line breaks, so many
    indentations").  If every applied solution that writes `j` leaves it with `R` (`wrapStageFull_child_first_token`
    gives that for first tokens of child lines) and some applied solution writes `j`, then `j` leaves the stage -
    string passes, re-wrapping, removal of spaces at line starts included - with `R` -/
theorem wrapStageFull_last_writer (R : FmtData → Prop) (hR : ∀ f : FmtData, R f → R { f with sp := 0 })
    (cfg : Config) (lines : List Line) (ft ftz : FT) (sols : List (Nat × Nat × Sol)) (j : Nat)
    (h : wrapStageFull cfg lines ft = some (ftz, sols))
    (hW : ∀ x ∈ sols, Writes lines x j → ∀ fa fb, applySol lines fa x.2.2 x.2.1 = some fb →
      ∃ f, fmtAt fb j = some f ∧ R f)
    (hsome : ∃ x ∈ sols, Writes lines x j) :
    ∃ f, fmtAt ftz j = some f ∧ R f :=
  Pasfmt.wrapStageFull_last_writer R hR cfg lines ft ftz sols j h hW hsome

/-- `begin_style = always_wrap`, `format_line`: started with a well-formed cache (`CacheOk'`; the empty cache is:
    `Pasfmt.cacheOk'_empty`) it keeps it well-formed, and the solution it returns satisfies `TreeOk'` (stronger than
    `TreeOk`): at every depth, the child solutions hanging off a decision are placed by one option, they are the
    solutions of exactly the child lines of one record of `lineChildren`, and when that record hangs off `else`, `then`,
    `do` or the colon of a case arm and its first child line starts with `begin` (`BeginCond`), the option is "break
    before every child line, at the parent's indentation" -/
theorem format_line_begin_always_wrap (O : Olf) (cache : ChildLineCache) (lineIdx : Nat) (hc : CacheOk' O cache) :
    CacheOk' O (O.formatLine cache lineIdx).2 ∧ ∀ sol, (O.formatLine cache lineIdx).1 = some sol → TreeOk' O sol :=
  Pasfmt.format_line_begin_always_wrap O cache lineIdx hc

/-- `begin_style = always_wrap` in the RETURNED solution (not only at the decision point): for a decision `d` of a
    solution with `TreeOk'` (every solution `format_line` returns, and every solution nested in it), the child
    solutions of `d` are all placed by one option derived from the solution's starting whitespace `W`; either there are
    none, or they are the solutions of exactly the child lines of a record `lc` of `lineChildren`, and if
    `begin_style = always_wrap`, `lc` hangs off `else`/`then`/`do`/case-arm colon and its first child line starts with
    `begin`, then that option is `BreakAll` at the parent's indentation: the `begin` line starts with
    `W.indentations + level - 1` indentations and `W.continuations`, and its first decision is a break with no
    continuation (so `begin` starts its own line at the indentation of the controlling statement) -/
theorem begin_always_wrap (O : Olf) (sol : FormattingSolution) (h : TreeOk' O sol) (d : TokenDecision)
    (hd : d ∈ sol.decisions) :
    ∃ option, OptionFrom sol.startingWs option ∧
      (∀ p x, d.childSolutions[p]? = some x → ChildSolOk O option p x ∧ TreeOk' O x.2) ∧
      (d.childSolutions = [] ∨ ∃ key lc, O.lineChildren.get? key = some lc ∧
        d.childSolutions.map (·.1) = lc.lineIndices.toList ∧
        (BeginCond O lc → option = .breakAll { whitespace := sol.startingWs, deindent := 1 } ∧
          ∀ x, d.childSolutions[0]? = some x →
            x.2.startingWs = { indentations := sol.startingWs.indentations + (O.lines[x.1]!).level - 1,
                               continuations := sol.startingWs.continuations } ∧
            ((O.lines[x.1]!).tokens[0]?.isSome →
              (x.2.decisions.head?).map (·.decision) = some (rootDec O (O.lines[x.1]!) .brk)))) :=
  Pasfmt.begin_always_wrap h hd

/-- under `BeginCond` the first child solution exists and is the solution of a line whose first token is `begin` -/
theorem begin_always_wrap_first (O : Olf) (lc : LineChildren) (hb : BeginCond O lc)
    (sols : List (Nat × FormattingSolution)) (hm : sols.map (·.1) = lc.lineIndices.toList) :
    ∃ x t, sols[0]? = some x ∧ lc.lineIndices[0]? = some x.1 ∧ (O.lines[x.1]!).tokens[0]? = some t ∧
      O.getTokenType t = some (.tKeyword .kBegin) :=
  Pasfmt.begin_always_wrap_first hb hm

/-- the whole wrapper stage: every solution it applies (first wrapping and re-wrapping) is the image of a search
    solution with `TreeOk'` that starts with its line's level and no continuation; here
    `(stageOlf (searchInit cfg lines ft) ft).breakBeforeBegin = cfg.beginAlwaysWrap` -/
theorem wrapStageFull_begin_always_wrap (cfg : Config) (lines : List Line) (ft ftz : FT)
    (sols : List (Nat × Nat × Sol)) (h : wrapStageFull cfg lines ft = some (ftz, sols)) :
    ∀ x ∈ sols, SolOk' (stageOlf (searchInit cfg lines ft) ft) x :=
  Pasfmt.wrapStageFull_begin_always_wrap cfg lines ft ftz sols h

/-- `begin_style = always_wrap`, down to the counters: when a solution `root` the search returned (`TreeOk'`) is
    applied, for every solution `par` in its tree (any depth) and every decision of `par` with child solutions, these
    belong to a record `lc` of `lineChildren`, and under `BeginCond` (always_wrap; parent token `else`/`then`/`do`/
    case-arm colon; first child line starts with `begin`) the `begin` token `c0` ends up with one line break (two where a
    blank line was), `W.indentations + level - 1` indentations and `W.continuations`, `W` the starting whitespace of
    the controlling line's solution - provided the tree writes `c0` once and the `begin` line is not one that must stay
    on its predecessor's line -/
theorem begin_always_wrap_counters (O : Olf) (lines : List Line) (ft ft1 : FT) (root par : FormattingSolution)
    (k m li pli : Nat) (hroot : TreeOk' O root) (hdesc : FDesc k root li par pli)
    (d : TokenDecision) (hd : d ∈ par.decisions)
    (ha : applySol lines ft (root.toSol (k + 2 + m)) li = some ft1) :
    d.childSolutions = [] ∨ ∃ key lc, O.lineChildren.get? key = some lc ∧
      d.childSolutions.map (·.1) = lc.lineIndices.toList ∧
      (BeginCond O lc →
        ∀ (x : Nat × FormattingSolution) (cl : Line) (c0 : Nat), d.childSolutions[0]? = some x →
          lines[x.1]? = some cl → O.lines[x.1]! = cl.toA → cl.tokens[0]? = some c0 →
          (solTokens lines (root.toSol (k + 2 + m)) li).count c0 = 1 →
          O.getFormattingInvariant 0 cl.toA ≠ some .mustNotBreak →
          ∃ t, ft[c0]? = some t ∧
            ft1[c0]? = some { t with fmt :=
              { t.fmt with nl := nlc t.fmt.nl, ind := par.startingWs.indentations + cl.level - 1,
                           cont := par.startingWs.continuations } }) :=
  Pasfmt.begin_always_wrap_counters O lines ft ft1 root par k m li pli hroot hdesc d hd ha

end Pasfmt.C05
