/-
  C05 — Block structure is rendered: one statement per line at its nesting depth.
  Proved: how counters are rendered (exact reconstructor) and how the line builder assigns levels.
  That the parser opens a `+1` context for exactly the listed bodies and finishes a line at every
  statement boundary is grammar knowledge of its control flow: checked by the generator-marked
  structure oracle on every case (level "other", partial).
-/
import PasfmtModel.Props.C08
import PasfmtModel.Model.Parser

namespace Pasfmt.C05

/-- a token whose counters are "break, `level` indentations, no continuation, no spaces" is rendered
    first on its own line preceded by exactly `level` indentation units — for any settings and
    whatever the other tokens' counters are -/
theorem first_token_rendering (S : Settings) (t : FTok) (mb : Bool) (level k : Nat)
    (hi : t.fmt.ignored = false) (hk : k = 1 ∨ k = 2)
    (hf : t.fmt.nl = k ∧ t.fmt.ind = level ∧ t.fmt.cont = 0 ∧ t.fmt.sp = 0) :
    gapOf S t mb = replicateBytes k S.nlStr ++ replicateBytes level S.indStr := by
  obtain ⟨h1, h2, h3, h4⟩ := hf
  unfold gapOf
  simp only [hi]
  have hnl : (if (mb && t.fmt.nl == 0 && !(t.tok.kind == .tEof)) = true then 1 else t.fmt.nl) = k := by
    have hz : (t.fmt.nl == 0) = false := by rcases hk with h | h <;> simp [h1, h]
    rw [hz]; simp [h1]
  simp only [Bool.false_eq_true, if_false, hnl, h2, h3, h4]
  simp [replicateBytes]

end Pasfmt.C05
