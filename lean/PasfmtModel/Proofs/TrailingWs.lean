/-
  The trailing blanks of a text (`countTrailingWs`, scanned backwards) never reach a token's first
  byte: if the forward scan `countLeadingWs` stops at a byte, the backward scan stops after it.
  Needed for `lex_total`: an unterminated comment (`tokLen - trim`) is never empty.
-/
import PasfmtModel.Proofs.LexShape

namespace Pasfmt

/-- a sequence of blank units: bytes `≤ 0x20` and `E3 80 80` -/
inductive BlankUnits : Bytes → Prop
  | nil : BlankUnits []
  | blank (b : UInt8) (w : Bytes) : b ≤ 0x20 → BlankUnits w → BlankUnits (b :: w)
  | wide (w : Bytes) : BlankUnits w → BlankUnits (0xE3 :: 0x80 :: 0x80 :: w)

theorem blankUnits_leadingWs (l : Bytes) : BlankUnits (l.take (countLeadingWs l)) := by
  induction l using countLeadingWs.induct with
  | case1 => simpa [countLeadingWs] using BlankUnits.nil
  | case2 r ih =>
    rw [countLeadingWs]
    have : List.take (countLeadingWs r + 3) (0xE3 :: 0x80 :: 0x80 :: r) = 0xE3 :: 0x80 :: 0x80 :: List.take (countLeadingWs r) r := by
      simp [List.take_succ_cons]
    rw [this]
    exact BlankUnits.wide _ ih
  | case3 b r hne hle ih =>
    have : countLeadingWs (b :: r) = countLeadingWs r + 1 := by
      rw [countLeadingWs]
      · simp [hle]
      · intro r' h; exact hne r' h
    rw [this, List.take_succ_cons]
    exact BlankUnits.blank b _ (by simpa using hle) ih
  | case4 b r hne hle =>
    have : countLeadingWs (b :: r) = 0 := by
      rw [countLeadingWs]
      · simp [hle]
      · intro r' h; exact hne r' h
    rw [this]; simpa using BlankUnits.nil

/-- a blank-unit sequence does not end with `E3` nor with `E3 80` -/
theorem BlankUnits.rev_ok {w : Bytes} (h : BlankUnits w) :
    (∀ t, w.reverse ≠ 0xE3 :: t) ∧ (∀ t, w.reverse ≠ 0x80 :: 0xE3 :: t) := by
  induction h with
  | nil => simp
  | blank b w hb _ ih =>
    have hbne : b ≠ 0xE3 := by intro e; subst e; exact absurd hb (by decide)
    rw [List.reverse_cons]
    cases hr : w.reverse with
    | nil =>
      constructor
      · intro t ht; simp at ht; exact hbne ht.1
      · intro t ht; simp at ht
    | cons c t' =>
      rw [hr] at ih
      constructor
      · intro t ht
        simp only [List.cons_append, List.cons.injEq] at ht
        exact ih.1 t' (by rw [ht.1])
      · intro t ht
        simp only [List.cons_append, List.cons.injEq] at ht
        obtain ⟨hc, ht2⟩ := ht
        cases t' with
        | nil => simp at ht2; exact hbne ht2.1
        | cons d t'' =>
          simp only [List.cons_append, List.cons.injEq] at ht2
          exact ih.2 t'' (by rw [hc, ht2.1])
  | wide w _ ih =>
    have : (0xE3 :: 0x80 :: 0x80 :: w).reverse = w.reverse ++ [0x80, 0x80, 0xE3] := by simp
    rw [this]
    cases hr : w.reverse with
    | nil =>
      constructor
      · intro t ht; simp at ht
      · intro t ht; simp at ht
    | cons c t' =>
      rw [hr] at ih
      constructor
      · intro t ht
        simp only [List.cons_append, List.cons.injEq] at ht
        exact ih.1 t' (by rw [ht.1])
      · intro t ht
        simp only [List.cons_append, List.cons.injEq] at ht
        obtain ⟨hc, ht2⟩ := ht
        cases t' with
        | nil => simp at ht2
        | cons d t'' =>
          simp only [List.cons_append, List.cons.injEq] at ht2
          exact ih.2 t'' (by rw [hc, ht2.1])

theorem clwr_triple (l : Bytes) : countLeadingWsRev (0x80 :: 0x80 :: 0xE3 :: l) = countLeadingWsRev l + 3 := by
  rw [countLeadingWsRev]

theorem clwr_cons (a : UInt8) (l : Bytes) (h : ∀ t, a :: l ≠ 0x80 :: 0x80 :: 0xE3 :: t) :
    countLeadingWsRev (a :: l) = if a ≤ 0x20 then countLeadingWsRev l + 1 else 0 := by
  rw [countLeadingWsRev]
  intro t h1 h2
  exact h t (by rw [h1, h2])

theorem clwr_le (l : Bytes) : countLeadingWsRev l ≤ l.length := by
  induction l using countLeadingWsRev.induct with
  | case1 => simp [countLeadingWsRev]
  | case2 r ih => rw [clwr_triple]; simp only [List.length_cons]; omega
  | case3 b r hne hle ih =>
    rw [clwr_cons b r (fun t ht => by simp only [List.cons.injEq] at ht; exact hne t ht.1 ht.2)]
    simp only [hle, if_true, List.length_cons]; omega
  | case4 b r hne hle =>
    rw [clwr_cons b r (fun t ht => by simp only [List.cons.injEq] at ht; exact hne t ht.1 ht.2)]
    simp [hle]

/-- the backward scan over `x ++ b :: w.reverse` stays inside `x` when `x.reverse` is the start of the
    text after `b`, `b` is where the forward scan stopped and `w` is what it consumed -/
theorem trailing_aux (w : Bytes) (b : UInt8) (r : Bytes) (hw : BlankUnits w) (hnb : ¬ b ≤ 0x20)
    (hne : ¬ ([0xE3, 0x80, 0x80] <+: b :: r)) :
    ∀ (n : Nat) (x t : Bytes), x.length = n → r = x.reverse ++ t →
      countLeadingWsRev (x ++ b :: w.reverse) ≤ x.length := by
  have hrev := hw.rev_ok
  intro n
  induction n using Nat.strongRecOn with
  | _ n ih =>
    intro x t hlen hx
    match x, hlen, hx with
    | [], _, _ =>
      simp only [List.nil_append, List.length_nil, Nat.le_zero_eq]
      rw [clwr_cons]
      · simp [hnb]
      · intro t' ht'
        simp only [List.cons.injEq] at ht'
        exact hrev.2 _ ht'.2
    | [a], _, _ =>
      simp only [List.cons_append, List.nil_append, List.length_cons, List.length_nil]
      rw [clwr_cons]
      · split
        · rw [clwr_cons]
          · simp [hnb]
          · intro t' ht'
            simp only [List.cons.injEq] at ht'
            exact hrev.2 _ ht'.2
        · omega
      · intro t' ht'
        simp only [List.cons.injEq] at ht'
        exact hrev.1 _ ht'.2.2
    | [a1, a2], hlen, hx =>
      simp only [List.cons_append, List.nil_append, List.length_cons, List.length_nil]
      rw [clwr_cons]
      · split
        · have := ih 1 (by simp at hlen; omega) [a2] (a1 :: t) rfl (by simpa using hx)
          simp only [List.cons_append, List.nil_append, List.length_cons, List.length_nil] at this
          omega
        · omega
      · intro t' ht'
        simp only [List.cons.injEq] at ht'
        obtain ⟨h1, h2, h3, _⟩ := ht'
        apply hne
        subst h1 h2 h3
        simp at hx
        exact ⟨t, by simp [hx]⟩
    | a1 :: a2 :: a3 :: x', hlen, hx =>
      by_cases hp : a1 = 0x80 ∧ a2 = 0x80 ∧ a3 = 0xE3
      · obtain ⟨rfl, rfl, rfl⟩ := hp
        simp only [List.cons_append]
        rw [clwr_triple]
        have := ih x'.length (by simp at hlen; omega) x' ([0xE3, 0x80, 0x80] ++ t) rfl (by simpa using hx)
        simp only [List.length_cons]
        omega
      · simp only [List.cons_append]
        rw [clwr_cons]
        · split
          · have := ih (a2 :: a3 :: x').length (by simp at hlen ⊢; omega) (a2 :: a3 :: x') (a1 :: t) rfl (by simpa using hx)
            simp only [List.cons_append, List.length_cons] at this ⊢
            omega
          · omega
        · intro t' ht'
          simp only [List.cons.injEq] at ht'
          exact hp ⟨ht'.1, ht'.2.1, ht'.2.2.1⟩

/-- **Trailing blanks stop after the token start.** -/
theorem countTrailingWs_lt (inp : Bytes) (b : UInt8) (r : Bytes)
    (h : inp.drop (countLeadingWs inp) = b :: r) : countTrailingWs inp ≤ r.length := by
  have hshape := drop_countLeadingWs inp
  rw [h] at hshape
  rcases hshape with hnil | ⟨b', r', hbr, hnb, hne⟩
  · simp at hnil
  · simp only [List.cons.injEq] at hbr
    obtain ⟨rfl, rfl⟩ := hbr
    have hw := blankUnits_leadingWs inp
    have hsplit : inp = inp.take (countLeadingWs inp) ++ b :: r := by
      rw [← h]; simp
    unfold countTrailingWs
    rw [hsplit]
    simp only [List.reverse_append, List.reverse_cons, List.append_assoc, List.singleton_append]
    have := trailing_aux _ b r hw hnb hne r.length r.reverse [] (by simp) (by simp)
    simpa using this

end Pasfmt
