/-
  C10, the open part: do the DECISIONS of the line-wrapping search depend on the widths of the two indentation
  strings (`SearchCfg.indLen`, `SearchCfg.contLen`) when the width limit is never reached?

  ## Inventory: every place where the search reads a line length, `maxLineLength`, or the widths
  (by inspection of Model/Search*.lean; the items that are theorems below are marked in "What is proved here")

  The widths `indLen`/`contLen` are read by exactly one function, `LineWhitespace.len` (SearchTypes), which has exactly
  two callers:
    (L1) `Olf.getTokenLineLength` (Search.lean): the `.brk c` case `(startingWs + c continuations).len cfg + content`
         and the "no token length" case `startingWs.len cfg`;
    (L2) `Olf.findOptimalSolutionWith`: the root's `lastLineLength` for a first decision `.brk` that is not turned
         into "continue": `startingWs.len O.cfg + contentLen`.
  `SearchContexts.lean` and `SearchRequirements.lean` read NO length, NO `cfg` field (`cfg` is only read by the two
  accessors `Olf.maxLineLength = cfg.wrapColumn` and `Olf.breakBeforeBegin = cfg.beginAlwaysWrap`), no
  `tokenLengths`, no `lastLineLength`, no `penalty`, no `startingWs`: the context functions read a node only through
  `nextLineIndex` and `contextData`, and a child solution only through `decisions.any (·.decision is a break)` and
  `isEmpty` (`updateContextsFromChildSolutions`).  `getFormattingRequirement`/`getFormattingInvariant`/
  `getTokenTypeWindow` read `O` only through `getTokenType` (= `formattedTokens[i].kind`).

  Lengths, once computed, flow as follows (all in Search.lean).
    Producers:
      (P1) `getTokenLineLength` (L1): multi-line token -> the length of its last line (width-free);
           `.cont` -> (last line of the parent's last child solution, else the parent's `lastLineLength`)
                      + spacesBefore + content;   `.brk c` -> L1.
      (P2) the root of `findOptimalSolutionWith` (L2): `.brk` -> `ws.len + content`;
           `.cont len _` -> `len + spacesBefore + content` (the `len` comes from `solveChildLines`, see S3).
    Stores:
      (S1) `TokenDecision.lastLineLength` of every decision (`getPotentialSolution`, the root);
      (S2) `FormattingSolution.solutionLength` (`intoSolution`; never read by the search);
      (S3) `solveChildLines`: the running `lastLineLength` handed to the next child line as `.cont lastLineLength _`
           (= the last decision's `lastLineLength` of the previous child's solution);
      (S4) THE CACHE KEY: `ChildLineInitialConditions.lastLineLength := tokenLineLength`; the key also contains
           `LineWhitespace`s (inside `ChildLineOption.breakAll/continueThenBreak`), but these are counters, not
           widths.  The cached VALUES contain lengths (S1, S2 of the child solutions).
    Consumers (the only places where a length influences control flow or a number that is compared):
      (C1) `getDecisionPenalty`, case `.cont` only: `if lineLength > maxLineLength then 2^20 + 3 * excess else 0`.
           The `.brk` case does not read `lineLength`.  Called from `getPotentialSolution` (with P1) and for the
           root (with P2).
      (C2) `indiffLoop`: `tooLong := max lastTokenLength lastChildLength > maxLineLength`, which selects
           "return to the first indifferent decision".
      (C3) the cache lookup `cache.get? cacheKey` (S4): equality of lengths decides hit or miss.
    Nothing else: `nodeHeapLoop`/`successorLoop`/the heap compare `penalty` and `nextLineIndex` only;
    `toSol` (what the stage applies) drops `lastLineLength`, `solutionLength`, `penalty`, `requirement`.

  ## What is proved here

    * (C1) `getDecisionPenalty_width_free`: the penalty is the same in two runs that differ in the widths, for a
      break always, for a continue when both lengths are within the limit.
    * (C2) `tooLong_false_of_le`.
    * (P1) `getTokenLineLength_le`: the inductive step of the bound "every length is at most
      (widths of the whitespace) + (sum of everything on the line so far)".
    * width-blind reads: `getFormattingInvariant_twin`, `getFormattingRequirement_twin`.
    * `LenFree`: the relation "equal up to stored lengths" on solutions, with `LenFree.toSol` (related solutions
      are applied identically by the stage) and `LenFree.anyBreak` (the one read of child solutions by the contexts).
    * the lift: `applyLinesS_sim`, `wrapStageFull_sim`: ANY simulation between the two search states that makes
      `searchSolve` return the same solution lifts to the whole wrapper stage (`format_multiline_strings = false`),
      and `C10_stage_of_search_simulation_partial` concludes C10 for the stage + reconstruction from it.
    * the unconditional instance `tab_width = 1`: `searchCfg_tab_width_one`, `C10_stage_tab_width_one`.

  ## What remains open (precisely)

    `search_width_free`: for `st₁ = searchInit c₁ lines ft`, `st₂ = searchInit c₂ lines ft`, `c₁`, `c₂` equal except
    `useTabs` (hence `searchCfg` equal except `indLen`, `contLen`), and `W = wrapColumn ≥` every length of P1/P2 in
    both runs: `(searchSolve st₁ ft' i).1 = (searchSolve st₂ ft' i).1`, and the resulting states are again related
    (this is hypothesis `hR` of `wrapStageFull_sim`).  The obstacle is (C3)/(S4): the cache key contains a length,
    and two keys can coincide in one run and differ in the other (a `.brk` length `ind*indLen + content` against a
    `.cont` length), so a lookup can HIT in one run and MISS in the other.  The two runs are therefore not in
    lock-step on the cache; the relation between the caches must be "both are sound for the same cache-free
    function up to `LenFree`", which needs (i) cache transparency of `findOptimalSolution` (a hit returns what the
    computation would return - a one-run invariant in the style of `CacheOk`, including monotonicity in the
    nesting fuel, because entries are shared between nesting depths), and (ii) the two-run `LenFree` invariant
    through `getPotentialSolution`/`indiffLoop`/`successorLoop`/`nodeHeapLoop`/the heap with C1 and C2 discharged by
    the lemmas below and the context functions handled by a "reads only `nextLineIndex`/`contextData`" congruence.
-/
import PasfmtModel.Proofs.SearchChildLines
import PasfmtModel.Proofs.ReconProps

namespace Pasfmt

/-! ### two runs that differ only in the widths -/

/-- two formatter states that agree in everything except the widths of the indentation strings -/
structure OlfTwin (O₁ O₂ : Olf) : Prop where
  wrap : O₁.cfg.wrapColumn = O₂.cfg.wrapColumn
  beginWrap : O₁.cfg.beginAlwaysWrap = O₂.cfg.beginAlwaysWrap
  iter : O₁.iterationMax = O₂.iterationMax
  toks : O₁.formattedTokens = O₂.formattedTokens
  lines : O₁.lines = O₂.lines
  children : O₁.lineChildren = O₂.lineChildren
  types : O₁.tokenTypes = O₂.tokenTypes
  lengths : O₁.tokenLengths = O₂.tokenLengths

theorem OlfTwin.getTokenType {O₁ O₂ : Olf} (h : OlfTwin O₁ O₂) (i : Nat) : O₁.getTokenType i = O₂.getTokenType i := by
  unfold Olf.getTokenType; rw [h.toks]

theorem OlfTwin.sameView {O₁ O₂ : Olf} (h : OlfTwin O₁ O₂) : SameView O₁ O₂ :=
  ⟨h.lines.symm, fun i => (h.getTokenType i).symm⟩

/-- the invariant of a token (must break / must not break) does not read the widths -/
theorem getFormattingInvariant_twin {O₁ O₂ : Olf} (h : OlfTwin O₁ O₂) (li : Nat) (line : LineA) :
    O₁.getFormattingInvariant li line = O₂.getFormattingInvariant li line :=
  (getFormattingInvariant_congr h.sameView li line).symm

theorem getTokenTypeWindow_go_twin {O₁ O₂ : Olf} (h : OlfTwin O₁ O₂) (line : LineA) (n : Nat) :
    Olf.getTokenTypeWindow.go O₁ line n = Olf.getTokenTypeWindow.go O₂ line n := by
  induction n with
  | zero => rfl
  | succ k ih =>
    unfold Olf.getTokenTypeWindow.go
    have : O₁.getTokenTypeForLineIndex line k = O₂.getTokenTypeForLineIndex line k := by
      unfold Olf.getTokenTypeForLineIndex; split <;> simp [h.getTokenType]
    rw [this, ih]

/-- the requirement of a decision does not read the widths (nor any length) -/
theorem getFormattingRequirement_twin {O₁ O₂ : Olf} (h : OlfTwin O₁ O₂) (li : Nat) (line : LineA)
    (stack : SpecificContextStack) (node : FormattingNode) :
    O₁.getFormattingRequirement li line stack node = O₂.getFormattingRequirement li line stack node := by
  have hw : O₁.getTokenTypeWindow li line = O₂.getTokenTypeWindow li line := by
    unfold Olf.getTokenTypeWindow
    have : O₁.getTokenTypeForLineIndex line li = O₂.getTokenTypeForLineIndex line li := by
      unfold Olf.getTokenTypeForLineIndex; split <;> simp [h.getTokenType]
    rw [getTokenTypeWindow_go_twin h, this]
  unfold Olf.getFormattingRequirement
  rw [getFormattingInvariant_twin h, hw]

/-! ### (C1) the penalty -/

/-- The penalty of a decision is the same in two runs that differ only in the widths: always for a break (the
    break penalties do not read the length), and for a continue when neither length exceeds the limit (the only
    length-dependent summand is the overflow penalty, which is then 0 in both). -/
theorem getDecisionPenalty_width_free {O₁ O₂ : Olf} (h : OlfTwin O₁ O₂) (rd : RawDecision) (l₁ l₂ li : Nat)
    (line : LineA) (stack : SpecificContextStack)
    (hl : rd = .cont → l₁ ≤ O₁.cfg.wrapColumn ∧ l₂ ≤ O₁.cfg.wrapColumn) :
    O₁.getDecisionPenalty rd l₁ li line stack = O₂.getDecisionPenalty rd l₂ li line stack := by
  have hp : O₁.getPrevTokenTypeForLineIndex line li = O₂.getPrevTokenTypeForLineIndex line li := by
    unfold Olf.getPrevTokenTypeForLineIndex; split <;> simp [h.getTokenType]
  cases rd with
  | brk =>
    unfold Olf.getDecisionPenalty
    simp only [hp]
  | cont =>
    obtain ⟨h1, h2⟩ := hl rfl
    unfold Olf.getDecisionPenalty Olf.maxLineLength
    simp only
    rw [← h.wrap, if_neg (by omega), if_neg (by omega)]

/-- a continue within the limit costs nothing -/
theorem getDecisionPenalty_cont_of_le (O : Olf) (l li : Nat) (line : LineA) (stack : SpecificContextStack)
    (hl : l ≤ O.cfg.wrapColumn) : O.getDecisionPenalty .cont l li line stack = 0 := by
  unfold Olf.getDecisionPenalty Olf.maxLineLength
  simp only
  rw [if_neg (by omega)]

/-! ### (C2) the `tooLong` test of the `'indiff` loop -/

/-- the test "the last line is too long" of the `'indiff` loop is false when both lengths it reads are within the
    limit -/
theorem tooLong_false_of_le (O : Olf) (lastTokenLength lastChildLength : Nat)
    (h1 : lastTokenLength ≤ O.cfg.wrapColumn) (h2 : lastChildLength ≤ O.cfg.wrapColumn) :
    decide (max lastTokenLength lastChildLength > O.maxLineLength) = false := by
  unfold Olf.maxLineLength
  simp only [decide_eq_false_iff_not]
  omega

/-! ### (P1) the lengths -/

/-- `get_last_child_line_len`, when it answers, returns a `lastLineLength` stored in a child solution -/
theorem getLastChildLineLen_mem (cs : List (Nat × FormattingSolution)) (l : Nat)
    (h : getLastChildLineLen cs = some l) :
    ∃ s ∈ cs, ∃ d ∈ s.2.decisions, d.lastLineLength = l := by
  unfold getLastChildLineLen at h
  split at h
  · cases h
  · rename_i sln hs
    split at h
    · cases h
    · rename_i d hd
      simp only [Option.some.injEq] at h
      exact ⟨sln, List.mem_of_getLast? hs, d, List.mem_of_getLast? hd, h⟩

/-- One step of the length bound.  If the previous decision's length and the lengths stored in its child solutions
    are at most `B`, the width of the line's whitespace with the new continuations is at most `B`, the last line of
    a multi-line token is at most `B`, then the length computed for the next token is at most
    `B + spacesBefore + content` of that token (at most `B` when it has no recorded length). -/
theorem getTokenLineLength_le (O : Olf) (ws : LineWhitespace) (prev : DecisionRef) (d : Dec) (ti : Option Nat) (B : Nat)
    (hprev : prev.value.lastLineLength ≤ B)
    (hchild : ∀ s ∈ prev.value.childSolutions, ∀ x ∈ s.2.decisions, x.lastLineLength ≤ B)
    (hws : ∀ c, d = .brk c → (ws.add { indentations := 0, continuations := c }).len O.cfg ≤ B)
    (hws0 : ws.len O.cfg ≤ B)
    (hml : ∀ i t l, ti = some i → O.formattedTokens[i]? = some t → t.lastLine = some l → l ≤ B) :
    O.getTokenLineLength ws prev d ti ≤
      B + ((ti.bind fun i => O.tokenLengths[i]?).map fun t => t.spacesBefore + t.content).getD 0 := by
  unfold Olf.getTokenLineLength
  simp only
  split
  · rename_i l hl
    cases ti with
    | none => simp at hl
    | some i =>
      simp only [Option.bind_some] at hl
      cases ht : O.formattedTokens[i]? with
      | none => rw [ht] at hl; cases hl
      | some t =>
        rw [ht] at hl
        have := hml i t l rfl ht hl
        omega
  · split
    · rename_i tl htl
      rw [htl]
      simp only [Option.map_some, Option.getD_some]
      have : (getLastChildLineLen prev.value.childSolutions).getD prev.value.lastLineLength ≤ B := by
        cases hc : getLastChildLineLen prev.value.childSolutions with
        | none => simpa using hprev
        | some l =>
          obtain ⟨s, hs, x, hx, rfl⟩ := getLastChildLineLen_mem _ _ hc
          simpa using hchild s hs x hx
      omega
    · rename_i c tl htl
      rw [htl]
      simp only [Option.map_some, Option.getD_some]
      have := hws c rfl
      omega
    · omega

/-! ### "equal up to stored lengths" -/

/-- Two solutions are equal up to the stored lengths: the stage applies them identically (same starting whitespace,
    same decisions, same child solutions, at every nesting depth) and they carry the same penalty.  This is all the
    search reads of a child solution besides the last `lastLineLength`. -/
def FormattingSolution.LenFree (a b : FormattingSolution) : Prop :=
  (∀ fuel, a.toSol fuel = b.toSol fuel) ∧ a.penalty = b.penalty

theorem FormattingSolution.LenFree.refl (a : FormattingSolution) : a.LenFree a := ⟨fun _ => rfl, rfl⟩

/-- related solutions are applied identically by the wrapper stage -/
theorem FormattingSolution.LenFree.toSol {a b : FormattingSolution} (h : a.LenFree b) (fuel : Nat) :
    a.toSol fuel = b.toSol fuel := h.1 fuel

/-- related solutions make the same decisions, token by token -/
theorem FormattingSolution.LenFree.decisions {a b : FormattingSolution} (h : a.LenFree b) :
    a.decisions.map (·.decision) = b.decisions.map (·.decision) := by
  have := h.1 1
  cases a with
  | mk wa da pa la =>
    cases b with
    | mk wb db pb lb =>
      simp only [FormattingSolution.toSol, Sol.mk.injEq] at this
      have h3 := congrArg (List.map Prod.fst) this.2.2
      simpa [FormattingSolution.decisions, List.map_map, Function.comp_def] using h3

/-- the one read of a child solution by the formatting contexts ("a child line is broken") agrees on related
    solutions -/
theorem FormattingSolution.LenFree.anyBreak {a b : FormattingSolution} (h : a.LenFree b) :
    (a.decisions.any fun d => match d.decision with | .brk _ => true | .cont => false) =
      (b.decisions.any fun d => match d.decision with | .brk _ => true | .cont => false) := by
  have e : ∀ l : List TokenDecision,
      (l.any fun d => match d.decision with | .brk _ => true | .cont => false) =
        ((l.map (·.decision)).any fun d => match d with | .brk _ => true | .cont => false) := by
    intro l; rw [List.any_map]; rfl
  rw [e, e, h.decisions]

/-! ### the lift through the wrapper stage -/

/-- If a relation `R` between two search states makes `searchSolve` return the same solution and related states
    (for all token states satisfying `V`, a property that applying a solution preserves), then applying the
    solutions of a list of lines gives the same tokens and the same list of solutions in both runs. -/
theorem applyLinesS_sim (R : SearchState → SearchState → Prop) (V : FT → Prop) (lines : List Line)
    (hV : ∀ ft s i ft1, V ft → applySol lines ft s i = some ft1 → V ft1)
    (hR : ∀ st₁ st₂ ft i, R st₁ st₂ → V ft →
      (searchSolve st₁ ft i).1 = (searchSolve st₂ ft i).1 ∧ R (searchSolve st₁ ft i).2 (searchSolve st₂ ft i).2)
    (phase : Nat) : ∀ (is : List Nat) (st₁ st₂ : SearchState) (ft : FT) (acc : List (Nat × Nat × Sol)),
      R st₁ st₂ → V ft →
      (applyLinesS phase lines is st₁ ft acc).map (fun r => (r.1, r.2.2)) =
        (applyLinesS phase lines is st₂ ft acc).map (fun r => (r.1, r.2.2)) := by
  intro is
  induction is with
  | nil => intro st₁ st₂ ft acc _ _; simp [applyLinesS]
  | cons i rest ih =>
    intro st₁ st₂ ft acc hr hv
    obtain ⟨h1, h2⟩ := hR st₁ st₂ ft i hr hv
    rw [applyLinesS, applyLinesS]
    rcases e1 : searchSolve st₁ ft i with ⟨o1, st1'⟩
    rcases e2 : searchSolve st₂ ft i with ⟨o2, st2'⟩
    rw [e1, e2] at h1 h2
    simp only at h1 h2
    subst h1
    cases o1 with
    | none => exact ih _ _ _ _ h2 hv
    | some s =>
      simp only
      cases e3 : applySol lines ft s i with
      | none => rfl
      | some ft1 => exact ih _ _ _ _ h2 (hV _ _ _ _ hv e3)

/-- With `format_multiline_strings = false` the wrapper stage reads the configuration only through the search:
    if the two searches are related by a simulation as in `applyLinesS_sim`, the stage returns the same tokens and
    the same solutions under both configurations. -/
theorem wrapStageFull_sim (c₁ c₂ : Config) (hm₁ : c₁.fmtMls = false) (hm₂ : c₂.fmtMls = false)
    (R : SearchState → SearchState → Prop) (V : FT → Prop) (lines : List Line) (ft : FT)
    (hV : ∀ ft s i ft1, V ft → applySol lines ft s i = some ft1 → V ft1)
    (hR : ∀ st₁ st₂ ft i, R st₁ st₂ → V ft →
      (searchSolve st₁ ft i).1 = (searchSolve st₂ ft i).1 ∧ R (searchSolve st₁ ft i).2 (searchSolve st₂ ft i).2)
    (hinit : R (searchInit c₁ lines ft) (searchInit c₂ lines ft)) (hv : V ft) :
    wrapStageFull c₁ lines ft = wrapStageFull c₂ lines ft := by
  have h := applyLinesS_sim R V lines hV hR 0 (firstPassLines lines) _ _ ft [] hinit hv
  unfold wrapStageFull
  simp only [hm₁, hm₂, Bool.not_false, if_true]
  revert h
  cases applyLinesS 0 lines (firstPassLines lines) (searchInit c₁ lines ft) ft [] with
  | none =>
    cases applyLinesS 0 lines (firstPassLines lines) (searchInit c₂ lines ft) ft [] with
    | none => intro _; rfl
    | some r => intro h; simp at h
  | some r₁ =>
    cases applyLinesS 0 lines (firstPassLines lines) (searchInit c₂ lines ft) ft [] with
    | none => intro h; simp at h
    | some r₂ =>
      intro h
      obtain ⟨f1, s1, a1⟩ := r₁
      obtain ⟨f2, s2, a2⟩ := r₂
      simp only [Option.map_some, Option.some.injEq, Prod.mk.injEq] at h
      obtain ⟨rfl, rfl⟩ := h
      rfl

/-- C10 for the wrapper stage and the reconstruction, REDUCED to the open statement about the search: if the
    searches under `use_tabs = true` and `use_tabs = false` are related by a simulation (hypotheses `hV`, `hR`,
    `hinit`, `hv` - this is what `search_width_free` has to provide under the bound on the line lengths), then with
    `format_multiline_strings = false` and `continuation_indents * tab_width ≤ 255` the stage ends with the same
    tokens `ft2` under both settings, and replacing every tab of the `use_tabs = true` output by `tab_width` spaces
    gives exactly the `use_tabs = false` output (no token of `ft2` may contain a tab itself). -/
theorem C10_stage_of_search_simulation_partial (c : Config) (hsat : c.contIndents * c.tabWidth ≤ 255)
    (hm : c.fmtMls = false) (R : SearchState → SearchState → Prop) (V : FT → Prop) (lines : List Line) (ft : FT)
    (hV : ∀ ft s i ft1, V ft → applySol lines ft s i = some ft1 → V ft1)
    (hR : ∀ st₁ st₂ ft i, R st₁ st₂ → V ft →
      (searchSolve st₁ ft i).1 = (searchSolve st₂ ft i).1 ∧ R (searchSolve st₁ ft i).2 (searchSolve st₂ ft i).2)
    (hinit : R (searchInit { c with useTabs := true } lines ft) (searchInit { c with useTabs := false } lines ft))
    (hv : V ft) (ft2 : FT) (sols : List (Nat × Nat × Sol))
    (hw : wrapStageFull { c with useTabs := true } lines ft = some (ft2, sols))
    (hnt : ∀ t ∈ ft2, noTabTok t = true) :
    wrapStageFull { c with useTabs := false } lines ft = some (ft2, sols) ∧
      expandTabs c.tabWidth (reconstruct ({ c with useTabs := true }).settings ft2)
        = reconstruct ({ c with useTabs := false }).settings ft2 := by
  refine ⟨?_, reconGo_tabs_to_spaces c hsat ft2 false hnt⟩
  rw [← hw]
  exact (wrapStageFull_sim { c with useTabs := true } { c with useTabs := false } hm hm R V lines ft hV hR hinit
    hv).symm

/-! ### the unconditional instance: `tab_width = 1` -/

/-- with `tab_width = 1` (and `continuation_indents ≤ 255`) the search sees the same configuration under
    `use_tabs = true` and `use_tabs = false`: both indentation strings have the same widths -/
theorem searchCfg_tab_width_one (c : Config) (h1 : c.tabWidth = 1) (hc : c.contIndents ≤ 255) :
    ({ c with useTabs := true } : Config).searchCfg = ({ c with useTabs := false } : Config).searchCfg := by
  unfold Config.searchCfg Config.settings satMulU8
  simp only [h1, if_true, Bool.false_eq_true, if_false, List.length_replicate, Nat.mul_one]
  congr 1
  omega

/-- C10 for the wrapper stage and the reconstruction when `tab_width = 1`, without any bound on the line width:
    with `format_multiline_strings = false` the stage ends with the same tokens under `use_tabs = true` and
    `use_tabs = false`, and replacing every tab of the first output by one space gives the second output. -/
theorem C10_stage_tab_width_one (c : Config) (h1 : c.tabWidth = 1) (hc : c.contIndents ≤ 255)
    (hm : c.fmtMls = false) (lines : List Line) (ft ft2 : FT) (sols : List (Nat × Nat × Sol))
    (hw : wrapStageFull { c with useTabs := true } lines ft = some (ft2, sols))
    (hnt : ∀ t ∈ ft2, noTabTok t = true) :
    wrapStageFull { c with useTabs := false } lines ft = some (ft2, sols) ∧
      expandTabs c.tabWidth (reconstruct ({ c with useTabs := true }).settings ft2)
        = reconstruct ({ c with useTabs := false }).settings ft2 := by
  have hi : searchInit { c with useTabs := true } lines ft = searchInit { c with useTabs := false } lines ft := by
    unfold searchInit; rw [searchCfg_tab_width_one c h1 hc]
  exact C10_stage_of_search_simulation_partial c (by rw [h1]; omega) hm Eq (fun _ => True) lines ft
    (fun _ _ _ _ _ _ => trivial) (fun st₁ st₂ ft i h _ => by subst h; exact ⟨rfl, rfl⟩) hi trivial ft2 sols hw hnt

/-! ### from the stage to the whole formatter (after scanning) -/

/-- C10 for the whole formatter on scanned tokens, REDUCED to two facts about the wrapper stage: (1) the stage ends
    with the same tokens under `use_tabs = true` and `use_tabs = false` (provided by `wrapStageFull_sim` from a
    simulation of the searches, or by `C10_stage_tab_width_one`), (2) no token it ends with contains a tab.  Then
    replacing every tab of the `use_tabs = true` output by `tab_width` spaces gives exactly the `use_tabs = false`
    output (`continuation_indents * tab_width ≤ 255`).  Everything before the wrapper stage does not read the
    configuration. -/
theorem C10_format_tokens_partial (c : Config) (hsat : c.contIndents * c.tabWidth ≤ 255) (alnum : Bytes → Bool)
    (raw : List RawTok)
    (hstage : ∀ po, parseAndConsolidate raw = some po →
      ∀ p, p = preWrap { parser := fun _ => po, wrap := fun _ _ ft => ft, alnum := alnum } raw →
      wrapStageFull { c with useTabs := true } p.2.1 p.2.2 = wrapStageFull { c with useTabs := false } p.2.1 p.2.2 ∧
      ∀ ft2 sols, wrapStageFull { c with useTabs := true } p.2.1 p.2.2 = some (ft2, sols) →
        ∀ t ∈ ft2, noTabTok t = true) :
    (formatTokensFull { c with useTabs := true } alnum raw).map (expandTabs c.tabWidth) =
      formatTokensFull { c with useTabs := false } alnum raw := by
  unfold formatTokensFull
  cases hp : parseAndConsolidate raw with
  | none => rfl
  | some po =>
    obtain ⟨h1, h2⟩ := hstage po hp _ rfl
    simp only
    generalize preWrap { parser := fun _ => po, wrap := fun _ _ ft => ft, alnum := alnum } raw = p at h1 h2
    obtain ⟨a, lines, ft1⟩ := p
    simp only at h1 h2 ⊢
    rw [← h1]
    cases hw : wrapStageFull { c with useTabs := true } lines ft1 with
    | none => rfl
    | some r =>
      obtain ⟨ft2, sols⟩ := r
      simp only [Option.map_some]
      exact congrArg some (reconGo_tabs_to_spaces c hsat ft2 false (h2 ft2 sols hw))

end Pasfmt
