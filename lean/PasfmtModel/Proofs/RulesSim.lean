import PasfmtModel.Model.Rules
import PasfmtModel.Proofs.NoDangling

namespace Pasfmt

/-- A content rewrite that, on text without dangling `E3`, keeps that property and changes only
    blanks and ASCII letter case. -/
def Sim (c c' : Bytes) : Prop := nd c = true → nd c' = true ∧ foldStrip c' = foldStrip c

theorem Sim.refl (c : Bytes) : Sim c c := fun h => ⟨h, rfl⟩

theorem Sim.trans {a b c : Bytes} (h1 : Sim a b) (h2 : Sim b c) : Sim a c := by
  intro ha
  obtain ⟨hb, e1⟩ := h1 ha
  obtain ⟨hc, e2⟩ := h2 hb
  exact ⟨hc, e2.trans e1⟩

/-! ### case mapping -/

theorem lower_class (b : UInt8) :
    (toLowerByte b ≤ 0x20 ↔ b ≤ 0x20) ∧ (toLowerByte b = 0xE3 ↔ b = 0xE3) ∧ (toLowerByte b = 0x80 ↔ b = 0x80)
    ∧ isCont (toLowerByte b) = isCont b ∧ toLowerByte (toLowerByte b) = toLowerByte b
    ∧ toLowerByte (toUpperByte b) = toLowerByte b := by
  have hall : ∀ n : Fin 256,
      ((toLowerByte (UInt8.ofNat n.val) ≤ 0x20 ↔ (UInt8.ofNat n.val) ≤ 0x20) ∧
       (toLowerByte (UInt8.ofNat n.val) = 0xE3 ↔ (UInt8.ofNat n.val) = 0xE3) ∧
       (toLowerByte (UInt8.ofNat n.val) = 0x80 ↔ (UInt8.ofNat n.val) = 0x80) ∧
       isCont (toLowerByte (UInt8.ofNat n.val)) = isCont (UInt8.ofNat n.val) ∧
       toLowerByte (toLowerByte (UInt8.ofNat n.val)) = toLowerByte (UInt8.ofNat n.val) ∧
       toLowerByte (toUpperByte (UInt8.ofNat n.val)) = toLowerByte (UInt8.ofNat n.val)) := by
    decide +kernel
  have := hall ⟨b.toNat, b.toNat_lt⟩
  simpa only [UInt8.ofNat_toNat] using this

theorem stripBlank_lower (c : Bytes) : stripBlank (asciiLower c) = asciiLower (stripBlank c) := by
  induction c using stripBlank.induct with
  | case1 => rfl
  | case2 r ih =>
    have : asciiLower (0xE3 :: 0x80 :: 0x80 :: r) = 0xE3 :: 0x80 :: 0x80 :: asciiLower r := by
      simp [asciiLower, toLowerByte, isUpper]
    rw [this, stripBlank, stripBlank, ih]
  | case3 b r hne hle ih =>
    have hb : b ≠ 0xE3 := by intro hb; subst hb; exact absurd hle (by decide)
    have e : asciiLower (b :: r) = toLowerByte b :: asciiLower r := by simp [asciiLower]
    have hle' : toLowerByte b ≤ 0x20 := (lower_class b).1.2 (by simpa using hle)
    rw [e, stripBlank_cons_le _ _ hle', stripBlank_cons_le _ _ (by simpa using hle), ih]
  | case4 b r hne hle ih =>
    have e : asciiLower (b :: r) = toLowerByte b :: asciiLower r := by simp [asciiLower]
    have hle1 : ¬ b ≤ 0x20 := by simpa using hle
    have hle' : ¬ toLowerByte b ≤ 0x20 := fun h => hle1 ((lower_class b).1.1 h)
    by_cases hb : b = 0xE3
    · subst hb
      -- r does not start with 80 80
      have hl : toLowerByte 0xE3 = 0xE3 := by decide
      rw [e, hl]
      rw [stripBlank.eq_3 0xE3 r (by intro r' _ hr; exact hne r' rfl hr)]
      rw [stripBlank.eq_3 0xE3 (asciiLower r)]
      · simp only [show ¬ (0xE3 : UInt8) ≤ 0x20 by decide, if_false]
        rw [ih]; simp [asciiLower, hl]
      · intro r' _ hr
        -- asciiLower r = 80 :: 80 :: r' forces r = 80 :: 80 :: _
        cases r with
        | nil => simp [asciiLower] at hr
        | cons x1 t1 =>
          cases t1 with
          | nil => simp [asciiLower] at hr
          | cons x2 t2 =>
            simp only [asciiLower, List.map_cons, List.cons.injEq] at hr
            have h1 := (lower_class x1).2.2.1.1 hr.1
            have h2 := (lower_class x2).2.2.1.1 hr.2.1
            subst h1; subst h2
            exact hne t2 rfl rfl
    · have hb' : toLowerByte b ≠ 0xE3 := fun h => hb ((lower_class b).2.1.1 h)
      rw [e, stripBlank_cons_gt _ _ hle' hb', stripBlank_cons_gt _ _ hle1 hb, ih]
      simp [asciiLower]

theorem asciiLower_idem' (c : Bytes) : asciiLower (asciiLower c) = asciiLower c := by
  simp only [asciiLower, List.map_map]
  apply List.map_congr_left
  intro b _
  exact (lower_class b).2.2.2.2.1

theorem asciiLower_upper (c : Bytes) : asciiLower (asciiUpper c) = asciiLower c := by
  simp only [asciiLower, asciiUpper, List.map_map]
  apply List.map_congr_left
  intro b _
  exact (lower_class b).2.2.2.2.2

theorem asciiLower_append (a b : Bytes) : asciiLower (a ++ b) = asciiLower a ++ asciiLower b := by
  simp [asciiLower]

theorem nd_lower (c : Bytes) : nd (asciiLower c) = nd c := by
  induction c using nd.induct with
  | case1 => rfl
  | case2 b1 b2 r ih =>
    have : asciiLower (0xE3 :: b1 :: b2 :: r) = 0xE3 :: toLowerByte b1 :: toLowerByte b2 :: asciiLower r := by
      simp [asciiLower, toLowerByte, isUpper]
    rw [this, nd, nd, ih, (lower_class b1).2.2.2.1, (lower_class b2).2.2.2.1]
  | case3 t hne =>
    have hl : toLowerByte 0xE3 = 0xE3 := by decide
    have : asciiLower (0xE3 :: t) = 0xE3 :: asciiLower t := by simp [asciiLower, hl]
    rw [this, nd.eq_3 t hne, nd.eq_3]
    intro b1 b2 r hr
    cases t with
    | nil => simp [asciiLower] at hr
    | cons x1 t1 =>
      cases t1 with
      | nil => simp [asciiLower] at hr
      | cons x2 t2 => exact hne x1 x2 t2 rfl
  | case4 b r _ hb ih =>
    have hb' : toLowerByte b ≠ 0xE3 := fun h => hb ((lower_class b).2.1.1 h)
    have : asciiLower (b :: r) = toLowerByte b :: asciiLower r := by simp [asciiLower]
    rw [this, nd_cons_ne _ _ hb', nd_cons_ne _ _ (fun h => hb h), ih]

/-- two texts that differ only in ASCII letter case -/
theorem Sim.of_caseEq {c c' : Bytes} (h : asciiLower c' = asciiLower c) : Sim c c' := by
  intro hc
  refine ⟨?_, ?_⟩
  · rw [← nd_lower c', h, nd_lower c]; exact hc
  · unfold foldStrip
    rw [← stripBlank_lower, ← stripBlank_lower, h]

theorem sim_lower (c : Bytes) : Sim c (asciiLower c) := Sim.of_caseEq (asciiLower_idem' c)

/-! ### trimming and the line-comment rewrite -/

theorem isAsciiWs_class (b : UInt8) (h : isAsciiWs b = true) : b ≤ 0x20 ∧ b < 0x80 := by
  have hall : ∀ n : Fin 256, isAsciiWs (UInt8.ofNat n.val) = true →
      (UInt8.ofNat n.val) ≤ 0x20 ∧ (UInt8.ofNat n.val) < 0x80 := by decide +kernel
  have := hall ⟨b.toNat, b.toNat_lt⟩
  simp only [UInt8.ofNat_toNat] at this
  exact this h

theorem mem_takeWhile_imp {p : UInt8 → Bool} {l : Bytes} {b : UInt8} (h : b ∈ l.takeWhile p) : p b = true := by
  induction l with
  | nil => simp at h
  | cons a r ih =>
    rw [List.takeWhile_cons] at h
    split at h
    · rcases List.mem_cons.1 h with rfl | h'
      · assumption
      · exact ih h'
    · simp at h

theorem trimAsciiEnd_decomp (y : Bytes) :
    ∃ tail, y = trimAsciiEnd y ++ tail ∧ ∀ b ∈ tail, isAsciiWs b = true := by
  refine ⟨(y.reverse.takeWhile isAsciiWs).reverse, ?_, ?_⟩
  · unfold trimAsciiEnd
    rw [← List.reverse_append, List.takeWhile_append_dropWhile, List.reverse_reverse]
  · intro b hb
    rw [List.mem_reverse] at hb
    exact mem_takeWhile_imp hb

theorem sim_trimAsciiEnd (y : Bytes) : Sim y (trimAsciiEnd y) := by
  intro hy
  obtain ⟨tail, hdec, htail⟩ := trimAsciiEnd_decomp y
  have hascii : AllAscii tail := fun b hb => (isAsciiWs_class b (htail b hb)).2
  have hle : AllLe20 tail := fun b hb => (isAsciiWs_class b (htail b hb)).1
  have hnd : nd (trimAsciiEnd y) = true := by
    apply nd_of_append_ascii _ tail hascii
    rw [← hdec]; exact hy
  refine ⟨hnd, ?_⟩
  unfold foldStrip
  have e : stripBlank y = stripBlank (trimAsciiEnd y) := by
    have := nd_closed _ hnd tail
    rw [← hdec] at this
    rw [this, (Gap.of_allLe20 hle).blankOnly]; simp
  rw [e]

/-- inserting one space after an ASCII prefix -/
theorem sim_insert_space (pre comment : Bytes) (hpre : AllAscii pre) :
    Sim (pre ++ comment) (pre ++ [0x20] ++ comment) := by
  intro h
  have hp := nd_ascii pre hpre
  rw [nd_append _ _ hp] at h
  refine ⟨?_, ?_⟩
  · rw [List.append_assoc, nd_append _ _ hp]
    simpa [nd_cons_ne] using h
  · unfold foldStrip
    rw [List.append_assoc, nd_closed _ hp, nd_closed _ hp]
    congr 2

theorem lineCommentParts_spec (c pre comment : Bytes) (h : lineCommentParts c = some (pre, comment)) :
    c = pre ++ comment ∧ AllAscii pre := by
  unfold lineCommentParts at h
  split at h
  · simp at h; rw [← h.1, ← h.2]
    exact ⟨rfl, by intro b hb; simp at hb; subst hb; decide⟩
  · simp at h; rw [← h.1, ← h.2]
    exact ⟨rfl, by intro b hb; simp at hb; subst hb; decide⟩
  · simp at h

theorem sim_formatLineComment (U : Bytes → Bool) (c c' : Bytes) (h : formatLineComment U c = some c') :
    Sim c c' := by
  unfold formatLineComment at h
  cases hparts : lineCommentParts c with
  | none => rw [hparts] at h; simp at h
  | some pc =>
    obtain ⟨pre, comment⟩ := pc
    rw [hparts] at h
    obtain ⟨hc, hpre⟩ := lineCommentParts_spec _ _ _ hparts
    have hsim1 : Sim c ((lineCommentSpaced U pre comment).getD c) := by
      unfold lineCommentSpaced
      split
      · split
        · simp only [Option.getD_some]; rw [hc]; exact sim_insert_space _ _ hpre
        · exact Sim.refl _
      · exact Sim.refl _
    simp only at h
    split at h
    · simp only [Option.some.injEq] at h
      rw [← h]
      exact hsim1.trans (sim_trimAsciiEnd _)
    · rw [h] at hsim1
      simpa using hsim1

theorem sim_formatCompilerDirective (c c' : Bytes) (h : formatCompilerDirective c = some c') : Sim c c' := by
  apply Sim.of_caseEq
  unfold formatCompilerDirective at h
  simp only at h
  split at h
  · simp at h
  · rename_i pre stripped hs
    split at h
    · simp at h
    · rename_i n _
      split at h
      · simp only [Option.some.injEq] at h
        rw [← h]
        have hc : c = pre ++ stripped := by
          split at hs
          · simp at hs; rw [← hs.1, ← hs.2]; rfl
          · simp at hs; rw [← hs.1, ← hs.2]; rfl
          · simp at hs
        rw [hc, asciiLower_append, asciiLower_append, asciiLower_upper, asciiLower_append]
        rw [List.append_assoc, ← asciiLower_append (List.take n stripped), List.take_append_drop]
      · simp at h

end Pasfmt
