/-
  Declarative specifications of the two token ignorers (`formatting_toggle.rs`,
  `ignore_asm_instructions.rs`) as modelled in `Model/Rules.lean`, each proved for every input:

  * `parseToggle` recognises exactly the comments of the shape
    opener, blanks, `pasfmt` (any letter case), at least one blank, `on`/`off` (any letter case) as a whole word;
  * `togglerMarks` marks exactly the toggle comments and the tokens whose nearest earlier toggle is an `off`;
  * `asmMarked`, `ignoredMarks`, `voidLines`, and the `ignored` flag of `FT.new`.
-/
import PasfmtModel.Proofs.LexSpecs
import PasfmtModel.Model.Rules

namespace Pasfmt

/-! ## 1. `parseToggle` -/

/-- the comment opener is removed: `//`, `(*` or `{` (auxiliary, mirrors the first `match` of `parseToggle`) -/
def stripOpen (c : Bytes) : Option Bytes :=
  match c with
  | 0x2F :: 0x2F :: r => some r
  | 0x28 :: 0x2A :: r => some r
  | 0x7B :: r => some r
  | _ => none

/-- the part of `parseToggle` after the opener (auxiliary, same text as in the model) -/
def toggleBody (body : Bytes) : Option Toggle :=
  let s1 := body.dropWhile isAsciiWs
  if s1.length < 6 || !eqIgnoreCase (s1.take 6) "pasfmt".toUTF8.toList then none
  else
    let s2 := s1.drop 6
    let nws := countWhile isAsciiWs s2
    if nws == 0 then none
    else
      let s3 := s2.drop nws
      let word := s3.take (countWhile isAlnum s3)
      if eqIgnoreCase word "on".toUTF8.toList then some .on
      else if eqIgnoreCase word "off".toUTF8.toList then some .off
      else none

theorem parseToggle_eq (c : Bytes) : parseToggle c = (stripOpen c).bind toggleBody := by
  unfold parseToggle stripOpen
  split
  · rfl
  · rfl
  · rfl
  · rename_i h1 h2 h3
    split
    · exact absurd rfl (h1 _)
    · exact absurd rfl (h2 _)
    · exact absurd rfl (h3 _)
    · rfl

theorem stripOpen_iff (c body : Bytes) : stripOpen c = some body ↔
    c = [0x2F, 0x2F] ++ body ∨ c = [0x28, 0x2A] ++ body ∨ c = [0x7B] ++ body := by
  unfold stripOpen
  split <;> simp_all
theorem pasfmt_bytes : "pasfmt".toUTF8.toList = [112, 97, 115, 102, 109, 116] := by decide +kernel
theorem on_bytes : "on".toUTF8.toList = [111, 110] := by decide +kernel
theorem off_bytes : "off".toUTF8.toList = [111, 102, 102] := by decide +kernel

def kwPasfmt : Bytes := [112, 97, 115, 102, 109, 116]
def toggleWord : Toggle → Bytes
  | .on => [111, 110]
  | .off => [111, 102, 102]

theorem eqIgnoreCase_length {a w : Bytes} (h : eqIgnoreCase a w = true) : a.length = w.length := by
  unfold eqIgnoreCase asciiLower at h
  have := congrArg List.length (eq_of_beq h)
  simpa using this

theorem byte_forall (P : UInt8 → Prop) (h : ∀ n : Fin 256, P (UInt8.ofNat n.val)) (b : UInt8) : P b := by
  have := h ⟨b.toNat, b.toNat_lt⟩
  simpa only [UInt8.ofNat_toNat] using this

theorem alnum_not_ws (b : UInt8) : isAlnum b = true → isAsciiWs b = false :=
  byte_forall (fun b => isAlnum b = true → isAsciiWs b = false) (by decide +kernel) b

theorem lower_p_not_ws (b : UInt8) : toLowerByte b = 112 → isAsciiWs b = false :=
  byte_forall (fun b => toLowerByte b = 112 → isAsciiWs b = false) (by decide +kernel) b

theorem dropWhile_append_stop (p : UInt8 → Bool) (x rest : Bytes) (h : AllBytes p x)
    (hs : ∀ b t, rest = b :: t → p b = false) : (x ++ rest).dropWhile p = rest := by
  rw [← drop_countWhile, countWhile_append_stop p x rest h hs]; simp

theorem head_pasfmt_not_ws {kw : Bytes} (h : eqIgnoreCase kw kwPasfmt = true) (X : Bytes) :
    ∀ b t, kw ++ X = b :: t → isAsciiWs b = false := by
  intro b t hbt
  unfold eqIgnoreCase asciiLower at h
  have h := eq_of_beq h
  cases kw with
  | nil => simp [kwPasfmt] at h
  | cons k0 r =>
    simp only [List.cons_append, List.cons.injEq] at hbt
    obtain ⟨rfl, _⟩ := hbt
    simp only [kwPasfmt, List.map_cons, List.cons.injEq] at h
    exact lower_p_not_ws _ (by rw [h.1]; decide)

/-- the value of the model on a text cut into: blanks, `pasfmt`, the whole non-empty blank run, the whole
    alphanumeric run, the rest -/
theorem toggleBody_compute (w1 kw w2 word rest : Bytes) (hw1 : AllBytes isAsciiWs w1)
    (hkw : eqIgnoreCase kw kwPasfmt = true) (hw2 : AllBytes isAsciiWs w2) (hne : w2 ≠ [])
    (hhead : ∀ b t, word ++ rest = b :: t → isAsciiWs b = false)
    (hword : AllBytes isAlnum word) (hrest : ∀ b t, rest = b :: t → isAlnum b = false) :
    toggleBody (w1 ++ kw ++ w2 ++ word ++ rest) =
      if eqIgnoreCase word (toggleWord .on) = true then some .on
      else if eqIgnoreCase word (toggleWord .off) = true then some .off else none := by
  have hkl : kw.length = 6 := eqIgnoreCase_length hkw
  rw [show toggleWord .on = [111, 110] from rfl, show toggleWord .off = [111, 102, 102] from rfl]
  unfold toggleBody
  simp only [pasfmt_bytes, on_bytes, off_bytes]
  have e1 : (w1 ++ kw ++ w2 ++ word ++ rest).dropWhile isAsciiWs = kw ++ (w2 ++ (word ++ rest)) := by
    simp only [List.append_assoc]
    exact dropWhile_append_stop _ _ _ hw1 (head_pasfmt_not_ws hkw _)
  rw [e1]
  have e2 : (kw ++ (w2 ++ (word ++ rest))).take 6 = kw := by rw [← hkl]; simp
  have e3 : (kw ++ (w2 ++ (word ++ rest))).drop 6 = w2 ++ (word ++ rest) := by rw [← hkl]; simp
  have e4 : countWhile isAsciiWs (w2 ++ (word ++ rest)) = w2.length :=
    countWhile_append_stop _ _ _ hw2 hhead
  have e5 : countWhile isAlnum (word ++ rest) = word.length :=
    countWhile_append_stop _ _ _ hword hrest
  simp only [e2, e3, e4, List.drop_left, e5, List.take_left]
  have hk' : eqIgnoreCase kw [112, 97, 115, 102, 109, 116] = true := hkw
  simp only [List.length_append, hkl, hk']
  simp only [hne, Bool.not_true, Bool.or_false, decide_eq_true_eq, List.length_eq_zero_iff, beq_iff_eq, if_false]
  rw [if_neg (by omega)]

theorem eqIgnoreCase_on_off (word : Bytes) (h : eqIgnoreCase word (toggleWord .off) = true) :
    eqIgnoreCase word (toggleWord .on) = false := by
  cases hh : eqIgnoreCase word (toggleWord .on)
  · rfl
  · have h1 := eqIgnoreCase_length hh
    have h2 := eqIgnoreCase_length h
    simp [toggleWord] at h1 h2; omega

theorem toggleBody_iff (body : Bytes) (tg : Toggle) : toggleBody body = some tg ↔
    ∃ w1 kw w2 word rest, body = w1 ++ kw ++ w2 ++ word ++ rest ∧ AllBytes isAsciiWs w1 ∧
      eqIgnoreCase kw kwPasfmt = true ∧ AllBytes isAsciiWs w2 ∧ w2 ≠ [] ∧ AllBytes isAlnum word ∧
      (∀ b t, rest = b :: t → isAlnum b = false) ∧ eqIgnoreCase word (toggleWord tg) = true := by
  constructor
  · intro h
    unfold toggleBody at h
    simp only [pasfmt_bytes, on_bytes, off_bytes] at h
    split at h
    · simp at h
    rename_i h1
    split at h
    · simp at h
    rename_i h2
    simp only [Bool.or_eq_true, decide_eq_true_eq, Bool.not_eq_true', not_or, Nat.not_lt,
      Bool.not_eq_false] at h1
    simp only [beq_iff_eq] at h2
    generalize hs1 : body.dropWhile isAsciiWs = s1 at h h1 h2
    generalize hs2 : s1.drop 6 = s2 at h h2
    generalize hs3 : s2.drop (countWhile isAsciiWs s2) = s3 at h
    refine ⟨body.takeWhile isAsciiWs, s1.take 6, s2.take (countWhile isAsciiWs s2),
      s3.take (countWhile isAlnum s3), s3.drop (countWhile isAlnum s3), ?_, ?_, h1.2, ?_, ?_, ?_, ?_, ?_⟩
    · simp only [List.append_assoc, List.take_append_drop]
      rw [← hs3, List.take_append_drop, ← hs2, List.take_append_drop, ← hs1, List.takeWhile_append_dropWhile]
    · rw [← take_countWhile]
      exact (countWhile_longest isAsciiWs body).2.1
    · exact (countWhile_longest isAsciiWs s2).2.1
    · intro hnil
      have := congrArg List.length hnil
      have hle := countWhile_le isAsciiWs s2
      simp only [List.length_take, List.length_nil] at this
      omega
    · exact (countWhile_longest isAlnum s3).2.1
    · intro b t hbt
      apply countWhile_stop isAlnum s3 b
      have := congrArg List.head? hbt
      simpa [List.head?_drop] using this
    · split at h
      · simp only [Option.some.injEq] at h; subst h; assumption
      · split at h
        · simp only [Option.some.injEq] at h; subst h; assumption
        · simp at h
  · rintro ⟨w1, kw, w2, word, rest, rfl, hw1, hkw, hw2, hne, hword, hrest, htg⟩
    have hwl : word.length = (toggleWord tg).length := eqIgnoreCase_length htg
    have hhead : ∀ b t, word ++ rest = b :: t → isAsciiWs b = false := by
      intro b t hbt
      cases word with
      | nil => cases tg <;> simp [toggleWord] at hwl
      | cons x r =>
        simp only [List.cons_append, List.cons.injEq] at hbt
        exact alnum_not_ws b (hword b (by simp [hbt.1]))
    rw [toggleBody_compute w1 kw w2 word rest hw1 hkw hw2 hne hhead hword hrest]
    cases tg with
    | on => simp [htg]
    | off => simp [htg, eqIgnoreCase_on_off word htg]

/-- `x` is the ASCII letter whose lower-case form is `y`, in either case -/
def LetterIC (x y : UInt8) : Prop := x = y ∨ x = y - 0x20

/-- `a` spells the lower-case ASCII word `w` up to the case of each letter -/
def SpellsIC : Bytes → Bytes → Prop
  | [], [] => True
  | x :: a, y :: w => LetterIC x y ∧ SpellsIC a w
  | _, _ => False

instance (x y : UInt8) : Decidable (LetterIC x y) := inferInstanceAs (Decidable (_ ∨ _))

instance instDecidableSpellsIC : (a w : Bytes) → Decidable (SpellsIC a w)
  | [], [] => isTrue trivial
  | x :: a, y :: w =>
    match (inferInstance : Decidable (LetterIC x y)), instDecidableSpellsIC a w with
    | isTrue h1, isTrue h2 => isTrue ⟨h1, h2⟩
    | isFalse h1, _ => isFalse fun h => h1 h.1
    | _, isFalse h2 => isFalse fun h => h2 h.2
  | [], _ :: _ => isFalse (fun h => h)
  | _ :: _, [] => isFalse (fun h => h)

instance (p : UInt8 → Bool) (w : Bytes) : Decidable (AllBytes p w) :=
  inferInstanceAs (Decidable (∀ b ∈ w, p b = true))

theorem toLower_eq_iff (x y : UInt8) (hy : isLower y = true) : toLowerByte x = y ↔ LetterIC x y := by
  constructor
  · intro h
    have := byte_forall (fun x => isLower (toLowerByte x) = true → x = toLowerByte x ∨ x = toLowerByte x - 0x20)
      (by decide +kernel) x
    rw [h] at this
    exact this hy
  · rintro (rfl | rfl)
    · exact byte_forall (fun x => isLower x = true → toLowerByte x = x) (by decide +kernel) x hy
    · exact byte_forall (fun y => isLower y = true → toLowerByte (y - 0x20) = y) (by decide +kernel) y hy

theorem lower_fix (y : UInt8) (hy : isLower y = true) : toLowerByte y = y :=
  byte_forall (fun x => isLower x = true → toLowerByte x = x) (by decide +kernel) y hy

theorem eqIgnoreCase_iff_spells (a w : Bytes) (hw : ∀ y ∈ w, isLower y = true) :
    eqIgnoreCase a w = true ↔ SpellsIC a w := by
  unfold eqIgnoreCase asciiLower
  rw [beq_iff_eq]
  induction a generalizing w with
  | nil => cases w <;> simp [SpellsIC]
  | cons x a ih =>
    cases w with
    | nil => simp [SpellsIC]
    | cons y w =>
      have hy := hw y (by simp)
      simp only [List.map_cons, List.cons.injEq, SpellsIC, lower_fix y hy, toLower_eq_iff x y hy]
      rw [ih w (fun z hz => hw z (by simp [hz]))]

theorem kwPasfmt_lower : ∀ y ∈ kwPasfmt, isLower y = true := by decide
theorem toggleWord_lower (tg : Toggle) : ∀ y ∈ toggleWord tg, isLower y = true := by cases tg <;> decide

/-- the three comment openers, as byte strings: `//`, `(*`, `{` -/
def IsCommentOpener (p : Bytes) : Prop := p = [0x2F, 0x2F] ∨ p = [0x28, 0x2A] ∨ p = [0x7B]

instance (p : Bytes) : Decidable (IsCommentOpener p) := inferInstanceAs (Decidable (_ ∨ _ ∨ _))

/-- **Declarative definition of a toggle comment** (no reference to the control structure of `parseToggle`).
    `c` is cut into six pieces `p ++ w1 ++ kw ++ w2 ++ word ++ rest`:
    * `p` is a comment opener: `//`, `(*` or `{`;
    * `w1` is any number (possibly zero) of ASCII blanks (`u8::is_ascii_whitespace`: space, `\t`, `\n`, `\x0C`, `\r`;
      not `\x0B`);
    * `kw` spells `pasfmt`, each letter in either case;
    * `w2` is at least one ASCII blank;
    * `word` consists of ASCII letters and digits and spells `on` / `off`, each letter in either case;
    * `rest` is empty or starts with a byte that is not an ASCII letter or digit, so `word` is the whole
      alphanumeric run (`w1` and `w2` are then necessarily the whole blank runs, since `kw` and `word` start with a letter).

    What the model (the ground truth, compared with the real `parse_toggle`) does at the edges, all consequences of
    this definition and checked by `example`s in `Props/C07.lean`:
    * `/// pasfmt off` is **not** a toggle: after the opener `//` comes `/`, neither a blank nor `p`;
    * `{$pasfmt off}` and `(*$pasfmt off*)` are not toggles (the `$`); the lexer types them as directives anyway and
      `togglerMarks` only looks at comment tokens;
    * `pasfmt ONx`, `pasfmt on1`, `pasfmt offf`, `pasfmt o`, `pasfmt only`, `pasfmt office` are not toggles: the whole alphanumeric run
      must be the word;
    * `pasfmt on.`, `pasfmt on)`, `pasfmt on_`, `pasfmt on*)`, `pasfmt on}` and `pasfmt on` followed by a non-ASCII character
      **are** toggles: an underscore, punctuation and every byte ≥ 0x80 end the word;
    * `pasfmtoff` is not a toggle (no blank), `pasfmt` + vertical tab + `on` is not (`\x0B` is not an ASCII blank for Rust);
    * the comment closer is not looked at; anything may follow the word. -/
def IsToggle (c : Bytes) (tg : Toggle) : Prop :=
  ∃ p w1 kw w2 word rest : Bytes, c = p ++ w1 ++ kw ++ w2 ++ word ++ rest ∧
    IsCommentOpener p ∧ AllBytes isAsciiWs w1 ∧ SpellsIC kw kwPasfmt ∧
    AllBytes isAsciiWs w2 ∧ w2 ≠ [] ∧
    AllBytes isAlnum word ∧ (∀ b t, rest = b :: t → isAlnum b = false) ∧ SpellsIC word (toggleWord tg)

/-- **`parseToggle` recognises exactly the toggle comments of the declarative definition**, for every byte string. -/
theorem toggle_spec (c : Bytes) (tg : Toggle) : parseToggle c = some tg ↔ IsToggle c tg := by
  rw [parseToggle_eq]
  constructor
  · intro h
    cases hs : stripOpen c with
    | none => rw [hs] at h; simp at h
    | some body =>
      rw [hs] at h
      simp only [Option.bind_some] at h
      obtain ⟨w1, kw, w2, word, rest, rfl, hw1, hkw, hw2, hne, hword, hrest, htg⟩ := (toggleBody_iff body tg).mp h
      have hp := (stripOpen_iff c _).mp hs
      have hk := (eqIgnoreCase_iff_spells kw _ kwPasfmt_lower).mp hkw
      have ht := (eqIgnoreCase_iff_spells word _ (toggleWord_lower tg)).mp htg
      rcases hp with hp | hp | hp
      · exact ⟨[0x2F, 0x2F], w1, kw, w2, word, rest, by rw [hp]; simp, Or.inl rfl, hw1, hk, hw2, hne, hword, hrest, ht⟩
      · exact ⟨[0x28, 0x2A], w1, kw, w2, word, rest, by rw [hp]; simp, Or.inr (Or.inl rfl), hw1, hk, hw2, hne, hword, hrest, ht⟩
      · exact ⟨[0x7B], w1, kw, w2, word, rest, by rw [hp]; simp, Or.inr (Or.inr rfl), hw1, hk, hw2, hne, hword, hrest, ht⟩
  · rintro ⟨p, w1, kw, w2, word, rest, rfl, hp, hw1, hkw, hw2, hne, hword, hrest, htg⟩
    have hs : stripOpen (p ++ w1 ++ kw ++ w2 ++ word ++ rest) = some (w1 ++ kw ++ w2 ++ word ++ rest) := by
      rw [stripOpen_iff]
      rcases hp with rfl | rfl | rfl <;> simp
    rw [hs]
    simp only [Option.bind_some]
    exact (toggleBody_iff _ tg).mpr ⟨w1, kw, w2, word, rest, rfl, hw1,
      (eqIgnoreCase_iff_spells kw _ kwPasfmt_lower).mpr hkw, hw2, hne, hword, hrest,
      (eqIgnoreCase_iff_spells word _ (toggleWord_lower tg)).mpr htg⟩

/-! ### corollaries -/

theorem ws_lower (x : UInt8) : isAsciiWs (toLowerByte x) = isAsciiWs x :=
  byte_forall (fun x => isAsciiWs (toLowerByte x) = isAsciiWs x) (by decide +kernel) x

theorem alnum_lower (x : UInt8) : isAlnum (toLowerByte x) = isAlnum x :=
  byte_forall (fun x => isAlnum (toLowerByte x) = isAlnum x) (by decide +kernel) x

theorem lower_eq_opener (x : UInt8) :
    (toLowerByte x = 0x2F ↔ x = 0x2F) ∧ (toLowerByte x = 0x28 ↔ x = 0x28) ∧
    (toLowerByte x = 0x2A ↔ x = 0x2A) ∧ (toLowerByte x = 0x7B ↔ x = 0x7B) :=
  byte_forall (fun x => (toLowerByte x = 0x2F ↔ x = 0x2F) ∧ (toLowerByte x = 0x28 ↔ x = 0x28) ∧
    (toLowerByte x = 0x2A ↔ x = 0x2A) ∧ (toLowerByte x = 0x7B ↔ x = 0x7B)) (by decide +kernel) x

theorem countWhile_lower (p : UInt8 → Bool) (hp : ∀ x, p (toLowerByte x) = p x) (l : Bytes) :
    countWhile p (asciiLower l) = countWhile p l := by
  unfold asciiLower
  induction l with
  | nil => rfl
  | cons b r ih => simp only [List.map_cons, countWhile, hp, ih]

theorem dropWhile_lower (p : UInt8 → Bool) (hp : ∀ x, p (toLowerByte x) = p x) (l : Bytes) :
    (asciiLower l).dropWhile p = asciiLower (l.dropWhile p) := by
  rw [← drop_countWhile, ← drop_countWhile, countWhile_lower p hp]
  simp [asciiLower]

theorem eqIgnoreCase_lower (a w : Bytes) : eqIgnoreCase (asciiLower a) w = eqIgnoreCase a w := by
  unfold eqIgnoreCase; rw [asciiLower_idem]

theorem toggleBody_lower (b : Bytes) : toggleBody (asciiLower b) = toggleBody b := by
  unfold toggleBody
  simp only [dropWhile_lower isAsciiWs ws_lower]
  have e1 : ∀ n (l : Bytes), (asciiLower l).take n = asciiLower (l.take n) := by intro n l; simp [asciiLower]
  have e2 : ∀ n (l : Bytes), (asciiLower l).drop n = asciiLower (l.drop n) := by intro n l; simp [asciiLower]
  simp only [e1, e2, countWhile_lower isAsciiWs ws_lower, countWhile_lower isAlnum alnum_lower,
    eqIgnoreCase_lower, asciiLower_length]

theorem stripOpen_lower (c : Bytes) : stripOpen (asciiLower c) = (stripOpen c).map asciiLower := by
  cases h : stripOpen c with
  | some body =>
    rw [Option.map_some, stripOpen_iff]
    rcases (stripOpen_iff c body).mp h with rfl | rfl | rfl
    · left; simp [asciiLower]; decide
    · right; left; simp [asciiLower]; decide
    · right; right; simp [asciiLower]; decide
  | none =>
    rw [Option.map_none]
    cases h' : stripOpen (asciiLower c) with
    | none => rfl
    | some body' =>
      exfalso
      have hc : ∃ body, stripOpen c = some body := by
        rcases (stripOpen_iff _ body').mp h' with e | e | e
        · match c, e with
          | [_], e => simp [asciiLower] at e
          | x :: y :: r, e =>
            simp only [asciiLower, List.map_cons, List.cons_append, List.nil_append, List.cons.injEq] at e
            have hx := (lower_eq_opener x).1.mp e.1
            have hy := (lower_eq_opener y).1.mp e.2.1
            subst hx hy
            exact ⟨r, rfl⟩
        · match c, e with
          | [_], e => simp [asciiLower] at e
          | x :: y :: r, e =>
            simp only [asciiLower, List.map_cons, List.cons_append, List.nil_append, List.cons.injEq] at e
            have hx := (lower_eq_opener x).2.1.mp e.1
            have hy := (lower_eq_opener y).2.2.1.mp e.2.1
            subst hx hy
            exact ⟨r, rfl⟩
        · match c, e with
          | x :: r, e =>
            simp only [asciiLower, List.map_cons, List.cons_append, List.nil_append, List.cons.injEq] at e
            have hx := (lower_eq_opener x).2.2.2.mp e.1
            subst hx
            exact ⟨r, (stripOpen_iff _ _).mpr (Or.inr (Or.inr rfl))⟩
      obtain ⟨body, hb⟩ := hc
      rw [hb] at h; cases h

/-- `parseToggle` reads the comment only up to the case of ASCII letters -/
theorem parseToggle_lower (c : Bytes) : parseToggle (asciiLower c) = parseToggle c := by
  rw [parseToggle_eq, parseToggle_eq, stripOpen_lower]
  cases stripOpen c with
  | none => rfl
  | some b => simp [toggleBody_lower]

/-- two comments that differ only in the case of ASCII letters (anywhere: in `pasfmt`, in `on`/`off`, in the trailing text)
    get the same answer -/
theorem toggle_case_insensitive (c c' : Bytes) (h : asciiLower c' = asciiLower c) :
    parseToggle c' = parseToggle c := by
  rw [← parseToggle_lower c', h, parseToggle_lower]

/-- with the keyword in place, the whole blank run `w2` and the whole alphanumeric run `word` after it, the
    comment is a toggle exactly when `word` spells `on` / `off` -/
theorem toggle_word_iff (p w1 kw w2 word rest : Bytes) (tg : Toggle)
    (hp : IsCommentOpener p) (hw1 : AllBytes isAsciiWs w1) (hkw : SpellsIC kw kwPasfmt)
    (hw2 : AllBytes isAsciiWs w2) (hne : w2 ≠ []) (hmax : ∀ b t, word ++ rest = b :: t → isAsciiWs b = false)
    (hword : AllBytes isAlnum word) (hrest : ∀ b t, rest = b :: t → isAlnum b = false) :
    parseToggle (p ++ w1 ++ kw ++ w2 ++ word ++ rest) = some tg ↔ SpellsIC word (toggleWord tg) := by
  have hs : stripOpen (p ++ w1 ++ kw ++ w2 ++ word ++ rest) = some (w1 ++ kw ++ w2 ++ word ++ rest) := by
    rw [stripOpen_iff]
    rcases hp with rfl | rfl | rfl <;> simp
  rw [parseToggle_eq, hs, Option.bind_some,
    toggleBody_compute w1 kw w2 word rest hw1 ((eqIgnoreCase_iff_spells kw _ kwPasfmt_lower).mpr hkw) hw2 hne hmax
      hword hrest,
    ← eqIgnoreCase_iff_spells word _ (toggleWord_lower tg)]
  cases tg with
  | on =>
    by_cases h1 : eqIgnoreCase word (toggleWord .on) = true
    · simp [h1]
    · by_cases h2 : eqIgnoreCase word (toggleWord .off) = true <;> simp [h1, h2]
  | off =>
    by_cases h2 : eqIgnoreCase word (toggleWord .off) = true
    · simp [h2, eqIgnoreCase_on_off word h2]
    · by_cases h1 : eqIgnoreCase word (toggleWord .on) = true <;> simp [h1, h2]

/-- only the exact words: with the keyword in place, if the whole alphanumeric run after the blanks spells neither `on`
    nor `off` (`only`, `offf`, `o`, `on1`, the empty word, …) the comment is not a toggle -/
theorem toggle_exact_words (p w1 kw w2 word rest : Bytes)
    (hp : IsCommentOpener p) (hw1 : AllBytes isAsciiWs w1) (hkw : SpellsIC kw kwPasfmt)
    (hw2 : AllBytes isAsciiWs w2) (hne : w2 ≠ []) (hmax : ∀ b t, word ++ rest = b :: t → isAsciiWs b = false)
    (hword : AllBytes isAlnum word) (hrest : ∀ b t, rest = b :: t → isAlnum b = false)
    (hon : ¬ SpellsIC word (toggleWord .on)) (hoff : ¬ SpellsIC word (toggleWord .off)) :
    parseToggle (p ++ w1 ++ kw ++ w2 ++ word ++ rest) = none := by
  cases h : parseToggle (p ++ w1 ++ kw ++ w2 ++ word ++ rest) with
  | none => rfl
  | some tg =>
    have := (toggle_word_iff p w1 kw w2 word rest tg hp hw1 hkw hw2 hne hmax hword hrest).mp h
    cases tg
    · exact absurd this hon
    · exact absurd this hoff

/-- the three comment forms are treated alike: the text after `//`, after `(*` and after `{` is read by the same rule -/
theorem toggle_three_comment_forms (body : Bytes) :
    parseToggle ([0x2F, 0x2F] ++ body) = parseToggle ([0x7B] ++ body) ∧
    parseToggle ([0x28, 0x2A] ++ body) = parseToggle ([0x7B] ++ body) := by
  simp [parseToggle_eq, stripOpen]

/-- and nothing else is a toggle: a toggle starts with `//`, `(*` or `{` -/
theorem toggle_only_comment_forms (c : Bytes) (tg : Toggle) (h : parseToggle c = some tg) :
    ∃ p body, IsCommentOpener p ∧ c = p ++ body := by
  obtain ⟨p, w1, kw, w2, word, rest, rfl, hp, _⟩ := (toggle_spec c tg).mp h
  exact ⟨p, w1 ++ kw ++ w2 ++ word ++ rest, hp, by simp⟩

/-! ## 2. `togglerMarks` -/

/-- the toggle value of a token: only comment tokens can be toggles -/
def tokToggle (t : Tok) : Option Toggle := if isCommentKind t.kind then parseToggle t.content else none

/-- token `t` is a toggle comment with value `tg` (declarative) -/
def IsToggleTok (t : Tok) (tg : Toggle) : Prop := isCommentKind t.kind = true ∧ IsToggle t.content tg

theorem tokToggle_iff (t : Tok) (tg : Toggle) : tokToggle t = some tg ↔ IsToggleTok t tg := by
  unfold tokToggle IsToggleTok
  split
  · rename_i h; simp [h, toggle_spec]
  · rename_i h; simp [h]

theorem tokToggle_none_iff (t : Tok) : tokToggle t = none ↔ ∀ tg, ¬ IsToggleTok t tg := by
  constructor
  · intro h tg htg; rw [(tokToggle_iff t tg).mpr htg] at h; cases h
  · intro h
    cases h' : tokToggle t with
    | none => rfl
    | some tg => exact absurd ((tokToggle_iff t tg).mp h') (h tg)

/-- toggle value of the token at position `k` (none outside the list) -/
def tgAt (toks : List Tok) (k : Nat) : Option Toggle := (toks[k]?).bind tokToggle

theorem togglerMarksGo_length (ig : Bool) (toks : List Tok) : (togglerMarksGo ig toks).length = toks.length := by
  induction toks generalizing ig with
  | nil => rfl
  | cons t r ih => simp [togglerMarksGo, ih]

/-- the loop of `FormattingToggler::ignore_tokens` started in state `ig`: position `i` is marked iff it holds a toggle,
    or the nearest toggle before it is an `off`, or there is no toggle before it and the initial state is `ignored` -/
theorem togglerMarksGo_spec (ig : Bool) (toks : List Tok) (i : Nat) :
    (togglerMarksGo ig toks)[i]? = some true ↔
      i < toks.length ∧ ((tgAt toks i).isSome = true ∨
        (∃ j, j < i ∧ tgAt toks j = some .off ∧ ∀ k, j < k → k < i → tgAt toks k = none) ∨
        (ig = true ∧ ∀ k, k < i → tgAt toks k = none)) := by
  induction toks generalizing ig i with
  | nil => simp [togglerMarksGo]
  | cons t r ih =>
    have hgo : togglerMarksGo ig (t :: r) =
        ((match tokToggle t with | some .off => true | some .on => false | none => ig) || (tokToggle t).isSome) ::
          togglerMarksGo (match tokToggle t with | some .off => true | some .on => false | none => ig) r := rfl
    rw [hgo]
    cases i with
    | zero =>
      simp only [List.getElem?_cons_zero, Option.some.injEq, List.length_cons, Nat.zero_lt_succ, true_and,
        Nat.not_lt_zero, false_and, exists_false, false_or, false_implies, implies_true, and_true, tgAt,
        Option.bind_some]
      cases h : tokToggle t with
      | none => simp
      | some tg => cases tg <;> simp
    | succ i =>
      simp only [List.getElem?_cons_succ, List.length_cons, Nat.add_lt_add_iff_right]
      rw [ih]
      have hsucc : ∀ k, tgAt (t :: r) (k + 1) = tgAt r k := by intro k; simp [tgAt]
      have hzero : tgAt (t :: r) 0 = tokToggle t := by simp [tgAt]
      apply and_congr_right
      intro _
      rw [hsucc]
      apply or_congr_right
      constructor
      · rintro (⟨j, hj, hoff, hnone⟩ | ⟨hig, hnone⟩)
        · left
          refine ⟨j + 1, by omega, by rw [hsucc]; exact hoff, ?_⟩
          intro k hk1 hk2
          obtain ⟨k', rfl⟩ : ∃ k', k = k' + 1 := ⟨k - 1, by omega⟩
          rw [hsucc]; exact hnone k' (by omega) (by omega)
        · cases h : tokToggle t with
          | none =>
            right
            rw [h] at hig
            refine ⟨hig, ?_⟩
            intro k hk
            cases k with
            | zero => rw [hzero]; exact h
            | succ k' => rw [hsucc]; exact hnone k' (by omega)
          | some tg =>
            cases tg with
            | on => rw [h] at hig; cases hig
            | off =>
              left
              refine ⟨0, by omega, by rw [hzero]; exact h, ?_⟩
              intro k hk1 hk2
              obtain ⟨k', rfl⟩ : ∃ k', k = k' + 1 := ⟨k - 1, by omega⟩
              rw [hsucc]; exact hnone k' (by omega)
      · rintro (⟨j, hj, hoff, hnone⟩ | ⟨hig, hnone⟩)
        · cases j with
          | zero =>
            right
            rw [hzero] at hoff
            rw [hoff]
            refine ⟨rfl, ?_⟩
            intro k hk
            have := hnone (k + 1) (by omega) (by omega)
            rwa [hsucc] at this
          | succ j' =>
            left
            refine ⟨j', by omega, by rw [← hsucc]; exact hoff, ?_⟩
            intro k hk1 hk2
            have := hnone (k + 1) (by omega) (by omega)
            rwa [hsucc] at this
        · right
          have h0 := hnone 0 (by omega)
          rw [hzero] at h0
          rw [h0]
          refine ⟨hig, ?_⟩
          intro k hk
          have := hnone (k + 1) (by omega)
          rwa [hsucc] at this

theorem togglerMarks_length (toks : List Tok) : (togglerMarks toks).length = toks.length :=
  togglerMarksGo_length false toks

theorem tgAt_isSome_iff (toks : List Tok) (i : Nat) :
    (tgAt toks i).isSome = true ↔ ∃ t tg, toks[i]? = some t ∧ IsToggleTok t tg := by
  unfold tgAt
  cases h : toks[i]? with
  | none => simp
  | some t =>
    simp only [Option.bind_some, Option.isSome_iff_exists, Option.some.injEq]
    constructor
    · rintro ⟨tg, htg⟩; exact ⟨t, tg, rfl, (tokToggle_iff t tg).mp htg⟩
    · rintro ⟨t', tg, rfl, htg⟩; exact ⟨tg, (tokToggle_iff _ tg).mpr htg⟩

theorem tgAt_some_iff (toks : List Tok) (i : Nat) (tg : Toggle) :
    tgAt toks i = some tg ↔ ∃ t, toks[i]? = some t ∧ IsToggleTok t tg := by
  unfold tgAt
  cases h : toks[i]? with
  | none => simp
  | some t => simp [tokToggle_iff]

theorem tgAt_none_iff (toks : List Tok) (i : Nat) :
    tgAt toks i = none ↔ ∀ t, toks[i]? = some t → ∀ tg, ¬ IsToggleTok t tg := by
  unfold tgAt
  cases h : toks[i]? with
  | none => simp
  | some t => simp [tokToggle_none_iff]

/-- no toggle comment strictly between positions `j` and `i` -/
def NoToggleBetween (toks : List Tok) (j i : Nat) : Prop :=
  ∀ k t, j < k → k < i → toks[k]? = some t → ∀ tg, ¬ IsToggleTok t tg

/-- the nearest toggle comment strictly before position `i` exists and is an `off` -/
def AfterOff (toks : List Tok) (i : Nat) : Prop :=
  ∃ j tj, j < i ∧ toks[j]? = some tj ∧ IsToggleTok tj .off ∧ NoToggleBetween toks j i

/-- **Which tokens the toggler marks**, for every token list: position `i` is marked iff it holds a token and
    * that token is itself a toggle comment (`on` or `off`: both comments are kept as they are), or
    * there is an `off` toggle comment at some `j < i` with no toggle comment strictly between `j` and `i`
      (the nearest toggle before `i` is an `off`).
    Nothing is said about the kind of token `i`: the end-of-file token is marked like any other. -/
theorem toggler_regions (toks : List Tok) (i : Nat) :
    (togglerMarks toks)[i]? = some true ↔
      ∃ t, toks[i]? = some t ∧ ((∃ tg, IsToggleTok t tg) ∨ AfterOff toks i) := by
  unfold togglerMarks
  rw [togglerMarksGo_spec]
  simp only [Bool.false_eq_true, false_and, or_false, tgAt_isSome_iff, tgAt_some_iff, tgAt_none_iff]
  constructor
  · rintro ⟨hi, h⟩
    refine ⟨toks[i], by simp [hi], ?_⟩
    rcases h with ⟨t, tg, ht, htg⟩ | ⟨j, hj, ⟨tj, htj, hoff⟩, hnone⟩
    · left
      have : t = toks[i] := by simpa [hi] using ht.symm
      exact ⟨tg, this ▸ htg⟩
    · right
      exact ⟨j, tj, hj, htj, hoff, fun k t hk1 hk2 ht => hnone k hk1 hk2 t ht⟩
  · rintro ⟨t, ht, h⟩
    have hi : i < toks.length := by
      rcases Nat.lt_or_ge i toks.length with h | h
      · exact h
      · simp [List.getElem?_eq_none h] at ht
    refine ⟨hi, ?_⟩
    rcases h with ⟨tg, htg⟩ | ⟨j, tj, hj, htj, hoff, hnone⟩
    · exact Or.inl ⟨t, tg, ht, htg⟩
    · exact Or.inr ⟨j, hj, ⟨tj, htj, hoff⟩, fun k hk1 hk2 t ht => hnone k t hk1 hk2 ht⟩

theorem getD_false_eq_true_iff (l : List Bool) (i : Nat) : l.getD i false = true ↔ l[i]? = some true := by
  rw [List.getD_eq_getElem?_getD]
  cases l[i]? <;> simp

theorem getElem?_some_false_iff (l : List Bool) (i : Nat) :
    l[i]? = some false ↔ i < l.length ∧ ¬ l[i]? = some true := by
  by_cases hi : i < l.length
  · simp only [List.getElem?_eq_getElem hi, Option.some.injEq, hi, true_and]
    cases l[i] <;> simp
  · simp [hi]

theorem nearest_off (toks : List Tok) (j i : Nat) (hji : j < i) (hoff : tgAt toks j = some .off)
    (hnoon : ∀ k, j < k → k < i → tgAt toks k ≠ some .on) :
    ∃ j', j ≤ j' ∧ j' < i ∧ tgAt toks j' = some .off ∧ ∀ k, j' < k → k < i → tgAt toks k = none := by
  induction i with
  | zero => omega
  | succ i ih =>
    by_cases hj : j = i
    · subst hj
      exact ⟨j, Nat.le_refl _, by omega, hoff, fun k h1 h2 => by omega⟩
    · obtain ⟨j', h1, h2, h3, h4⟩ := ih (by omega) (fun k hk1 hk2 => hnoon k hk1 (by omega))
      cases hti : tgAt toks i with
      | none =>
        refine ⟨j', h1, by omega, h3, ?_⟩
        intro k hk1 hk2
        by_cases hki : k = i
        · subst hki; exact hti
        · exact h4 k hk1 (by omega)
      | some tg =>
        cases tg with
        | on => exact absurd hti (hnoon i (by omega) (by omega))
        | off => exact ⟨i, by omega, by omega, hti, fun k h1 h2 => by omega⟩

/-- from an `off` comment on, everything is marked until an `on` comment: the `off` comment itself, further `off`
    comments (an `off … off` sequence changes nothing), and every token up to position `i` if no `on` lies between -/
theorem toggler_off_region (toks : List Tok) (j i : Nat) (tj : Tok) (hj : toks[j]? = some tj)
    (hoff : IsToggleTok tj .off) (hji : j ≤ i) (hi : i < toks.length)
    (hnoon : ∀ k t, j < k → k < i → toks[k]? = some t → ¬ IsToggleTok t .on) :
    (togglerMarks toks)[i]? = some true := by
  unfold togglerMarks
  rw [togglerMarksGo_spec]
  refine ⟨hi, ?_⟩
  have hoff' : tgAt toks j = some .off := (tgAt_some_iff toks j .off).mpr ⟨tj, hj, hoff⟩
  by_cases h : j = i
  · subst h; left; rw [hoff']; rfl
  · right; left
    have hn : ∀ k, j < k → k < i → tgAt toks k ≠ some .on := by
      intro k hk1 hk2 hk
      obtain ⟨t, ht, hton⟩ := (tgAt_some_iff toks k .on).mp hk
      exact hnoon k t hk1 hk2 ht hton
    obtain ⟨j', _, h2, h3, h4⟩ := nearest_off toks j i (by omega) hoff' hn
    exact ⟨j', h2, h3, h4⟩

/-- a region that is not closed runs to the end of the file and includes the last token (the end-of-file token) -/
theorem toggler_region_to_eof (toks : List Tok) (j : Nat) (tj : Tok) (hj : toks[j]? = some tj)
    (hoff : IsToggleTok tj .off) (hnoon : ∀ k t, j < k → toks[k]? = some t → ¬ IsToggleTok t .on) :
    (∀ i, j ≤ i → i < toks.length → (togglerMarks toks)[i]? = some true) ∧
    (togglerMarks toks)[toks.length - 1]? = some true := by
  have h : ∀ i, j ≤ i → i < toks.length → (togglerMarks toks)[i]? = some true := fun i hji hi =>
    toggler_off_region toks j i tj hj hoff hji hi (fun k t hk1 _ ht => hnoon k t hk1 ht)
  refine ⟨h, ?_⟩
  have hjl : j < toks.length := by
    rcases Nat.lt_or_ge j toks.length with h | h
    · exact h
    · simp [List.getElem?_eq_none h] at hj
  exact h _ (by omega) (by omega)

/-- after an `on` comment tokens are not marked (until the next `off`), toggle comments excepted -/
theorem toggler_on_region (toks : List Tok) (j i : Nat) (tj ti : Tok) (hj : toks[j]? = some tj)
    (hon : IsToggleTok tj .on) (hji : j < i) (hi : toks[i]? = some ti) (hti : ∀ tg, ¬ IsToggleTok ti tg)
    (hnooff : ∀ k t, j < k → k < i → toks[k]? = some t → ¬ IsToggleTok t .off) :
    (togglerMarks toks)[i]? = some false := by
  rw [getElem?_some_false_iff, togglerMarks_length]
  have hil : i < toks.length := by
    rcases Nat.lt_or_ge i toks.length with h | h
    · exact h
    · simp [List.getElem?_eq_none h] at hi
  refine ⟨hil, ?_⟩
  rw [toggler_regions]
  rintro ⟨t, ht, h⟩
  have : t = ti := by rw [hi] at ht; exact (Option.some.inj ht).symm
  subst this
  rcases h with ⟨tg, htg⟩ | ⟨j', tj', hj', htj', hoff', hnone⟩
  · exact hti tg htg
  · rcases Nat.lt_trichotomy j' j with h | h | h
    · exact hnone j tj h hji hj .on hon
    · subst h
      rw [hj] at htj'
      have : tj = tj' := Option.some.inj htj'
      subst this
      have h1 := (tokToggle_iff tj .on).mpr hon
      have h2 := (tokToggle_iff tj .off).mpr hoff'
      rw [h1] at h2; cases h2
    · exact hnooff j' tj' h hj' htj' hoff'

/-- before the first toggle comment nothing is marked -/
theorem toggler_before_first (toks : List Tok) (i : Nat) (hi : i < toks.length)
    (hnone : ∀ k t, k ≤ i → toks[k]? = some t → ∀ tg, ¬ IsToggleTok t tg) :
    (togglerMarks toks)[i]? = some false := by
  rw [getElem?_some_false_iff, togglerMarks_length]
  refine ⟨hi, ?_⟩
  rw [toggler_regions]
  rintro ⟨t, ht, h⟩
  rcases h with ⟨tg, htg⟩ | ⟨j', tj', hj', htj', hoff', _⟩
  · exact hnone i t (Nat.le_refl _) ht tg htg
  · exact hnone j' tj' (by omega) htj' .off hoff'

/-- a lone `on` comment is marked itself and marks nothing else -/
theorem toggler_lone_on (toks : List Tok) (j : Nat) (tj : Tok) (hj : toks[j]? = some tj)
    (hon : IsToggleTok tj .on)
    (honly : ∀ k t, k ≠ j → toks[k]? = some t → ∀ tg, ¬ IsToggleTok t tg) (i : Nat) (hi : i < toks.length) :
    (togglerMarks toks)[i]? = some true ↔ i = j := by
  rcases Nat.lt_trichotomy i j with h | h | h
  · have := toggler_before_first toks i hi (fun k t hk ht => honly k t (by omega) ht)
    rw [this]; simp; omega
  · subst h
    simp only [iff_true]
    rw [toggler_regions]
    exact ⟨tj, hj, Or.inl ⟨.on, hon⟩⟩
  · have := toggler_on_region toks j i tj toks[i] hj hon h (by simp [hi])
      (honly i _ (by omega) (by simp [hi])) (fun k t hk1 _ ht => honly k t (by omega) ht .off)
    rw [this]; simp; omega

/-! ## 3. asm instruction lines, and the two ignorers together -/

/-- `IgnoreAsmIstructions` marks exactly the token indices listed in the lines typed `AsmInstruction` -/
theorem asm_marks_spec (lines : List Line) (i : Nat) :
    i ∈ asmMarked lines ↔ ∃ l ∈ lines, l.ltype = .lAsmInstruction ∧ i ∈ l.tokens := by
  unfold asmMarked
  simp only [List.mem_flatMap, List.mem_filter, beq_iff_eq]
  constructor
  · rintro ⟨l, ⟨hl, ht⟩, hi⟩; exact ⟨l, hl, ht, hi⟩
  · rintro ⟨l, hl, ht, hi⟩; exact ⟨l, ⟨hl, ht⟩, hi⟩

/-- one mark per token: indices of asm lines beyond the token list are dropped -/
theorem ignoredMarks_length (toks : List Tok) (lines : List Line) :
    (ignoredMarks toks lines).length = toks.length := by
  simp [ignoredMarks, togglerMarks_length]

theorem ignoredMarks_getElem? (toks : List Tok) (lines : List Line) (i : Nat) :
    (ignoredMarks toks lines)[i]? = some true ↔
      i < toks.length ∧ ((togglerMarks toks)[i]? = some true ∨ i ∈ asmMarked lines) := by
  unfold ignoredMarks
  simp only [List.getElem?_map, List.getElem?_zipIdx, Nat.zero_add]
  by_cases hi : i < toks.length
  · have hi' : i < (togglerMarks toks).length := by rw [togglerMarks_length]; exact hi
    simp [List.getElem?_eq_getElem hi', hi]
  · have hi' : (togglerMarks toks).length ≤ i := by rw [togglerMarks_length]; omega
    simp [List.getElem?_eq_none hi', hi]

/-- **Which tokens are ignored**: position `i` holds a token and that token is a toggle comment, or comes after an
    `off` with no toggle comment in between, or belongs to a line that the parser typed as an asm instruction. -/
theorem ignoredMarks_spec (toks : List Tok) (lines : List Line) (i : Nat) :
    (ignoredMarks toks lines)[i]? = some true ↔
      ∃ t, toks[i]? = some t ∧ ((∃ tg, IsToggleTok t tg) ∨ AfterOff toks i ∨
        ∃ l ∈ lines, l.ltype = .lAsmInstruction ∧ i ∈ l.tokens) := by
  rw [ignoredMarks_getElem?, toggler_regions, asm_marks_spec]
  constructor
  · rintro ⟨hi, h⟩
    rcases h with ⟨t, ht, h⟩ | h
    · exact ⟨t, ht, by rcases h with h | h; exact Or.inl h; exact Or.inr (Or.inl h)⟩
    · exact ⟨toks[i], by simp [hi], Or.inr (Or.inr h)⟩
  · rintro ⟨t, ht, h⟩
    have hi : i < toks.length := by
      rcases Nat.lt_or_ge i toks.length with h | h
      · exact h
      · simp [List.getElem?_eq_none h] at ht
    refine ⟨hi, ?_⟩
    rcases h with h | h | h
    · exact Or.inl ⟨t, ht, Or.inl h⟩
    · exact Or.inl ⟨t, ht, Or.inr h⟩
    · exact Or.inr h

/-! ## 4. what the marks do: the `ignored` flag and the voided lines -/

theorem FT_new_getElem? (toks : List Tok) (f : Nat → Bool) (i : Nat) :
    (FT.new toks f)[i]? = (toks[i]?).map fun t => { tok := t, fmt := FmtData.ofWs t.ws (f i) } := by
  unfold FT.new
  simp only [List.getElem?_map, List.getElem?_zipIdx, Nat.zero_add]
  cases toks[i]? <;> rfl

/-- the `ignored` flag of `FormattedTokens::new_from_tokens` is the mark, and the token is the scanned token -/
theorem FT_new_ignored (toks : List Tok) (marks : List Bool) (i : Nat) (ft : FTok)
    (h : (FT.new toks (fun i => marks.getD i false))[i]? = some ft) :
    ft.fmt.ignored = marks.getD i false ∧ toks[i]? = some ft.tok := by
  rw [FT_new_getElem?] at h
  cases ht : toks[i]? with
  | none => rw [ht] at h; cases h
  | some t =>
    rw [ht] at h
    simp only [Option.map_some, Option.some.injEq] at h
    subst h
    exact ⟨rfl, rfl⟩

/-- a token whose mark is `false` enters the rules with `ignored = false`: nothing protects it, the token rules
    (`set_content`, spacing, …) apply to it -/
theorem unmarked_still_formatted (toks : List Tok) (marks : List Bool) (i : Nat) (ft : FTok)
    (h : (FT.new toks (fun i => marks.getD i false))[i]? = some ft) (hm : marks[i]? = some false) :
    ft.fmt.ignored = false := by
  rw [(FT_new_ignored toks marks i ft h).1, List.getD_eq_getElem?_getD, hm]; rfl

theorem voidLines_length (marks : List Bool) (lines : List Line) : (voidLines marks lines).length = lines.length := by
  unfold voidLines; split <;> simp

theorem any_id_iff (marks : List Bool) : marks.any id = true ↔ ∃ i : Nat, marks[i]? = some true := by
  simp only [List.any_eq_true, id]
  constructor
  · rintro ⟨b, hb, rfl⟩
    obtain ⟨i, hi, h⟩ := List.getElem_of_mem hb
    exact ⟨i, by simp [hi, h]⟩
  · rintro ⟨i, hi⟩
    exact ⟨true, List.mem_of_getElem? hi, rfl⟩

/-- the line `l` is one that the void step empties: some token of the file is marked, and every token of the
    line is marked (true of a line without tokens) -/
def Voided (marks : List Bool) (l : Line) : Prop :=
  (∃ i : Nat, marks[i]? = some true) ∧ ∀ t ∈ l.tokens, marks[t]? = some true

/-- a line is voided (type `Voided`, no tokens) exactly when at least one token of the file is marked and every
    token of the line is marked; every other line is unchanged -/
theorem voidLines_spec (marks : List Bool) (lines : List Line) (n : Nat) (l : Line) (hl : lines[n]? = some l) :
    (Voided marks l → (voidLines marks lines)[n]? = some { l with ltype := .lVoided, tokens := [] }) ∧
    (¬ Voided marks l → (voidLines marks lines)[n]? = some l) := by
  have hall : (l.tokens.all fun t => marks.getD t false) = true ↔ ∀ t ∈ l.tokens, marks[t]? = some true := by
    simp only [List.all_eq_true, getD_false_eq_true_iff]
  unfold Voided voidLines
  by_cases hany : marks.any id = true
  · rw [if_pos hany]
    simp only [List.getElem?_map, hl, Option.map_some, (any_id_iff marks).mp hany, true_and]
    by_cases ha : (l.tokens.all fun t => marks.getD t false) = true
    · rw [if_pos ha]
      exact ⟨fun _ => rfl, fun h => absurd (hall.mp ha) h⟩
    · rw [if_neg ha]
      exact ⟨fun h => absurd (hall.mpr h) ha, fun _ => rfl⟩
  · rw [if_neg hany]
    have : ¬ ∃ i : Nat, marks[i]? = some true := fun h => hany ((any_id_iff marks).mpr h)
    simp [this, hl]

end Pasfmt
