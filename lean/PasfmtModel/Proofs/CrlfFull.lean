/-
  C09, second clause, for the closed model of the whole formatter: formatting with `crlf := true` gives the
  `crlf := false` result with every terminator substituted.

  Nothing before the wrapper stage reads the configuration; the search reads it through `Config.searchCfg` (no line
  ending) and reads live tokens through `FTok.sview` (type, length of the last line as `str::lines()` sees it).  So the
  two runs get the same solutions as long as their token states are related token by token: same type, same counters,
  ignored tokens identical, and the texts either identical (the text the stage started with) or the two renderings
  `first ++ (LF ++ seg)*` / `first ++ (CRLF ++ seg)*` of the same segments (`Joined`): a re-indented literal.
  The re-indenter maps related texts to related texts (`mlsRewrite_pair`).  The one place where the two runs can part
  is the "changed" flag of the first string pass (a literal that is already in LF form at the right indentation is
  left alone by the lf run and rewritten by the crlf run): it decides which lines are wrapped a second time.
-/
import PasfmtModel.Proofs.LayoutStage
import PasfmtModel.Model.CrlfCheck
import PasfmtModel.Proofs.ReconProps
import PasfmtModel.Proofs.MlsBreaks

namespace Pasfmt.CrlfFull

open Pasfmt

/-! ### texts: the two renderings of the same segments -/

/-- `first` followed by the segments, each introduced by `nl` -/
def joinNl (nl first : Bytes) (segs : List Bytes) : Bytes := first ++ (segs.map (nl ++ ·)).flatten

/-- the lf and the crlf rendering of the same first line and segments, none of which contains `\n` or `\r` -/
def Joined (a b : Bytes) : Prop :=
  ∃ (first : Bytes) (segs : List Bytes), NoNl first ∧ (∀ s ∈ segs, NoNl s) ∧
    a = joinNl [0x0A] first segs ∧ b = joinNl [0x0D, 0x0A] first segs

/-- the text ends in a quote (every multi-line literal the scanner produces does) -/
def EndsQ (c : Bytes) : Prop := c.getLast? = some 0x27

theorem joinNl_nil (nl first : Bytes) : joinNl nl first [] = first := by simp [joinNl]

theorem joinNl_snoc (nl first : Bytes) (segs : List Bytes) (s : Bytes) :
    joinNl nl first (segs ++ [s]) = joinNl nl first segs ++ nl ++ s := by
  simp [joinNl, List.append_assoc]

theorem noNl_not_mem_lf {l : Bytes} (h : NoNl l) : (0x0A : UInt8) ∉ l := by
  intro hm
  have := h _ hm
  simp [isNlCr] at this

theorem noNl_not_mem_cr {l : Bytes} (h : NoNl l) : (0x0D : UInt8) ∉ l := by
  intro hm
  have := h _ hm
  simp [isNlCr] at this

theorem noNl_containsByte {l : Bytes} (h : NoNl l) : containsByte 0x0A l = false := by
  unfold containsByte
  rw [List.any_eq_false]
  intro x hx
  have := h x hx
  simp [isNlCr] at this
  simp [this.1]

theorem noNl_cons {c : UInt8} {r : Bytes} (h : NoNl (c :: r)) : isNlCr c = false ∧ NoNl r :=
  ⟨h c (by simp), fun b hb => h b (by simp [hb])⟩

theorem noNl_reverse {a : Bytes} (ha : NoNl a) : NoNl a.reverse :=
  fun b hb => ha b (List.mem_reverse.1 hb)

/-- the crlf rendering is the lf rendering with every `\n` replaced -/
theorem crlfOf_joinNl (first : Bytes) (segs : List Bytes) (hf : NoNl first) (hs : ∀ s ∈ segs, NoNl s) :
    crlfOf (joinNl [0x0A] first segs) = joinNl [0x0D, 0x0A] first segs := by
  unfold joinNl
  rw [crlfOf_append, crlfOf_noNl _ (noNl_containsByte hf)]
  congr 1
  induction segs with
  | nil => rfl
  | cons s r ih =>
    simp only [List.map_cons, List.flatten_cons]
    rw [crlfOf_append, crlfOf_append, crlfOf_noNl _ (noNl_containsByte (hs s (by simp))),
      ih (fun x hx => hs x (by simp [hx]))]
    rfl

theorem Joined.crlfOf {a b : Bytes} (h : Joined a b) : b = crlfOf a := by
  obtain ⟨first, segs, hf, hs, rfl, rfl⟩ := h
  exact (crlfOf_joinNl first segs hf hs).symm

/-! ### `str::lines()` does not see the difference -/

theorem strLinesGo_other (cur : Bytes) (b : UInt8) (r : Bytes) (hb : b ≠ 0x0A) :
    strLinesGo cur (b :: r) = strLinesGo (b :: cur) r := by
  rw [strLinesGo]
  intro h; exact absurd h hb

theorem strLinesGo_noLf (s : Bytes) (hs : (0x0A : UInt8) ∉ s) (cur r : Bytes) :
    strLinesGo cur (s ++ r) = strLinesGo (s.reverse ++ cur) r := by
  induction s generalizing cur with
  | nil => rfl
  | cons c t ih =>
    have hc : c ≠ 0x0A := fun e => hs (by simp [e])
    rw [List.cons_append, strLinesGo_other _ _ _ hc, ih (fun hm => hs (by simp [hm]))]
    simp

theorem strLinesGo_lf (cur r : Bytes) (hcur : ∀ c, cur ≠ 0x0D :: c) :
    strLinesGo cur (0x0A :: r) = cur.reverse :: strLinesGo [] r := by
  rw [strLinesGo]
  intro c e; exact hcur c e

theorem strLinesGo_crlf (cur r : Bytes) :
    strLinesGo cur (0x0D :: 0x0A :: r) = cur.reverse :: strLinesGo [] r := by
  rw [strLinesGo_other _ _ _ (by decide), strLinesGo]

theorem noNl_not_cr_head {cur : Bytes} (h : NoNl cur) : ∀ c, cur ≠ 0x0D :: c := by
  intro c e
  exact noNl_not_mem_cr h (by rw [e]; simp)

theorem strLinesGo_joined (segs : List Bytes) (hs : ∀ s ∈ segs, NoNl s) (cur : Bytes) (hcur : NoNl cur) :
    strLinesGo cur ((segs.map (([0x0A] : Bytes) ++ ·)).flatten) =
      strLinesGo cur ((segs.map (([0x0D, 0x0A] : Bytes) ++ ·)).flatten) := by
  induction segs generalizing cur with
  | nil => rfl
  | cons s r ih =>
    have hsn := hs s (by simp)
    rw [List.map_cons, List.flatten_cons, List.map_cons, List.flatten_cons]
    show strLinesGo cur (0x0A :: (s ++ _)) = strLinesGo cur (0x0D :: 0x0A :: (s ++ _))
    rw [strLinesGo_lf _ _ (noNl_not_cr_head hcur), strLinesGo_crlf,
      strLinesGo_noLf s (noNl_not_mem_lf hsn), strLinesGo_noLf s (noNl_not_mem_lf hsn),
      ih (fun x hx => hs x (by simp [hx])) _ (by simpa using noNl_reverse hsn)]

theorem strLines_joined {a b : Bytes} (h : Joined a b) : strLines a = strLines b := by
  obtain ⟨first, segs, hf, hs, rfl, rfl⟩ := h
  unfold strLines joinNl
  rw [strLinesGo_noLf first (noNl_not_mem_lf hf), strLinesGo_noLf first (noNl_not_mem_lf hf),
    strLinesGo_joined segs hs _ (by simpa using noNl_reverse hf)]

/-- what the search reads of a token's text is the same for both renderings -/
theorem lastLineLen_joined (k : Kind) {a b : Bytes} (h : Joined a b) : lastLineLen k a = lastLineLen k b := by
  unfold lastLineLen
  rw [strLines_joined h]

/-! ### the last line -/

theorem findByte_none_of_not_mem (c : UInt8) (l : Bytes) (h : c ∉ l) : findByte c l = none := by
  induction l with
  | nil => rfl
  | cons a r ih =>
    unfold findByte
    have : (a == c) = false := by
      simp only [beq_eq_false_iff_ne]; intro e; exact h (by simp [e])
    simp only [this, Bool.false_eq_true, if_false]
    rw [ih (fun hm => h (by simp [hm]))]; rfl

theorem findByte_append_left (c : UInt8) (a : Bytes) (b : Bytes) (h : c ∉ a) :
    findByte c (a ++ c :: b) = some a.length := by
  induction a with
  | nil => simp [findByte]
  | cons x r ih =>
    simp only [List.cons_append]
    unfold findByte
    have : (x == c) = false := by
      simp only [beq_eq_false_iff_ne]; intro e; exact h (by simp [e])
    simp only [this, Bool.false_eq_true, if_false]
    rw [ih (fun hm => h (by simp [hm]))]; simp

/-- the text after the last `\n` -/
theorem lastLine_append (pre tail : Bytes) (h : (0x0A : UInt8) ∉ tail) : lastLine (pre ++ 0x0A :: tail) = tail := by
  unfold lastLine rfindByte
  have hrev : (pre ++ 0x0A :: tail).reverse = tail.reverse ++ 0x0A :: pre.reverse := by simp
  rw [hrev, findByte_append_left 0x0A tail.reverse pre.reverse (by simpa using h)]
  simp only [List.length_reverse, List.length_append, List.length_cons]
  have : pre.length + (tail.length + 1) - 1 - tail.length + 1 = pre.length + 1 := by omega
  rw [this]
  have : pre ++ 0x0A :: tail = (pre ++ [0x0A]) ++ tail := by simp
  rw [this, List.drop_left' (by simp)]

theorem lastLine_no_nl (l : Bytes) (h : (0x0A : UInt8) ∉ l) : lastLine l = l := by
  unfold lastLine rfindByte
  rw [findByte_none_of_not_mem 0x0A l.reverse (by simpa using h)]

theorem lastLine_joinNl_lf (first : Bytes) (segs : List Bytes) (hf : NoNl first) (hs : ∀ s ∈ segs, NoNl s) :
    lastLine (joinNl [0x0A] first segs) = segs.getLast?.getD first ∧
    lastLine (joinNl [0x0D, 0x0A] first segs) = segs.getLast?.getD first := by
  rcases List.eq_nil_or_concat segs with rfl | ⟨init, l, rfl⟩
  · rw [joinNl_nil, joinNl_nil, lastLine_no_nl _ (noNl_not_mem_lf hf)]
    exact ⟨rfl, rfl⟩
  · rw [List.concat_eq_append] at hs ⊢
    have hl : NoNl l := hs l (by simp)
    have e : (init ++ [l]).getLast?.getD first = l := by simp
    rw [joinNl_snoc, joinNl_snoc, e]
    constructor
    · have : joinNl [0x0A] first init ++ [0x0A] ++ l = joinNl [0x0A] first init ++ 0x0A :: l := by simp
      rw [this, lastLine_append _ _ (noNl_not_mem_lf hl)]
    · have : joinNl [0x0D, 0x0A] first init ++ [0x0D, 0x0A] ++ l = (joinNl [0x0D, 0x0A] first init ++ [0x0D]) ++ 0x0A :: l := by simp
      rw [this, lastLine_append _ _ (noNl_not_mem_lf hl)]

theorem lastLineOf_joined {a b : Bytes} (h : Joined a b) : lastLineOf a = lastLineOf b := by
  obtain ⟨first, segs, hf, hs, rfl, rfl⟩ := h
  obtain ⟨h1, h2⟩ := lastLine_joinNl_lf first segs hf hs
  unfold lastLineOf
  rw [h1, h2]

/-! ### `lines_custom` of a rendering -/

theorem split_nil (sk : Bool) (cur : Bytes) : splitCustomGo sk cur [] = if cur.isEmpty then [] else [cur.reverse] := by
  rw [splitCustomGo]

theorem split_other (cur : Bytes) (c : UInt8) (r : Bytes) (hc : isNlCr c = false) :
    splitCustomGo false cur (c :: r) = splitCustomGo false (c :: cur) r := by
  rw [splitCustomGo]
  simp [hc]

theorem split_noNl (s : Bytes) (hs : NoNl s) (cur r : Bytes) :
    splitCustomGo false cur (s ++ r) = splitCustomGo false (s.reverse ++ cur) r := by
  induction s generalizing cur with
  | nil => rfl
  | cons c t ih =>
    obtain ⟨hc, ht⟩ := noNl_cons hs
    rw [List.cons_append, split_other _ _ _ hc, ih ht]
    simp

theorem split_lf (cur r : Bytes) :
    splitCustomGo false cur (0x0A :: r) = (0x0A :: cur).reverse :: splitCustomGo false [] r := by
  rw [splitCustomGo]
  simp [isNlCr]

theorem split_crlf (cur r : Bytes) :
    splitCustomGo false cur (0x0D :: 0x0A :: r) = (0x0D :: cur).reverse :: splitCustomGo false [0x0A] r := by
  rw [splitCustomGo]
  simp only [Bool.false_and, Bool.false_eq_true, if_false]
  rw [splitCustomGo]
  simp [isNlCr]

theorem split_joined (nl : Bytes) (hnl : nl = [0x0A] ∨ nl = [0x0D, 0x0A]) (segs : List Bytes)
    (hs : ∀ s ∈ segs, NoNl s) (hlast : ∀ l, segs.getLast? = some l → l ≠ [])
    (pre body : Bytes) (hpre : pre = [] ∨ pre = [0x0A]) (hb : NoNl body) (hne : segs = [] → body ≠ []) :
    (splitCustomGo false (pre ++ body).reverse ((segs.map (nl ++ ·)).flatten)).map trimNlCr = body :: segs := by
  induction segs generalizing pre body with
  | nil =>
    have hb0 := hne rfl
    simp only [List.map_nil, List.flatten_nil]
    rw [split_nil]
    have : (pre ++ body).reverse.isEmpty = false := by
      cases body with
      | nil => exact absurd rfl hb0
      | cons x y => simp
    rw [this]
    simp only [Bool.false_eq_true, if_false, List.reverse_reverse, List.map_cons, List.map_nil]
    have := trimNlCr_piece_lf pre body [] hpre hb (Or.inl rfl)
    rw [List.append_nil] at this
    rw [this]
  | cons s r ih =>
    have hsn := hs s (by simp)
    have hlast' : ∀ l, r.getLast? = some l → l ≠ [] := by
      intro l hl
      apply hlast l
      rw [List.getLast?_cons, hl]; rfl
    have hne' : r = [] → s ≠ [] := by
      intro hr; subst hr
      exact hlast s rfl
    have hr' : ∀ x ∈ r, NoNl x := fun x hx => hs x (by simp [hx])
    rw [List.map_cons, List.flatten_cons]
    rcases hnl with rfl | rfl
    · show List.map trimNlCr (splitCustomGo false (pre ++ body).reverse (0x0A :: (s ++ _))) = _
      rw [split_lf, split_noNl s hsn]
      have e : s.reverse ++ [] = (([] : Bytes) ++ s).reverse := by simp
      rw [List.map_cons, e, ih hr' hlast' [] s (Or.inl rfl) hsn hne']
      have : (0x0A :: (pre ++ body).reverse).reverse = pre ++ body ++ [0x0A] := by simp
      rw [this, trimNlCr_piece_lf pre body [0x0A] hpre hb (Or.inr ⟨0x0A, rfl, by decide⟩)]
    · show List.map trimNlCr (splitCustomGo false (pre ++ body).reverse (0x0D :: 0x0A :: (s ++ _))) = _
      rw [split_crlf, split_noNl s hsn]
      have e : s.reverse ++ [0x0A] = (([0x0A] : Bytes) ++ s).reverse := by simp
      rw [List.map_cons, e, ih hr' hlast' [0x0A] s (Or.inr rfl) hsn hne']
      have : (0x0D :: (pre ++ body).reverse).reverse = pre ++ body ++ [0x0D] := by simp
      rw [this, trimNlCr_piece_lf pre body [0x0D] hpre hb (Or.inr ⟨0x0D, rfl, by decide⟩)]

theorem endsQ_ne_nil {c : Bytes} (h : EndsQ c) : c ≠ [] := by
  intro e; subst e; simp [EndsQ] at h

/-- a rendering that ends in a quote is split into exactly its first line and its segments -/
theorem linesCustom_joinNl (nl : Bytes) (hnl : nl = [0x0A] ∨ nl = [0x0D, 0x0A]) (first : Bytes) (segs : List Bytes)
    (hf : NoNl first) (hs : ∀ s ∈ segs, NoNl s) (hq : EndsQ (joinNl nl first segs)) :
    linesCustom (joinNl nl first segs) = first :: segs := by
  have hne : segs = [] → first ≠ [] := by
    intro e; subst e
    rw [joinNl_nil] at hq
    exact endsQ_ne_nil hq
  have hlast : ∀ l, segs.getLast? = some l → l ≠ [] := by
    intro l hl e
    subst e
    obtain ⟨init, rfl⟩ := List.getLast?_eq_some_iff.1 hl
    rw [joinNl_snoc, List.append_nil] at hq
    unfold EndsQ at hq
    rcases hnl with rfl | rfl <;> simp at hq
  unfold linesCustom joinNl
  rw [split_noNl first hf]
  have e : first.reverse ++ [] = (([] : Bytes) ++ first).reverse := by simp
  rw [e]
  exact split_joined nl hnl segs hs hlast [] first (Or.inl rfl) hf hne

/-! ### the re-indenter, without the terminator -/

/-- the settings of the two runs: they differ in the terminator only -/
structure LfCrlf (SL SC : Settings) : Prop where
  nlL : SL.nlStr = [0x0A]
  nlC : SC.nlStr = [0x0D, 0x0A]
  ind : SC.indStr = SL.indStr
  cont : SC.contStr = SL.contStr
  indNoNl : NoNl SL.indStr
  contNoNl : NoNl SL.contStr

def indentOf (S : Settings) (ind cont : Nat) : Bytes := replicateBytes ind S.indStr ++ replicateBytes cont S.contStr

/-- the loop of `try_rewrite_string`: the new interior lines, without terminators -/
def rewriteSegs (indent base : Bytes) : List Bytes → Option (List Bytes)
  | [] => some []
  | line :: rest =>
    if base.isPrefixOf line then
      match rewriteSegs indent base rest with
      | none => none
      | some tail => some ((if (line.drop base.length).isEmpty then [] else indent ++ line.drop base.length) :: tail)
    else if line.isPrefixOf base then (rewriteSegs indent base rest).map ([] :: ·)
    else none

theorem rewriteLines_segs (S : Settings) (ind cont : Nat) (base : Bytes) (lines : List Bytes) :
    rewriteLines S ind cont base lines =
      (rewriteSegs (indentOf S ind cont) base lines).map (fun segs => (segs.map (S.nlStr ++ ·)).flatten) := by
  induction lines with
  | nil => rfl
  | cons line rest ih =>
    rw [rewriteLines, rewriteSegs, ih]
    generalize rewriteSegs (indentOf S ind cont) base rest = m
    by_cases h1 : base.isPrefixOf line = true
    · cases m <;> simp [h1, indentOf, List.append_assoc]
    · by_cases h2 : line.isPrefixOf base = true
      · cases m <;> simp [h1, h2]
      · simp [h1, h2]

theorem rewriteSegs_noNl (indent base : Bytes) (hi : NoNl indent) (lines segs : List Bytes) (hl : ∀ l ∈ lines, NoNl l)
    (h : rewriteSegs indent base lines = some segs) : ∀ s ∈ segs, NoNl s := by
  induction lines generalizing segs with
  | nil =>
    simp only [rewriteSegs, Option.some.injEq] at h
    subst h; intro s hs; simp at hs
  | cons line rest ih =>
    have hline := hl line (by simp)
    have hrest : ∀ l ∈ rest, NoNl l := fun l hm => hl l (by simp [hm])
    unfold rewriteSegs at h
    split at h
    · split at h
      · simp at h
      · rename_i tail htail
        simp only [Option.some.injEq] at h
        subst h
        intro s hs
        rcases List.mem_cons.1 hs with rfl | hm
        · split
          · exact NoNl.nil
          · exact NoNl.append hi (hline.drop _)
        · exact ih tail hrest htail s hm
    · split at h
      · simp only [Option.map_eq_some_iff] at h
        obtain ⟨tail, htail, rfl⟩ := h
        intro s hs
        rcases List.mem_cons.1 hs with rfl | hm
        · exact NoNl.nil
        · exact ih tail hrest htail s hm
      · simp at h

theorem getLast?_mem' {l : Bytes} {b : UInt8} (h : l.getLast? = some b) : b ∈ l := by
  obtain ⟨ys, rfl⟩ := List.getLast?_eq_some_iff.1 h
  simp

theorem getLast?_append_ne (a L : Bytes) (h : L ≠ []) : (a ++ L).getLast? = L.getLast? := by
  cases L with
  | nil => exact absurd rfl h
  | cons x y => rw [List.getLast?_append, List.getLast?_cons]; rfl

theorem seg_endsQ (indent base line : Bytes) (hp : base.isPrefixOf line = true) (hq : EndsQ line)
    (hb : (0x27 : UInt8) ∉ base) :
    EndsQ (if (line.drop base.length).isEmpty then [] else indent ++ line.drop base.length) := by
  obtain ⟨t, rfl⟩ := List.isPrefixOf_iff_prefix.1 hp
  rw [List.drop_left]
  have ht : t ≠ [] := by
    intro e; subst e
    rw [List.append_nil] at hq
    exact hb (getLast?_mem' hq)
  have : t.isEmpty = false := by cases t with | nil => exact absurd rfl ht | cons _ _ => rfl
  rw [this]
  simp only [Bool.false_eq_true, if_false]
  unfold EndsQ at hq ⊢
  rw [getLast?_append_ne _ _ ht] at hq ⊢
  exact hq

theorem not_prefix_of_base (base line : Bytes) (hp : line.isPrefixOf base = true) (hq : EndsQ line)
    (hb : (0x27 : UInt8) ∉ base) : False := by
  obtain ⟨t, rfl⟩ := List.isPrefixOf_iff_prefix.1 hp
  exact hb (List.mem_append_left _ (getLast?_mem' hq))

/-- if the last line ends in a quote (and the indentation to strip holds none), so does the last new line -/
theorem rewriteSegs_lastD (indent base first : Bytes) (hb : (0x27 : UInt8) ∉ base) (lines segs : List Bytes)
    (h : rewriteSegs indent base lines = some segs) (hq : EndsQ (lines.getLast?.getD first)) :
    EndsQ (segs.getLast?.getD first) := by
  induction lines generalizing segs first with
  | nil =>
    simp only [rewriteSegs, Option.some.injEq] at h
    subst h; exact hq
  | cons line rest ih =>
    rw [List.getLast?_cons, Option.getD_some] at hq
    unfold rewriteSegs at h
    split at h
    · rename_i hp
      split at h
      · simp at h
      · rename_i tail htail
        simp only [Option.some.injEq] at h
        subst h
        rw [List.getLast?_cons, Option.getD_some]
        apply ih _ tail htail
        cases rest with
        | nil => exact seg_endsQ indent base line hp hq hb
        | cons x y =>
          rw [List.getLast?_cons, Option.getD_some] at hq ⊢
          exact hq
    · split at h
      · rename_i hp
        simp only [Option.map_eq_some_iff] at h
        obtain ⟨tail, htail, rfl⟩ := h
        rw [List.getLast?_cons, Option.getD_some]
        apply ih _ tail htail
        cases rest with
        | nil => exact (not_prefix_of_base base line hp hq hb).elim
        | cons x y =>
          rw [List.getLast?_cons, Option.getD_some] at hq ⊢
          exact hq
      · simp at h

theorem endsQ_joinNl (nl first : Bytes) (segs : List Bytes) (h : EndsQ (segs.getLast?.getD first)) :
    EndsQ (joinNl nl first segs) := by
  rcases List.eq_nil_or_concat segs with rfl | ⟨init, l, rfl⟩
  · rw [joinNl_nil]; exact h
  · rw [List.concat_eq_append] at h ⊢
    have e : (init ++ [l]).getLast?.getD first = l := by simp
    rw [e] at h
    rw [joinNl_snoc]
    unfold EndsQ at h ⊢
    rw [getLast?_append_ne _ _ (endsQ_ne_nil h)]
    exact h

/-! ### the last line of `lines_custom` -/

theorem split_last (x : UInt8) (hx : isNlCr x = false) (s : Bytes) (hs : s.getLast? = some x) (sk : Bool) (cur : Bytes) :
    ∃ init p, splitCustomGo sk cur s = init ++ [p] ∧ p.getLast? = some x := by
  induction s generalizing sk cur with
  | nil => simp at hs
  | cons c r ih =>
    cases r with
    | nil =>
      simp at hs; subst hs
      have hne : (c == 0x0A) = false := by
        unfold isNlCr at hx
        simp only [Bool.or_eq_false_iff] at hx; exact hx.1
      refine ⟨[], (c :: cur).reverse, ?_, by simp⟩
      rw [splitCustomGo]
      simp only [hne, Bool.and_false, Bool.false_eq_true, if_false, hx]
      rw [split_nil]; simp
    | cons d r' =>
      have hs' : (d :: r').getLast? = some x := by
        rw [List.getLast?_cons_cons] at hs; exact hs
      rw [splitCustomGo]
      split
      · exact ih hs' _ _
      · split
        · obtain ⟨init, p, e, hp⟩ := ih hs' (c == 0x0D) []
          exact ⟨_ :: init, p, by rw [e]; rfl, hp⟩
        · exact ih hs' _ _

theorem linesCustom_last (c : Bytes) (hq : EndsQ c) : ∃ init l, linesCustom c = init ++ [l] ∧ EndsQ l := by
  obtain ⟨init, p, e, hp⟩ := split_last 0x27 (by decide) c hq false []
  refine ⟨init.map trimNlCr, trimNlCr p, by unfold linesCustom; rw [e]; simp, ?_⟩
  have hmem : p ∈ splitCustomGo false [] c := by rw [e]; simp
  obtain ⟨pre, body, suf, rfl, h1, h2, h3⟩ :=
    splitCustomGo_shapes false [] c ⟨[], [], by simp, Or.inl rfl, NoNl.nil⟩ (by intro h; simp at h) p hmem
  rw [trimNlCr_piece_lf pre body suf h1 h2 h3]
  rcases h3 with rfl | ⟨t, rfl, ht⟩
  · rw [List.append_nil] at hp
    by_cases hb : body = []
    · subst hb
      rw [List.append_nil] at hp
      rcases h1 with rfl | rfl <;> simp at hp
    · unfold EndsQ
      rw [getLast?_append_ne _ _ hb] at hp
      exact hp
  · simp at hp
    subst hp
    simp [isNlCr] at ht

/-- the leading blanks contain no quote -/
theorem take_countLeadingWs_no_quote (s : Bytes) : (0x27 : UInt8) ∉ s.take (countLeadingWs s) := by
  fun_induction countLeadingWs s with
  | case1 => simp
  | case2 r ih =>
    have : List.take (countLeadingWs r + 3) (0xE3 :: 0x80 :: 0x80 :: r) = 0xE3 :: 0x80 :: 0x80 :: r.take (countLeadingWs r) := by
      simp [List.take_succ_cons]
    rw [this]
    simp [ih]
  | case3 b r _ h ih =>
    rw [List.take_succ_cons]
    simp only [List.mem_cons, not_or]
    refine ⟨?_, ih⟩
    intro e; subst e; revert h; decide
  | case4 b r _ h => simp

/-! ### one literal in the two runs -/

/-- `mlsRewrite` before the comparison with the old text -/
def mlsCore (S : Settings) (content : Bytes) (ind cont : Nat) : Option Bytes :=
  let last := lastLineOf content
  let base := last.take (countLeadingWs last)
  if base.length != (trimEndQuotes last).length then none
  else tryRewriteString S ind cont base content

theorem mlsRewrite_core (S : Settings) (c : Bytes) (ind cont : Nat) :
    mlsRewrite S c ind cont =
      match mlsCore S c ind cont with
      | some c' => if c' != c then some c' else none
      | none => none := by
  unfold mlsRewrite mlsCore
  simp only
  split
  · rfl
  · rfl

theorem mlsRewrite_getD (S : Settings) (c : Bytes) (ind cont : Nat) :
    (mlsRewrite S c ind cont).getD c = (mlsCore S c ind cont).getD c := by
  rw [mlsRewrite_core]
  cases h : mlsCore S c ind cont with
  | none => rfl
  | some c' =>
    simp only
    by_cases e : c' = c
    · simp [e]
    · simp [e]

theorem indentOf_eq {SL SC : Settings} (hS : LfCrlf SL SC) (i k : Nat) : indentOf SC i k = indentOf SL i k := by
  unfold indentOf; rw [hS.ind, hS.cont]

theorem indentOf_noNl {SL SC : Settings} (hS : LfCrlf SL SC) (i k : Nat) : NoNl (indentOf SL i k) :=
  NoNl.append (hS.indNoNl.replicateBytes _) (hS.contNoNl.replicateBytes _)

theorem tryRewrite_segs (S : Settings) (i k : Nat) (base c first : Bytes) (rest : List Bytes)
    (h : linesCustom c = first :: rest) :
    tryRewriteString S i k base c = (rewriteSegs (indentOf S i k) base rest).map (joinNl S.nlStr first) := by
  unfold tryRewriteString
  rw [h]
  simp only
  rw [rewriteLines_segs, Option.map_map]
  rfl

/-- two texts with the same lines and the same last line: the re-indenter fails on both, or gives the two renderings
    of the same new lines -/
theorem core_pair {SL SC : Settings} (hS : LfCrlf SL SC) (a b : Bytes) (hlines : linesCustom a = linesCustom b)
    (hlast : lastLineOf a = lastLineOf b) (ha : EndsQ a) (i k : Nat) :
    (mlsCore SL a i k = none ∧ mlsCore SC b i k = none) ∨
    ∃ first rest segs, linesCustom a = first :: rest ∧ NoNl first ∧ (∀ s ∈ segs, NoNl s) ∧
      mlsCore SL a i k = some (joinNl [0x0A] first segs) ∧ mlsCore SC b i k = some (joinNl [0x0D, 0x0A] first segs) ∧
      EndsQ (segs.getLast?.getD first) := by
  obtain ⟨init, l, hl, hlq⟩ := linesCustom_last a ha
  unfold mlsCore
  simp only
  rw [← hlast]
  split
  · exact Or.inl ⟨rfl, rfl⟩
  · cases hlc : linesCustom a with
    | nil => rw [hlc] at hl; simp at hl
    | cons first rest =>
      have hb : linesCustom b = first :: rest := by rw [← hlines]; exact hlc
      rw [tryRewrite_segs SL i k _ a first rest hlc, tryRewrite_segs SC i k _ b first rest hb, indentOf_eq hS]
      cases hseg : rewriteSegs (indentOf SL i k) ((lastLineOf a).take (countLeadingWs (lastLineOf a))) rest with
      | none => exact Or.inl ⟨rfl, rfl⟩
      | some segs =>
        have hno := linesCustom_noNl a
        rw [hlc] at hno
        refine Or.inr ⟨first, rest, segs, rfl, hno first (by simp), ?_, by rw [hS.nlL]; rfl, by rw [hS.nlC]; rfl, ?_⟩
        · exact rewriteSegs_noNl _ _ (indentOf_noNl hS i k) rest segs (fun x hx => hno x (by simp [hx])) hseg
        · apply rewriteSegs_lastD _ _ first _ rest segs hseg
          · rw [hlc] at hl
            have : (first :: rest).getLast? = some l := by rw [hl]; simp
            rw [List.getLast?_cons] at this
            simp only [Option.some.injEq] at this
            rw [this]; exact hlq
          · exact take_countLeadingWs_no_quote _

theorem mlsRewrite_none_of_core {S : Settings} {c : Bytes} {i k : Nat} (h : mlsCore S c i k = none) :
    mlsRewrite S c i k = none := by
  rw [mlsRewrite_core, h]

theorem mlsRewrite_isSome_of_core {S : Settings} {c c' : Bytes} {i k : Nat} (h : mlsCore S c i k = some c') :
    (mlsRewrite S c i k).isSome = (c' != c) := by
  rw [mlsRewrite_core, h]
  simp only
  cases c' != c <;> rfl

/-- the texts of one token in the two runs: the same text, or the two renderings of the same lines -/
def CRel (a b : Bytes) : Prop := a = b ∨ Joined a b

/-- **One literal in the two runs.**  Related texts that end in a quote: after the re-indenter (with the same
    counters, the lf terminator on one side and the crlf terminator on the other) the texts are the two renderings
    of the same lines, or both are untouched; they still end in a quote; and for texts that were already two
    renderings the two runs agree on whether the text changed. -/
theorem mlsRewrite_pair {SL SC : Settings} (hS : LfCrlf SL SC) (a b : Bytes) (hrel : CRel a b)
    (ha : EndsQ a) (hb : EndsQ b) (i k : Nat) :
    ((mlsRewrite SL a i k = none ∧ mlsRewrite SC b i k = none) ∨
      Joined ((mlsRewrite SL a i k).getD a) ((mlsRewrite SC b i k).getD b)) ∧
    EndsQ ((mlsRewrite SL a i k).getD a) ∧ EndsQ ((mlsRewrite SC b i k).getD b) ∧
    (Joined a b → (mlsRewrite SL a i k).isSome = (mlsRewrite SC b i k).isSome) := by
  have hlines : linesCustom a = linesCustom b := by
    rcases hrel with rfl | ⟨first, segs, hf, hs, rfl, rfl⟩
    · rfl
    · rw [linesCustom_joinNl _ (Or.inl rfl) first segs hf hs ha, linesCustom_joinNl _ (Or.inr rfl) first segs hf hs hb]
  have hlast : lastLineOf a = lastLineOf b := by
    rcases hrel with rfl | hj
    · rfl
    · exact lastLineOf_joined hj
  rcases core_pair hS a b hlines hlast ha i k with ⟨h1, h2⟩ | ⟨first, rest, segs, hlc, hf, hs, h1, h2, hq⟩
  · have r1 := mlsRewrite_none_of_core h1
    have r2 := mlsRewrite_none_of_core h2
    rw [r1, r2]
    exact ⟨Or.inl ⟨rfl, rfl⟩, ha, hb, fun _ => rfl⟩
  · have qa := endsQ_joinNl [0x0A] first segs hq
    have qb := endsQ_joinNl [0x0D, 0x0A] first segs hq
    rw [mlsRewrite_getD, mlsRewrite_getD, h1, h2]
    refine ⟨Or.inr ⟨first, segs, hf, hs, rfl, rfl⟩, qa, qb, ?_⟩
    rintro ⟨f0, s0, hf0, hs0, rfl, rfl⟩
    rw [mlsRewrite_isSome_of_core h1, mlsRewrite_isSome_of_core h2]
    rw [linesCustom_joinNl _ (Or.inl rfl) f0 s0 hf0 hs0 ha] at hlc
    simp only [List.cons.injEq] at hlc
    obtain ⟨rfl, rfl⟩ := hlc
    by_cases e : segs = s0
    · subst e; simp
    · have n1 : joinNl [0x0A] f0 segs ≠ joinNl [0x0A] f0 s0 := by
        intro h
        have := congrArg linesCustom h
        rw [linesCustom_joinNl _ (Or.inl rfl) f0 segs hf hs qa, linesCustom_joinNl _ (Or.inl rfl) f0 s0 hf0 hs0 ha] at this
        simp only [List.cons.injEq, true_and] at this
        exact e this
      have n2 : joinNl [0x0D, 0x0A] f0 segs ≠ joinNl [0x0D, 0x0A] f0 s0 := by
        intro h
        have := congrArg linesCustom h
        rw [linesCustom_joinNl _ (Or.inr rfl) f0 segs hf hs qb, linesCustom_joinNl _ (Or.inr rfl) f0 s0 hf0 hs0 hb] at this
        simp only [List.cons.injEq, true_and] at this
        exact e this
      rw [bne_iff_ne.2 n1, bne_iff_ne.2 n2]

/-- the search's view of related texts -/
theorem lastLineLen_crel (k : Kind) {a b : Bytes} (h : CRel a b) : lastLineLen k a = lastLineLen k b := by
  rcases h with rfl | h
  · rfl
  · exact lastLineLen_joined k h

/-- the settings of a configuration with `crlf := false` and with `crlf := true` -/
theorem lfCrlf_settings (cfg : Config) : LfCrlf ({ cfg with crlf := false }).settings ({ cfg with crlf := true }).settings := by
  have h := settings_noNl { cfg with crlf := false }
  refine ⟨?_, ?_, ?_, ?_, h.1, h.2⟩
  all_goals (unfold Config.settings; simp only; split <;> rfl)

/-! ### token states of the two runs -/

/-- one token in the lf run (`t`) and in the crlf run (`t'`); `oc` = its text when the stage started.  Same type, same
    counters, ignored tokens identical; the texts are both still the original one (and then `A` holds of the token:
    a side condition that the first string pass needs), or the two renderings of the same lines; the text of a
    non-ignored multi-line literal ends in a quote. -/
structure TR (A : FTok → Prop) (oc : Bytes) (t t' : FTok) : Prop where
  kind : t.tok.kind = t'.tok.kind
  fmt : t.fmt = t'.fmt
  ignEq : t.fmt.ignored = true → t = t'
  crel : (t.tok.content = t'.tok.content ∧ t.tok.content = oc ∧ A t) ∨ Joined t.tok.content t'.tok.content
  endsq : mlsLive t = true → EndsQ t.tok.content ∧ EndsQ t'.tok.content

theorem TR.toCRel {A : FTok → Prop} {oc : Bytes} {t t' : FTok} (h : TR A oc t t') : CRel t.tok.content t'.tok.content := by
  rcases h.crel with ⟨e, _, _⟩ | j
  · exact Or.inl e
  · exact Or.inr j

theorem TR.mono {A B : FTok → Prop} {oc : Bytes} {t t' : FTok} (h : TR A oc t t') (hab : A t → B t) : TR B oc t t' :=
  ⟨h.kind, h.fmt, h.ignEq, by
    rcases h.crel with ⟨e1, e2, e3⟩ | j
    · exact Or.inl ⟨e1, e2, hab e3⟩
    · exact Or.inr j, h.endsq⟩

/-- related states -/
def RelC (A : FTok → Prop) (oc : Nat → Bytes) (ft ft' : FT) : Prop :=
  ft.length = ft'.length ∧ ∀ j t t', ft[j]? = some t → ft'[j]? = some t' → TR A (oc j) t t'

theorem RelC.get {A : FTok → Prop} {oc : Nat → Bytes} {ft ft' : FT} (h : RelC A oc ft ft') {j : Nat} {t : FTok}
    (ht : ft[j]? = some t) : ∃ t', ft'[j]? = some t' ∧ TR A (oc j) t t' := by
  have hj : j < ft.length := by
    rcases Nat.lt_or_ge j ft.length with h1 | h1
    · exact h1
    · rw [List.getElem?_eq_none h1] at ht; cases ht
  have hj' : j < ft'.length := h.1 ▸ hj
  exact ⟨ft'[j], List.getElem?_eq_getElem hj', h.2 j t _ ht (List.getElem?_eq_getElem hj')⟩

theorem RelC.get_none {A : FTok → Prop} {oc : Nat → Bytes} {ft ft' : FT} (h : RelC A oc ft ft') {j : Nat}
    (ht : ft[j]? = none) : ft'[j]? = none := by
  rw [List.getElem?_eq_none_iff] at ht ⊢
  rw [← h.1]; exact ht

theorem RelC.mono {A B : FTok → Prop} {oc : Nat → Bytes} {ft ft' : FT} (h : RelC A oc ft ft')
    (hab : ∀ t ∈ ft, A t → B t) : RelC B oc ft ft' :=
  ⟨h.1, fun j t t' a b => (h.2 j t t' a b).mono (hab t (List.mem_of_getElem? a))⟩

theorem RelC.set {A : FTok → Prop} {oc : Nat → Bytes} {ft ft' : FT} (h : RelC A oc ft ft') (i : Nat) (u u' : FTok)
    (hu : TR A (oc i) u u') : RelC A oc (ft.set i u) (ft'.set i u') := by
  refine ⟨by simp [h.1], ?_⟩
  intro j x x' hx hx'
  rw [List.getElem?_set] at hx hx'
  by_cases hij : i = j
  · subst hij
    by_cases hl : i < ft.length
    · have hl' : i < ft'.length := h.1 ▸ hl
      simp [hl] at hx; simp [hl'] at hx'
      subst hx; subst hx'
      exact hu
    · simp [hl] at hx
  · simp [hij] at hx hx'
    exact h.2 j x x' hx hx'

theorem RelC.sview {A : FTok → Prop} {oc : Nat → Bytes} {ft ft' : FT} (h : RelC A oc ft ft') :
    ft.map FTok.sview = ft'.map FTok.sview := by
  apply List.ext_getElem?
  intro j
  simp only [List.getElem?_map]
  cases hj : ft[j]? with
  | none => rw [h.get_none hj]
  | some t =>
    obtain ⟨t', ht', tr⟩ := h.get hj
    rw [ht']
    simp only [Option.map_some, FTok.sview, ← tr.kind, lastLineLen_crel t.tok.kind tr.toCRel]

theorem searchSolve_congrC {A : FTok → Prop} {oc : Nat → Bytes} {ft ft' : FT} (h : RelC A oc ft ft') (st : SearchState)
    (i : Nat) : searchSolve st ft i = searchSolve st ft' i := by
  unfold searchSolve; rw [h.sview]

/-! ### applying a solution -/

abbrev T0 : FTok → Prop := fun _ => True

theorem applyDec_TR {oc : Bytes} {t t' : FTok} (tr : TR T0 oc t t') (first : Bool) (ind cont : Nat) (d : Dec) :
    TR T0 oc { t with fmt := applyDec t.fmt first ind cont d } { t' with fmt := applyDec t'.fmt first ind cont d } := by
  refine ⟨tr.kind, by simp only [tr.fmt], ?_, ?_, ?_⟩
  · intro hi
    have hi0 : t.fmt.ignored = true := by
      have : (applyDec t.fmt first ind cont d).ignored = true := hi
      rw [applyDec_ignored] at this; exact this
    have := tr.ignEq hi0
    subst this
    rfl
  · rcases tr.crel with ⟨e1, e2, _⟩ | j
    · exact Or.inl ⟨e1, e2, trivial⟩
    · exact Or.inr j
  · intro hm
    apply tr.endsq
    unfold mlsLive at hm ⊢
    simp only [applyDec_ignored] at hm
    exact hm

theorem setFmt_relC {oc : Nat → Bytes} {ft ft' ft1 : FT} {i : Nat} {first : Bool} {ind cont : Nat} {d : Dec}
    (h : RelC T0 oc ft ft') (h1 : setFmt ft i (fun f => applyDec f first ind cont d) = some ft1) :
    ∃ ft1', setFmt ft' i (fun f => applyDec f first ind cont d) = some ft1' ∧ RelC T0 oc ft1 ft1' := by
  unfold setFmt at h1
  split at h1
  · rename_i t ht
    simp at h1; subst h1
    obtain ⟨t', ht', tr⟩ := h.get ht
    refine ⟨_, by unfold setFmt; rw [ht'], ?_⟩
    exact h.set i _ _ (applyDec_TR tr first ind cont d)
  · simp at h1

mutual
theorem applySol_relC (lines : List Line) (oc : Nat → Bytes) (ft ft' ft1 : FT) (s : Sol) (li : Nat)
    (h : RelC T0 oc ft ft') (h1 : applySol lines ft s li = some ft1) :
    ∃ ft1', applySol lines ft' s li = some ft1' ∧ RelC T0 oc ft1 ft1' := by
  cases s with
  | mk ind cont decs =>
    unfold applySol at h1 ⊢
    split at h1
    · simp at h1
    · rename_i l hl
      exact applyDecs_relC lines ind cont l.tokens 0 oc ft ft' ft1 decs h h1

theorem applyDecs_relC (lines : List Line) (ind cont : Nat) (toks : List Nat) (i : Nat) (oc : Nat → Bytes)
    (ft ft' ft1 : FT) (decs : List (Dec × List (Nat × Sol)))
    (h : RelC T0 oc ft ft') (h1 : applyDecs lines ind cont toks i ft decs = some ft1) :
    ∃ ft1', applyDecs lines ind cont toks i ft' decs = some ft1' ∧ RelC T0 oc ft1 ft1' := by
  cases decs with
  | nil =>
    unfold applyDecs at h1 ⊢
    simp at h1; subst h1
    exact ⟨ft', rfl, h⟩
  | cons dk rest =>
    obtain ⟨d, children⟩ := dk
    unfold applyDecs at h1 ⊢
    split at h1
    · simp at h1
    · rename_i tok htok
      split at h1
      · simp at h1
      · rename_i fta ha
        obtain ⟨fta', ha', ra⟩ := setFmt_relC h ha
        simp only [ha']
        split at h1
        · simp at h1
        · rename_i ftb hb
          obtain ⟨ftb', hb', rb⟩ := applyChildren_relC lines oc fta fta' ftb children ra hb
          simp only [hb']
          exact applyDecs_relC lines ind cont toks (i + 1) oc ftb ftb' ft1 rest rb h1

theorem applyChildren_relC (lines : List Line) (oc : Nat → Bytes) (ft ft' ft1 : FT) (ks : List (Nat × Sol))
    (h : RelC T0 oc ft ft') (h1 : applyChildren lines ft ks = some ft1) :
    ∃ ft1', applyChildren lines ft' ks = some ft1' ∧ RelC T0 oc ft1 ft1' := by
  cases ks with
  | nil =>
    unfold applyChildren at h1 ⊢
    simp at h1; subst h1
    exact ⟨ft', rfl, h⟩
  | cons k rest =>
    obtain ⟨li, s⟩ := k
    unfold applyChildren at h1 ⊢
    split at h1
    · simp at h1
    · rename_i fta ha
      obtain ⟨fta', ha', ra⟩ := applySol_relC lines oc ft ft' fta s li h ha
      simp only [ha']
      exact applyChildren_relC lines oc fta fta' ft1 rest ra h1
end

/-- related states get the same solutions and stay related -/
theorem applyLinesS_relC (phase : Nat) (lines : List Line) (is : List Nat) (st st1 : SearchState) (oc : Nat → Bytes)
    (ft ft' ft1 : FT) (acc sols : List (Nat × Nat × Sol))
    (h : RelC T0 oc ft ft') (h1 : applyLinesS phase lines is st ft acc = some (ft1, st1, sols)) :
    ∃ ft1', applyLinesS phase lines is st ft' acc = some (ft1', st1, sols) ∧ RelC T0 oc ft1 ft1' := by
  induction is generalizing st ft ft' acc with
  | nil =>
    unfold applyLinesS at h1 ⊢
    simp at h1
    obtain ⟨rfl, rfl, rfl⟩ := h1
    exact ⟨ft', rfl, h⟩
  | cons i rest ih =>
    unfold applyLinesS at h1 ⊢
    rw [← searchSolve_congrC h]
    split at h1
    · rename_i st' hs
      exact ih st' ft ft' acc h h1
    · rename_i s st' hs
      split at h1
      · simp at h1
      · rename_i fta ha
        obtain ⟨fta', ha', ra⟩ := applySol_relC lines oc ft ft' fta s i h ha
        simp only [ha']
        exact ih st' fta fta' (acc ++ [(phase, i, s)]) ra h1

/-! ### the string passes -/

theorem set_self {α : Type} (l : List α) (i : Nat) (x : α) (h : l[i]? = some x) : l.set i x = l := by
  apply List.ext_getElem?
  intro j
  rw [List.getElem?_set]
  by_cases hij : i = j
  · subst hij
    have hl : i < l.length := by
      rcases Nat.lt_or_ge i l.length with h1 | h1
      · exact h1
      · rw [List.getElem?_eq_none h1] at h; cases h
    rw [List.getElem?_eq_getElem hl] at h ⊢
    cases h
    simp [hl]
  · simp [hij]

/-- the token after the re-indenter said `r` -/
def updTok (t : FTok) (r : Option Bytes) : FTok :=
  match r with
  | some c => t.setContent c
  | none => t

theorem updTok_live (t : FTok) (r : Option Bytes) (hi : t.fmt.ignored = false) :
    (updTok t r).tok.content = r.getD t.tok.content ∧ (updTok t r).tok.kind = t.tok.kind ∧ (updTok t r).fmt = t.fmt := by
  cases r with
  | none => exact ⟨rfl, rfl, rfl⟩
  | some c => simp [updTok, FTok.setContent, hi]

theorem updState (ft : FT) (idx : Nat) (t : FTok) (r : Option Bytes) (ht : ft[idx]? = some t) :
    (match r with | some c => ft.set idx (t.setContent c) | none => ft) = ft.set idx (updTok t r) := by
  cases r with
  | none => exact (set_self ft idx t ht).symm
  | some c => rfl

theorem mlsLive_false_guard {t : FTok} (h : ¬ mlsLive t = true) : (!t.fmt.ignored && isMlsKind t.tok.kind) = false := by
  unfold mlsLive at h; simpa using h

/-- one token of a string pass in the two runs -/
theorem mlsStep_relC {SL SC : Settings} (hS : LfCrlf SL SC) (A : FTok → Prop) (oc : Nat → Bytes) (ft ft' : FT) (idx : Nat)
    (t t' : FTok) (h : RelC A oc ft ft') (ht : ft[idx]? = some t) (ht' : ft'[idx]? = some t') (tr : TR A (oc idx) t t')
    (rL rC : Option Bytes) :
    rL = (if (!t.fmt.ignored && isMlsKind t.tok.kind) = true then mlsRewrite SL t.tok.content t.fmt.ind t.fmt.cont else none) →
    rC = (if (!t'.fmt.ignored && isMlsKind t'.tok.kind) = true then mlsRewrite SC t'.tok.content t'.fmt.ind t'.fmt.cont else none) →
    RelC A oc (match rL with | some c => ft.set idx (t.setContent c) | none => ft)
      (match rC with | some c => ft'.set idx (t'.setContent c) | none => ft') ∧
    ((∀ x, A x → agreeTok SL SC x = true) → rC.isSome = rL.isSome) := by
  intro hrL hrC
  rw [← tr.kind, ← tr.fmt] at hrC
  by_cases hm : mlsLive t = true
  · have hg : (!t.fmt.ignored && isMlsKind t.tok.kind) = true := hm
    have hi : t.fmt.ignored = false := by
      unfold mlsLive at hm; simp only [Bool.and_eq_true, Bool.not_eq_true'] at hm; exact hm.1
    have hi' : t'.fmt.ignored = false := by rw [← tr.fmt]; exact hi
    rw [if_pos hg] at hrL hrC
    obtain ⟨qa, qb⟩ := tr.endsq hm
    obtain ⟨p1, p2, p3, p4⟩ := mlsRewrite_pair hS _ _ tr.toCRel qa qb t.fmt.ind t.fmt.cont
    rw [← hrL] at p1 p2 p4
    rw [← hrC] at p1 p3 p4
    rw [updState ft idx t rL ht, updState ft' idx t' rC ht']
    obtain ⟨c1, k1, f1⟩ := updTok_live t rL hi
    obtain ⟨c2, k2, f2⟩ := updTok_live t' rC hi'
    constructor
    · apply h.set
      refine ⟨by rw [k1, k2]; exact tr.kind, by rw [f1, f2]; exact tr.fmt, ?_, ?_, ?_⟩
      · intro hx; rw [f1, hi] at hx; cases hx
      · rcases p1 with ⟨n1, n2⟩ | j
        · rw [n1, n2]; exact tr.crel
        · right; rw [c1, c2]; exact j
      · intro _; rw [c1, c2]; exact ⟨p2, p3⟩
    · intro hA
      rcases tr.crel with ⟨e1, _, e3⟩ | j
      · have := hA t e3
        unfold agreeTok at this
        rw [hm] at this
        simp only [Bool.not_true, Bool.false_or, beq_iff_eq] at this
        rw [hrL, hrC, ← e1, this]
      · exact (p4 j).symm
  · have hg := mlsLive_false_guard hm
    rw [hg] at hrL hrC
    simp only [Bool.false_eq_true, if_false] at hrL hrC
    subst hrL; subst hrC
    exact ⟨h, fun _ => rfl⟩

theorem mlsLine_relC {SL SC : Settings} (hS : LfCrlf SL SC) (A : FTok → Prop) (oc : Nat → Bytes) (toks : List Nat)
    (ft ft' ft1 : FT) (ch : Bool) (h : RelC A oc ft ft') (h1 : mlsLine SL toks ft = some (ft1, ch)) :
    ∃ ft1' ch', mlsLine SC toks ft' = some (ft1', ch') ∧ RelC A oc ft1 ft1' ∧
      ((∀ x, A x → agreeTok SL SC x = true) → ch' = ch) := by
  induction toks generalizing ft ft' ft1 ch with
  | nil =>
    unfold mlsLine at h1 ⊢
    simp at h1; obtain ⟨rfl, rfl⟩ := h1
    exact ⟨ft', false, rfl, h, fun _ => rfl⟩
  | cons idx rest ih =>
    unfold mlsLine at h1 ⊢
    split at h1
    · simp at h1
    · rename_i t ht
      obtain ⟨t', ht', tr⟩ := h.get ht
      simp only [ht']
      simp only at h1
      obtain ⟨key, kflag⟩ := mlsStep_relC hS A oc ft ft' idx t t' h ht ht' tr _ _ rfl rfl
      split at h1
      · simp at h1
      · rename_i ft2 ch2 h2
        cases h1
        obtain ⟨ft2', ch2', h2', r2, hf⟩ := ih _ _ _ _ key h2
        refine ⟨ft2', ch2' || (if (!t'.fmt.ignored && isMlsKind t'.tok.kind) = true then
          mlsRewrite SC t'.tok.content t'.fmt.ind t'.fmt.cont else none).isSome, ?_, r2, ?_⟩
        · erw [h2']
        · intro hA
          rw [hf hA, kflag hA]

theorem mlsPass1_relC {SL SC : Settings} (hS : LfCrlf SL SC) (A : FTok → Prop) (hA : ∀ x, A x → agreeTok SL SC x = true)
    (oc : Nat → Bytes) (lines : List Line) (ls : List (Line × Nat)) (ft ft' ft1 : FT) (acc out : List Nat)
    (h : RelC A oc ft ft') (h1 : mlsPass1 SL lines ls ft acc = some (ft1, out)) :
    ∃ ft1', mlsPass1 SC lines ls ft' acc = some (ft1', out) ∧ RelC A oc ft1 ft1' := by
  induction ls generalizing ft ft' acc with
  | nil =>
    unfold mlsPass1 at h1 ⊢
    simp at h1; obtain ⟨rfl, rfl⟩ := h1
    exact ⟨ft', rfl, h⟩
  | cons li rest ih =>
    obtain ⟨l, i⟩ := li
    unfold mlsPass1 at h1 ⊢
    split at h1
    · simp at h1
    · rename_i fta changed ha
      obtain ⟨fta', changed', ha', ra, hc⟩ := mlsLine_relC hS A oc l.tokens ft ft' fta changed h ha
      have hc := hc hA
      subst hc
      simp only [ha']
      split at h1
      · split at h1
        · simp at h1
        · rename_i p hp
          have hc : changed' = true := by assumption
          rw [if_pos hc]
          exact ih fta fta' _ ra h1
      · have hc : ¬ changed' = true := by assumption
        rw [if_neg hc]
        exact ih fta fta' _ ra h1

theorem mlsPass2_relC {SL SC : Settings} (hS : LfCrlf SL SC) (A : FTok → Prop) (oc : Nat → Bytes) (ls : List Line)
    (ft ft' ft1 : FT) (h : RelC A oc ft ft') (h1 : mlsPass2 SL ls ft = some ft1) :
    ∃ ft1', mlsPass2 SC ls ft' = some ft1' ∧ RelC A oc ft1 ft1' := by
  induction ls generalizing ft ft' with
  | nil =>
    unfold mlsPass2 at h1 ⊢
    simp at h1; subst h1
    exact ⟨ft', rfl, h⟩
  | cons l rest ih =>
    unfold mlsPass2 at h1 ⊢
    split at h1
    · simp at h1
    · rename_i fta ch ha
      obtain ⟨fta', ch', ha', ra, _⟩ := mlsLine_relC hS A oc l.tokens ft ft' fta ch h ha
      simp only [ha']
      exact ih fta fta' ra h1

theorem zero_relC (oc : Nat → Bytes) (ft ft' : FT) (h : RelC T0 oc ft ft') :
    RelC T0 oc (zeroLineStartSpaces ft) (zeroLineStartSpaces ft') := by
  unfold zeroLineStartSpaces
  refine ⟨by simp [h.1], ?_⟩
  intro j u u' hu hu'
  simp only [List.getElem?_map] at hu hu'
  cases hj : ft[j]? with
  | none => rw [hj] at hu; simp at hu
  | some t =>
    obtain ⟨t', ht', tr⟩ := h.get hj
    rw [hj] at hu; rw [ht'] at hu'
    simp at hu hu'
    subst hu; subst hu'
    have hn' : t'.fmt.nl = t.fmt.nl := by rw [tr.fmt]
    by_cases hn : t.fmt.nl > 0
    · have hn2 : t'.fmt.nl > 0 := by omega
      simp only [hn, hn2, if_true]
      refine ⟨tr.kind, ?_, ?_, ?_, ?_⟩
      · show ({ t.fmt with sp := 0 } : FmtData) = { t'.fmt with sp := 0 }
        rw [tr.fmt]
      · intro hi
        have := tr.ignEq hi; subst this; rfl
      · rcases tr.crel with ⟨e1, e2, _⟩ | j
        · exact Or.inl ⟨e1, e2, trivial⟩
        · exact Or.inr j
      · exact tr.endsq
    · have hn2 : ¬ t'.fmt.nl > 0 := by omega
      simp only [hn, hn2, if_false]
      exact tr

/-! ### applying solutions keeps texts and ignored flags -/

/-- what applying a solution never touches -/
def frameKey (t : FTok) : Tok × Bool := (t.tok, t.fmt.ignored)

theorem setFmt_frame (ft ft1 : FT) (i : Nat) (first : Bool) (ind cont : Nat) (d : Dec)
    (h : setFmt ft i (fun f => applyDec f first ind cont d) = some ft1) : ft1.map frameKey = ft.map frameKey := by
  unfold setFmt at h
  split at h
  · rename_i t ht
    simp at h; subst h
    rw [List.map_set]
    apply set_self
    rw [List.getElem?_map, ht]
    simp [frameKey, applyDec_ignored]
  · simp at h

mutual
theorem applySol_frame (lines : List Line) (ft ft1 : FT) (s : Sol) (li : Nat)
    (h : applySol lines ft s li = some ft1) : ft1.map frameKey = ft.map frameKey := by
  cases s with
  | mk ind cont decs =>
    unfold applySol at h
    split at h
    · simp at h
    · exact applyDecs_frame lines ind cont _ 0 ft ft1 decs h

theorem applyDecs_frame (lines : List Line) (ind cont : Nat) (toks : List Nat) (i : Nat) (ft ft1 : FT)
    (decs : List (Dec × List (Nat × Sol))) (h : applyDecs lines ind cont toks i ft decs = some ft1) :
    ft1.map frameKey = ft.map frameKey := by
  cases decs with
  | nil =>
    unfold applyDecs at h
    simp at h; subst h; rfl
  | cons dk rest =>
    obtain ⟨d, children⟩ := dk
    unfold applyDecs at h
    split at h
    · simp at h
    · split at h
      · simp at h
      · rename_i fta ha
        split at h
        · simp at h
        · rename_i ftb hb
          rw [applyDecs_frame lines ind cont toks (i + 1) ftb ft1 rest h,
            applyChildren_frame lines fta ftb children hb, setFmt_frame ft fta _ _ _ _ _ ha]

theorem applyChildren_frame (lines : List Line) (ft ft1 : FT) (ks : List (Nat × Sol))
    (h : applyChildren lines ft ks = some ft1) : ft1.map frameKey = ft.map frameKey := by
  cases ks with
  | nil =>
    unfold applyChildren at h
    simp at h; subst h; rfl
  | cons k rest =>
    obtain ⟨li, s⟩ := k
    unfold applyChildren at h
    split at h
    · simp at h
    · rename_i fta ha
      rw [applyChildren_frame lines fta ft1 rest h, applySol_frame lines ft fta s li ha]
end

theorem applyLinesS_frame (phase : Nat) (lines : List Line) (is : List Nat) (st st1 : SearchState) (ft ft1 : FT)
    (acc sols : List (Nat × Nat × Sol)) (h : applyLinesS phase lines is st ft acc = some (ft1, st1, sols)) :
    ft1.map frameKey = ft.map frameKey := by
  induction is generalizing st ft acc with
  | nil => simp [applyLinesS] at h; obtain ⟨rfl, _, _⟩ := h; rfl
  | cons i rest ih =>
    unfold applyLinesS at h
    split at h
    · exact ih _ _ _ h
    · split at h
      · simp at h
      · rename_i fta ha
        rw [ih _ _ _ h, applySol_frame lines ft fta _ i ha]

/-! ### the whole stage -/

/-- a state with the texts and ignored flags of the stage's input is related to itself -/
theorem relC_refl (A : FTok → Prop) (ft0 ft : FT) (hframe : ft.map frameKey = ft0.map frameKey)
    (hq : ∀ t ∈ ft0, mlsLive t = true → EndsQ t.tok.content) (hA : ∀ t ∈ ft, A t) :
    RelC A (origContent ft0) ft ft := by
  refine ⟨rfl, ?_⟩
  intro j t t' ht ht'
  rw [ht] at ht'; cases ht'
  have hk : (ft.map frameKey)[j]? = some (frameKey t) := by rw [List.getElem?_map, ht]; rfl
  rw [hframe, List.getElem?_map] at hk
  cases h0 : ft0[j]? with
  | none => rw [h0] at hk; cases hk
  | some o =>
    rw [h0] at hk
    simp only [Option.map_some, Option.some.injEq, frameKey, Prod.mk.injEq] at hk
    obtain ⟨k1, k2⟩ := hk
    refine ⟨rfl, rfl, fun _ => rfl, Or.inl ⟨rfl, ?_, hA t (List.mem_of_getElem? ht)⟩, ?_⟩
    · unfold origContent; rw [h0]; simp [k1]
    · intro hm
      have : EndsQ o.tok.content := by
        apply hq o (List.mem_of_getElem? h0)
        unfold mlsLive at hm ⊢
        rw [k1, k2]; exact hm
      rw [k1] at this
      exact ⟨this, this⟩

theorem searchCfg_crlf (cfg : Config) : ({ cfg with crlf := true }).searchCfg = ({ cfg with crlf := false }).searchCfg := by
  unfold Config.searchCfg Config.settings
  simp only
  split <;> rfl

theorem searchInit_crlf (cfg : Config) (lines : List Line) (ft : FT) :
    searchInit { cfg with crlf := true } lines ft = searchInit { cfg with crlf := false } lines ft := by
  unfold searchInit
  rw [searchCfg_crlf]

/-- **The wrapper stage in the two runs.**  If every non-ignored multi-line literal of the input ends in a quote, and
    the two runs agree, for every such literal, on whether the first string pass changes it (`agreeTok`, on the lf
    run's state when that pass starts), the crlf run answers whenever the lf run does, applies the same solutions,
    and ends in a related state. -/
theorem wrapStageFull_crlf (cfg : Config) (lines : List Line) (ft0 ftz : FT) (sols : List (Nat × Nat × Sol))
    (h1 : wrapStageFull { cfg with crlf := false } lines ft0 = some (ftz, sols))
    (hq : ∀ t ∈ ft0, mlsLive t = true → EndsQ t.tok.content)
    (hagree : cfg.fmtMls = true → ∀ ft1, phase0 { cfg with crlf := false } lines ft0 = some ft1 →
      ∀ t ∈ ft1, agreeTok ({ cfg with crlf := false }).settings ({ cfg with crlf := true }).settings t = true) :
    ∃ ftz', wrapStageFull { cfg with crlf := true } lines ft0 = some (ftz', sols) ∧
      RelC T0 (origContent ft0) ftz ftz' := by
  have hS := lfCrlf_settings cfg
  unfold wrapStageFull at h1 ⊢
  simp only at h1 ⊢
  rw [searchInit_crlf]
  split at h1
  · simp at h1
  · rename_i fta sta solsa ha
    have hfr := applyLinesS_frame _ _ _ _ _ _ _ _ _ ha
    split at h1
    · rename_i hmls
      simp at h1; obtain ⟨rfl, rfl⟩ := h1
      have hmls' : (!({ cfg with crlf := true } : Config).fmtMls) = true := hmls
      rw [if_pos hmls']
      exact ⟨_, rfl, zero_relC _ _ _ (relC_refl T0 ft0 fta hfr hq (fun _ _ => trivial))⟩
    · rename_i hmls
      have hmls' : ¬ (!({ cfg with crlf := true } : Config).fmtMls) = true := hmls
      rw [if_neg hmls']
      have hm : cfg.fmtMls = true := by
        have : ¬ (!cfg.fmtMls) = true := hmls
        simpa using this
      have hph : phase0 { cfg with crlf := false } lines ft0 = some fta := by
        unfold phase0; rw [ha]; rfl
      have r0 : RelC (fun t => agreeTok ({ cfg with crlf := false }).settings ({ cfg with crlf := true }).settings t = true)
          (origContent ft0) fta fta := relC_refl _ ft0 fta hfr hq (hagree hm fta hph)
      split at h1
      · simp at h1
      · rename_i ftb toReflow hb
        obtain ⟨ftb', hb', rb⟩ := mlsPass1_relC hS _ (fun _ hx => hx) _ lines _ fta fta ftb [] toReflow r0 hb
        simp only [hb']
        have rb0 : RelC T0 (origContent ft0) ftb ftb' := rb.mono (fun _ _ _ => trivial)
        split at h1
        · simp at h1
        · rename_i ftc stc solsc hc
          obtain ⟨ftc', hc', rc⟩ := applyLinesS_relC 1 lines _ _ stc _ ftb ftb' ftc solsa solsc rb0 hc
          simp only [hc']
          split at h1
          · simp at h1
          · rename_i ftd hd
            obtain ⟨ftd', hd', rd⟩ := mlsPass2_relC hS T0 _ lines ftc ftc' ftd rc hd
            simp only [hd']
            simp at h1; obtain ⟨rfl, rfl⟩ := h1
            exact ⟨_, rfl, zero_relC _ _ _ rd⟩

/-! ### the reconstructor -/

theorem crlfOf_lf : crlfOf [0x0A] = [0x0D, 0x0A] := by decide

theorem gapOf_relC {SL SC : Settings} (hS : LfCrlf SL SC) {A : FTok → Prop} {oc : Bytes} {t t' : FTok}
    (tr : TR A oc t t') (hs : safeTok oc t = true) (mb : Bool) : gapOf SC t' mb = crlfOf (gapOf SL t mb) := by
  by_cases hi : t.fmt.ignored = true
  · have := tr.ignEq hi; subst this
    unfold safeTok at hs
    rw [if_pos hi] at hs
    simp only [Bool.and_eq_true, Bool.not_eq_true'] at hs
    unfold gapOf
    simp only [hi, if_true]
    rw [crlfOf_append, crlfOf_noNl _ hs.1, hS.nlL, hS.nlC]
    split
    · rw [crlfOf_lf]
    · rfl
  · have e1 : t.fmt.ignored = false := by simpa using hi
    have e2 : t'.fmt.ignored = false := by rw [← tr.fmt]; exact e1
    unfold gapOf
    simp only [e1, e2, Bool.false_eq_true, if_false]
    rw [← tr.fmt, ← tr.kind, hS.nlL, hS.nlC, hS.ind, hS.cont]
    rw [crlfOf_append, crlfOf_append, crlfOf_append, crlfOf_replicate_nl,
      crlfOf_replicateBytes_noNl _ _ (noNl_containsByte hS.indNoNl),
      crlfOf_replicateBytes_noNl _ _ (noNl_containsByte hS.contNoNl),
      crlfOf_noNl _ (replicate_space_noNl _)]

theorem content_relC {A : FTok → Prop} {oc : Bytes} {t t' : FTok} (tr : TR A oc t t') (hs : safeTok oc t = true) :
    t'.tok.content = crlfOf t.tok.content := by
  rcases tr.crel with ⟨e1, e2, _⟩ | j
  · rw [← e1]
    unfold safeTok at hs
    by_cases hi : t.fmt.ignored = true
    · rw [if_pos hi] at hs
      simp only [Bool.and_eq_true, Bool.not_eq_true'] at hs
      exact (crlfOf_noNl _ hs.2).symm
    · rw [if_neg hi] at hs
      simp only [Bool.or_eq_true, Bool.not_eq_true', bne_iff_ne, ne_eq] at hs
      rcases hs with hs | hs
      · exact (crlfOf_noNl _ hs).symm
      · exact absurd e2 hs
  · exact j.crlfOf

theorem reconGo_relC {SL SC : Settings} (hS : LfCrlf SL SC) (A : FTok → Prop) (oc : Nat → Bytes) (ft ft' : FT)
    (h : RelC A oc ft ft') (hsafe : ∀ j t, ft[j]? = some t → safeTok (oc j) t = true) (mb : Bool) :
    reconGo SC mb ft' = crlfOf (reconGo SL mb ft) := by
  induction ft generalizing ft' oc mb with
  | nil =>
    cases ft' with
    | nil => rfl
    | cons _ _ => have := h.1; simp at this
  | cons t r ih =>
    cases ft' with
    | nil => have := h.1; simp at this
    | cons t' r' =>
      have tr := h.2 0 t t' rfl rfl
      have hs := hsafe 0 t rfl
      have hr : RelC A (fun j => oc (j + 1)) r r' :=
        ⟨by have := h.1; simpa using this, fun j u u' hu hu' => h.2 (j + 1) u u' (by simpa using hu) (by simpa using hu')⟩
      rw [reconGo, reconGo, crlfOf_append, crlfOf_append, gapOf_relC hS tr hs mb, content_relC tr hs, ← tr.kind,
        ih (fun j => oc (j + 1)) r' hr (fun j u hu => hsafe (j + 1) u (by simpa using hu))]

/-! ### the side conditions as one decidable check on the lf run, and the whole formatter -/

/-- the stage and the reconstructor in the two runs -/
theorem wrapStageFull_crlf_output (cfg : Config) (lines : List Line) (ft0 ftz : FT) (sols : List (Nat × Nat × Sol))
    (h1 : wrapStageFull { cfg with crlf := false } lines ft0 = some (ftz, sols))
    (hok : crlfStageOk cfg lines ft0 = true) :
    ∃ ftz', wrapStageFull { cfg with crlf := true } lines ft0 = some (ftz', sols) ∧
      reconstruct ({ cfg with crlf := true }).settings ftz' = crlfOf (reconstruct ({ cfg with crlf := false }).settings ftz) := by
  unfold crlfStageOk at hok
  rw [h1] at hok
  simp only [Bool.and_eq_true, List.all_eq_true, Bool.or_eq_true, Bool.not_eq_true', beq_iff_eq] at hok
  obtain ⟨⟨hq, hag⟩, hsafe⟩ := hok
  have hq' : ∀ t ∈ ft0, mlsLive t = true → EndsQ t.tok.content := by
    intro t ht hm
    rcases hq t ht with h | h
    · rw [hm] at h; cases h
    · exact h
  have hag' : cfg.fmtMls = true → ∀ ft1, phase0 { cfg with crlf := false } lines ft0 = some ft1 →
      ∀ t ∈ ft1, agreeTok ({ cfg with crlf := false }).settings ({ cfg with crlf := true }).settings t = true := by
    intro hm ft1 hp t ht
    rcases hag with h | h
    · rw [hm] at h; cases h
    · rw [hp] at h
      simp only [List.all_eq_true] at h
      exact h t ht
  obtain ⟨ftz', hz, rel⟩ := wrapStageFull_crlf cfg lines ft0 ftz sols h1 hq' hag'
  refine ⟨ftz', hz, ?_⟩
  unfold reconstruct
  apply reconGo_relC (lfCrlf_settings cfg) T0 _ ftz ftz' rel
  intro j t ht
  exact hsafe (t, j) (List.mem_zipIdx_iff_getElem?.2 ht)

theorem formatFull_crlf_config (cfg : Config) (alnum : Bytes → Bool) (s outL : Bytes)
    (hok : crlfOk cfg alnum s = true) (h : formatFull { cfg with crlf := false } alnum s = some outL) :
    formatFull { cfg with crlf := true } alnum s = some (crlfOf outL) := by
  unfold formatFull at h ⊢
  unfold crlfOk at hok
  split at h
  · simp at h
  · rename_i raw hraw
    rw [hraw] at hok
    simp only at hok ⊢
    unfold formatTokensFull at h ⊢
    split at h
    · simp at h
    · rename_i po hpo
      rw [hpo] at hok
      simp only at hok h ⊢
      split at h
      · simp at h
      · rename_i ftz sols hw
        simp only [Option.some.injEq] at h
        subst h
        obtain ⟨ftz', hz, hr⟩ := wrapStageFull_crlf_output cfg _ _ ftz sols hw hok
        rw [hz]
        simp only [hr]

end Pasfmt.CrlfFull
