/-
  Locality of the scanning primitives, part 4: comments and compiler directives (including the
  expression scanner of `{$if …}` / `{$elseif …}` with its nested comments, strings and directives).
  `trim` (the length of the blank tail of the whole input, used only for tokens that run to the end
  of the input) must lie inside the part `s` that is being replaced.
-/
import PasfmtModel.Proofs.LexLocal3

namespace Pasfmt

theorem lineCommentEnd_pd (y s s' : Bytes) (h : lineCommentEnd (y ++ s) + 1 ≤ y.length) :
    lineCommentEnd (y ++ s') = lineCommentEnd (y ++ s) := by
  unfold lineCommentEnd at h ⊢
  cases hf : findIdx (fun b => b == 0x0A || b == 0x0D) (y ++ s) with
  | none => rw [hf] at h; simp only [List.length_append] at h; omega
  | some o =>
    rw [hf] at h; simp only at h
    rw [findIdx_pd _ y s s' o hf (by omega)]

theorem findBlockCommentEnd_pd (k : BlockCommentKind) (y s s' : Bytes) (e : Nat)
    (h : findBlockCommentEnd k (y ++ s) = some e) (he : e ≤ y.length) :
    findBlockCommentEnd k (y ++ s') = some e := by
  unfold findBlockCommentEnd at h ⊢
  cases k with
  | parenStar =>
    simp only [Option.map_eq_some_iff] at h ⊢
    obtain ⟨i, hi, rfl⟩ := h
    exact ⟨i, findSub_pd _ y s s' i hi (by simpa using he), rfl⟩
  | brace =>
    simp only [Option.map_eq_some_iff] at h ⊢
    obtain ⟨i, hi, rfl⟩ := h
    exact ⟨i, findByte_pd _ y s s' i hi (by omega), rfl⟩

theorem blockCommentEndOrEof_pd (k : BlockCommentKind) (trim trim' : Nat) (y s s' : Bytes) (ht : trim ≤ s.length)
    (h : blockCommentEndOrEof k trim (y ++ s) + 1 ≤ y.length) :
    blockCommentEndOrEof k trim' (y ++ s') = blockCommentEndOrEof k trim (y ++ s) := by
  unfold blockCommentEndOrEof at h ⊢
  cases hf : findBlockCommentEnd k (y ++ s) with
  | none => rw [hf] at h; simp only [List.length_append] at h; omega
  | some e =>
    rw [hf] at h; simp only at h
    rw [findBlockCommentEnd_pd k y s s' e hf (by omega)]

theorem conditionalDirectiveType_pd (y s s' : Bytes) (h : (conditionalDirectiveType (y ++ s)).1 < y.length) :
    conditionalDirectiveType (y ++ s') = conditionalDirectiveType (y ++ s) := by
  unfold conditionalDirectiveType at h ⊢
  simp only at h ⊢
  have hc := countWhile_pd isDirectiveNameByte y s s' h
  rw [hc]
  have ht : ∀ t : Bytes, (y ++ t).take (countWhile isDirectiveNameByte (y ++ s)) = y.take (countWhile isDirectiveNameByte (y ++ s)) :=
    fun t => List.take_append_of_le_length (by omega)
  rw [ht s, ht s']

/-! ### the expression scanner -/

def nestedInner (trim f : Nat) (k2 : BlockCommentKind) (r : Bytes) : Option (Option Nat) :=
  if isExprDirective (conditionalDirectiveType r).2 then findDirectiveExprEnd trim f k2 (r.drop (conditionalDirectiveType r).1)
  else some (findBlockCommentEnd k2 (r.drop (conditionalDirectiveType r).1))

def contAt (trim f : Nat) (kind : BlockCommentKind) (l : Bytes) (n : Nat) : Option (Option Nat) :=
  shiftEnd n (findDirectiveExprEnd trim f kind (l.drop n))

def nestedAt (trim f : Nat) (kind : BlockCommentKind) (l : Bytes) (skip : Nat) (k2 : BlockCommentKind) (r : Bytes) : Option (Option Nat) :=
  match nestedInner trim f k2 r with
  | none => none
  | some none => some none
  | some (some e) => contAt trim f kind l (skip + (conditionalDirectiveType r).1 + e)

theorem fde_cons3 (trim f : Nat) (kind : BlockCommentKind) (a b c : UInt8) (t : Bytes) :
    findDirectiveExprEnd trim (f + 1) kind (a :: b :: c :: t) =
      if kind == .parenStar && a == 0x2A && b == 0x29 then some (some 2)
      else if kind == .brace && a == 0x7D then some (some 1)
      else if a == 0x28 && b == 0x2A && c == 0x24 then nestedAt trim f kind (a :: b :: c :: t) 3 .parenStar t
      else if a == 0x7B && b == 0x24 then nestedAt trim f kind (a :: b :: c :: t) 2 .brace (c :: t)
      else if a == 0x28 && b == 0x2A then contAt trim f kind (a :: b :: c :: t) (2 + blockCommentEndOrEof .parenStar trim (c :: t))
      else if a == 0x7B then contAt trim f kind (a :: b :: c :: t) (1 + blockCommentEndOrEof .brace trim (b :: c :: t))
      else if a == 0x27 then contAt trim f kind (a :: b :: c :: t) (textLiteral (a :: b :: c :: t)).1
      else if a == 0x2F && b == 0x2F then contAt trim f kind (a :: b :: c :: t) (2 + lineCommentEnd (c :: t))
      else contAt trim f kind (a :: b :: c :: t) 1 := by
  rw [findDirectiveExprEnd]
  simp only [List.head?_cons, List.tail_cons, List.drop_succ_cons, List.drop_zero, Option.some_beq_some]
  rfl

theorem contAt_some (trim f : Nat) (kind : BlockCommentKind) (l : Bytes) (n e : Nat)
    (h : contAt trim f kind l n = some (some e)) :
    ∃ e', findDirectiveExprEnd trim f kind (l.drop n) = some (some e') ∧ e = n + e' ∧ 1 ≤ e' := by
  unfold contAt at h
  cases hx : findDirectiveExprEnd trim f kind (l.drop n) with
  | none => rw [hx] at h; simp [shiftEnd] at h
  | some o =>
    cases o with
    | none => rw [hx] at h; simp [shiftEnd] at h
    | some e' =>
      rw [hx] at h
      simp only [shiftEnd, Option.some.injEq] at h
      exact ⟨e', rfl, h.symm, (findDirectiveExprEnd_le _ _ _ _ _ hx).1⟩

/-- the induction hypothesis of `fde_pd`, as a predicate on the fuel of the first run -/
def FdeIH (trim trim' f1 : Nat) : Prop :=
  ∀ (f2 : Nat) (kind : BlockCommentKind) (y s s' : Bytes) (e : Nat),
    trim ≤ s.length → (y ++ s').length < f2 →
    findDirectiveExprEnd trim f1 kind (y ++ s) = some (some e) → e + 2 ≤ y.length →
    findDirectiveExprEnd trim' f2 kind (y ++ s') = some (some e)

theorem contAt_pd (trim trim' f1 f2 : Nat) (ih : FdeIH trim trim' f1) (kind : BlockCommentKind) (y s s' : Bytes)
    (n n' e : Nat) (ht : trim ≤ s.length) (hf : (y ++ s').length < f2 + 1)
    (h : contAt trim f1 kind (y ++ s) n = some (some e)) (he : e + 2 ≤ y.length) (hn1 : 1 ≤ n)
    (hn : 1 ≤ n → n + 3 ≤ y.length → n' = n) :
    contAt trim' f2 kind (y ++ s') n' = some (some e) := by
  obtain ⟨e', hrec, hee, he1⟩ := contAt_some _ _ _ _ _ _ h
  have hnn := hn hn1 (by omega)
  subst hnn
  unfold contAt
  have hd : ∀ t : Bytes, (y ++ t).drop n' = y.drop n' ++ t := fun t => List.drop_append_of_le_length (by omega)
  rw [hd s] at hrec
  rw [hd s']
  rw [ih f2 kind (y.drop n') s s' e' ht
    (by simp only [List.length_append, List.length_drop] at hf ⊢; omega) hrec
    (by simp only [List.length_drop]; omega)]
  simp [shiftEnd, hee]

theorem nestedAt_pd (trim trim' f1 f2 : Nat) (ih : FdeIH trim trim' f1) (kind : BlockCommentKind) (y s s' : Bytes)
    (skip : Nat) (k2 : BlockCommentKind) (r : Bytes) (e : Nat) (ht : trim ≤ s.length) (hf : (y ++ s').length < f2 + 1)
    (hskip : 1 ≤ skip) (hr : r.length + skip = y.length)
    (h : nestedAt trim f1 kind (y ++ s) skip k2 (r ++ s) = some (some e)) (he : e + 2 ≤ y.length) :
    nestedAt trim' f2 kind (y ++ s') skip k2 (r ++ s') = some (some e) := by
  unfold nestedAt at h ⊢
  cases hin : nestedInner trim f1 k2 (r ++ s) with
  | none => rw [hin] at h; simp at h
  | some o =>
    cases o with
    | none => rw [hin] at h; simp at h
    | some ei =>
      rw [hin] at h
      simp only at h
      obtain ⟨e', _, hee, he1⟩ := contAt_some _ _ _ _ _ _ h
      have hname : (conditionalDirectiveType (r ++ s)).1 < r.length := by omega
      have hcdt := conditionalDirectiveType_pd r s s' hname
      have hd : ∀ t : Bytes, (r ++ t).drop (conditionalDirectiveType (r ++ s)).1 = r.drop (conditionalDirectiveType (r ++ s)).1 ++ t :=
        fun t => List.drop_append_of_le_length (by omega)
      have hin' : nestedInner trim' f2 k2 (r ++ s') = some (some ei) := by
        unfold nestedInner at hin ⊢
        rw [hcdt, hd s']
        rw [hd s] at hin
        by_cases hx : isExprDirective (conditionalDirectiveType (r ++ s)).2 = true
        · simp only [hx, if_true] at hin ⊢
          exact ih f2 k2 _ s s' ei ht
            (by simp only [List.length_append, List.length_drop] at hf ⊢; omega) hin
            (by simp only [List.length_drop]; omega)
        · simp only [hx, Bool.false_eq_true, if_false, Option.some.injEq] at hin ⊢
          exact findBlockCommentEnd_pd k2 _ s s' ei hin (by simp only [List.length_drop]; omega)
      rw [hin']
      simp only
      rw [hcdt]
      exact contAt_pd trim trim' f1 f2 ih kind y s s' _ _ e ht hf h he (by omega) (fun _ _ => rfl)

theorem fde_pd (trim trim' : Nat) : ∀ f1 : Nat, FdeIH trim trim' f1 := by
  intro f1
  induction f1 with
  | zero => intro f2 kind y s s' e _ _ h _; simp [findDirectiveExprEnd] at h
  | succ f1 ih =>
    intro f2 kind y s s' e ht hf h he
    have hle := findDirectiveExprEnd_le _ _ _ _ _ h
    cases f2 with
    | zero => simp at hf
    | succ f2 =>
      match y, he, h, hf with
      | [], he, _, _ => simp at he
      | [_], he, _, _ => simp at he
      | [_, _], he, _, _ => simp at he; omega
      | a :: b :: c :: t, he, h, hf =>
        simp only [List.cons_append] at h hf ⊢
        rw [fde_cons3] at h ⊢
        have hy : ∀ u : Bytes, a :: b :: c :: (t ++ u) = (a :: b :: c :: t) ++ u := fun _ => rfl
        by_cases c1 : (kind == .parenStar && a == 0x2A && b == 0x29) = true
        · simp only [c1, if_true] at h ⊢; exact h
        simp only [c1, Bool.false_eq_true, if_false] at h ⊢
        by_cases c2 : (kind == .brace && a == 0x7D) = true
        · simp only [c2, if_true] at h ⊢; exact h
        simp only [c2, Bool.false_eq_true, if_false] at h ⊢
        by_cases c3 : (a == 0x28 && b == 0x2A && c == 0x24) = true
        · simp only [c3, if_true] at h ⊢
          rw [hy s] at h; rw [hy s']
          exact nestedAt_pd trim trim' f1 f2 ih kind _ s s' 3 .parenStar t e ht (by simpa using hf) (by omega) (by simp) h he
        simp only [c3, Bool.false_eq_true, if_false] at h ⊢
        by_cases c4 : (a == 0x7B && b == 0x24) = true
        · simp only [c4, if_true] at h ⊢
          rw [hy s, ← List.cons_append] at h; rw [hy s', ← List.cons_append]
          exact nestedAt_pd trim trim' f1 f2 ih kind _ s s' 2 .brace (c :: t) e ht (by simpa using hf) (by omega) (by simp) h he
        simp only [c4, Bool.false_eq_true, if_false] at h ⊢
        by_cases c5 : (a == 0x28 && b == 0x2A) = true
        · simp only [c5, if_true] at h ⊢
          rw [hy s] at h; rw [hy s']
          refine contAt_pd trim trim' f1 f2 ih kind _ s s' _ _ e ht (by simpa using hf) h he (by omega) ?_
          intro _ hb
          rw [← List.cons_append, ← List.cons_append]
          rw [blockCommentEndOrEof_pd .parenStar trim trim' (c :: t) s s' ht (by simp only [List.length_cons] at hb ⊢; rw [← List.cons_append] at hb; omega)]
        simp only [c5, Bool.false_eq_true, if_false] at h ⊢
        by_cases c6 : (a == 0x7B) = true
        · simp only [c6, if_true] at h ⊢
          rw [hy s] at h; rw [hy s']
          refine contAt_pd trim trim' f1 f2 ih kind _ s s' _ _ e ht (by simpa using hf) h he (by omega) ?_
          intro _ hb
          have e1 : ∀ u : Bytes, b :: c :: (t ++ u) = (b :: c :: t) ++ u := fun _ => rfl
          rw [e1 s, e1 s']
          rw [blockCommentEndOrEof_pd .brace trim trim' (b :: c :: t) s s' ht (by simp only [List.length_cons] at hb ⊢; rw [e1 s] at hb; omega)]
        simp only [c6, Bool.false_eq_true, if_false] at h ⊢
        by_cases c7 : (a == 0x27) = true
        · simp only [c7, if_true] at h ⊢
          rw [hy s] at h; rw [hy s']
          have hpos : 1 ≤ (textLiteral ((a :: b :: c :: t) ++ s)).1 :=
            textLiteral_pos a _ (Or.inl (by simpa using c7))
          refine contAt_pd trim trim' f1 f2 ih kind _ s s' _ _ e ht (by simpa using hf) h he hpos ?_
          intro _ hb
          rw [textLiteral_pd (a :: b :: c :: t) s s' (by omega)]
        simp only [c7, Bool.false_eq_true, if_false] at h ⊢
        by_cases c8 : (a == 0x2F && b == 0x2F) = true
        · simp only [c8, if_true] at h ⊢
          rw [hy s] at h; rw [hy s']
          refine contAt_pd trim trim' f1 f2 ih kind _ s s' _ _ e ht (by simpa using hf) h he (by omega) ?_
          intro _ hb
          rw [← List.cons_append, ← List.cons_append]
          rw [lineCommentEnd_pd (c :: t) s s' (by simp only [List.length_cons] at hb ⊢; rw [← List.cons_append] at hb; omega)]
        simp only [c8, Bool.false_eq_true, if_false] at h ⊢
        rw [hy s] at h; rw [hy s']
        exact contAt_pd trim trim' f1 f2 ih kind _ s s' 1 1 e ht (by simpa using hf) h he (by omega) (fun _ _ => rfl)

end Pasfmt
