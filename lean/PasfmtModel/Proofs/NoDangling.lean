import PasfmtModel.Proofs.Blank

namespace Pasfmt

theorem nd_cons_ne (b : UInt8) (r : Bytes) (h : b ≠ 0xE3) : nd (b :: r) = nd r := by
  rw [nd.eq_4]
  · intro _ _ _ hb; exact absurd hb h
  · intro hb; exact absurd hb h

theorem stripBlank_cons_gt (b : UInt8) (r : Bytes) (h1 : ¬ b ≤ 0x20) (h2 : b ≠ 0xE3) :
    stripBlank (b :: r) = b :: stripBlank r := by
  rw [stripBlank.eq_3]
  · simp [h1]
  · intro r' hb; exact absurd hb h2

theorem isCont_not_blank {b : UInt8} (h : isCont b = true) : ¬ b ≤ 0x20 ∧ b ≠ 0xE3 := by
  have hall : ∀ n : Fin 256, isCont (UInt8.ofNat n.val) = true →
      ¬ (UInt8.ofNat n.val) ≤ 0x20 ∧ (UInt8.ofNat n.val) ≠ 0xE3 := by decide +kernel
  have := hall ⟨b.toNat, b.toNat_lt⟩
  simp only [UInt8.ofNat_toNat] at this
  exact this h

/-- `stripBlank (E3 :: b1 :: b2 :: r)` for continuation bytes `b1 b2` -/
theorem stripBlank_e3 (b1 b2 : UInt8) (r : Bytes) (h1 : isCont b1 = true) (h2 : isCont b2 = true) :
    stripBlank (0xE3 :: b1 :: b2 :: r) =
      if b1 = 0x80 ∧ b2 = 0x80 then stripBlank r else 0xE3 :: b1 :: b2 :: stripBlank r := by
  by_cases hb : b1 = 0x80 ∧ b2 = 0x80
  · obtain ⟨rfl, rfl⟩ := hb
    simp [stripBlank]
  · rw [if_neg hb]
    rw [stripBlank.eq_3]
    · have : ¬ (0xE3 : UInt8) ≤ 0x20 := by decide
      simp only [this, if_false]
      rw [stripBlank_cons_gt b1 _ (isCont_not_blank h1).1 (isCont_not_blank h1).2,
          stripBlank_cons_gt b2 _ (isCont_not_blank h2).1 (isCont_not_blank h2).2]
    · intro r' _ hr
      simp at hr
      exact hb ⟨hr.1, hr.2.1⟩

theorem nd_closed (c : Bytes) (h : nd c = true) : Closed c := by
  induction c using nd.induct with
  | case1 => intro x; rfl
  | case2 b1 b2 r ih =>
    rw [nd] at h
    simp only [Bool.and_eq_true] at h
    obtain ⟨⟨h1, h2⟩, h3⟩ := h
    intro x
    have e1 := stripBlank_e3 b1 b2 (r ++ x) h1 h2
    have e2 := stripBlank_e3 b1 b2 r h1 h2
    simp only [List.cons_append]
    rw [e1, e2, ih h3 x]
    split <;> simp
  | case3 t hne =>
    exfalso
    rw [nd.eq_3] at h
    · simp at h
    · intro b1 b2 r hr; exact hne b1 b2 r hr
  | case4 b r hne1 hne2 ih =>
    have hb : b ≠ 0xE3 := fun hb => hne2 hb
    rw [nd_cons_ne b r hb] at h
    intro x
    by_cases hle : b ≤ 0x20
    · simp only [List.cons_append]
      rw [stripBlank_cons_le _ _ hle, stripBlank_cons_le _ _ hle]
      exact ih h x
    · simp only [List.cons_append]
      rw [stripBlank_cons_gt _ _ hle hb, stripBlank_cons_gt _ _ hle hb, ih h x]
      rfl

/-- if `a` has no dangling `E3`, whether `a ++ b` has one depends on `b` only -/
theorem nd_append (a b : Bytes) (h : nd a = true) : nd (a ++ b) = nd b := by
  induction a using nd.induct with
  | case1 => rfl
  | case2 b1 b2 r ih =>
    rw [nd] at h
    simp only [Bool.and_eq_true] at h
    obtain ⟨⟨h1, h2⟩, h3⟩ := h
    simp only [List.cons_append]
    rw [nd]; simp [h1, h2, ih h3]
  | case3 t hne =>
    exfalso
    rw [nd.eq_3] at h
    · simp at h
    · intro b1 b2 r hr; exact hne b1 b2 r hr
  | case4 c r hne1 hne2 ih =>
    have hb : c ≠ 0xE3 := fun hb => hne2 hb
    rw [nd_cons_ne c r hb] at h
    simp only [List.cons_append]
    rw [nd_cons_ne _ _ hb]
    exact ih h

/-- bytes below 0x80 -/
def AllAscii (t : Bytes) : Prop := ∀ b ∈ t, b < 0x80

theorem ascii_not_cont {b : UInt8} (h : b < 0x80) : isCont b = false ∧ b ≠ 0xE3 := by
  have hall : ∀ n : Fin 256, (UInt8.ofNat n.val) < 0x80 →
      isCont (UInt8.ofNat n.val) = false ∧ (UInt8.ofNat n.val) ≠ 0xE3 := by decide +kernel
  have := hall ⟨b.toNat, b.toNat_lt⟩
  simp only [UInt8.ofNat_toNat] at this
  exact this h

theorem nd_ascii (t : Bytes) (h : AllAscii t) : nd t = true := by
  induction t with
  | nil => rfl
  | cons b r ih =>
    rw [nd_cons_ne _ _ (ascii_not_cont (h b (by simp))).2]
    exact ih (fun c hc => h c (by simp [hc]))

/-- removing an ASCII suffix keeps the property -/
theorem nd_of_append_ascii (x t : Bytes) (ht : AllAscii t) (h : nd (x ++ t) = true) : nd x = true := by
  induction x using nd.induct with
  | case1 => rfl
  | case2 b1 b2 r ih =>
    simp only [List.cons_append] at h
    rw [nd] at h ⊢
    simp only [Bool.and_eq_true] at h ⊢
    exact ⟨h.1, ih h.2⟩
  | case3 u hne =>
    exfalso
    -- u has fewer than two bytes; the bytes after E3 come from `t` and are ASCII
    cases u with
    | nil =>
      cases t with
      | nil => simp [nd] at h
      | cons t1 tr =>
        cases tr with
        | nil => simp [nd] at h
        | cons t2 tr2 =>
          simp only [List.cons_append, List.nil_append] at h
          rw [nd] at h
          simp only [Bool.and_eq_true] at h
          have := (ascii_not_cont (ht t1 (by simp))).1
          rw [this] at h; simp at h
    | cons u1 ur =>
      cases ur with
      | nil =>
        cases t with
        | nil => simp [nd] at h
        | cons t1 tr =>
          simp only [List.cons_append, List.nil_append] at h
          rw [nd] at h
          simp only [Bool.and_eq_true] at h
          have := (ascii_not_cont (ht t1 (by simp))).1
          rw [this] at h; simp at h
      | cons u2 ur2 => exact hne u1 u2 ur2 rfl
  | case4 c r hne1 hne2 ih =>
    have hb : c ≠ 0xE3 := fun hb => hne2 hb
    simp only [List.cons_append] at h
    rw [nd_cons_ne _ _ hb] at h ⊢
    exact ih h

end Pasfmt
