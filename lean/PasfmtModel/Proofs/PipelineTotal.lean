/-
  The closed model `formatFull` answers exactly when its parser stage answers (C04).

  `formatFull cfg alnum s` = scanner → parser model + the three consolidators → ignore marks, voided lines, token
  rules → wrapper stage with the search inside → reconstructor.  The scanner always answers (`lexWith_total`), the
  wrapper stage answers on well-formed lines (`wrapStageFull_total`), the other stages are total functions.  This
  file proves that the lines handed to the wrapper stage are well formed (`LinesOk`) whenever the parser model
  answers, so the parser model is the only stage whose `none` can surface.
-/
import PasfmtModel.Model.PipelineFull
import PasfmtModel.Proofs.StageTotalSearch
import PasfmtModel.Proofs.LexTotal
import PasfmtModel.Props.C14

namespace Pasfmt

/-! ### a frame rule for `LinesOk` -/

/-- a rewriting of the lines that keeps their number, keeps every parent and keeps every line's token indices below
    `n` keeps the lines well formed -/
theorem linesOk_frame {lines out : List Line} {n : Nat} (h : LinesOk lines n) (hlen : out.length = lines.length)
    (hf : ∀ (i : Nat) (l l' : Line), lines[i]? = some l → out[i]? = some l' →
      l'.parent = l.parent ∧ ((∀ t ∈ l.tokens, t < n) → ∀ t ∈ l'.tokens, t < n)) : LinesOk out n := by
  rw [linesOk_iff]
  intro i l' hl'
  have hi : i < lines.length := by
    rcases Nat.lt_or_ge i out.length with h1 | h1
    · omega
    · rw [List.getElem?_eq_none h1] at hl'; cases hl'
  have hl : lines[i]? = some lines[i] := List.getElem?_eq_getElem hi
  obtain ⟨hp, ht⟩ := hf i _ l' hl hl'
  refine ⟨ht (h.tokens hl), ?_⟩
  intro p hpp
  rw [hp] at hpp
  exact h.parent hl hpp

/-- the same for a line-by-line rewriting `f`; `P` is any property all the lines have -/
theorem linesOk_map {lines : List Line} {n : Nat} (f : Line → Line) (P : Line → Prop) (h : LinesOk lines n)
    (hP : ∀ l ∈ lines, P l)
    (hf : ∀ l, P l → (f l).parent = l.parent ∧ ((∀ t ∈ l.tokens, t < n) → ∀ t ∈ (f l).tokens, t < n)) :
    LinesOk (lines.map f) n := by
  apply linesOk_frame h (by simp)
  intro i l l' hl hl'
  rw [List.getElem?_map, hl] at hl'
  simp at hl'
  subst hl'
  exact hf l (hP l (List.mem_of_getElem? hl))

/-! ### step 2: voiding -/

/-- **Voiding keeps the lines well formed**: the void step of `format_into_buf` empties the token list of a line whose
    tokens are all ignored and retypes it; it keeps every other line, the number of lines and every parent. -/
theorem voidLines_ok (marks : List Bool) (lines : List Line) (n : Nat) (h : LinesOk lines n) :
    LinesOk (voidLines marks lines) n := by
  unfold voidLines
  split
  · apply linesOk_map _ (fun _ => True) h (fun _ _ => trivial)
    intro l _
    split
    · exact ⟨rfl, fun _ t ht => by simp at ht⟩
    · exact ⟨rfl, fun ht => ht⟩
  · exact h

/-! ### step 1: the parser model and the consolidators -/

theorem maskFlags_length (seen : Bool) (l : List (RawKind × Bool)) : (maskFlags seen l).length = l.length := by
  induction l generalizing seen with
  | nil => rfl
  | cons x r ih => obtain ⟨k, b⟩ := x; simp [maskFlags, ih]

/-- the second phase of the conditional-directive consolidator keeps a line or voids it -/
theorem cdcLine2_cases (D : List Nat) (l : Line) : cdcLine2 D l = l ∨ cdcLine2 D l = l.void := by
  unfold cdcLine2
  split
  · split
    · split
      · exact Or.inr rfl
      · exact Or.inl rfl
    · exact Or.inl rfl
  · exact Or.inl rfl

/-- **The conditional-directive consolidator keeps the lines well formed** (sorted lines): it keeps the number of
    lines and the parents; a line it expands becomes the range from its first to its last token, a line it voids
    has no tokens. -/
theorem cdcConsolidate_linesOk (kinds : List Kind) (lines : List Line) (n : Nat) (h : LinesOk lines n)
    (hs : ∀ l ∈ lines, l.tokens.Pairwise (· < ·)) : LinesOk (cdcConsolidate kinds lines) n := by
  rw [cdcConsolidate_eq, List.map_map]
  generalize (lines.map (cdcLine1 kinds.toArray)).flatMap (·.2) = D
  apply linesOk_map _ (fun l => l.tokens.Pairwise (· < ·)) h hs
  intro l hsl
  simp only [Function.comp]
  have h1 : (cdcLine1 kinds.toArray l).1.parent = l.parent ∧
      ((∀ t ∈ l.tokens, t < n) → ∀ t ∈ (cdcLine1 kinds.toArray l).1.tokens, t < n) := by
    refine ⟨(cdcLine1_parent_level _ l).1, ?_⟩
    intro hb t ht
    rcases cdcLine1_spec kinds.toArray l hsl with ⟨e1, _⟩ | ⟨f, la, _, hla, e1, _, _⟩
    · rw [e1] at ht; exact hb t ht
    · rw [e1] at ht
      have := (mem_rangeIncl.1 ht).2
      have := hb la (List.mem_of_getLast? hla)
      omega
  rcases cdcLine2_cases D (cdcLine1 kinds.toArray l).1 with e | e
  · rw [e]; exact h1
  · rw [e]; exact ⟨h1.1, fun _ t ht => by simp [Line.void] at ht⟩

/-- **The package-directive rule keeps the lines well formed**: it changes levels only. -/
theorem deindentPackage_linesOk (kinds : List Kind) (lines : List Line) (n : Nat) (h : LinesOk lines n) :
    LinesOk (deindentPackage kinds lines) n := by
  obtain ⟨hlen, hfr⟩ := deindentPackage_frame kinds lines
  apply linesOk_frame h hlen
  intro i l l' hl hl'
  have hi : i < lines.length := by
    rcases Nat.lt_or_ge i lines.length with h1 | h1
    · exact h1
    · rw [List.getElem?_eq_none h1] at hl; cases hl
  have hi' : i < (deindentPackage kinds lines).length := by omega
  obtain ⟨e1, e2, _⟩ := hfr i hi' hi
  rw [List.getElem?_eq_getElem hi] at hl
  rw [List.getElem?_eq_getElem hi'] at hl'
  cases hl; cases hl'
  exact ⟨e2, fun hb t ht => hb t (by rw [← e1]; exact ht)⟩

/-- **The final lines of the parser model are well formed for the file** (for every input on which the model
    answers): every token index is a token of the file and every parent is an earlier line; moreover every line is
    strictly increasing. -/
theorem parseFileFull_linesOk (toks : List (RawKind × Bool)) (o : ParseFullOut) (h : parseFileFull toks = some o) :
    LinesOk (o.lines.map PLine.toLine) toks.length ∧
    ∀ l ∈ o.lines.map PLine.toLine, l.tokens.Pairwise (· < ·) := by
  have hwf := C14.parser_model_final_lines_wellformed toks o h
  have hpar := C14.parser_model_parent_contains_token toks o h
  constructor
  · rw [linesOk_iff]
    intro i l hl
    rw [List.getElem?_map] at hl
    cases hpl : o.lines[i]? with
    | none => rw [hpl] at hl; cases hl
    | some pl =>
      rw [hpl] at hl
      simp at hl
      subst hl
      refine ⟨(hwf pl (List.mem_of_getElem? hpl)).2.2, ?_⟩
      intro p hp
      exact (hpar i pl p hpl hp).1
  · intro l hl
    obtain ⟨pl, hpl, rfl⟩ := List.mem_map.1 hl
    exact (hwf pl hpl).2.1

/-- **Whenever the parser model answers, the lines it hands on (after the three consolidators) are well formed for the
    scanned tokens**: every token index of every line is the index of a scanned token, and the parent of a line is an
    earlier line.  (The generics consolidator does not touch lines; the conditional-directive consolidator expands
    a line to a range within its old bounds or voids it; the package rule changes levels only.) -/
theorem parse_lines_ok (raw : List RawTok) (po : ParserOut) (h : parseAndConsolidate raw = some po) :
    LinesOk po.lines raw.length := by
  unfold parseAndConsolidate at h
  split at h
  · cases h
  · rename_i o ho
    simp only [Option.some.injEq] at h
    subst h
    unfold parseFileMasked at ho
    obtain ⟨h1, h2⟩ := parseFileFull_linesOk _ o ho
    rw [maskFlags_length, List.length_map] at h1
    unfold consolidators
    simp only
    exact deindentPackage_linesOk _ _ _ (cdcConsolidate_linesOk _ _ _ h1 h2)

/-! ### step 3: the token rules keep the number of tokens -/

theorem retype_length (raw : List RawTok) (kinds : List Kind) : (retype raw kinds).length = raw.length := by
  induction raw generalizing kinds with
  | nil => rfl
  | cons t r ih => cases kinds <;> simp [retype, ih]

theorem eofNewline_length (lines : List Line) (ft : FT) : (eofNewline lines ft).length = ft.length := by
  unfold eofNewline
  split <;> simp

/-- **The state handed to the wrapper stage has one entry of formatting data per scanned token**, whatever the parser
    component returns (the kinds it returns are paired with the scanned tokens; the token rules rewrite entries in
    place). -/
theorem preWrap_length (O : Oracles) (raw : List RawTok) : (preWrap O raw).2.2.length = raw.length := by
  unfold preWrap
  simp only [eofNewline_length, commentFormatter, lowercaseKeywords, tokenSpacing, FT.new, List.length_map,
    List.length_zipIdx, retype_length]

/-- the lines handed to the wrapper stage are the parser component's lines, voided -/
theorem preWrap_lines (O : Oracles) (raw : List RawTok) :
    (preWrap O raw).2.1 =
      voidLines (ignoredMarks (retype raw (O.parser raw).kinds) (O.parser raw).lines) (O.parser raw).lines := rfl

/-- **The lines and the state handed to the wrapper stage fit together** whenever the parser component's lines are
    well formed for the scanned tokens. -/
theorem preWrap_linesOk (O : Oracles) (raw : List RawTok) (h : LinesOk (O.parser raw).lines raw.length) :
    LinesOk (preWrap O raw).2.1 (preWrap O raw).2.2.length := by
  rw [preWrap_length, preWrap_lines]
  exact voidLines_ok _ _ _ h

/-! ### step 4: the whole closed model -/

/-- **On scanned tokens the closed model answers exactly when the parser model answers.** -/
theorem formatTokensFull_answers_iff (cfg : Config) (alnum : Bytes → Bool) (raw : List RawTok) :
    (∃ out, formatTokensFull cfg alnum raw = some out) ↔ ∃ po, parseAndConsolidate raw = some po := by
  unfold formatTokensFull
  cases hpo : parseAndConsolidate raw with
  | none => simp
  | some po =>
    simp only [Option.some.injEq, exists_eq', iff_true]
    generalize hO : ({ parser := fun _ => po, wrap := fun _ _ ft => ft, alnum := alnum } : Oracles) = O
    have hL : LinesOk (preWrap O raw).2.1 (preWrap O raw).2.2.length := by
      apply preWrap_linesOk
      subst hO
      exact parse_lines_ok raw po hpo
    rcases hpw : preWrap O raw with ⟨m, lines, ft1⟩
    rw [hpw] at hL
    simp only at hL ⊢
    obtain ⟨r, hr⟩ := wrapStageFull_total cfg lines ft1 hL
    rw [hr]
    exact ⟨_, rfl⟩

/-- **The closed model of the whole formatter answers exactly when its parser stage answers**: for every
    configuration, every `alnum` and every input, `formatFull` returns an output if and only if the parser model
    (with the three consolidators) returns lines for the scanned tokens.  The scanner always answers; ignore marks,
    voiding, token rules and the reconstructor are total; the wrapper stage (search included) answers because the
    parser's lines are well formed.  So the only `none` of `formatFull` is the parser model's `none` (a panic site
    of the real parser, or the model's fuel running out). -/
theorem formatFull_answers_iff_parser_answers (cfg : Config) (alnum : Bytes → Bool) (s : Bytes) :
    (∃ out, formatFull cfg alnum s = some out) ↔
      ∃ raw po, lex s = some raw ∧ parseAndConsolidate raw = some po := by
  unfold formatFull
  cases hlex : lex s with
  | none => simp
  | some raw =>
    simp only [Option.some.injEq, exists_and_left, exists_eq_left']
    exact formatTokensFull_answers_iff cfg alnum raw

/-- **The closed model gives no answer exactly when the parser model gives none on the scanned tokens** (the scanner
    itself always returns tokens). -/
theorem formatFull_none_iff (cfg : Config) (alnum : Bytes → Bool) (s : Bytes) :
    formatFull cfg alnum s = none ↔ ∃ raw, lex s = some raw ∧ parseAndConsolidate raw = none := by
  obtain ⟨raw, hraw⟩ : ∃ raw, lex s = some raw := lexWith_total false s
  have hiff := formatFull_answers_iff_parser_answers cfg alnum s
  constructor
  · intro hn
    refine ⟨raw, hraw, ?_⟩
    cases hpo : parseAndConsolidate raw with
    | none => rfl
    | some po =>
      obtain ⟨out, hout⟩ := hiff.2 ⟨raw, po, hraw, hpo⟩
      rw [hn] at hout; cases hout
  · intro ⟨raw', hraw', hn⟩
    cases hf : formatFull cfg alnum s with
    | none => rfl
    | some out =>
      obtain ⟨raw2, po, h1, h2⟩ := hiff.1 ⟨out, hf⟩
      rw [hraw'] at h1; cases h1
      rw [hn] at h2; cases h2

end Pasfmt
