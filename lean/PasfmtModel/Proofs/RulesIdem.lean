/-
  The line-comment rule is idempotent: applied to its own result it does not call `set_content`
  again (for every comment text and every behaviour of the Unicode-alphanumeric test).
-/
import PasfmtModel.Proofs.RulesSim

namespace Pasfmt

/-! ### `trim_ascii_end` algebra -/

theorem dropWhile_idem (p : UInt8 → Bool) (l : Bytes) : (l.dropWhile p).dropWhile p = l.dropWhile p := by
  induction l with
  | nil => rfl
  | cons a r ih =>
    rw [List.dropWhile_cons]
    split
    · exact ih
    · rename_i h
      rw [List.dropWhile_cons]; simp [h]

theorem trimAsciiEnd_idem' (y : Bytes) : trimAsciiEnd (trimAsciiEnd y) = trimAsciiEnd y := by
  unfold trimAsciiEnd
  rw [List.reverse_reverse, dropWhile_idem]

/-- trimming `x ++ y` when something of `y` survives -/
theorem trimAsciiEnd_append_ne (x y : Bytes) (h : trimAsciiEnd y ≠ []) :
    trimAsciiEnd (x ++ y) = x ++ trimAsciiEnd y := by
  unfold trimAsciiEnd at *
  rw [List.reverse_append, List.dropWhile_append]
  have : (List.dropWhile isAsciiWs y.reverse).isEmpty = false := by
    cases hd : List.dropWhile isAsciiWs y.reverse with
    | nil => rw [hd] at h; simp at h
    | cons _ _ => rfl
  rw [this]
  simp

/-- trimming `x ++ y` when `y` is all blanks -/
theorem trimAsciiEnd_append_nil (x y : Bytes) (h : trimAsciiEnd y = []) :
    trimAsciiEnd (x ++ y) = trimAsciiEnd x := by
  unfold trimAsciiEnd at *
  rw [List.reverse_append, List.dropWhile_append]
  have : (List.dropWhile isAsciiWs y.reverse).isEmpty = true := by
    have := congrArg List.reverse h
    simp at this
    rw [this]; rfl
  rw [this]
  simp

theorem trimAsciiEnd_prefix (y : Bytes) : trimAsciiEnd y <+: y := by
  obtain ⟨tail, hdec, _⟩ := trimAsciiEnd_decomp y
  exact ⟨tail, hdec.symm⟩

theorem trimAsciiEnd_length_ne (y : Bytes) : ((trimAsciiEnd y).length != y.length) = true ↔ trimAsciiEnd y ≠ y := by
  constructor
  · intro h e; rw [e] at h; simp at h
  · intro h
    simp only [bne_iff_ne, ne_eq]
    intro hl
    exact h ((trimAsciiEnd_prefix y).eq_of_length hl)

/-- a text whose last byte is not a blank is not trimmed -/
theorem trimAsciiEnd_of_last (x : Bytes) (b : UInt8) (hb : isAsciiWs b = false) :
    trimAsciiEnd (x ++ [b]) = x ++ [b] := by
  unfold trimAsciiEnd
  simp [hb]

/-- the trimmed text is empty or ends in a non-blank -/
theorem trimAsciiEnd_last (y : Bytes) : trimAsciiEnd y = [] ∨
    ∃ x b, trimAsciiEnd y = x ++ [b] ∧ isAsciiWs b = false := by
  unfold trimAsciiEnd
  have h := List.head?_dropWhile_not isAsciiWs y.reverse
  cases hd : List.dropWhile isAsciiWs y.reverse with
  | nil => left; rfl
  | cons b t =>
    right
    rw [hd] at h
    simp at h
    exact ⟨t.reverse, b, by simp, h⟩

/-- trimming keeps the first byte when something survives -/
theorem trimAsciiEnd_head (y : Bytes) (h : trimAsciiEnd y ≠ []) : (trimAsciiEnd y).head? = y.head? := by
  obtain ⟨t, ht⟩ := trimAsciiEnd_prefix y
  cases hy : trimAsciiEnd y with
  | nil => exact absurd hy h
  | cons a r => rw [hy] at ht; rw [← ht]; rfl

/-- the separator test looks at the trimmed comment only -/
theorem commentIsSeparator_trim (U : Bytes → Bool) (comment : Bytes) :
    commentIsSeparator U (trimAsciiEnd comment) = commentIsSeparator U comment := by
  unfold commentIsSeparator
  rw [trimAsciiEnd_idem']


/-! ### the line-comment rule -/

def IsSlashes (pre comment : Bytes) : Prop :=
  pre = [0x2F, 0x2F, 0x2F] ∨ (pre = [0x2F, 0x2F] ∧ comment.head? ≠ some 0x2F)

theorem lineCommentParts_inv (c pre comment : Bytes) (h : lineCommentParts c = some (pre, comment)) :
    c = pre ++ comment ∧ IsSlashes pre comment := by
  unfold lineCommentParts at h
  split at h
  · simp at h; rw [← h.1, ← h.2]; exact ⟨rfl, Or.inl rfl⟩
  · rename_i c0 hne
    simp at h; rw [← h.1, ← h.2]
    refine ⟨rfl, Or.inr ⟨rfl, ?_⟩⟩
    intro hh
    cases c0 with
    | nil => simp at hh
    | cons a t => simp at hh; subst hh; exact hne t rfl
  · simp at h

theorem lineCommentParts_of (pre comment : Bytes) (h : IsSlashes pre comment) :
    lineCommentParts (pre ++ comment) = some (pre, comment) := by
  rcases h with rfl | ⟨rfl, hh⟩
  · rfl
  · cases comment with
    | nil => rfl
    | cons a t =>
      have : a ≠ 0x2F := by intro e; subst e; simp at hh
      unfold lineCommentParts
      simp only [List.cons_append, List.nil_append]
      split
      · rename_i heq; simp at heq; exact absurd heq.1 this
      · rename_i heq; simp at heq; rw [heq]
      · rename_i h1 h2; exact absurd rfl (h2 _)

theorem trim_slashes (pre comment : Bytes) (h : IsSlashes pre comment) : trimAsciiEnd pre = pre := by
  rcases h with rfl | ⟨rfl, _⟩
  · exact trimAsciiEnd_of_last [0x2F, 0x2F] 0x2F (by decide)
  · exact trimAsciiEnd_of_last [0x2F] 0x2F (by decide)

theorem trim_ne_nil_of_head (b : UInt8) (r : Bytes) (hb : isAsciiWs b = false) : trimAsciiEnd (b :: r) ≠ [] := by
  intro h
  obtain ⟨tail, hdec, htail⟩ := trimAsciiEnd_decomp (b :: r)
  rw [h] at hdec
  simp only [List.nil_append] at hdec
  have := htail b (by rw [← hdec]; simp)
  rw [this] at hb; simp at hb

/-- **The line-comment rule is idempotent**: its result is left alone by a second application. -/
theorem formatLineComment_idem (U : Bytes → Bool) (c c' : Bytes) (h : formatLineComment U c = some c') :
    formatLineComment U c' = none := by
  unfold formatLineComment at h
  cases hparts : lineCommentParts c with
  | none => rw [hparts] at h; simp at h
  | some pc =>
    obtain ⟨pre, comment⟩ := pc
    rw [hparts] at h
    simp only [] at h
    obtain ⟨hc, hsl⟩ := lineCommentParts_inv _ _ _ hparts
    have hpre := trim_slashes pre comment hsl
    -- it suffices to exhibit the shape `c' = pre ++ k` with `k` trimmed, not re-spaced
    have finish : ∀ k : Bytes, c' = pre ++ k → IsSlashes pre k → lineCommentSpaced U pre k = none →
        trimAsciiEnd (pre ++ k) = pre ++ k → formatLineComment U c' = none := by
      intro k hk hs hsp htr
      unfold formatLineComment
      rw [hk, lineCommentParts_of pre k hs]
      simp only [hsp]
      rw [htr]; simp
    cases hnew : lineCommentSpaced U pre comment with
    | some new =>
      rw [hnew] at h
      -- the rule inserted a space: the comment starts with a non-blank
      unfold lineCommentSpaced at hnew
      cases comment with
      | nil => simp at hnew
      | cons b rest =>
        simp only at hnew
        split at hnew
        · rename_i hcond
          simp only [Bool.and_eq_true, Bool.not_eq_true'] at hcond
          simp only [Option.some.injEq] at hnew
          have htc := trim_ne_nil_of_head b rest hcond.1
          have hshape : c' = pre ++ (0x20 :: trimAsciiEnd (b :: rest)) := by
            split at h
            · simp only [Option.getD_some, Option.some.injEq] at h
              rw [← h, ← hnew, trimAsciiEnd_append_ne (pre ++ [0x20]) (b :: rest) htc]; simp
            · rename_i hlen
              simp only [Option.some.injEq] at h
              have hno : trimAsciiEnd c = c := by
                by_cases e : trimAsciiEnd c = c
                · exact e
                · exact absurd ((trimAsciiEnd_length_ne c).2 e) hlen
              rw [hc, trimAsciiEnd_append_ne _ _ htc] at hno
              have := List.append_cancel_left hno
              rw [← h, ← hnew, this]; simp
          apply finish _ hshape
          · rcases hsl with h1 | ⟨h1, _⟩
            · exact Or.inl h1
            · exact Or.inr ⟨h1, by simp⟩
          · simp [lineCommentSpaced, isAsciiWs]
          · have : trimAsciiEnd (0x20 :: trimAsciiEnd (b :: rest)) = 0x20 :: trimAsciiEnd (b :: rest) := by
              have := trimAsciiEnd_append_ne [0x20] (trimAsciiEnd (b :: rest)) (by rw [trimAsciiEnd_idem']; exact htc)
              rw [trimAsciiEnd_idem'] at this
              simpa using this
            rw [trimAsciiEnd_append_ne _ _ (by rw [this]; simp), this]
        · simp at hnew
    | none =>
      rw [hnew] at h
      split at h
      · simp only [Option.getD_none, Option.some.injEq] at h
        by_cases htc : trimAsciiEnd comment = []
        · -- nothing but blanks after the slashes
          have hshape : c' = pre ++ [] := by
            rw [← h, hc, trimAsciiEnd_append_nil _ _ htc, hpre]; simp
          apply finish [] hshape
          · rcases hsl with h1 | ⟨h1, _⟩
            · exact Or.inl h1
            · exact Or.inr ⟨h1, by simp⟩
          · simp [lineCommentSpaced]
          · simpa using hpre
        · have hshape : c' = pre ++ trimAsciiEnd comment := by
            rw [← h, hc, trimAsciiEnd_append_ne _ _ htc]
          have hhead := trimAsciiEnd_head comment htc
          apply finish _ hshape
          · rcases hsl with h1 | ⟨h1, h2⟩
            · exact Or.inl h1
            · exact Or.inr ⟨h1, by rw [hhead]; exact h2⟩
          · -- same first byte, same separator verdict
            unfold lineCommentSpaced at hnew ⊢
            cases hcm : comment with
            | nil => rw [hcm] at htc; simp [trimAsciiEnd] at htc
            | cons b rest =>
              rw [hcm] at hnew hhead htc
              cases htr : trimAsciiEnd (b :: rest) with
              | nil => exact absurd htr htc
              | cons b' rest' =>
                rw [htr] at hhead
                simp only [List.head?_cons, Option.some.injEq] at hhead
                subst hhead
                simp only at hnew ⊢
                have hsep : commentIsSeparator U (b' :: rest') = commentIsSeparator U (b' :: rest) := by
                  rw [← htr]; exact commentIsSeparator_trim U _
                rw [hsep]
                split at hnew
                · simp at hnew
                · rename_i hcond; simp [hcond]
          · rw [trimAsciiEnd_append_ne _ _ (by rw [trimAsciiEnd_idem']; exact htc), trimAsciiEnd_idem']
      · simp at h


/-! ### the compiler-directive rule -/

deriving instance DecidableEq for DirStep

/-- the scanning step does not look at letter case -/
theorem dirStep_upper (st : DirState) (sw : Bool) (b : UInt8) : dirStep st sw (toUpperByte b) = dirStep st sw b := by
  have hall : ∀ n : Fin 256,
      ([DirState.before, .afterPlusMinus, .afterDigit, .afterComma, .afterLetter, .afterWord].all fun st =>
        [true, false].all fun sw =>
          decide (dirStep st sw (toUpperByte (UInt8.ofNat n.val)) = dirStep st sw (UInt8.ofNat n.val))) = true := by
    decide +kernel
  have := hall ⟨b.toNat, b.toNat_lt⟩
  simp only [UInt8.ofNat_toNat, List.all_cons, List.all_nil, Bool.and_true, Bool.and_eq_true, decide_eq_true_eq] at this
  cases st <;> cases sw <;> simp_all

theorem dirScan_upper (st : DirState) (sw : Bool) (l : Bytes) (n : Nat) (h : dirScan st sw l = some n) :
    dirScan st sw (asciiUpper (l.take n) ++ l.drop n) = some n := by
  induction l generalizing st sw n with
  | nil =>
    simp only [dirScan, Option.some.injEq] at h
    subst h; simp [asciiUpper, dirScan]
  | cons b r ih =>
    unfold dirScan at h
    cases hs : dirStep st sw b with
    | next st' sw' =>
      rw [hs] at h
      simp only [Option.map_eq_some_iff] at h
      obtain ⟨m, hm, rfl⟩ := h
      have := ih st' sw' m hm
      simp only [List.take_succ_cons, List.drop_succ_cons, asciiUpper, List.map_cons, List.cons_append]
      unfold dirScan
      rw [dirStep_upper, hs]
      simp only [asciiUpper] at this
      simp only []
      rw [this]; rfl
    | ret => rw [hs] at h; simp at h
    | brk =>
      rw [hs] at h
      simp only [Option.some.injEq] at h
      subst h
      simp only [List.take_zero, List.drop_zero, asciiUpper, List.map_nil, List.nil_append]
      unfold dirScan
      rw [hs]

theorem asciiUpper_no_lower (c : Bytes) : (asciiUpper c).any isLower = false := by
  unfold asciiUpper
  rw [List.any_map, List.any_eq_false]
  intro b _
  have hall : ∀ n : Fin 256, isLower (toUpperByte (UInt8.ofNat n.val)) = false := by decide +kernel
  have := hall ⟨b.toNat, b.toNat_lt⟩
  simpa using this

theorem dirScan_le (st : DirState) (sw : Bool) (l : Bytes) (n : Nat) (h : dirScan st sw l = some n) : n ≤ l.length := by
  induction l generalizing st sw n with
  | nil => simp only [dirScan, Option.some.injEq] at h; subst h; simp
  | cons b r ih =>
    unfold dirScan at h
    split at h
    · simp only [Option.map_eq_some_iff] at h
      obtain ⟨m, hm, rfl⟩ := h
      have := ih _ _ m hm
      simp only [List.length_cons]; omega
    · simp at h
    · simp only [Option.some.injEq] at h; subst h; simp

/-- **The compiler-directive rule is idempotent.** -/
theorem formatCompilerDirective_idem (c c' : Bytes) (h : formatCompilerDirective c = some c') :
    formatCompilerDirective c' = none := by
  unfold formatCompilerDirective at h
  simp only at h
  split at h
  · simp at h
  · rename_i pre stripped hs
    split at h
    · simp at h
    · rename_i n hn
      split at h
      · simp only [Option.some.injEq] at h
        have hle := dirScan_le _ _ _ _ hn
        have hscan := dirScan_upper _ _ _ _ hn
        have hpre : (pre = [0x7B, 0x24]) ∨ (pre = [0x28, 0x2A, 0x24]) := by
          split at hs
          · simp at hs; exact Or.inl hs.1.symm
          · simp at hs; exact Or.inr hs.1.symm
          · simp at hs
        have hl : (asciiUpper (stripped.take n)).length = n := by
          simp only [asciiUpper, List.length_map, List.length_take]; omega
        have htake : (asciiUpper (stripped.take n) ++ stripped.drop n).take n = asciiUpper (stripped.take n) := by
          rw [List.take_append_of_le_length (by omega), List.take_of_length_le (by omega)]
        subst h
        unfold formatCompilerDirective
        rcases hpre with rfl | rfl
        · simp only [List.cons_append, List.nil_append]
          rw [hscan]
          simp only [htake, asciiUpper_no_lower]
          simp
        · simp only [List.cons_append, List.nil_append]
          rw [hscan]
          simp only [htake, asciiUpper_no_lower]
          simp
      · simp at h


/-! ### the comment formatter as a whole -/

/-- the content rule that applies to a token kind -/
def contentRule (U : Bytes → Bool) : Kind → Option (Bytes → Option Bytes)
  | .tCompilerDirective => some formatCompilerDirective
  | .tConditionalDirective _ => some formatCompilerDirective
  | .tComment .cInlineLine => some (formatLineComment U)
  | .tComment .cIndividualLine => some (formatLineComment U)
  | _ => none

def applyRule (f : Bytes → Option Bytes) (t : FTok) : FTok :=
  match f t.tok.content with
  | some c => t.setContent c
  | none => t

theorem commentFormatTok_eq (U : Bytes → Bool) (t : FTok) :
    commentFormatTok U t = match contentRule U t.tok.kind with
      | some f => applyRule f t
      | none => t := by
  unfold commentFormatTok
  cases hk : t.tok.kind with
  | tComment ck => cases ck <;> (simp only [contentRule, applyRule]; try rfl)
  | tCompilerDirective => simp only [contentRule, applyRule]; rfl
  | tConditionalDirective c => simp only [contentRule, applyRule]; rfl
  | _ => simp only [contentRule]

theorem applyRule_kind (f : Bytes → Option Bytes) (t : FTok) : (applyRule f t).tok.kind = t.tok.kind := by
  unfold applyRule
  split
  · unfold FTok.setContent; split <;> rfl
  · rfl

theorem applyRule_idem (f : Bytes → Option Bytes) (hf : ∀ c c', f c = some c' → f c' = none) (t : FTok) :
    applyRule f (applyRule f t) = applyRule f t := by
  by_cases hig : t.fmt.ignored = true
  · have : applyRule f t = t := by
      unfold applyRule FTok.setContent
      split <;> simp [hig]
    rw [this, this]
  · cases h : f t.tok.content with
    | none =>
      have : applyRule f t = t := by unfold applyRule; rw [h]
      rw [this, this]
    | some c =>
      have e : applyRule f t = { t with tok := { t.tok with ws := [], content := c } } := by
        unfold applyRule FTok.setContent; rw [h]; simp [hig]
      rw [e]
      unfold applyRule
      simp only [hf _ _ h]

theorem contentRule_idem (U : Bytes → Bool) (k : Kind) (f : Bytes → Option Bytes) (h : contentRule U k = some f) :
    ∀ c c', f c = some c' → f c' = none := by
  cases k with
  | tComment ck =>
    cases ck <;> simp only [contentRule, Option.some.injEq] at h
    all_goals first
      | (subst h; exact formatLineComment_idem U)
      | exact absurd h (by simp)
  | tCompilerDirective =>
    simp only [contentRule, Option.some.injEq] at h; subst h; exact formatCompilerDirective_idem
  | tConditionalDirective c =>
    simp only [contentRule, Option.some.injEq] at h; subst h; exact formatCompilerDirective_idem
  | _ => simp [contentRule] at h

theorem commentFormatTok_idem (U : Bytes → Bool) (t : FTok) :
    commentFormatTok U (commentFormatTok U t) = commentFormatTok U t := by
  rw [commentFormatTok_eq U t]
  cases hr : contentRule U t.tok.kind with
  | none => simp only; rw [commentFormatTok_eq, hr]
  | some f =>
    simp only
    rw [commentFormatTok_eq, applyRule_kind, hr]
    simp only
    exact applyRule_idem f (contentRule_idem U _ f hr) t

theorem commentFormatter_idem (U : Bytes → Bool) (ft : FT) :
    commentFormatter U (commentFormatter U ft) = commentFormatter U ft := by
  unfold commentFormatter
  rw [List.map_map]
  apply List.map_congr_left
  intro t _
  exact commentFormatTok_idem U t

end Pasfmt
